(* C18Check.v — executable comparison of the Tape model with observations of the
   implementation (correspondence) and evaluation of the C18 contracts on those
   observations (direct oracle).  Used by generated cases files; no proofs. *)
From GE Require Import Base Tape.
Open Scope Z_scope.

Inductive pyres (A : Type) := POk (a : A) | PErr (e : err).
Arguments POk {A} a.
Arguments PErr {A} e.

Definition pyres_eqb {A} (eqb : A -> A -> bool) (m : res A) (o : pyres A) : bool :=
  match m, o with
  | Ok a, POk b => eqb a b
  | Err e, PErr f => err_eqb e f
  | _, _ => false
  end.

Definition drop_state {A} (r : res (A * src)) : res A :=
  match r with Ok (a, _) => Ok a | Err e => Err e end.

Inductive c18case :=
| KRandints (s : src) (reqs : list (Z * Z)) (outs : list (pyres Z))   (* a stream of requests on one source *)
| KChoice (s : src) (n : nat) (out : pyres Z)                         (* choice over [0 .. n-1] *)
| KChoiceW (s : src) (ws : list Q) (out : pyres Z)                    (* choice_weighted over [0 .. |ws|-1] *)
| KShuffle (s : src) (l : list Z) (out : pyres (list Z))
| KPop (s : src) (l : list Z) (out : pyres (Z * list Z))
| KBool (s : src) (out : pyres bool)
| KBaseInt (s : src) (lo hi : Z) (out : pyres Z)
| KDsgeInt (gene lo hi : Z) (out : pyres Z)
| KDsgeBool (gene : Z) (out : pyres bool)
| KFloat (s : src) (lo hi : Q) (out : pyres Q).

Fixpoint zrange (n : nat) : list Z :=
  match n with O => [] | S m => zrange m ++ [Z.of_nat m] end.

(* run a stream of randint requests; errors do not advance the state (the Python object
   may have advanced its index, but every later request on a failed source is not compared) *)
Fixpoint run_randints (s : src) (reqs : list (Z * Z)) : list (res Z) :=
  match reqs with
  | [] => []
  | (lo, hi) :: t =>
      match randint s lo hi with
      | Ok (v, s') => Ok v :: run_randints s' t
      | Err e => [Err e]          (* stop at the first error *)
      end
  end.

Fixpoint outs_eqb (ms : list (res Z)) (os : list (pyres Z)) : bool :=
  match ms, os with
  | [], [] => true
  | m :: mt, o :: ot => pyres_eqb Z.eqb m o && outs_eqb mt ot
  | _, _ => false
  end.

Definition Qabs' (q : Q) : Q := if Qle_bool 0 q then q else (- q)%Q.
Definition Qmax' (a b : Q) : Q := if Qle_bool a b then b else a.
Definition tol (a b : Q) : Q := ((1 # 1000000000) * Qmax' 1 (Qmax' (Qabs' a) (Qabs' b)))%Q.
Definition Qclose (a b : Q) : bool := Qle_bool (Qabs' (a - b)) (tol a b).

Definition in_range (lo hi : Z) (o : pyres Z) : bool :=
  match o with POk v => (lo <=? v) && (v <=? hi) | PErr _ => true end.

Fixpoint ranges_ok (reqs : list (Z * Z)) (outs : list (pyres Z)) : bool :=
  match reqs, outs with
  | (lo, hi) :: t, o :: ot => (if lo <=? hi then in_range lo hi o else true) && ranges_ok t ot
  | _, _ => true
  end.

Fixpoint count_occ_Z (l : list Z) (x : Z) : nat :=
  match l with [] => O | y :: t => (if y =? x then 1 else 0) + count_occ_Z t x end.
Definition perm_b (l1 l2 : list Z) : bool :=
  Nat.eqb (length l1) (length l2) && forallb (fun x => Nat.eqb (count_occ_Z l1 x) (count_occ_Z l2 x)) l1.

Fixpoint nthQ (l : list Q) (n : nat) : option Q :=
  match l, n with [], _ => None | x :: _, O => Some x | _ :: t, S m => nthQ t m end.

(* (correspondence ok, contract holds on the implementation's observation) *)
Definition check (c : c18case) : bool * bool :=
  match c with
  | KRandints s reqs outs =>
      (outs_eqb (run_randints s reqs) outs, ranges_ok reqs outs)
  | KChoice s n out =>
      (pyres_eqb Z.eqb (drop_state (choice s (zrange n))) out,
       match out with POk v => (0 <=? v) && (v <? Z.of_nat n) | PErr _ => true end)
  | KChoiceW s ws out =>
      (pyres_eqb Z.eqb (drop_state (choice_weighted s (zrange (length ws)) ws)) out,
       match out with
       | POk v =>
           (0 <=? v) && (v <? zlen ws) &&
           (* never a zero-weight option while a positive one is offered *)
           (match nthQ ws (Z.to_nat v) with
            | Some w => negb (Qeq_bool w 0) || forallb (fun x => Qle_bool x 0) ws
            | None => false
            end)
       | PErr _ => true
       end)
  | KShuffle s l out =>
      (pyres_eqb (list_eqb Z.eqb) (drop_state (shuffle s l)) out,
       match out with POk l' => perm_b l l' | PErr _ => true end)
  | KPop s l out =>
      (pyres_eqb (pair_eqb Z.eqb (list_eqb Z.eqb))
         (match pop_random s l with Ok (x, l', _) => Ok (x, l') | Err e => Err e end) out,
       match out with POk (x, l') => perm_b l (x :: l') | PErr _ => true end)
  | KBool s out =>
      (pyres_eqb Bool.eqb (drop_state (random_bool s)) out, true)
  | KBaseInt s lo hi out =>
      (pyres_eqb Z.eqb (drop_state (base_random_int s lo hi)) out,
       if lo <=? hi then in_range lo hi out else true)
  | KDsgeInt gene lo hi out =>
      (pyres_eqb Z.eqb (dsge_random_int gene lo hi) out,
       if lo <=? hi then in_range lo hi out && (match out with PErr _ => false | _ => true end) else true)
  | KDsgeBool gene out =>
      (pyres_eqb Bool.eqb (Ok (dsge_random_bool gene)) out,
       match out with POk _ => true | PErr _ => false end)   (* a real bool, never the raw gene *)
  | KFloat s lo hi out =>
      (match drop_state (random_float s lo hi), out with
       | Ok a, POk b => Qclose a b
       | Err e, PErr f => err_eqb e f
       | _, _ => false
       end,
       match out with
       | POk v => if Qle_bool lo hi then Qle_bool (lo - tol lo v) v && Qle_bool v (hi + tol hi v) else true
       | PErr _ => true
       end)
  end.

(* result of a batch: indices failing correspondence, indices failing the oracle *)
Definition run (cases : list c18case) : list N * list N :=
  (failing (fun c => fst (check c)) cases, failing (fun c => snd (check c)) cases).
