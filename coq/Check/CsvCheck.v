(* CsvCheck.v — comparison of the Csv model with the bytes the implementation leaves on disk. *)
From GE Require Import Base Search Csv C18Check SearchCheck.
Open Scope Z_scope.

Definition col_eqb (a b : col) : bool :=
  match a, b with
  | ColTime, ColTime | ColPheno, ColPheno => true
  | ColFit x, ColFit y | ColExtra x, ColExtra y => Nat.eqb x y
  | _, _ => false
  end.
Definition cell_eqb (a b : cell) : bool :=
  match a, b with
  | CTime, CTime | CFail, CFail => true
  | CPheno x, CPheno y => N.eqb x y
  | CFit x, CFit y => Qeq_bool x y
  | CUser a1 x, CUser b1 y => Nat.eqb a1 b1 && N.eqb x y
  | _, _ => false
  end.
Definition row_eqb (a b : row) : bool :=
  match a, b with
  | RHeader x, RHeader y => list_eqb col_eqb x y
  | RRow x, RRow y => list_eqb cell_eqb x y
  | _, _ => false
  end.

(* observed: the parsed file after construction and after every register call *)
Inductive c20case :=
| K20 (t : table) (cols : list col) (ob : bool) (regs : list (N * bool)) (snaps : list (list row)).

Fixpoint prefixes {A} (l : list A) : list (list A) :=
  match l with [] => [[]] | x :: t => [] :: map (cons x) (prefixes t) end.

Fixpoint is_prefix (a b : list row) : bool :=
  match a, b with
  | [], _ => true
  | x :: xt, y :: yt => row_eqb x y && is_prefix xt yt
  | _, _ => false
  end.

Fixpoint chain_prefix (snaps : list (list row)) : bool :=
  match snaps with
  | a :: ((b :: _) as t) => is_prefix a b && chain_prefix t
  | _ => true
  end.

Fixpoint last_err {A} (l : list A) : option A :=
  match l with [] => None | x :: t => match t with [] => Some x | _ => last_err t end end.

(* the contract on the observed snapshots alone: valid prefixes; rows are the recorded individuals;
   each fitness cell is that individual's component; each extra cell is its own callback *)
Definition expected_row (t : table) (cols : list col) (i : N) : row := row_of (ff_of t) cols i.

Definition oracle20 (t : table) (cols : list col) (ob : bool) (regs : list (N * bool)) (snaps : list (list row)) : bool :=
  Nat.eqb (length snaps) (S (length regs)) && chain_prefix snaps &&
  match last_err snaps with
  | None => false
  | Some final =>
      list_eqb row_eqb final
        (RHeader cols :: map (expected_row t cols) (map fst (filter (fun r => negb ob || snd r) regs)))
  end.

Definition check20 (c : c20case) : bool * bool :=
  match c with
  | K20 t cols ob regs snaps =>
      (list_eqb (list_eqb row_eqb)
         (map (fun pre => disk (csv_run (ff_of t) cols ob pre)) (prefixes regs)) snaps,
       oracle20 t cols ob regs snaps)
  end.

Definition run_c20 (cases : list c20case) : list N * list N :=
  (failing (fun c => fst (check20 c)) cases, failing (fun c => snd (check20 c)) cases).

(* "only strict improvements": when the recorder sits behind a single-objective tracker, the individual it is told is a new best is
   exactly the first one or one strictly better (in the declared direction) than every earlier one - computed here from the fitness
   table alone *)
Inductive c20fcase := K20F (t : table) (mn : bool) (regs : list (N * bool)).
Fixpoint flags_ok (mn : bool) (ff : N -> list Q) (best : option Q) (regs : list (N * bool)) : bool :=
  match regs with
  | [] => true
  | (i, f) :: r =>
      match ff i with
      | c :: _ =>
          let key := if mn then (- c)%Q else c in
          let isb := match best with None => true | Some b => negb (Qle_bool key b) end in
          Bool.eqb f isb && flags_ok mn ff (if isb then Some key else best) r
      | [] => false
      end
  end.
Definition run_c20f (cases : list c20fcase) : list N * list N :=
  ([], failing (fun c => match c with K20F t mn regs => flags_ok mn (ff_of t) None regs end) cases).
