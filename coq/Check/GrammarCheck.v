(* GrammarCheck.v — comparison of the Grammar model with observed Grammar objects, and the C19
   (weights) contract evaluated on the observations.  No proofs. *)
From GE Require Import Base Grammar C18Check.
Open Scope Z_scope.

Record gobs := mkGO {
  o_nodes : list sym;
  o_alts : list (sym * list sym);
  o_term : list sym;
  o_nonterm : list sym;
  o_dist : list (sym * Z);
  o_rec : list sym;
  o_weights : list (sym * Q);
  o_min : Z
}.

Definition set_eqb (a b : list sym) : bool :=
  forallb (fun x => mem_sym x b) a && forallb (fun x => mem_sym x a) b.

Definition alts_eqb (m : list (nat * list nat)) (o : list (sym * list sym)) : bool :=
  list_eqb (fun x y => sym_eqb (fst x) (fst y) && list_eqb sym_eqb (snd x) (snd y))
           (map (fun x => (SC (fst x), map SC (snd x))) m) o.

Definition Qabs1 (q : Q) : Q := if Qle_bool 0 q then q else (- q)%Q.
Definition Qnear (a b : Q) : bool := Qle_bool (Qabs1 (a - b)) (1 # 1000000000).

Definition gobs_match (g : grammar) (o : gobs) : bool :=
  let r := g_reg g in
  set_eqb (r_nodes r) (o_nodes o) &&
  alts_eqb (r_alts r) (o_alts o) &&
  set_eqb (r_term r) (o_term o) && set_eqb (r_nonterm r) (o_nonterm o) &&
  Nat.eqb (length (o_dist o)) (length (r_nodes r)) &&
  forallb (fun kv => match dget (g_dist g) (fst kv) with Some v => v =? snd kv | None => false end) (o_dist o) &&
  set_eqb (g_rec g) (o_rec o) &&
  Nat.eqb (length (o_weights o)) (length (r_nodes r)) &&
  forallb (fun kv => Qnear (wget (weights_of g) (fst kv)) (snd kv)) (o_weights o) &&
  (match min_tree_depth g with Ok v => v =? o_min o | Err _ => false end).

Inductive gcase :=
| KGram (d : decl) (obs : list (pyres gobs)).

(* repeated extraction: the classes keep the weights the previous extraction stored on them *)
Fixpoint run_extractions (d : decl) (obs : list (pyres gobs)) : bool :=
  match obs with
  | [] => true
  | o :: rest =>
      match extract d id_order, o with
      | Ok g, POk oo => gobs_match g oo && run_extractions (g_decl g) rest
      | Err e, PErr e' => err_eqb e e'
      | _, _ => false
      end
  end.

(* ---- C19 on the observations: declared weights come from the decl ---- *)
Definition owget (w : list (sym * Q)) (s : sym) : Q :=
  match find (fun kv => sym_eqb (fst kv) s) w with Some kv => snd kv | None => 1%Q end.

Definition any_weight_registered (d : decl) (o : gobs) : bool :=
  existsb (fun c => match get_cls d c with Some k => match c_weight k with Some _ => true | None => false end | None => false end) (d_considered d) ||
  existsb (fun s => match s with
                    | SC c => match get_cls d c with Some k => match c_weight k with Some _ => true | None => false end | None => false end
                    | SB _ => false end) (o_nodes o).

Definition rule_ok (d : decl) (o : gobs) (rule : sym * list sym) : bool :=
  let prods := snd rule in
  let ws := map (owget (o_weights o)) prods in
  let ds := map (decl_weight d) prods in
  forallb (fun w => Qle_bool 0 w) ws &&
  Qnear (qsum ws) 1 &&
  (* declared ratios: w_i * D_j = w_j * D_i *)
  forallb (fun wi => forallb (fun wj => Qnear (fst wi * snd wj) (fst wj * snd wi)) (combine ws ds)) (combine ws ds).

Definition oracle19_first (d : decl) (o : gobs) : bool :=
  if any_weight_registered d o then forallb (rule_ok d o) (o_alts o) else true.

Definition weights_same (a b : gobs) : bool :=
  Nat.eqb (length (o_weights a)) (length (o_weights b)) &&
  forallb (fun kv => Qnear (owget (o_weights b) (fst kv)) (snd kv)) (o_weights a).

Fixpoint oracle19_rest (first : gobs) (obs : list (pyres gobs)) : bool :=
  match obs with
  | [] => true
  | POk o :: rest => weights_same first o && oracle19_rest first rest
  | PErr _ :: _ => false                      (* extracting again must keep working *)
  end.

Definition check19 (c : gcase) : bool * bool :=
  match c with
  | KGram d obs =>
      (run_extractions d obs,
       match obs with
       | POk o :: rest => oracle19_first d o && oracle19_rest o rest
       | _ => true
       end)
  end.

Definition run_c19 (cases : list gcase) : list N * list N :=
  (failing (fun c => fst (check19 c)) cases, failing (fun c => snd (check19 c)) cases).

(* ================= C05: analysis exactness, evaluated on the observed Grammar objects ================= *)
(* independent specification, written from the property text (not from preprocess):
   - [deriv ne k]: some program of depth <= k is derivable; [ne]: lists count as non-empty
   - cycles of the "can contain" relation by iterated relational composition *)
Section Spec05.
Variable d : decl.
Variable o : gobs.

Definition oalts (a : sym) : list sym :=
  match find (fun kv => sym_eqb (fst kv) a) (o_alts o) with Some kv => snd kv | None => [] end.

Definition may_be_empty (t : ty) : bool :=
  match t with
  | TList _ => true
  | TAnn (TList _) (MListSize lo _ _) => lo <=? 0
  | _ => false
  end.

(* a value of type t exists whose nodes all come from [f] *)
Fixpoint tyd (ne : bool) (f : sym -> bool) (t : ty) : bool :=
  if negb ne && may_be_empty t then true else
  match t with
  | TBase b => true
  | TSym c => f (SC c)
  | TList t' | TAnn t' _ => tyd ne f t'
  | TTuple ts => forallb (tyd ne f) ts
  | TUnion ts => existsb (tyd ne f) ts
  end.

(* level sets: L k = the symbols from which a program of depth <= k is derivable *)
Definition base_syms : list sym := [SB BInt; SB BFloat; SB BStr; SB BBool].
Definition add_new (acc : list sym) (l : list sym) : list sym :=
  fold_left (fun a x => if mem_sym x a then a else a ++ [x]) l acc.
Fixpoint abs_close (n : nat) (cur : list sym) : list sym :=
  match n with
  | O => cur
  | S k => abs_close k (add_new cur (filter (fun s => is_abstract d s && existsb (fun a => mem_sym a cur) (oalts s)) (o_nodes o)))
  end.
Definition level_next (ne : bool) (cur : list sym) : list sym :=
  abs_close (length (o_nodes o))
    (add_new base_syms (filter (fun s => match s with
                                         | SC _ => negb (is_abstract d s) && forallb (tyd ne (fun x => mem_sym x cur)) (fields_of d s)
                                         | SB _ => false end) (o_nodes o))).
Fixpoint least_from (ne : bool) (s : sym) (k : nat) (cur : list sym) (n : nat) : Z :=
  match n with
  | O => INF
  | S n' => if mem_sym s cur then Z.of_nat k else least_from ne s (S k) (level_next ne cur) n'
  end.
Definition spec_min_depth (ne : bool) (s : sym) : Z := least_from ne s 0 base_syms (3 + length (o_nodes o)).

(* successors in the can-contain graph, from the declarations and the observed productions *)
Fixpoint ty_syms (t : ty) : list sym :=
  match t with
  | TBase b => [SB b]
  | TSym c => [SC c]
  | TList t' | TAnn t' _ => ty_syms t'
  | TTuple ts | TUnion ts => flat_map ty_syms ts
  end.
Definition osuccs (s : sym) : list sym :=
  if is_abstract d s then oalts s else flat_map ty_syms (fields_of d s).
Definition step_set (l : list sym) : list sym :=
  fold_left (fun a x => if mem_sym x a then a else a ++ [x]) (flat_map osuccs l) [].
Fixpoint closure (n : nat) (acc frontier : list sym) : list sym :=
  match n with
  | O => acc
  | S k => let nx := filter (fun x => negb (mem_sym x acc)) (step_set frontier) in
           match nx with [] => acc | _ => closure k (acc ++ nx) nx end
  end.
Definition spec_reach (s : sym) : list sym := closure (2 + length (o_nodes o)) [] [s].
Definition spec_recursive (s : sym) : bool := mem_sym s (spec_reach s).

Definition alts_exact_obs : bool :=
  forallb (fun kv => match fst kv with
                     | SC p => is_abstract d (SC p) &&
                               forallb (fun x => match x with
                                                 | SC c => mem_sym x (o_nodes o) &&
                                                           match get_cls d c with Some k => option_eqb Nat.eqb (c_parent k) (Some p) | None => false end
                                                 | SB _ => false end) (snd kv) &&
                               Nat.eqb (length (dedupe (snd kv))) (length (snd kv))
                     | SB _ => false end) (o_alts o) &&
  forallb (fun s => match s with
                    | SC c => match get_cls d c with
                              | Some k => match c_parent k with Some p => mem_sym s (oalts (SC p)) | None => true end
                              | None => false end
                    | SB _ => true end) (o_nodes o).

Definition dist_exact_obs (ne : bool) : bool :=
  forallb (fun kv => snd kv =? spec_min_depth ne (fst kv)) (o_dist o).

Definition rec_exact_obs : bool :=
  set_eqb (o_rec o) (filter spec_recursive (o_nodes o)).

(* usable grammar: exactly the symbols reachable from the start symbol, same productions for them *)
Definition start_sym : sym := SC (d_start d).
Definition reach_star : list sym := start_sym :: filter (fun x => negb (sym_eqb x start_sym)) (spec_reach start_sym).
Definition usable_nodes_exact (u : gobs) : bool := set_eqb (o_nodes u) reach_star.
(* weaker: reachable symbols plus abstract ancestors of reachable classes *)
Fixpoint ancestors (fuel : nat) (c : nat) : list sym :=
  match fuel with
  | O => []
  | S f => match get_cls d c with
           | Some k => match c_parent k with Some p => SC p :: ancestors f p | None => [] end
           | None => [] end
  end.
Definition reach_anc : list sym :=
  reach_star ++ flat_map (fun s => match s with SC c => ancestors (length (d_classes d)) c | SB _ => [] end) reach_star.
Definition usable_nodes_upto_ancestors (u : gobs) : bool :=
  forallb (fun x => mem_sym x (o_nodes u)) reach_star && forallb (fun x => mem_sym x reach_anc) (o_nodes u).
Definition usable_same_rules (u : gobs) : bool :=
  forallb (fun s => if is_abstract d s
                    then set_eqb (match find (fun kv => sym_eqb (fst kv) s) (o_alts u) with Some kv => snd kv | None => [] end)
                                 (oalts s)      (* the same productions; their order is not part of "generates the same programs" *)
                    else true) reach_star.
End Spec05.

Inductive gcase5 :=
| KGram5 (d : decl) (obs : list (pyres gobs)) (uobs : option (pyres gobs)).

Definition last_grammar (d : decl) (n : nat) : res grammar :=
  (fix go (n : nat) (d : decl) (acc : res grammar) : res grammar :=
     match n with
     | O => acc
     | S k => match extract d id_order with Ok g => go k (g_decl g) (Ok g) | Err e => Err e end
     end) n d (Err OtherError).

Definition usable_matches (d : decl) (nobs : nat) (u : pyres gobs) : bool :=
  match last_grammar d nobs with
  | Ok g => match usable g id_order, u with
            | Ok gu, POk ou => gobs_match gu ou
            | Err e, PErr e' => err_eqb e e'
            | _, _ => false
            end
  | Err _ => false
  end.

(* (correspondence, contract outside known regions, F10 hit, F35 hit) *)
Definition check05 (c : gcase5) : bool * bool * bool * bool :=
  match c with
  | KGram5 d obs uobs =>
      let corr := run_extractions d obs &&
                  match uobs with Some u => usable_matches d (length obs) u | None => true end in
      match obs with
      | POk o :: _ =>
          let base := alts_exact_obs d o && rec_exact_obs d o in
          let dist_ne := d_xdepth d || dist_exact_obs d o true in
          let dist_e := d_xdepth d || dist_exact_obs d o false in
          let us_rules := match uobs with Some (POk u) => usable_same_rules d o u && usable_nodes_upto_ancestors d o u | _ => true end in
          let us_exact := match uobs with Some (POk u) => usable_nodes_exact d o u | _ => true end in
          (corr, base && dist_ne && us_rules, dist_e, us_exact)
      | _ => (corr, true, true, true)
      end
  end.

Definition run_c05 (cases : list gcase5) : list N * list N * list N * list N :=
  (failing (fun c => fst (fst (fst (check05 c)))) cases,
   failing (fun c => snd (fst (fst (check05 c)))) cases,
   failing (fun c => snd (fst (check05 c))) cases,
   failing (fun c => snd (check05 c)) cases).
