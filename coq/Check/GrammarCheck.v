(* GrammarCheck.v — comparison of the Grammar model with observed Grammar objects, and the C19
   (weights) contract evaluated on the observations.  No proofs. *)
From GE Require Import Base Grammar C18Check.
Open Scope Z_scope.

Record gobs := mkGO {
  o_nodes : list sym;
  o_alts : list (sym * list sym);
  o_term : list sym;
  o_nonterm : list sym;
  o_dist : list (sym * Z);
  o_rec : list sym;
  o_weights : list (sym * Q);
  o_min : Z
}.

Definition set_eqb (a b : list sym) : bool :=
  forallb (fun x => mem_sym x b) a && forallb (fun x => mem_sym x a) b.

Definition alts_eqb (m : list (nat * list nat)) (o : list (sym * list sym)) : bool :=
  list_eqb (fun x y => sym_eqb (fst x) (fst y) && list_eqb sym_eqb (snd x) (snd y))
           (map (fun x => (SC (fst x), map SC (snd x))) m) o.

Definition Qabs1 (q : Q) : Q := if Qle_bool 0 q then q else (- q)%Q.
Definition Qnear (a b : Q) : bool := Qle_bool (Qabs1 (a - b)) (1 # 1000000000).

Definition gobs_match (g : grammar) (o : gobs) : bool :=
  let r := g_reg g in
  set_eqb (r_nodes r) (o_nodes o) &&
  alts_eqb (r_alts r) (o_alts o) &&
  set_eqb (r_term r) (o_term o) && set_eqb (r_nonterm r) (o_nonterm o) &&
  Nat.eqb (length (o_dist o)) (length (r_nodes r)) &&
  forallb (fun kv => match dget (g_dist g) (fst kv) with Some v => v =? snd kv | None => false end) (o_dist o) &&
  set_eqb (g_rec g) (o_rec o) &&
  Nat.eqb (length (o_weights o)) (length (r_nodes r)) &&
  forallb (fun kv => Qnear (wget (weights_of g) (fst kv)) (snd kv)) (o_weights o) &&
  (match min_tree_depth g with Ok v => v =? o_min o | Err _ => false end).

Inductive gcase :=
| KGram (d : decl) (obs : list (pyres gobs)).

(* repeated extraction: the classes keep the weights the previous extraction stored on them *)
Fixpoint run_extractions (d : decl) (obs : list (pyres gobs)) : bool :=
  match obs with
  | [] => true
  | o :: rest =>
      match extract d id_order, o with
      | Ok g, POk oo => gobs_match g oo && run_extractions (g_decl g) rest
      | Err e, PErr e' => err_eqb e e'
      | _, _ => false
      end
  end.

(* ---- C19 on the observations: declared weights come from the decl ---- *)
Definition owget (w : list (sym * Q)) (s : sym) : Q :=
  match find (fun kv => sym_eqb (fst kv) s) w with Some kv => snd kv | None => 1%Q end.

Definition any_weight_registered (d : decl) (o : gobs) : bool :=
  existsb (fun c => match get_cls d c with Some k => match c_weight k with Some _ => true | None => false end | None => false end) (d_considered d) ||
  existsb (fun s => match s with
                    | SC c => match get_cls d c with Some k => match c_weight k with Some _ => true | None => false end | None => false end
                    | SB _ => false end) (o_nodes o).

Definition rule_ok (d : decl) (o : gobs) (rule : sym * list sym) : bool :=
  let prods := snd rule in
  let ws := map (owget (o_weights o)) prods in
  let ds := map (decl_weight d) prods in
  forallb (fun w => Qle_bool 0 w) ws &&
  Qnear (qsum ws) 1 &&
  (* declared ratios: w_i * D_j = w_j * D_i *)
  forallb (fun wi => forallb (fun wj => Qnear (fst wi * snd wj) (fst wj * snd wi)) (combine ws ds)) (combine ws ds).

Definition oracle19_first (d : decl) (o : gobs) : bool :=
  if any_weight_registered d o then forallb (rule_ok d o) (o_alts o) else true.

Definition weights_same (a b : gobs) : bool :=
  Nat.eqb (length (o_weights a)) (length (o_weights b)) &&
  forallb (fun kv => Qnear (owget (o_weights b) (fst kv)) (snd kv)) (o_weights a).

Fixpoint oracle19_rest (first : gobs) (obs : list (pyres gobs)) : bool :=
  match obs with
  | [] => true
  | POk o :: rest => weights_same first o && oracle19_rest first rest
  | PErr _ :: _ => false                      (* extracting again must keep working *)
  end.

Definition check19 (c : gcase) : bool * bool :=
  match c with
  | KGram d obs =>
      (run_extractions d obs,
       match obs with
       | POk o :: rest => oracle19_first d o && oracle19_rest o rest
       | _ => true
       end)
  end.

Definition run_c19 (cases : list gcase) : list N * list N :=
  (failing (fun c => fst (check19 c)) cases, failing (fun c => snd (check19 c)) cases).
