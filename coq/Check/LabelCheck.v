(* LabelCheck.v — per-node metadata of observed programs compared with the model (Model/Labels.v) and
   with the independent traversal (Spec/LabelSpec.v).  No proofs. *)
From GE Require Import Base Grammar Labels LabelSpec C18Check GrammarCheck.
Open Scope Z_scope.

(* the labelled objects of a program in pre-order: nodes and lists; nothing inside a tuple is visited *)
Fixpoint labelled (v : value) : list value :=
  let fix go (l : list value) : list value := match l with [] => [] | x :: t => labelled x ++ go t end in
  match v with
  | VNode _ args => v :: go args
  | VList vs => v :: go vs
  | _ => []
  end.

(* sub-nodes of class k, looking through lists AND tuples (what an independent traversal finds) *)
Fixpoint count_spec (k : nat) (v : value) : Z :=
  let fix go (l : list value) : Z := match l with [] => 0 | x :: t => count_spec k x + go t end in
  match v with
  | VNode c args => (if Nat.eqb c k then 1 else 0) + go args
  | VList vs | VTuple vs => go vs
  | _ => 0
  end.

(* does the value contain any node at all *)
Fixpoint has_node (v : value) : bool :=
  let fix anyb (l : list value) : bool := match l with [] => false | x :: t => has_node x || anyb t end in
  match v with
  | VNode _ _ => true
  | VList vs | VTuple vs => anyb vs
  | _ => false
  end.

Fixpoint has_node_in_tuple (v : value) : bool :=
  let fix anyb (l : list value) : bool := match l with [] => false | x :: t => has_node_in_tuple x || anyb t end in
  match v with
  | VNode _ args => anyb args
  | VList vs => anyb vs
  | VTuple vs => existsb has_node vs
  | _ => false
  end.

Fixpoint all2b {A B} (f : A -> B -> bool) (l1 : list A) (l2 : list B) : bool :=
  match l1, l2 with [], [] => true | x :: t, y :: u => f x y && all2b f t u | _, _ => false end.

Record lobs := mkLO { lo_nodes : Z; lo_dist : Z; lo_weighted : Z; lo_types : list (nat * Z) }.

Inductive lcase := KLab (d : decl) (v : value) (obs : list lobs).

Definition lab_eqb (l : res lab) (o : lobs) : bool :=
  match l with
  | Ok a => (l_nodes a =? lo_nodes o) && (l_dist a =? lo_dist o) && (l_weighted a =? lo_weighted o)
  | Err _ => false
  end.

Definition classes_of (d : decl) : list nat := seq 0 (length (d_classes d)).

Definition lab_corr (c : lcase) : bool :=
  match c with
  | KLab d v obs =>
      match extract d id_order with
      | Err _ => false
      | Ok g =>
          let dd := g_decl g in let r := g_reg g in
          all2b (fun su o => lab_eqb (relabel dd r su) o &&
                                forallb (fun k => count_class k su =? match find (fun kv => Nat.eqb (fst kv) k) (lo_types o) with Some kv => snd kv | None => 0 end)
                                        (classes_of d))
                   (labelled v) obs
      end
  end.

(* the independent traversal (default depth mode only) *)
Definition lab_oracle (c : lcase) : bool :=
  match c with
  | KLab d v obs =>
      d_xdepth d ||
      all2b (fun su o => (ssize su =? lo_nodes o) && (sheight su =? lo_dist o) && (sweight su =? lo_weighted o) &&
                            forallb (fun k => count_spec k su =? match find (fun kv => Nat.eqb (fst kv) k) (lo_types o) with Some kv => snd kv | None => 0 end)
                                    (classes_of d))
               (labelled v) obs
  end.

Definition f40_region (c : lcase) : bool := match c with KLab d v obs => has_node_in_tuple v end.

(* (correspondence, contract outside known regions, F40 hits) *)
Definition run_c11 (cases : list lcase) : list N * list N * list N :=
  (failing lab_corr cases,
   failing (fun c => lab_oracle c || f40_region c) cases,
   failing (fun c => lab_oracle c || negb (f40_region c)) cases).
