(* LangCheck.v — C04: the set of programs observed over ALL decision sequences of the implementation's
   creation, against the bounded language enumerated from the declarations (Spec/Lang.v).  No proofs. *)
From GE Require Import Base Tape Grammar WellTyped Synth Sat Lang C18Check GrammarCheck SynthCheck GrowComplete.
Open Scope Z_scope.

Inductive lcase :=
| KLang (d : decl) (k : dkind) (observed : list value) (tapes : list (list Z)).

Definition memv (l : list value) (v : value) : bool := existsb (value_eqb v) l.
Definition subset (a b : list value) : bool := forallb (memv b) a.

Definition lang_of (d : decl) (D : Z) : option (grammar * list value) :=
  match extract d id_order with
  | Ok g => Some (g, lang (g_decl g) (g_reg g) (Z.to_nat D))
  | Err _ => None
  end.

(* the model's creation on the decision sequences that produced each distinct program gives the same program *)
(* the theorem C04_enumeration_complete holds "for enough fuel": the fuel the check uses is saturated when
   25 more units list nothing new *)
Definition fuel_saturated (d : decl) (k : dkind) : bool :=
  match dk_depth k, extract d id_order with
  | Some D, Ok g =>
      let n := Z.to_nat D in
      Nat.eqb (length (lang (g_decl g) (g_reg g) n))
              (length (dedupe_v (enum (g_decl g) (g_reg g) (25 + lang_fuel (g_decl g) n) n [] (TSym (d_start (g_decl g))))))
  | _, _ => true
  end.

Definition lang_corr (c : lcase) : bool :=
  match c with
  | KLang d k observed tapes =>
      fuel_saturated d k &&
      (* hypothesis of the completeness theorem (C04_grow_reaches_every_program): every registered class and field type has a distance *)
      match extract d id_order with Ok g => dist_ok g | Err _ => true end &&
      (Nat.eqb (length observed) (length tapes)) &&
      forallb (fun vt =>
        let '(ph, r, st) := run_model d k (Native (map DI (snd vt))) None in
        match r, st with
        | Ok v, Some st => value_eqb v (fst vt) && src_matches (st_src st) (ONative [])
        | _, _ => false
        end) (combine observed tapes)
  end.

Definition every_abstract_recursive (g : grammar) : bool :=
  forallb (fun s => negb (is_abstract (g_decl g) s) || mem_sym s (g_rec g) ||
                    match s with SC c => match get_alts (r_alts (g_reg g)) c with
                                         | Some prods => existsb (fun p => mem_sym (SC p) (g_rec g)) prods
                                         | None => false end
                               | _ => true end) (r_nodes (g_reg g)).

(* no invalid program is reachable *)
Definition lang_sound (c : lcase) : bool :=
  match c with
  | KLang d k observed _ =>
      match dk_depth k, lang_of d (match dk_depth k with Some D => D | None => 0 end) with
      | Some D, Some (g, L) => subset observed L
      | _, _ => true
      end
  end.

(* no valid program is unreachable (grow); exactly the full-depth programs (full) *)
Definition lang_complete (c : lcase) : bool :=
  match c with
  | KLang d k observed _ =>
      match k with
      | DMax D => match lang_of d D with Some (g, L) => subset L observed | None => true end
      | DFull D => match lang_of d D with
                   | Some (g, L) => if every_abstract_recursive g
                                    then subset (filter (full_at D) L) observed && forallb (full_at D) observed
                                    else true
                   | None => true end
      | _ => true
      end
  end.

(* known finding F10: a sized list that may be empty costs its element's distance; F34: full creation stops one level early *)
Fixpoint has_empty_ok_list (t : ty) : bool :=
  let fix anyb (l : list ty) : bool := match l with [] => false | x :: r => has_empty_ok_list x || anyb r end in
  match t with
  | TAnn (TList inner) (MListSize lo _ _) => (lo <=? 0) || has_empty_ok_list inner
  | TAnn b _ => has_empty_ok_list b
  | TList _ => true
  | TTuple ts | TUnion ts => anyb ts
  | _ => false
  end.
Fixpoint has_empty_list (v : value) : bool :=
  let fix anyv (l : list value) : bool := match l with [] => false | x :: r => has_empty_list x || anyv r end in
  match v with
  | VList [] => true
  | VList vs | VTuple vs | VNode _ vs => anyv vs
  | _ => false
  end.
(* the region: a hierarchy with a possibly-empty list, grow, and every unreachable program contains an empty list *)
Definition f10_region (c : lcase) : bool :=
  match c with
  | KLang d (DMax D) observed _ =>
      existsb (fun cl => existsb has_empty_ok_list (c_fields cl)) (d_classes d) &&
      match lang_of d D with
      | Some (_, L) => forallb (fun v => memv observed v || has_empty_list v) L
      | None => false
      end
  | _ => false
  end.
Definition f34_region (c : lcase) : bool := match c with KLang _ (DFull _) _ _ => true | _ => false end.

Definition lang_size (c : lcase) : N :=
  match c with KLang d k _ _ => match dk_depth k with Some D => match lang_of d D with Some (_, L) => N.of_nat (length L) | None => 0%N end | None => 0%N end end.

(* (correspondence, soundness + completeness outside the known regions, F10 hits, F34 hits) *)
Definition run_c04 (cases : list lcase) : list N * list N * list N * list N :=
  (failing lang_corr cases,
   failing (fun c => lang_sound c && (lang_complete c || f10_region c || f34_region c)) cases,
   failing (fun c => lang_complete c || negb (f10_region c)) cases,
   failing (fun c => lang_complete c || negb (f34_region c)) cases).
