(* RepCheck.v — one operation of a representation (create / map / mutate / crossover) as observed on
   the implementation: compared with the model (Model/Linear.v, Model/Synth.v) and judged by the
   contracts of C06 (recombination / locality), C07 (mapping purity), C09 (inputs untouched) and C10
   (grammar untouched).  No proofs. *)
From GE Require Import Base Tape Grammar WellTyped Synth Linear Stack C18Check GrammarCheck SynthCheck.
Open Scope Z_scope.

Inductive rkind :=
| RTree (k : dkind) | RGE (k : dkind) (len : nat) | RSGE (k : dkind) (len : nat) (nkeys infra : nat)
| RDsge (D : Z) | RStack (len : nat).

Inductive geno :=
| GTree (v : value) | GCodons (l : list Z) | GKeyed (m : list (nat * list Z)) | GDsge (m : list (ty * list Z)).

Inductive ropc := RCreate | RMap (x : geno) | RMutate (x : geno) | RCross (x y : geno).

Inductive rout := OGeno (x : geno) | OGenos (x y : geno) | OPheno (v : value) (after : geno).

Record robs := mkRO {
  ro_res : pyres rout;
  ro_expanding_before : option bool;
  ro_in_ctx : list (Z * Z);           (* tree inputs: (depth, expansions) of the root's stored synthesis context *)
  ro_changed : list nat;              (* earlier genotypes whose deep snapshot differs after the operation *)
  ro_alts_before : list (nat * list nat);
  ro_alts_after : list (nat * list nat);
  ro_grammar_same : bool              (* every analysis result of the Grammar object (productions, symbol sets, distances, recursive set) is as before *)
}.

Inductive repcase := KRep (d : decl) (rk : rkind) (op : ropc) (tape : list draw) (o : robs).

Definition keyed_eqb (a b : list (nat * list Z)) : bool :=
  list_eqb (fun x y => Nat.eqb (fst x) (fst y) && list_eqb Z.eqb (snd x) (snd y)) a b.
Definition dsge_eqb (a b : list (ty * list Z)) : bool :=
  list_eqb (fun x y => ty_eqb (fst x) (fst y) && list_eqb Z.eqb (snd x) (snd y)) a b.

Definition geno_eqb (a b : geno) : bool :=
  match a, b with
  | GTree v, GTree w => value_close v w
  | GCodons x, GCodons y => list_eqb Z.eqb x y
  | GKeyed x, GKeyed y => keyed_eqb x y
  | GDsge x, GDsge y => dsge_eqb x y
  | _, _ => false
  end.

Definition rout_eqb (a b : rout) : bool :=
  match a, b with
  | OGeno x, OGeno y => geno_eqb x y
  | OGenos x1 x2, OGenos y1 y2 => geno_eqb x1 y1 && geno_eqb x2 y2
  | OPheno v g1, OPheno w g2 => value_close v w && geno_eqb g1 g2
  | _, _ => false
  end.

Definition fuel_for (g : grammar) (k : dkind) : nat := synth_fuel g (match dk_depth k with Some D => D | None => 30 end).

Definition tree_st (g : grammar) (s : src) (e : option bool) : sst :=
  mkSt s e (map (fun x => (key_of_sym x, O)) (r_nodes (g_reg g))) [] (r_alts (g_reg g)).

Definition infra_genes (m : list (nat * list Z)) (infra : nat) : res (list Z) :=
  match kget Nat.eqb m infra with Some l => Ok l | None => Err KeyError end.

(* the model of one operation: result and what is left of the shared source *)
Definition ctx_of (l : list (Z * Z)) (i : nat) : sctx := match nth_error l i with Some (dp, ex) => mkCtx dp ex | None => ctx0 end.

Definition rep_model (g : grammar) (rk : rkind) (op : ropc) (e : option bool) (ictx : list (Z * Z)) (s : src) : res rout * src :=
  let lift2 {A} (r : res (A * src)) (f : A -> rout) : res rout * src :=
    match r with Ok (a, s') => (Ok (f a), s') | Err er => (Err er, s) end in
  match rk, op with
  | RTree k, RCreate =>
      let '(r, st) := tree_create (fuel_for g k) g k (tree_st g s e) in
      (match r with Ok v => Ok (OGeno (GTree v)) | Err er => Err er end, st_src st)
  | RTree k, RMutate (GTree p) =>
      let '(r, st) := tree_mutate (fuel_for g k) g k (ctx_of ictx 0) (tree_st g s e) in
      (match r with Ok v => Ok (OGeno (GTree v)) | Err er => Err er end, st_src st)
  | RTree k, RCross (GTree p1) (GTree p2) =>
      let '(r1, st1) := tree_cross_child (fuel_for g k) g k p2 (ctx_of ictx 0) (tree_st g s e) in
      match r1 with
      | Err er => (Err er, st_src st1)
      | Ok c1 =>
          let '(r2, st2) := tree_cross_child (fuel_for g k) g k p1 (ctx_of ictx 1) st1 in
          (match r2 with Ok c2 => Ok (OGenos (GTree c1) (GTree c2)) | Err er => Err er end, st_src st2)
      end
  | RTree k, RMap (GTree p) => (Ok (OPheno p (GTree p)), s)
  | RGE k len, RCreate => lift2 (codons_create s len) (fun l => OGeno (GCodons l))
  | RGE k len, RMutate (GCodons p) => lift2 (codons_mutate s (Z.of_nat len) maxsize p) (fun l => OGeno (GCodons l))
  | RGE k len, RCross (GCodons p1) (GCodons p2) =>
      lift2 (codons_crossover s (Z.of_nat len - 1) p1 p2) (fun cs => OGenos (GCodons (fst cs)) (GCodons (snd cs)))
  | RGE k len, RMap (GCodons p) =>
      (match decider_validate g k with
       | Err er => Err er
       | Ok _ => match fst (ge_map (fuel_for g k) g k p) with Ok v => Ok (OPheno v (GCodons p)) | Err er => Err er end
       end, s)
  | RStack len, RCreate => lift2 (codons_create s len) (fun l => OGeno (GCodons l))
  | RStack len, RMutate (GCodons p) => lift2 (codons_mutate s (Z.of_nat len) 10000 p) (fun l => OGeno (GCodons l))
  | RStack len, RCross (GCodons p1) (GCodons p2) =>
      lift2 (codons_crossover s 255 p1 p2) (fun cs => OGenos (GCodons (fst cs)) (GCodons (snd cs)))
  | RSGE k len nkeys infra, RCreate => lift2 (keyed_create s (seq 0 nkeys) len) (fun m => OGeno (GKeyed m))
  | RSGE k len nkeys infra, RMutate (GKeyed p) => lift2 (sge_mutate Nat.eqb s p) (fun m => OGeno (GKeyed m))
  | RSGE k len nkeys infra, RCross (GKeyed p1) (GKeyed p2) =>
      lift2 (keyed_crossover Nat.eqb true s p1 p2) (fun cs => OGenos (GKeyed (fst cs)) (GKeyed (snd cs)))
  | RSGE k len nkeys infra, RMap (GKeyed p) =>
      (match infra_genes p infra with
       | Err er => Err er
       | Ok l => match fst (sge_map (fuel_for g k) g k l) with Ok v => Ok (OPheno v (GKeyed p)) | Err er => Err er end
       end, s)
  | RDsge D, RCreate => (Ok (OGeno (GDsge [])), s)
  | RDsge D, RMutate (GDsge p) => lift2 (dsge_mutate ty_eqb s p) (fun m => OGeno (GDsge m))
  | RDsge D, RCross (GDsge p1) (GDsge p2) =>
      lift2 (keyed_crossover ty_eqb false s p1 p2) (fun cs => OGenos (GDsge (fst cs)) (GDsge (snd cs)))
  | RDsge D, RMap (GDsge p) =>
      let '(r, st) := dsge_map (synth_fuel g D) g D s p in
      (match r with Ok v => Ok (OPheno v (GDsge (st_dna st))) | Err er => Err er end, st_src st)
  | _, _ => (Err OtherError, s)
  end.

Definition modelled (rk : rkind) (op : ropc) : bool :=
  match rk, op with RStack _, RMap _ => false | _, _ => true end.

Definition rep_corr (c : repcase) : bool :=
  match c with
  | KRep d rk op tape o =>
      negb (modelled rk op) ||
      match extract d id_order with
      | Err _ => false
      | Ok g =>
          let '(r, s') :=
            (* the decider is built (and validated) when the representation is constructed *)
            match (match rk with RTree k | RGE k _ | RSGE k _ _ _ => decider_validate g k | _ => Ok tt end) with
            | Err e => (Err e, Native [])
            | Ok _ => rep_model g rk op (ro_expanding_before o) (ro_in_ctx o) (Native tape)
            end in
          match r, ro_res o with
          | Ok a, POk b => rout_eqb a b && match s' with Native [] => true | _ => false end
          | Err OutOfFuel, _ => true
          | Err e, PErr e' => err_eqb e e'
          | _, _ => false
          end
      end
  end.

(* ---------- C06 ---------- *)
Definition same_or (a b c : option Z) : bool := option_eqb Z.eqb a b || option_eqb Z.eqb a c.

Fixpoint loci_ok (c p1 p2 : list Z) : bool :=
  match c, p1, p2 with
  | [], [], [] => true
  | x :: c', a :: p1', b :: p2' => ((x =? a) || (x =? b)) && loci_ok c' p1' p2'
  | _, _, _ => false
  end.

Fixpoint count_diff (a b : list Z) : option nat :=
  match a, b with
  | [], [] => Some O
  | x :: a', y :: b' => match count_diff a' b' with Some n => Some (if x =? y then n else S n) | None => None end
  | _, _ => None
  end.

Definition keyed_cross_ok {K} (keqb : K -> K -> bool) (c p1 p2 : list (K * list Z)) : bool :=
  list_eqb keqb (map fst c) (map fst p1) &&
  forallb (fun e => let a := match kget keqb p1 (fst e) with Some l => l | None => [] end in
                    let b := match kget keqb p2 (fst e) with Some l => l | None => [] end in
                    list_eqb Z.eqb (snd e) a || list_eqb Z.eqb (snd e) b) c.

Definition keyed_mutate_ok {K} (keqb : K -> K -> bool) (m p : list (K * list Z)) : bool :=
  list_eqb keqb (map fst m) (map fst p) &&
  let diffs := map (fun e => match kget keqb p (fst e) with Some l => count_diff (snd e) l | None => None end) m in
  forallb (fun x => match x with Some _ => true | None => false end) diffs &&
  Nat.leb (fold_left (fun acc x => match x with Some n => acc + n | None => acc end)%nat diffs O) 1.

(* tree crossover: the child is the receiving parent with ONE subtree replaced by a same-class subtree of the donor *)
Fixpoint is_subvalue (x v : value) : bool :=
  let fix anyb (l : list value) : bool := match l with [] => false | y :: t => is_subvalue x y || anyb t end in
  value_close x v ||
  match v with VNode _ args => anyb args | VList vs | VTuple vs => anyb vs | _ => false end.

Definition same_class (a b : value) : bool :=
  match a, b with VNode c _, VNode c' _ => Nat.eqb c c' | _, _ => false end.

Fixpoint one_replaced (donor : value) (p child : value) : bool :=
  let fix args_one (ps cs : list value) : bool :=
    match ps, cs with
    | [], [] => false
    | p0 :: ps', c0 :: cs' =>
        (one_replaced donor p0 c0 && list_eqb value_close ps' cs') || (value_close p0 c0 && args_one ps' cs')
    | _, _ => false
    end in
  (is_subvalue child donor && (same_class p child || match p, child with VNode _ _, VNode _ _ => false | _, _ => true end)) ||
  match p, child with
  | VNode c ps, VNode c' cs => Nat.eqb c c' && args_one ps cs
  | VList ps, VList cs => args_one ps cs
  | VTuple ps, VTuple cs => args_one ps cs
  | _, _ => false
  end.

Definition tree_child_ok (recv donor child : value) : bool :=
  value_close recv child && false || one_replaced donor recv child.

Definition c06_ok (c : repcase) : bool :=
  match c with
  | KRep d rk op tape o =>
      match op, ro_res o with
      | RCross (GCodons p1) (GCodons p2), POk (OGenos (GCodons c1) (GCodons c2)) =>
          negb (Nat.eqb (length p1) (length p2)) || (loci_ok c1 p1 p2 && loci_ok c2 p1 p2)
      | RMutate (GCodons p), POk (OGeno (GCodons m)) =>
          match count_diff m p with Some n => Nat.leb n 1 | None => false end
      | RCross (GKeyed p1) (GKeyed p2), POk (OGenos (GKeyed c1) (GKeyed c2)) =>
          keyed_cross_ok Nat.eqb c1 p1 p2 && keyed_cross_ok Nat.eqb c2 p1 p2
      | RMutate (GKeyed p), POk (OGeno (GKeyed m)) => keyed_mutate_ok Nat.eqb m p
      | RCross (GDsge p1) (GDsge p2), POk (OGenos (GDsge c1) (GDsge c2)) =>
          keyed_cross_ok ty_eqb c1 p1 p2 && keyed_cross_ok ty_eqb c2 p1 p2
      | RMutate (GDsge p), POk (OGeno (GDsge m)) => keyed_mutate_ok ty_eqb m p
      | RCross (GTree p1) (GTree p2), POk (OGenos (GTree c1) (GTree c2)) =>
          tree_child_ok p1 p2 c1 && tree_child_ok p2 p1 c2
      | _, _ => true
      end
  end.

(* known finding F13: tree variation regenerates from the root; with an abstract start symbol crossover
   finds no donor material and returns fresh random trees *)
Definition f13_region (c : repcase) : bool :=
  match c with
  | KRep d (RTree _) (RCross _ _) _ _ => is_abstract d (SC (d_start d))
  | _ => false
  end.

(* ---------- C07: mapping reads the genotype only ---------- *)
Definition c07_ok (c : repcase) : bool :=
  match c with
  | KRep d rk (RMap x) tape o =>
      match rk with
      | RDsge _ => true                         (* extension of the genotype may draw; judged by the pair check *)
      | _ => match tape with [] => true | _ => false end
      end
  | _ => true
  end.

(* ---------- C09 / C10 ---------- *)
Definition c09_ok (c : repcase) : bool :=
  match c with KRep _ _ _ _ o => match ro_changed o with [] => true | _ => false end end.
Definition c10r_ok (c : repcase) : bool :=
  match c with KRep _ _ _ _ o => alts_obs_eqb (ro_alts_before o) (ro_alts_after o) && ro_grammar_same o end.

(* ---------- C01 on the outputs of every representation: a program handed out is well typed ---------- *)
Definition out_programs (rk : rkind) (o : rout) : list value :=
  match o with
  | OPheno v _ => [v]
  | OGeno (GTree v) => [v]
  | OGenos (GTree a) (GTree b) => [a; b]
  | _ => []
  end.
Definition c01r_ok (c : repcase) : bool :=
  match c with
  | KRep d rk op _ o =>
      match obs_grammar d, ro_res o with
      | Some g, POk out => forallb (fun v => wtb (g_decl g) (g_reg g) false (wt_fuel v) (TSym (d_start d)) v) (out_programs rk out)
      (* an operation that does not return a program fails with the library's own error type (the constructor of the
         representation / decider included); BadTape and OutOfFuel are artefacts of the harness *)
      | Some g, PErr e => library_error e || err_eqb e BadTape || err_eqb e OutOfFuel
      | _, _ => true
      end
  end.
(* known finding F03: the stack representation builds tuple / refined / list-of-refined fields from whatever is on the stack *)
Fixpoint plain_ty (t : ty) : bool :=
  match t with TBase _ | TSym _ => true | TList t' => plain_ty t' | _ => false end.
Definition f03_region (c : repcase) : bool :=
  match c with
  | KRep d (RStack _) (RMap _) _ _ => negb (forallb (fun cl => forallb plain_ty (c_fields cl)) (d_classes d))
  | _ => false
  end.
(* ---------- C02 / C03 on the same outputs: refinements hold and the depth limit is respected after variation and mapping ---------- *)
Definition c02r_ok (c : repcase) : bool :=
  match c with
  | KRep d rk op _ o =>
      match obs_grammar d, ro_res o with
      | Some g, POk out => forallb (fun v => satb (g_decl g) (g_reg g) (wt_fuel v) [] (TSym (d_start d)) v) (out_programs rk out)
      | _, _ => true
      end
  end.
Definition rk_depth (rk : rkind) : option Z :=
  match rk with
  | RTree k | RGE k _ | RSGE k _ _ _ => dk_depth k
  | RDsge D => Some D
  | RStack _ => None
  end.
Definition c03r_ok (c : repcase) : bool :=
  match c with
  | KRep d rk op _ o =>
      match rk_depth rk, ro_res o with
      | Some D, POk out => d_xdepth d || forallb (fun v => vdepth v <=? D) (out_programs rk out)
      | _, _ => true
      end
  end.
Definition run_c02r (cases : list repcase) : list N * list N * list N :=
  (failing rep_corr cases, failing (fun c => c02r_ok c || f03_region c) cases, failing (fun c => c02r_ok c || negb (f03_region c)) cases).
Definition run_c03r (cases : list repcase) : list N * list N := (failing rep_corr cases, failing c03r_ok cases).

Definition run_c01r (cases : list repcase) : list N * list N * list N :=
  (failing rep_corr cases, failing (fun c => c01r_ok c || f03_region c) cases, failing (fun c => c01r_ok c || negb (f03_region c)) cases).

Definition run_c06 (cases : list repcase) : list N * list N * list N :=
  (failing rep_corr cases, failing (fun c => c06_ok c || f13_region c) cases, failing (fun c => c06_ok c || negb (f13_region c)) cases).
Definition run_c07 (cases : list repcase) : list N * list N := (failing rep_corr cases, failing c07_ok cases).

(* ---------- the stack machine (Model/Stack.v) against the program the implementation's mapping returned ---------- *)
(* on the hierarchies the model speaks about; failures_limit is the representation's default; the side condition of the
   theorem stack_mapped_well_typed (every class among the stack types is registered) is evaluated on the way *)
Definition stack_corr (c : repcase) : bool :=
  match c with
  | KRep d (RStack _) (RMap (GCodons p)) _ o =>
      match extract d id_order with
      | Err _ => negb (stack_decl_ok d)
      | Ok g =>
          types_registered g (all_stack_types g) &&         (* on every hierarchy, also those outside the machine's model *)
          (negb (stack_decl_ok d && weights_dyadic g) ||
           match stack_map (60 * 100) g 100 p, ro_res o with
           | Err OutOfFuel, _ => true
           | Ok v, POk (OPheno w _) => value_close v w
           | Err e, PErr e' => err_eqb e e'
           | _, _ => false
           end)
      end
  | _ => true
  end.
(* the cases on which the model gave a definite answer (hierarchy inside the model, not out of fuel) *)
Definition stack_definite (c : repcase) : bool :=
  match c with
  | KRep d (RStack _) (RMap (GCodons p)) _ o =>
      stack_decl_ok d && match extract d id_order with
                         | Ok g => weights_dyadic g && match stack_map (60 * 100) g 100 p with Err OutOfFuel => false | _ => true end
                         | Err _ => false
                         end
  | _ => false
  end.
(* second list: the cases WITHOUT a definite answer *)
Definition run_stack (cases : list repcase) : list N * list N := (failing stack_corr cases, failing stack_definite cases).
Definition run_c09 (cases : list repcase) : list N * list N := (failing rep_corr cases, failing c09_ok cases).
Definition run_c10r (cases : list repcase) : list N * list N := (failing rep_corr cases, failing c10r_ok cases).

(* two mappings of one genotype (the second possibly after the genotype was extended by the first) *)
Inductive mappair := KMapPair (first second : pyres value) (second_consumed : nat).
Definition mappair_ok (c : mappair) : bool :=
  match c with
  | KMapPair (POk a) (POk b) n => value_close a b && Nat.eqb n 0
  | KMapPair (PErr e) (PErr e') n => err_eqb e e' && Nat.eqb n 0
  | _ => false
  end.
Definition run_mappairs (cases : list mappair) : list N * list N := ([], failing mappair_ok cases).
