(* SearchCheck.v — executable comparison of the Search model with observations of the
   implementation, and the C12 / C13 / C14 contracts evaluated on those observations.
   Used by generated cases files; no proofs. *)
From GE Require Import Base Search C18Check.
Open Scope Z_scope.

Definition table := list (N * list Q).
Definition ff_of (t : table) (i : N) : list Q :=
  match find (fun x => N.eqb (fst x) i) t with Some (_, c) => c | None => [] end.

Definition Qlist_eqb (a b : list Q) : bool := list_eqb Qeq_bool a b.
Definition key_list_eqb (a b : list key) : bool := list_eqb key_eqb a b.

Fixpoint count_key (l : list key) (k : key) : nat :=
  match l with [] => O | x :: t => (if key_eqb x k then 1 else 0) + count_key t k end.
Definition key_perm_b (a b : list key) : bool :=
  Nat.eqb (length a) (length b) && forallb (fun k => Nat.eqb (count_key a k) (count_key b k)) a.
Fixpoint key_nodup_b (l : list key) : bool :=
  match l with [] => true | k :: t => negb (existsb (key_eqb k) t) && key_nodup_b t end.

Definition nth_problem (ps : list problem) (pid : N) : problem := nth (N.to_nat pid) ps (SO false).

(* ------------------------------------------------------------------ C13 *)
Record obs13 := mkO13 { o_count : Z; o_caches : list (key * (Q * list Q)); o_log : list key }.

Inductive c13case :=
| K13 (t : table) (probs : list problem) (par : bool) (calls : list (N * list N)) (obs : list (pyres obs13)).

Definition caches_match (s : store) (oc : list (key * (Q * list Q))) : bool :=
  Nat.eqb (length s) (length oc) &&
  forallb (fun kc => match lookup s (fst kc) with
                     | Some f => Qeq_bool (agg f) (fst (snd kc)) && Qlist_eqb (comps f) (snd (snd kc))
                     | None => false end) oc.

Definition obs13_match (par : bool) (e : ev) (o : obs13) : bool :=
  (count e =? o_count o) && caches_match (st e) (o_caches o) &&
  (if par then key_perm_b (rev (calls e)) (o_log o) else key_list_eqb (rev (calls e)) (o_log o)).

Fixpoint run13 (t : table) (probs : list problem) (par : bool) (e : ev) (calls : list (N * list N))
         (obs : list (pyres obs13)) : bool :=
  match calls, obs with
  | [], [] => true
  | (pid, b) :: ct, o :: ot =>
      let p := nth_problem probs pid in
      let r := if par then eval_par (ff_of t) p pid (par_todo pid e b) e b else eval_seq (ff_of t) p pid e b in
      match r, o with
      | Ok e', POk oo => obs13_match par e' oo && run13 t probs par e' ct ot
      | Err er, PErr er' => err_eqb er er'        (* the run ends at the first exception *)
      | _, _ => false
      end
  | _, _ => false
  end.

(* the contract, evaluated on the implementation's observation alone *)
Definition oracle13_obs (t : table) (probs : list problem) (o : obs13) : bool :=
  (o_count o =? zlen (o_log o)) && key_nodup_b (o_log o) &&
  forallb (fun kc =>
             let '((i, pid), (a, cs)) := kc in
             let p := nth_problem probs pid in
             Qlist_eqb cs (ff_of t i) && Qeq_bool a (aggregate_of p (ff_of t i)) &&
             existsb (key_eqb (i, pid)) (o_log o)) (o_caches o) &&
  Nat.eqb (length (o_caches o)) (length (o_log o)).

Definition check13 (c : c13case) : bool * bool :=
  match c with
  | K13 t probs par calls obs =>
      (run13 t probs par ev0 calls obs,
       forallb (fun o => match o with POk oo => oracle13_obs t probs oo | PErr _ => true end) obs)
  end.

Definition run_c13 (cases : list c13case) : list N * list N :=
  (failing (fun c => fst (check13 c)) cases, failing (fun c => snd (check13 c)) cases).

(* ------------------------------------------------------------------ C12 *)
(* observation after each tracker.evaluate: recorder log so far (chronological), reported best(s) *)
Definition obs12 := (list (N * bool) * list N)%type.

Inductive c12case :=
| K12 (t : table) (p : problem) (mo par : bool) (batches : list (list N)) (obs : list (pyres obs12)).

Definition nb_eqb (a b : N * bool) : bool := N.eqb (fst a) (fst b) && Bool.eqb (snd a) (snd b).

Fixpoint run12 (t : table) (p : problem) (par : bool) (e : ev) (tr : tracker) (batches : list (list N))
         (obs : list (pyres obs12)) : bool :=
  match batches, obs with
  | [], [] => true
  | b :: bt, o :: ot =>
      match tr_evaluate (ff_of t) p 0%N par e tr b, o with
      | Ok (e', tr'), POk (olog, obest) =>
          let mlog := match tr' with TSO x => rev (so_rec x) | TMO x => rev (mo_rec x) end in
          let mbest := match tr' with TSO x => match so_best x with Some i => [i] | None => [] end | TMO x => front x end in
          list_eqb nb_eqb mlog olog && list_eqb N.eqb mbest obest && run12 t p par e' tr' bt ot
      | Err er, PErr er' => err_eqb er er'
      | _, _ => false
      end
  | _, _ => false
  end.

Definition aggQ (t : table) (p : problem) (i : N) : Q := aggregate_of p (ff_of t i).

(* independent statement of the contract on a chronological recorder log and reported bests *)
Fixpoint flags_ok (t : table) (p : problem) (mo : bool) (prev : list N) (log : list (N * bool)) : bool :=
  match log with
  | [] => true
  | (i, f) :: rest =>
      let a := aggQ t p i in
      let expect := if mo then forallb (fun j => Qle_bool (aggQ t p j) a) prev               (* at least the best so far *)
                    else forallb (fun j => negb (Qle_bool a (aggQ t p j))) prev in            (* first, or strictly better than all *)
      Bool.eqb f expect && flags_ok t p mo (prev ++ [i]) rest
  end.

Definition best_ok (t : table) (p : problem) (hist : list N) (bests : list N) : bool :=
  match hist with
  | [] => match bests with [] => true | _ => false end
  | _ => negb (match bests with [] => true | _ => false end) &&
         forallb (fun b => existsb (N.eqb b) hist && forallb (fun x => Qle_bool (aggQ t p x) (aggQ t p b)) hist) bests
  end.

Definition check12 (c : c12case) : bool * bool :=
  match c with
  | K12 t p mo par batches obs =>
      (run12 t p par ev0 (if mo then TMO mo0 else TSO so0) batches obs,
       forallb (fun o => match o with
                         | POk (olog, obest) => flags_ok t p mo [] olog && best_ok t p (map fst olog) obest
                         | PErr _ => true end) obs)
  end.

Definition run_c12 (cases : list c12case) : list N * list N :=
  (failing (fun c => fst (check12 c)) cases, failing (fun c => snd (check12 c)) cases).

(* ------------------------------------------------------------------ C14 (and the returned best of C12) *)
Inductive algo := ARS | AOPO | AHC (m : nat) | AGP (popsize : nat) (init : list N) (gens : list (list N)).

(* observation: budget checks in order (counter, reported best first component if any, answer),
   returned individual, final counter *)
Definition obs14 := (list (Z * option Q * bool) * option N * Z)%type.

Inductive c14case :=
| K14 (t : table) (p : problem) (mo par : bool) (a : algo) (b : budget) (obs : pyres obs14).

Definition run_algo (t : table) (p : problem) (mo par : bool) (a : algo) (b : budget) : res sstate :=
  let tr0 := if mo then TMO mo0 else TSO so0 in
  let s0 := mkS ev0 tr0 0%N [] in
  match a with
  | ARS | AOPO => rs_loop (ff_of t) p 0%N 3000 b s0
  | AHC m => hc_loop (ff_of t) p 0%N 3000 b m true s0
  | AGP _ init gens => gp_search (ff_of t) p 0%N par b init gens tr0
  end.

Definition zb_eqb (a b : Z * bool) : bool := Z.eqb (fst a) (fst b) && Bool.eqb (snd a) (snd b).

(* independent reading of the budgets *)
Fixpoint budget_pred (b : budget) (c : Z) (best0 : option Q) : bool :=
  match b with
  | EvalBudget n => n <=? c
  | TargetFit t => match best0 with Some x => negb (Qle_bool (1 # 10000) (Qabs_ (x - t))) | None => false end
  | AnyOf x y => budget_pred x c best0 || budget_pred y c best0
  end.

Fixpoint checks_ok (b : budget) (checks : list (Z * option Q * bool)) : bool :=
  match checks with
  | [] => false                                        (* the loop checks at least once *)
  | [(c, b0, d)] => d && budget_pred b c b0            (* the last check is the one that stops *)
  | (c, b0, d) :: rest => negb d && negb (budget_pred b c b0) && checks_ok b rest
  end.

Definition batch_size (a : algo) : Z :=
  match a with ARS | AOPO => 1 | AHC m => Z.of_nat m | AGP ps _ _ => Z.of_nat ps end.

Definition oracle14 (t : table) (p : problem) (mo : bool) (a : algo) (b : budget) (o : obs14) : bool :=
  let '(checks, ret, total) := o in
  checks_ok b checks &&
  (match b with
   | EvalBudget n => if 1 <=? n then (n <=? total) && (total <? n + Z.max 1 (batch_size a)) else true
   | _ => true end) &&
  (* the returned individual is at least as good as everything evaluated *)
  (match ret with
   | Some r => forallb (fun x => Qle_bool (aggQ t p (fst x)) (aggQ t p r)) t || (total =? 0)
   | None => total =? 0
   end).

Definition check14 (c : c14case) : bool * bool :=
  match c with
  | K14 t p mo par a b obs =>
      (match run_algo t p mo par a b, obs with
       | Ok s, POk (checks, ret, total) =>
           list_eqb zb_eqb (rev (s_checks s)) (map (fun x => (fst (fst x), snd x)) checks) &&
           option_eqb N.eqb (tr_best (s_tr s)) ret && (count (s_ev s) =? total)
       | Err e, PErr e' => err_eqb e e'
       | _, _ => false
       end,
       match obs with POk o => oracle14 t p mo a b o | PErr _ => true end)
  end.

Definition run_c14 (cases : list c14case) : list N * list N :=
  (failing (fun c => fst (check14 c)) cases, failing (fun c => snd (check14 c)) cases).
