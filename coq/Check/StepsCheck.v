(* StepsCheck.v — executable comparison of the Steps model with observations of the
   implementation and the C15 / C16 / C17 contracts evaluated on those observations. No proofs. *)
From GE Require Import Base Tape Search Steps C18Check SearchCheck.
Open Scope Z_scope.

(* boolean version of wf_step *)
Fixpoint wf_stepb (s : step) : bool :=
  match s with
  | STournament size _ => 1 <=? size
  | SSeq l => negb (match l with [] => true | _ => false end) &&
              (fix all (l : list step) : bool := match l with [] => true | s :: t => wf_stepb s && all t end) l
  | SPar l ws | SExcl l ws =>
      negb (match l with [] => true | _ => false end) && Nat.eqb (length l) (length ws) &&
      forallb (fun w => Qle_bool 0 w) ws && negb (Qle_bool (qsum ws) 0) &&
      (fix all (l : list step) : bool := match l with [] => true | s :: t => wf_stepb s && all t end) l
  | _ => true
  end.

Definition store_of (t : table) (p : problem) : store :=
  flat_map (fun x => match evaluate p (snd x) with Ok (f, _) => [((fst x, 0%N), f)] | Err _ => [] end) t.

Inductive c15case :=
| KLen (mo : bool) (s : step) (n k : Z) (out : pyres Z)
| KInit (i : init) (k : Z) (out : pyres Z).

Fixpoint wf_initb (i : init) : bool := match i with IInject m b => (0 <=? m) && wf_initb b | _ => true end.

Definition check15 (c : c15case) : bool * bool :=
  match c with
  | KLen mo s n k out =>
      (pyres_eqb Z.eqb (out_len mo s n k) out,
       if wf_stepb s && (negb (uses_lexicase s) || mo) && (0 <=? k) && (k <=? n)
       then match out with POk v => v =? k | PErr _ => false end
       else true)
  | KInit i k out =>
      (pyres_eqb Z.eqb (Ok (init_len i k)) out,
       if wf_initb i && (0 <=? k) then match out with POk v => v =? k | PErr _ => false end else true)
  end.

Definition run_c15 (cases : list c15case) : list N * list N :=
  (failing (fun c => fst (check15 c)) cases, failing (fun c => snd (check15 c)) cases).

(* ------------------------------------------------------------------ C16 *)
Inductive c16case :=
| KElit (t : table) (p : problem) (pop : list N) (k : Z) (out : pyres (list N)).

Fixpoint countN (l : list N) (x : N) : nat :=
  match l with [] => O | y :: t => (if N.eqb x y then 1 else 0) + countN t x end.

(* multiset difference pop - out; None if out is not a sub-multiset *)
Fixpoint msub (pop out : list N) : option (list N) :=
  match out with
  | [] => Some pop
  | x :: t => if existsb (N.eqb x) pop then msub (remove_first x pop) t else None
  end.

Definition oracle16 (t : table) (p : problem) (pop : list N) (k : Z) (out : list N) : bool :=
  (zlen out =? Z.min k (zlen pop)) &&
  match msub pop out with
  | None => false
  | Some rest => forallb (fun x => forallb (fun y => Qle_bool (aggQ t p y) (aggQ t p x)) rest) out
  end.

Definition check16 (c : c16case) : bool * bool :=
  match c with
  | KElit t p pop k out =>
      (pyres_eqb (list_eqb N.eqb) (elitism (store_of t p) 0%N pop k) out,
       match out with POk o => if 0 <=? k then oracle16 t p pop k o else true | PErr _ => true end)
  end.

Definition run_c16 (cases : list c16case) : list N * list N :=
  (failing (fun c => fst (check16 c)) cases, failing (fun c => snd (check16 c)) cases).

(* ------------------------------------------------------------------ C17 *)
Inductive c17case :=
| KTour (t : table) (p : problem) (pop : list N) (k : nat) (size : nat) (repl : bool) (r : src)
        (out : pyres (list (N * list N)))                       (* winners with the participants observed *)
| KLex (t : table) (p : problem) (mins : list bool) (pop : list N) (k : nat) (eps : bool) (r : src)
       (out : pyres (list (N * list nat))).                     (* winners with the case order observed *)

Definition wp_eqb (a b : N * list N) : bool := N.eqb (fst a) (fst b) && list_eqb N.eqb (snd a) (snd b).
Definition wc_eqb (a b : N * list nat) : bool := N.eqb (fst a) (fst b) && list_eqb Nat.eqb (snd a) (snd b).

Definition oracle_tour (t : table) (p : problem) (pop : list N) (k size : nat) (o : list (N * list N)) : bool :=
  Nat.eqb (length o) k &&
  forallb (fun wp => existsb (N.eqb (fst wp)) (snd wp) &&
                     forallb (fun x => existsb (N.eqb x) pop) (snd wp) &&
                     Nat.eqb (length (snd wp)) size &&
                     forallb (fun x => Qle_bool (aggQ t p x) (aggQ t p (fst wp))) (snd wp)) o.

Fixpoint nat_perm_b (a b : list nat) : bool :=
  Nat.eqb (length a) (length b) && forallb (fun x => existsb (Nat.eqb x) b) a && forallb (fun x => existsb (Nat.eqb x) a) b.

Fixpoint oracle_lex (s : store) (eps : bool) (mins : list bool) (ncases : nat) (avail : list N) (o : list (N * list nat)) : bool :=
  match o with
  | [] => true
  | (w, cases) :: rest =>
      nat_perm_b cases (nat_range ncases) &&
      existsb (N.eqb w) avail &&
      (match lex_filter s 0%N eps mins avail cases with
       | Ok surv => existsb (N.eqb w) surv
       | Err _ => false
       end) &&
      oracle_lex s eps mins ncases (remove_first w avail) rest
  end.

Definition check17 (c : c17case) : bool * bool :=
  match c with
  | KTour t p pop k size repl r out =>
      (pyres_eqb (list_eqb wp_eqb) (match tournament (store_of t p) 0%N k r pop pop size repl with Ok (x, _) => Ok x | Err e => Err e end) out,
       match out with POk o => oracle_tour t p pop k size o | PErr _ => true end)
  | KLex t p mins pop k eps r out =>
      let s := store_of t p in
      (pyres_eqb (list_eqb wc_eqb)
         (match lexicase s 0%N k r eps mins (length mins) pop with
          | Ok (x, _) => Ok (map (fun y => (fst (fst y), snd y)) x) | Err e => Err e end) out,
       match out with POk o => Nat.eqb (length o) k && oracle_lex s eps mins (length mins) pop o | PErr _ => true end)
  end.

Definition run_c17 (cases : list c17case) : list N * list N :=
  (failing (fun c => fst (check17 c)) cases, failing (fun c => snd (check17 c)) cases).
