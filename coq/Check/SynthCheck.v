(* SynthCheck.v — comparison of the synthesis model with observed runs of the implementation, and the
   contracts of C01 / C02 / C03 / C10 evaluated on the observations.  No proofs. *)
From GE Require Import Base Tape Grammar WellTyped Synth C18Check GrammarCheck.
Open Scope Z_scope.

(* values up to float rounding *)
Fixpoint value_close (a b : value) : bool :=
  let fix all2 (l1 l2 : list value) : bool :=
    match l1, l2 with
    | [], [] => true
    | x :: t, y :: u => value_close x y && all2 t u
    | _, _ => false
    end in
  match a, b with
  | VFloat FAny, VFloat _ | VFloat _, VFloat FAny => true
  | VFloat (FQ x), VFloat (FQ y) => Qclose x y
  | VNode c l1, VNode c' l2 => Nat.eqb c c' && all2 l1 l2
  | VList l1, VList l2 => all2 l1 l2
  | VTuple l1, VTuple l2 => all2 l1 l2
  | _, _ => value_eqb a b
  end.

Definition draw_eqb (a b : draw) : bool :=
  match a, b with DI x, DI y => x =? y | DF x, DF y => Qeq_bool x y | _, _ => false end.

Inductive srcobs := ONative (rest : list draw) | OLW (idx : nat).
Definition src_matches (s : src) (o : srcobs) : bool :=
  match s, o with
  | Native t, ONative r => list_eqb draw_eqb t r
  | LW _ _ i, OLW j => Nat.eqb i j
  | _, _ => false
  end.

Definition alts_obs_eqb (m : list (nat * list nat)) (o : list (nat * list nat)) : bool :=
  list_eqb (fun x y => Nat.eqb (fst x) (fst y) && list_eqb Nat.eqb (snd x) (snd y)) m o.

Inductive phase := PhExtract | PhValidate | PhCreate.

Record sobs := mkSO {
  so_phase : phase;
  so_res : pyres value;
  so_src : srcobs;
  so_alts_before : list (nat * list nat);
  so_alts_after : list (nat * list nat);
  so_expanding : option bool
}.

Inductive scase :=
| KSynth (d : decl) (k : dkind) (s : src) (start : option ty) (o : sobs).

Definition dk_depth (k : dkind) : option Z :=
  match k with DMax D | DFull D | DPI D | DDsge D => Some D | DProg => None end.

Definition run_model (d : decl) (k : dkind) (s : src) (start : option ty) : phase * res value * option sst :=
  match extract d id_order with
  | Err e => (PhExtract, Err e, None)
  | Ok g =>
      match decider_validate g k with
      | Err e => (PhValidate, Err e, Some (st_init g s))
      | Ok _ =>
          let t := match start with Some t => t | None => TSym (d_start d) end in
          let D := match dk_depth k with Some D => D | None => 30 end in
          let '(r, st) := create_node (synth_fuel g D) g k t ctx0 [] (st_init g s) in
          (* random_tree asserts isinstance(ind, starting_symbol): always true for well-typed results *)
          (PhCreate, r, Some st)
      end
  end.

Definition phase_eqb (a b : phase) : bool :=
  match a, b with PhExtract, PhExtract | PhValidate, PhValidate | PhCreate, PhCreate => true | _, _ => false end.

Definition synth_corr (c : scase) : bool :=
  match c with
  | KSynth d k s start o =>
      let '(ph, r, st) := run_model d k s start in
      phase_eqb ph (so_phase o) &&
      match r, so_res o with
      | Err OutOfFuel, _ => match k with DProg => true | _ => match so_res o with PErr OutOfFuel => true | _ => false end end
      (* the unbounded decider was cut (RecursionError or the per-call time limit): the recorded tape ends where the cut happened,
         so the model may run out of tape instead of fuel *)
      | Err BadTape, PErr OutOfFuel => match k with DProg => true | _ => false end
      | Ok v, POk w => value_close v w
      | Err e, PErr e' => err_eqb e e'
      | _, _ => false
      end &&
      match st, so_phase o with
      | Some st, PhCreate =>
          (* a scripted tape that ended or did not fit is an artefact of the harness: no state to compare *)
          match so_res o, r with
          | PErr BadTape, _ | PErr OutOfFuel, _ | _, Err OutOfFuel => true
          | _, _ => src_matches (st_src st) (so_src o) && alts_obs_eqb (st_alts st) (so_alts_after o) &&
                 (match k with DPI _ => option_eqb Bool.eqb (st_exp st) (so_expanding o) | _ => true end)
          end
      | _, _ => true
      end
  end.

(* ---------- contracts on the observation ---------- *)
Definition obs_grammar (d : decl) : option grammar := match extract d id_order with Ok g => Some g | Err _ => None end.

Definition wt_fuel (v : value) : nat := (20 + 3 * value_size v)%nat.

(* C01: the result is a fully built well-typed program, or the library's own error *)
Definition c01_ok (c : scase) : bool :=
  match c with
  | KSynth d k s start o =>
      match obs_grammar d, so_phase o with
      | Some g, PhCreate =>
          let t := match start with Some t => t | None => TSym (d_start d) end in
          match so_res o with
          | POk v => wtb (g_decl g) (g_reg g) false (wt_fuel v) t v
          | PErr e => library_error e || err_eqb e BadTape
          end
      | Some g, PhValidate => match so_res o with PErr e => library_error e | POk _ => false end
      | _, _ => true
      end
  end.

(* C10: the productions are the same after the call, whatever its outcome *)
Definition c10_ok (c : scase) : bool :=
  match c with
  | KSynth d k s start o =>
      match so_phase o with
      | PhExtract => true
      | _ => alts_obs_eqb (so_alts_before o) (so_alts_after o)
      end
  end.

(* C03: depth limit respected; feasible limits usable; infeasible ones rejected up-front *)
Definition c03_ok (c : scase) : bool :=
  match c with
  | KSynth d k s start o =>
      match obs_grammar d, dk_depth k, start with
      | Some g, Some D, None =>
          match min_tree_depth g with
          | Ok mn =>
              if D <? mn then
                (* rejected at construction with the library's error, not midway *)
                match so_phase o, so_res o with PhValidate, PErr GeneticEngineError => true | _, _ => false end
              else
                match so_phase o, so_res o with
                | PhCreate, POk v => vdepth v <=? D
                | PhCreate, PErr BadTape => true
                | PhCreate, PErr SynthesisException => true   (* infeasible dependent refinements may exhaust the productions *)
                | _, _ => false
                end
          | Err _ => true
          end
      | _, _, _ => true
      end
  end.

(* C02: the documented predicate of every refinement, strict (an empty range is satisfied by nothing),
   dependent refinements against the actual sibling values; floats up to rounding *)
Definition vkind_is (b : base) (v : value) : bool :=
  match b, v with BInt, VInt _ | BFloat, VFloat _ | BStr, VStr _ | BBool, VBool _ => true | _, _ => false end.

Definition Qle_tol (a b : Q) : bool := Qle_bool a (b + tol a b)%Q.

Fixpoint satb (d : decl) (r : rstate) (fuel : nat) (deps : list value) (t : ty) (v : value) : bool :=
  match fuel with
  | O => false
  | S f =>
      let fix fieldsb (deps : list value) (ts : list ty) (vs : list value) : bool :=
        match ts, vs with
        | [], [] => true
        | t :: ts', v :: vs' => satb d r f deps t v && fieldsb (deps ++ [v]) ts' vs'
        | _, _ => false
        end in
      let fix tupleb (ts : list ty) (vs : list value) : bool :=
        match ts, vs with
        | [], [] => true
        | t :: ts', v :: vs' => satb d r f [] t v && tupleb ts' vs'
        | _, _ => false
        end in
      match t with
      | TBase b => vkind_is b v
      | TSym c => match v with
                  | VNode c' args => prod_ofb d r (S (length (d_classes d))) c c' && fieldsb [] (fields_of d (SC c')) args
                  | _ => false end
      | TList t' => match v with VList vs => forallb (satb d r f [] t') vs | _ => false end
      | TTuple ts => match v with VTuple vs => tupleb ts vs | _ => false end
      | TUnion ts => existsb (fun t' => satb d r f deps t' v) ts
      | TAnn base m =>
          match m with
          | MIntRange lo hi => satb d r f deps base v && match v with VInt z => (lo <=? z) && (z <=? hi) | _ => false end
          | MIntList xs => satb d r f deps base v && match v with VInt z => existsb (Z.eqb z) xs | _ => false end
          | MFloatRange lo hi => satb d r f deps base v && match v with VFloat (FQ q) => Qle_tol lo q && Qle_tol q hi | VFloat FAny => true | _ => false end
          | MFloatList xs => satb d r f deps base v && match v with VFloat (FQ q) => existsb (Qclose q) xs | _ => false end
          | MVarRange opts => satb d r f deps base v && existsb (value_close v) opts
          | MListSize lo hi _ =>
              match base, v with
              | TList inner, VList vs => forallb (satb d r f deps inner) vs && (lo <=? zlen vs) && (zlen vs <=? hi)
              | _, _ => false end
          | MStringSize lo hi alphabet =>
              satb d r f deps base v &&
              match v with VStr cs => (lo <=? zlen cs) && (zlen cs <=? hi) && forallb (fun c => existsb (Z.eqb c) alphabet) cs | _ => false end
          | MWeightedString rows alphabet =>
              satb d r f deps base v &&
              match v with VStr cs => (zlen cs =? zlen rows) && forallb (fun c => existsb (Z.eqb c) alphabet) cs | _ => false end
          | MInterval minlen maxlen top =>
              satb d r f deps base v &&
              match v with VTuple [VInt a; VInt b] => (minlen <=? b - a) && (b - a <=? maxlen) && (0 <=? a) && (b <=? top) | _ => false end
          | MDependent names fn =>
              match lookup_deps deps names with
              | Ok vals => match eval_dep fn vals with Ok m' => satb d r f deps (TAnn base m') v | Err _ => false end
              | Err _ => false end
          end
      end
  end.

Definition c02_ok (c : scase) : bool :=
  match c with
  | KSynth d k s start o =>
      match obs_grammar d, so_phase o, so_res o with
      | Some g, PhCreate, POk v =>
          let t := match start with Some t => t | None => TSym (d_start d) end in
          satb (g_decl g) (g_reg g) (wt_fuel v) [] t v
      | _, _, _ => true
      end
  end.

(* known finding F38 (what is left of it): with a terminating production switched off by weight 0 the progressive decider may recurse without end *)
Definition f38_region (c : scase) : bool :=
  match c with
  | KSynth d DProg s start o =>
      match so_res o with
      | PErr OutOfFuel => existsb (fun cl => match c_weight cl with Some q => Qeq_bool q 0 | None => false end) (d_classes d)
      | _ => false
      end
  | _ => false
  end.

Definition run_synth (f : scase -> bool) (cases : list scase) : list N * list N :=
  (failing synth_corr cases, failing f cases).
Definition run_c10 := run_synth c10_ok.
Definition run_c03 := run_synth c03_ok.
Definition run_c02 := run_synth c02_ok.
(* (correspondence, C01 outside known regions, F38 hits) *)
Definition run_c01 (cases : list scase) : list N * list N * list N :=
  (failing synth_corr cases, failing (fun c => c01_ok c || f38_region c) cases,
   failing (fun c => c01_ok c || negb (f38_region c)) cases).

(* ---------- a refinement on its own: generate, then validate (C02, second clause) ---------- *)
Inductive mhcase :=
| KMh (m : mh) (s : src) (res : pyres value) (so : srcobs) (val : option (pyres bool)).

Definition st_of_src (s : src) : sst := mkSt s None [] [] [].

Definition mh_corr (c : mhcase) : bool :=
  match c with
  | KMh m s res so val =>
      match mh_generate_flat m with
      | None => true
      | Some gen =>
          let '(r, st) := gen (st_of_src s) in
          match r, res with
          | Ok v, POk w => value_close v w && src_matches (st_src st) so &&
                           match val, mh_validate m w with
                           | Some (POk b), Ok b' => Bool.eqb b b'
                           | Some (PErr e), Err e' => err_eqb e e'
                           | None, _ => true
                           | _, _ => false
                           end
          | Err e, PErr e' => err_eqb e e'
          | _, _ => false
          end
      end
  end.

(* what generate made is accepted by the refinement's own validate *)
Definition mh_ok (c : mhcase) : bool :=
  match c with
  | KMh m s res so val =>
      match res, val with
      | POk _, Some (POk true) => true
      | POk _, _ => false
      | PErr _, _ => true
      end
  end.

Definition run_mh (cases : list mhcase) : list N * list N := (failing mh_corr cases, failing mh_ok cases).
