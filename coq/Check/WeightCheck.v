(* WeightCheck.v — C19, last clause: a weight-aware chooser (ProgressivelyTerminalDecider through choice_weighted)
   never puts a zero-weight production into a program while its abstract type has a positive-weight production.
   Evaluated on programs the implementation produced; correspondence with the model as in SynthCheck.  No proofs. *)
From GE Require Import Base Tape Grammar WellTyped Synth C18Check GrammarCheck SynthCheck.
Open Scope Z_scope.

Fixpoint nodes_of (v : value) : list nat :=
  let fix go (l : list value) : list nat := match l with [] => [] | x :: t => nodes_of x ++ go t end in
  match v with
  | VNode c args => c :: go args
  | VList vs | VTuple vs => go vs
  | _ => []
  end.

(* the weight the user declared (None counts as one) *)
Definition declared_zero (d : decl) (c : nat) : bool :=
  match get_cls d c with Some k => match c_weight k with Some q => Qeq_bool q 0 | None => false end | None => false end.

(* some production of the same abstract parent has a positive weight *)
Definition positive_sibling (d : decl) (g : grammar) (c : nat) : bool :=
  match get_cls d c with
  | Some k => match c_parent k with
              | Some p => match get_alts (r_alts (g_reg g)) p with
                          (* available = can be built at all: a production at infinite distance is dropped by backtracking *)
                          | Some l => existsb (fun s => negb (declared_zero d s) &&
                                                        match gdist_ty g (TSym s) with Ok v => v <? INF | Err _ => false end) l
                          | None => false end
              | None => false end
  | None => false
  end.

Definition c19w_ok (c : scase) : bool :=
  match c with
  | KSynth d k s start o =>
      match obs_grammar d, so_res o with
      | Some g, POk v => forallb (fun n => negb (declared_zero d n && positive_sibling d g n)) (nodes_of v)
      | _, _ => true
      end
  end.

Definition run_c19w := run_synth c19w_ok.
