(* WeightCheck.v — C19, last clause: a weight-aware chooser (ProgressivelyTerminalDecider through choice_weighted)
   never puts a zero-weight production into a program while its abstract type has a positive-weight production.
   Evaluated on programs the implementation produced; correspondence with the model as in SynthCheck.  No proofs. *)
From GE Require Import Base Tape Grammar WellTyped Synth C18Check GrammarCheck SynthCheck.
Open Scope Z_scope.

Fixpoint nodes_of (v : value) : list nat :=
  let fix go (l : list value) : list nat := match l with [] => [] | x :: t => nodes_of x ++ go t end in
  match v with
  | VNode c args => c :: go args
  | VList vs | VTuple vs => go vs
  | _ => []
  end.

(* the weight the user declared (None counts as one) *)
Definition declared_zero (d : decl) (c : nat) : bool :=
  match get_cls d c with Some k => match c_weight k with Some q => Qeq_bool q 0 | None => false end | None => false end.

(* some production of the same abstract parent has a positive weight *)
Definition positive_sibling (d : decl) (g : grammar) (c : nat) : bool :=
  match get_cls d c with
  | Some k => match c_parent k with
              | Some p => match get_alts (r_alts (g_reg g)) p with
                          (* available = can be built at all: a production at infinite distance is dropped by backtracking *)
                          | Some l => existsb (fun s => negb (declared_zero d s) &&
                                                        match gdist_ty g (TSym s) with Ok v => v <? INF | Err _ => false end) l
                          | None => false end
              | None => false end
  | None => false
  end.

(* the chain of production choices that leads from the declared class c to the produced class c': at every abstract
   type on the way, the alternative taken must not be a zero-weight one while a positive-weight, buildable one exists.
   A field declared with a concrete class involves no choice. *)
Definition available_positive (d : decl) (g : grammar) (l : list nat) : bool :=
  existsb (fun s => negb (declared_zero d s) && match gdist_ty g (TSym s) with Ok v => v <? INF | Err _ => false end) l.

Fixpoint choice_ok (d : decl) (g : grammar) (fuel : nat) (c c' : nat) : bool :=
  match fuel with
  | O => true
  | S f =>
      if is_abstract d (SC c)
      then match get_alts (r_alts (g_reg g)) c with
           | Some l =>
               match find (fun p => prod_ofb d (g_reg g) (S (length (d_classes d))) p c') l with
               | Some p => negb (declared_zero d p && available_positive d g l) && choice_ok d g f p c'
               | None => true
               end
           | None => true
           end
      else true
  end.

Fixpoint weights_respected (d : decl) (g : grammar) (fuel : nat) (t : ty) (v : value) : bool :=
  match fuel with
  | O => true
  | S f =>
      let fix all2 (ts : list ty) (vs : list value) : bool :=
        match ts, vs with
        | t0 :: ts', v0 :: vs' => weights_respected d g f t0 v0 && all2 ts' vs'
        | _, _ => true
        end in
      match t, v with
      | TSym c, VNode c' args => choice_ok d g (S (length (d_classes d))) c c' && all2 (fields_of d (SC c')) args
      | TList t', VList vs => forallb (weights_respected d g f t') vs
      | TTuple ts, VTuple vs => all2 ts vs
      | TUnion ts, _ => existsb (fun t' => wtb d (g_reg g) false (wt_fuel v) t' v && weights_respected d g f t' v) ts
      | TAnn t' _, _ => weights_respected d g f t' v
      | _, _ => true
      end
  end.

Definition c19w_ok (c : scase) : bool :=
  match c with
  | KSynth d k s start o =>
      match obs_grammar d, so_res o with
      | Some g, POk v => weights_respected (g_decl g) g (wt_fuel v) (TSym (d_start d)) v
      | _, _ => true
      end
  end.

Definition run_c19w := run_synth c19w_ok.
