(* Base.v — common vocabulary of every model file: Python exceptions as error
   constructors, the result monad, small list helpers.  Definitions only. *)
From Coq Require Export ZArith List Bool Lia QArith Qround.
Export ListNotations.
Open Scope Z_scope.

(* Python exception classes that the modelled code can raise.  [BadTape] and
   [OutOfFuel] are artefacts of the model (a scripted draw outside the range the
   code asked for; recursion fuel exhausted) and are excluded by theorem
   statements.  [GeneticEngineError] and [SynthesisException] are the library's
   own error types; every other constructor is a foreign exception. *)
Inductive err :=
| BadTape | OutOfFuel
| GeneticEngineError | SynthesisException
| AssertionError | IndexError | KeyError | ZeroDivisionError | TypeError
| AttributeError | UnboundLocalError | NotImplementedError | ValueError
| StopIteration | OtherError.

Definition err_eqb (a b : err) : bool :=
  match a, b with
  | BadTape, BadTape | OutOfFuel, OutOfFuel | GeneticEngineError, GeneticEngineError
  | SynthesisException, SynthesisException | AssertionError, AssertionError
  | IndexError, IndexError | KeyError, KeyError | ZeroDivisionError, ZeroDivisionError
  | TypeError, TypeError | AttributeError, AttributeError
  | UnboundLocalError, UnboundLocalError | NotImplementedError, NotImplementedError
  | ValueError, ValueError | StopIteration, StopIteration | OtherError, OtherError => true
  | _, _ => false
  end.

Definition library_error (e : err) : bool :=
  match e with GeneticEngineError | SynthesisException => true | _ => false end.

Inductive res (A : Type) : Type :=
| Ok (a : A)
| Err (e : err).
Arguments Ok {A} a.
Arguments Err {A} e.

Definition bind {A B} (r : res A) (f : A -> res B) : res B :=
  match r with Ok a => f a | Err e => Err e end.

Notation "'let*' x ':=' r 'in' k" := (bind r (fun x => k))
  (at level 200, x pattern, r at level 100, k at level 200, right associativity).

Definition res_eqb {A} (eqb : A -> A -> bool) (x y : res A) : bool :=
  match x, y with
  | Ok a, Ok b => eqb a b
  | Err e, Err f => err_eqb e f
  | _, _ => false
  end.

Definition is_ok {A} (r : res A) : bool := match r with Ok _ => true | Err _ => false end.

(* list helpers (no totalising defaults: [nth_error] only) *)
Fixpoint list_eqb {A} (eqb : A -> A -> bool) (l1 l2 : list A) : bool :=
  match l1, l2 with
  | [], [] => true
  | x :: xs, y :: ys => eqb x y && list_eqb eqb xs ys
  | _, _ => false
  end.

Definition option_eqb {A} (eqb : A -> A -> bool) (a b : option A) : bool :=
  match a, b with
  | Some x, Some y => eqb x y
  | None, None => true
  | _, _ => false
  end.

Definition pair_eqb {A B} (ea : A -> A -> bool) (eb : B -> B -> bool) (x y : A * B) : bool :=
  ea (fst x) (fst y) && eb (snd x) (snd y).

Definition zlen {A} (l : list A) : Z := Z.of_nat (length l).

(* nth with a Z index, Python style for non-negative indices only *)
Definition znth {A} (l : list A) (i : Z) : option A :=
  if i <? 0 then None else nth_error l (Z.to_nat i).

Fixpoint set_nth {A} (l : list A) (n : nat) (x : A) : list A :=
  match l, n with
  | [], _ => []
  | _ :: t, O => x :: t
  | h :: t, S m => h :: set_nth t m x
  end.

Fixpoint remove_nth {A} (l : list A) (n : nat) : list A :=
  match l, n with
  | [], _ => []
  | _ :: t, O => t
  | h :: t, S m => h :: remove_nth t m
  end.

Definition Qeqb (a b : Q) : bool := Qeq_bool a b.

Fixpoint qsum (l : list Q) : Q := match l with [] => 0%Q | x :: t => (x + qsum t)%Q end.

(* failures of a batch of boolean checks: indices (as N) of the cases that fail *)
Fixpoint failing_from {A} (f : A -> bool) (i : N) (l : list A) : list N :=
  match l with
  | [] => []
  | x :: t => if f x then failing_from f (N.succ i) t else i :: failing_from f (N.succ i) t
  end.
Definition failing {A} (f : A -> bool) (l : list A) : list N := failing_from f 0%N l.
