(* Csv.v — model of evaluation/recorder.py (CSVSearchRecorder) and of the extra-field wrapping in
   geml/simplegp.py (SimpleGP.build_recorder), after the repair of F33 (late-binding closures).
   The file is a list of complete rows on disk plus the writer's unflushed buffer.
   Definitions only. *)
From GE Require Export Base Search.
Open Scope Z_scope.

(* a column: what its extractor computes from the registered individual *)
Inductive col :=
| ColTime                      (* "Execution Time" *)
| ColPheno                     (* "Phenotype" *)
| ColFit (k : nat)             (* "Fitness<k>": the k-th fitness component *)
| ColExtra (cb : nat).         (* an extra field: the user's callback number cb *)

Inductive cell :=
| CTime
| CPheno (i : N)
| CFit (q : Q)
| CUser (cb : nat) (i : N)
| CFail.                       (* the extractor would raise *)

Inductive row := RHeader (cols : list col) | RRow (cells : list cell).

(* the default fields built by the constructor for a problem with [nobj] objectives, followed by
   the extra fields *)
Fixpoint fit_cols (k n : nat) : list col :=
  match n with O => [] | S m => ColFit k :: fit_cols (S k) m end.
Definition default_cols (nobj : nat) (extras : list nat) : list col :=
  ColTime :: ColPheno :: fit_cols 0 nobj ++ map ColExtra extras.

Definition cell_of (fit : N -> list Q) (i : N) (c : col) : cell :=
  match c with
  | ColTime => CTime
  | ColPheno => CPheno i
  | ColFit k => match nth_error (fit i) k with Some q => CFit q | None => CFail end
  | ColExtra cb => CUser cb i
  end.

Definition row_of (fit : N -> list Q) (cols : list col) (i : N) : row := RRow (map (cell_of fit i) cols).

Record csv := mkCsv { c_cols : list col; only_best : bool; disk : list row; buf : list row }.

Definition writerow (c : csv) (r : row) : csv := mkCsv (c_cols c) (only_best c) (disk c) (buf c ++ [r]).
Definition flush (c : csv) : csv := mkCsv (c_cols c) (only_best c) (disk c ++ buf c) [].

(* CSVSearchRecorder.__init__: header row written and flushed *)
Definition csv_init (cols : list col) (ob : bool) : csv :=
  flush (writerow (mkCsv cols ob [] []) (RHeader cols)).

(* CSVSearchRecorder.register *)
Definition csv_register (fit : N -> list Q) (c : csv) (reg : N * bool) : csv :=
  if negb (only_best c) || snd reg then flush (writerow c (row_of fit (c_cols c) (fst reg))) else c.

Definition csv_run (fit : N -> list Q) (cols : list col) (ob : bool) (regs : list (N * bool)) : csv :=
  fold_left (csv_register fit) regs (csv_init cols ob).
