(* Grammar.v — model of grammar/grammar.py (Grammar.register_type, register_alternative,
   preprocess, get_distance_to_terminal, get_weights, update_weights, extract_grammar,
   usable_grammar) and of the type-form tests of grammar/utils.py, after the repairs
   F08 (union = min), F09 (bool costs 0), F11 (recursion through tuples), F12 (usable_grammar on
   nested generics), F32 (weights stored for every registered production).
   A class hierarchy is a [decl]: classes are numbered in definition order; a class's parent is its
   first base class (None for a direct subclass of ABC / object).  Definitions only. *)
From GE Require Export Base.
Open Scope Z_scope.

Inductive base := BInt | BFloat | BStr | BBool.
Inductive sym := SB (b : base) | SC (c : nat).

Definition base_eqb (a b : base) : bool :=
  match a, b with BInt, BInt | BFloat, BFloat | BStr, BStr | BBool, BBool => true | _, _ => false end.
Definition sym_eqb (a b : sym) : bool :=
  match a, b with SB x, SB y => base_eqb x y | SC x, SC y => Nat.eqb x y | _, _ => false end.

(* float values: exact when produced by exact arithmetic, opaque otherwise (Box-Muller etc.) *)
Inductive fval := FQ (q : Q) | FAny.

(* program values *)
Inductive value :=
| VInt (z : Z) | VFloat (f : fval) | VStr (s : list Z)      (* a string as its code points *)
| VBool (b : bool)
| VNode (c : nat) (args : list value)
| VList (vs : list value)
| VTuple (vs : list value)
| VForeign.                                                  (* anything else (e.g. a generator object) *)

(* the defunctionalised family of Dependent(...) callables the model covers *)
Inductive depfun :=
| DIntRangeLo (hi : Z)         (* lambda a: IntRange(a, hi) *)
| DIntRangeHi (lo : Z)         (* lambda a: IntRange(lo, a) *)
| DVarRangeOf                  (* lambda xs: VarRange(xs)        (xs: a sibling list) *)
| DListSizeUpTo                (* lambda n: ListSizeBetween(0, n) *)
| DIntRange2.                  (* lambda a, b: IntRange(b - a, b)   (two dependencies, in the order named) *)

Inductive mh :=
| MIntRange (lo hi : Z)
| MIntList (xs : list Z)
| MFloatRange (lo hi : Q)
| MFloatList (xs : list Q)
| MVarRange (opts : list value)
| MListSize (lo hi : Z) (ops : bool)             (* ListSizeBetween / ...WithoutListOperations *)
| MStringSize (lo hi : Z) (alphabet : list Z)
| MWeightedString (rows : list (list Q)) (alphabet : list Z)
| MInterval (minlen maxlen top : Z)
| MDependent (deps : list nat) (f : depfun).     (* depends on the sibling fields numbered [deps], in this order *)

Inductive ty :=
| TBase (b : base)
| TSym (c : nat)
| TList (t : ty)
| TTuple (ts : list ty)
| TUnion (ts : list ty)
| TAnn (t : ty) (m : mh).

Record cls := mkCls {
  c_parent : option nat;         (* first base class if it is one of the user's classes *)
  c_abs : bool;                  (* direct subclass of ABC/Protocol, or decorated @abstract *)
  c_fields : list ty;            (* constructor arguments in order (fields are numbered) *)
  c_weight : option Q            (* __gengy__["weight"] if present *)
}.

Record decl := mkDecl {
  d_classes : list cls;
  d_considered : list nat;       (* considered_subtypes *)
  d_start : nat;                 (* starting_symbol *)
  d_xdepth : bool                (* expansion_depthing *)
}.

Definition INF : Z := 1000000.

Definition get_cls (d : decl) (c : nat) : option cls := nth_error (d_classes d) c.

Definition is_abstract (d : decl) (s : sym) : bool :=
  match s with
  | SB _ => false
  | SC c => match get_cls d c with Some k => c_abs k | None => false end
  end.

Definition fields_of (d : decl) (s : sym) : list ty :=
  match s with
  | SB _ => []
  | SC c => match get_cls d c with Some k => c_fields k | None => [] end
  end.

(* issubclass(st, c): c is st or one of st's ancestors (parents precede children, so the chain is
   followed on fuel = number of classes) *)
Fixpoint subclass_fuel (fuel : nat) (d : decl) (st c : nat) : bool :=
  Nat.eqb st c ||
  match fuel with
  | O => false
  | S f => match get_cls d st with
           | Some k => match c_parent k with Some p => subclass_fuel f d p c | None => false end
           | None => false
           end
  end.
Definition subclass (d : decl) (st c : nat) : bool := subclass_fuel (length (d_classes d)) d st c.

Definition mem_sym (s : sym) (l : list sym) : bool := existsb (sym_eqb s) l.

(* ---------- registration ---------- *)
Record rstate := mkR {
  r_nodes : list sym;                     (* all_nodes, in registration order *)
  r_alts : list (nat * list nat);         (* alternatives, keys in insertion order *)
  r_term : list sym;
  r_nonterm : list sym
}.
Definition r0 : rstate := mkR [] [] [] [].

Fixpoint add_alt (alts : list (nat * list nat)) (p c : nat) : list (nat * list nat) :=
  match alts with
  | [] => [(p, [c])]
  | (q, l) :: t => if Nat.eqb p q then (q, l ++ [c]) :: t else (q, l) :: add_alt t p c
  end.

Fixpoint get_alts (alts : list (nat * list nat)) (p : nat) : option (list nat) :=
  match alts with
  | [] => None
  | (q, l) :: t => if Nat.eqb p q then Some l else get_alts t p
  end.

Definition sym_of_ty_head (t : ty) : option sym :=
  match t with TBase b => Some (SB b) | TSym c => Some (SC c) | _ => None end.

(* Grammar.register_type.  [fuel] bounds the recursion depth (every non-trivial call registers a new
   symbol before recursing, so depth <= #symbols * nesting).  The loops of the method are separate
   definitions parameterised by the recursive call [rg]. *)
Fixpoint reg_list (rg : ty -> rstate -> res rstate) (ts : list ty) (s : rstate) : res rstate :=
  match ts with [] => Ok s | x :: r => let* s' := rg x s in reg_list rg r s' end.

(* for st in considered_subtypes: if issubclass(st, ty): register_type(st) *)
Fixpoint reg_subs (rg : ty -> rstate -> res rstate) (d : decl) (sy : sym) (l : list nat) (s : rstate) : res rstate :=
  match l with
  | [] => Ok s
  | st :: r =>
      let* s' := (match sy with
                  | SC c => if subclass d st c then rg (TSym st) s else Ok s
                  | SB _ => Ok s
                  end) in
      reg_subs rg d sy r s'
  end.

(* parent = ty.mro()[1]; register it and record the production parent -> ty *)
Definition reg_parent (rg : ty -> rstate -> res rstate) (d : decl) (sy : sym) (s1 : rstate) : res rstate :=
  match sy with
  | SB _ => Ok s1
  | SC c =>
      match get_cls d c with
      | None => Err KeyError
      | Some k =>
          match c_parent k with
          | None => Ok s1
          | Some p =>
              let* s' := rg (TSym p) s1 in
              if is_abstract d (SC p)
              then Ok (mkR (r_nodes s') (add_alt (r_alts s') p c) (r_term s') (r_nonterm s'))
              else Err OtherError   (* alternative on a non-abstract class *)
          end
      end
  end.

Definition reg_new (rg : ty -> rstate -> res rstate) (d : decl) (sy : sym) (s : rstate) : res rstate :=
  let s1 := mkR (r_nodes s ++ [sy]) (r_alts s) (r_term s) (r_nonterm s) in
  let* s2 := reg_parent rg d sy s1 in
  let abstract := is_abstract d sy in
  let flds := if abstract then [] else fields_of d sy in
  let* s3 := reg_list rg flds s2 in
  let* s4 := reg_subs rg d sy (d_considered d) s3 in
  let terminal := negb abstract && (match flds with [] => true | _ => false end) in
  Ok (if terminal then mkR (r_nodes s4) (r_alts s4) (r_term s4 ++ [sy]) (r_nonterm s4)
      else mkR (r_nodes s4) (r_alts s4) (r_term s4) (r_nonterm s4 ++ [sy])).

Fixpoint reg (fuel : nat) (d : decl) (t : ty) (s : rstate) : res rstate :=
  match fuel with
  | O => Err OutOfFuel
  | S f =>
      match t with
      | TList t' | TAnn t' _ => reg f d t' s
      | TTuple ts | TUnion ts => reg_list (reg f d) ts s
      | TBase b => if mem_sym (SB b) (r_nodes s) then Ok s else reg_new (reg f d) d (SB b) s
      | TSym c => if mem_sym (SC c) (r_nodes s) then Ok s else reg_new (reg f d) d (SC c) s
      end
  end.

Definition reg_fuel (d : decl) : nat := 40 + 12 * length (d_classes d).

(* ---------- distances ---------- *)
Definition dmap := list (sym * Z).
Fixpoint dget (m : dmap) (s : sym) : option Z :=
  match m with [] => None | (k, v) :: t => if sym_eqb s k then Some v else dget t s end.
Fixpoint dset (m : dmap) (s : sym) (v : Z) : dmap :=
  match m with
  | [] => [(s, v)]
  | (k, w) :: t => if sym_eqb s k then (k, v) :: t else (k, w) :: dset t s v
  end.

Definition xd (d : decl) : Z := if d_xdepth d then 1 else 0.

Fixpoint zmin_l (x : Z) (l : list Z) : Z := match l with [] => x | y :: t => zmin_l (Z.min x y) t end.
Fixpoint zmax_l (x : Z) (l : list Z) : Z := match l with [] => x | y :: t => zmax_l (Z.max x y) t end.

(* Grammar.get_distance_to_terminal *)
Fixpoint dist_ty (d : decl) (m : dmap) (t : ty) : res Z :=
  let all := (fix go (ts : list ty) : res (list Z) :=
                match ts with [] => Ok [] | x :: r => let* v := dist_ty d m x in let* vs := go r in Ok (v :: vs) end) in
  match t with
  | TAnn t' _ => dist_ty d m t'
  | TList t' => let* v := dist_ty d m t' in Ok (xd d + v)
  | TUnion ts => let* vs := all ts in
                 match vs with [] => Err ValueError | v :: r => Ok (xd d + zmin_l v r) end
  | TTuple ts => let* vs := all ts in
                 match vs with [] => Err ValueError | v :: r => Ok (xd d + zmax_l v r) end
  | TBase b => match dget m (SB b) with Some v => Ok v | None => Err KeyError end
  | TSym c => match dget m (SC c) with Some v => Ok v | None => Err KeyError end
  end.

(* the value the loop body of preprocess computes for one symbol *)
Definition dist_step (d : decl) (r : rstate) (m : dmap) (s : sym) : res Z :=
  let old := match dget m s with Some v => v | None => INF end in
  if is_abstract d s then
    match s with
    | SC c => match get_alts (r_alts r) c with
              | None => Ok old
              | Some prods =>
                  Ok (fold_left (fun v p => Z.min v (xd d + match dget m (SC p) with Some x => x | None => INF end)) prods old)
              end
    | SB _ => Ok old
    end
  else if negb (mem_sym s (r_nonterm r)) then            (* is_terminal(sym, non_terminals) *)
    Ok (match s with SB _ => if d_xdepth d then 1 else 0 | SC _ => 1 end)
  else
    let* vs := (fix go (ts : list ty) : res (list Z) :=
                  match ts with [] => Ok [] | x :: t => let* v := dist_ty d m x in let* r := go t in Ok (1 + v :: r) end)
               (fields_of d s) in
    match vs with [] => Err AssertionError | v :: t => Ok (zmax_l v t) end.

(* one pass over the symbols in the given iteration order; returns the new map and "changed" *)
Fixpoint dist_pass (d : decl) (r : rstate) (order : list sym) (m : dmap) (changed : bool) : res (dmap * bool) :=
  match order with
  | [] => Ok (m, changed)
  | s :: t =>
      let* v := dist_step d r m s in
      let old := match dget m s with Some x => x | None => INF end in
      if v <? old then dist_pass d r t (dset m s v) true else dist_pass d r t m changed
  end.

Fixpoint dist_loop (fuel : nat) (d : decl) (r : rstate) (order : list sym) (m : dmap) : res dmap :=
  match fuel with
  | O => Err OutOfFuel
  | S f => let* (m', ch) := dist_pass d r order m false in
           if ch then dist_loop f d r order m' else Ok m'
  end.

Definition dist_init (r : rstate) : dmap :=
  fold_left (fun m s => dset m s INF) (r_nodes r)
            [(SB BInt, 0); (SB BStr, 0); (SB BFloat, 0); (SB BBool, 0)].

(* ---------- reachability / recursive symbols ---------- *)
(* explode_generics: the symbols mentioned by a type (unions, lists, annotations, tuples opened) *)
Fixpoint explode (t : ty) : list sym :=
  match t with
  | TBase b => [SB b]
  | TSym c => [SC c]
  | TList t' | TAnn t' _ => explode t'
  | TTuple ts | TUnion ts => (fix go (l : list ty) : list sym := match l with [] => [] | x :: r => explode x ++ go r end) ts
  end.

(* direct successors of a symbol in the "can contain" graph *)
Definition succs (d : decl) (r : rstate) (s : sym) : list sym :=
  if is_abstract d s then
    match s with SC c => match get_alts (r_alts r) c with Some l => map SC l | None => [] end | SB _ => [] end
  else if mem_sym s (r_nonterm r) then flat_map explode (fields_of d s) else [].

(* symbols reachable in >= 1 step: breadth-first rounds; the flag says that the search ended because
   no new symbol was found (and not because the round budget |nodes|+1 ran out) *)
Definition dedupe (l : list sym) : list sym :=
  fold_left (fun a x => if mem_sym x a then a else a ++ [x]) l [].

Fixpoint reach_n (n : nat) (d : decl) (r : rstate) (frontier acc : list sym) : list sym * bool :=
  match n with
  | O => (acc, false)
  | S k =>
      let next := flat_map (succs d r) frontier in
      let fresh := dedupe (filter (fun x => negb (mem_sym x acc)) next) in
      match fresh with [] => (acc, true) | _ => reach_n k d r fresh (acc ++ fresh) end
  end.

Definition reachable_from (d : decl) (r : rstate) (s : sym) : list sym * bool :=
  reach_n (S (length (r_nodes r))) d r [s] [].

Definition is_recursive (d : decl) (r : rstate) (s : sym) : bool := mem_sym s (fst (reachable_from d r s)).

(* ---------- weights ---------- *)
Definition decl_weight (d : decl) (s : sym) : Q :=
  match s with
  | SB _ => 1
  | SC c => match get_cls d c with Some k => match c_weight k with Some w => w | None => 1 end | None => 1 end
  end.

Definition wmap := list (sym * Q).
Fixpoint wget (m : wmap) (s : sym) : Q :=
  match m with [] => 1%Q | (k, v) :: t => if sym_eqb s k then v else wget t s end.
Fixpoint wset (m : wmap) (s : sym) (v : Q) : wmap :=
  match m with
  | [] => [(s, v)]
  | (k, w) :: t => if sym_eqb s k then (k, v) :: t else (k, w) :: wset t s v
  end.

(* Grammar.get_weights: every registered symbol, default 1.0 *)
Definition get_weights (d : decl) (r : rstate) : wmap := map (fun s => (s, decl_weight d s)) (r_nodes r).

(* the normalisation loop of update_weights(learning_rate = 1, extra = current weights) *)
Definition normalise_rule (w : wmap) (prods : list nat) : res wmap :=
  let w1 := fold_left (fun m p => wset m (SC p) (wget m (SC p) + 1 * wget w (SC p))%Q) prods w in
  let total := qsum (map (fun p => wget w1 (SC p)) prods) in
  if Qeq_bool total 0 then (match prods with [] => Ok w1 | _ => Err ZeroDivisionError end)
  else Ok (fold_left (fun m p => wset m (SC p) (wget m (SC p) / total)%Q) prods w1).

Fixpoint normalise (w : wmap) (alts : list (nat * list nat)) : res wmap :=
  match alts with
  | [] => Ok w
  | (_, prods) :: t => let* w' := normalise_rule w prods in normalise w' t
  end.

(* the weights are written back on the classes (all registered classes, after F32) *)
Definition store_weights (d : decl) (r : rstate) (w : wmap) : decl :=
  mkDecl (map (fun ck => let '(c, k) := ck in
                         if mem_sym (SC c) (r_nodes r)
                         then mkCls (c_parent k) (c_abs k) (c_fields k) (Some (wget w (SC c)))
                         else k)
              (combine (seq 0 (length (d_classes d))) (d_classes d)))
         (d_considered d) (d_start d) (d_xdepth d).

(* ---------- the extracted grammar ---------- *)
Record grammar := mkG {
  g_decl : decl;                 (* the classes, with the weights as left on them *)
  g_reg : rstate;
  g_dist : dmap;
  g_rec : list sym
}.

Definition analyse (d : decl) (order : list sym -> list sym) : res grammar :=
  let* r := reg (reg_fuel d) d (TSym (d_start d)) r0 in
  let ord := order (r_nodes r) in
  let* m := dist_loop (4 + 2 * length (r_nodes r)) d r ord (dist_init r) in
  if forallb (fun s => snd (reachable_from d r s)) (r_nodes r)
  then Ok (mkG d r m (filter (is_recursive d r) (r_nodes r)))
  else Err OutOfFuel.

(* extract_grammar: analyse; if any considered or registered class carries a weight (after F32: not
   only the considered ones), normalise the weights, store them on the classes and analyse again
   (update_weights re-runs __init__/register/preprocess) *)
Definition has_weight (d : decl) (c : nat) : bool :=
  match get_cls d c with Some k => match c_weight k with Some _ => true | None => false end | None => false end.

Definition weighted (d : decl) (r : rstate) : bool :=
  existsb (has_weight d) (d_considered d) ||
  existsb (fun s => match s with SC c => has_weight d c | SB _ => false end) (r_nodes r).

Definition weights_in_unit (w : wmap) : bool :=
  forallb (fun sw => Qle_bool 0 (snd sw) && Qle_bool (snd sw) 1) w.

Definition extract (d : decl) (order : list sym -> list sym) : res grammar :=
  let* g := analyse d order in
  if weighted d (g_reg g) then
    let* w := normalise (get_weights d (g_reg g)) (r_alts (g_reg g)) in
    if weights_in_unit w
    then analyse (store_weights d (g_reg g) w) order
    else Err AssertionError
  else Ok g.

Definition id_order (l : list sym) : list sym := l.

(* accessors used by the synthesis model *)
Definition alts_of (g : grammar) (c : nat) : option (list nat) := get_alts (r_alts (g_reg g)) c.
Definition dist_of (g : grammar) (s : sym) : res Z :=
  match dget (g_dist g) s with Some v => Ok v | None => Err KeyError end.
Definition gdist_ty (g : grammar) (t : ty) : res Z := dist_ty (g_decl g) (g_dist g) t.
Definition min_tree_depth (g : grammar) : res Z := dist_of g (SC (d_start (g_decl g))).
Definition weights_of (g : grammar) : wmap := get_weights (g_decl g) (g_reg g).

(* ---------- Grammar.usable_grammar ---------- *)
(* breadth-first collection of the symbols reachable from the start symbol: productions of an abstract
   type, the (exploded) field types of a dataclass; builtins are leaves; an abstract class without
   productions hits the final `assert False` *)
Fixpoint usable_bfs (fuel : nat) (d : decl) (g : grammar) (queue considered : list sym) : res (list sym) :=
  match fuel with
  | O => Err OutOfFuel
  | S f =>
      match queue with
      | [] => Ok considered
      | c :: q =>
          let* new := (match c with
                       | SB _ => Ok []
                       | SC k => match alts_of g k with
                                 | Some l => Ok (map SC l)
                                 | None => if is_abstract d c then Err AssertionError
                                           else Ok (flat_map explode (fields_of d c))
                                 end
                       end) in
          let '(q', cons') := fold_left (fun qc k => if mem_sym k (snd qc) then qc else (fst qc ++ [k], snd qc ++ [k]))
                                        new (q, considered) in
          usable_bfs f d g q' cons'
      end
  end.

Definition usable (g : grammar) (order : list sym -> list sym) : res grammar :=
  let d := g_decl g in
  let st := SC (d_start d) in
  let* cs := usable_bfs (4 + 4 * length (d_classes d) + length (r_nodes (g_reg g))) d g [st] [st] in
  extract (mkDecl (d_classes d) (flat_map (fun s => match s with SC c => [c] | SB _ => [] end) cs) (d_start d) false) order.
