(* Labels.v — model of representations/tree/utils.py relabel_nodes: the per-node metadata
   gengy_nodes / gengy_distance_to_term / gengy_weighted_nodes / gengy_types_this_way, as a function
   of the program value (after the repair of F18: the elements of list fields are visited).
   Both depth-counting modes.  Definitions only. *)
From GE Require Export Base Grammar.
Open Scope Z_scope.

Record lab := mkLab { l_nodes : Z; l_dist : Z; l_weighted : Z }.

Definition is_list_value (v : value) : bool := match v with VList _ => true | _ => false end.

(* Grammar.abstract_dist_to_t[a][c]: the number of expansions from the abstract type a down to class c *)
Fixpoint abs_dist_fuel (fuel : nat) (d : decl) (a c : nat) : option Z :=
  match fuel with
  | O => None
  | S f => match get_cls d c with
           | Some k => match c_parent k with
                       | Some p => if Nat.eqb p a then Some 1
                                   else match abs_dist_fuel f d a p with Some n => Some (n + 1) | None => None end
                       | None => None end
           | None => None end
  end.
Definition abs_dist (d : decl) (a c : nat) : option Z := abs_dist_fuel (length (d_classes d)) d a c.

(* is_abstract(t) on a declared field type: only a bare abstract class counts *)
Definition declared_abstract (d : decl) (t : ty) : option nat :=
  match t with TSym a => if is_abstract d (SC a) then Some a else None | _ => None end.

(* relabel_nodes(i, g, is_list) -> (number_of_nodes, distance_to_term, weighted_number_of_nodes);
   [decl_ty]: the declared type of the position the value sits in *)
Fixpoint relabel (d : decl) (r : rstate) (v : value) : res lab :=
  let x := xd d in
  let fix kids (ts : list (option ty)) (vs : list value) (acc : lab) : res lab :=
    match vs with
    | [] => Ok acc
    | c :: vs' =>
        let t := match ts with t :: _ => t | [] => None end in
        let ts' := match ts with _ :: r => r | [] => [] end in
        let* lc := relabel d r c in
        let* adj := (if is_list_value c then Ok (if d_xdepth d then 1 else 0)
                     else if d_xdepth d then
                       match t with
                       | Some t' => match declared_abstract d t' with
                                    | Some a => match c with
                                                | VNode cc _ => match abs_dist d a cc with Some n => Ok n | None => Err KeyError end
                                                | _ => Err KeyError end
                                    | None => Ok 0 end
                       | None => Ok 0 end
                     else Ok 0) in
        let list_adjust := if is_list_value c then 0 else 1 in
        kids ts' vs' (mkLab (l_nodes acc + adj + l_nodes lc)
                            (Z.max (l_dist acc) (l_dist lc + adj + list_adjust))
                            (l_weighted acc + l_weighted lc))
    end in
  match v with
  | VNode c args =>
      if negb (mem_sym (SC c) (r_nonterm r)) then Ok (mkLab x x x)      (* a terminal production *)
      else
        let* a := kids (map Some (fields_of d (SC c))) args (mkLab 1 1 0) in
        Ok (mkLab (l_nodes a) (l_dist a) (l_weighted a + l_dist a))
  | VList vs => kids [] vs (mkLab 0 0 0)
  | VForeign => Err AttributeError
  | _ => Ok (mkLab x x x)                                                (* builtins and tuples are terminals *)
  end.

(* the labels of every node and list of a program, in pre-order *)
Fixpoint all_labels (d : decl) (r : rstate) (v : value) : list (res lab) :=
  let fix go (l : list value) : list (res lab) := match l with [] => [] | x :: t => all_labels d r x ++ go t end in
  match v with
  | VNode c args => relabel d r v :: go args
  | VList vs => relabel d r v :: go vs
  | VTuple vs => []          (* nothing is labelled inside a tuple *)
  | _ => []
  end.

(* gengy_types_this_way: how many sub-nodes (itself included) of each class *)
Fixpoint count_class (k : nat) (v : value) : Z :=
  let fix go (l : list value) : Z := match l with [] => 0 | x :: t => count_class k x + go t end in
  match v with
  | VNode c args => (if Nat.eqb c k then 1 else 0) + go args
  | VList vs => go vs
  | _ => 0
  end.
