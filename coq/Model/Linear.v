(* Linear.v — model of the genotype-level operators of the five representations:
   grammatical_evolution/ge.py, structured_ge.py, dynamic_structured_ge.py, stackgggp (create_genotype,
   mutate, crossover; genotype_to_phenotype for GE / SGE / dSGE through create_node), and
   tree/treebased.py (create, mutate, crossover as they actually behave: F13).  Definitions only. *)
From GE Require Export Synth.
Open Scope Z_scope.

(* n draws of randint(lo, hi) *)
Fixpoint draws (n : nat) (s : src) (lo hi : Z) : res (list Z * src) :=
  match n with
  | O => Ok ([], s)
  | S k => let* (v, s1) := randint s lo hi in let* (r, s2) := draws k s1 lo hi in Ok (v :: r, s2)
  end.

(* clone[i] = v *)
Definition set_gene (l : list Z) (i : Z) (v : Z) : res (list Z) :=
  if (i <? 0) || (zlen l <=? i) then Err IndexError else Ok (set_nth l (Z.to_nat i) v).

Definition zfirstn {A} (i : Z) (l : list A) : list A := firstn (Z.to_nat i) l.
Definition zskipn {A} (i : Z) (l : list A) : list A := skipn (Z.to_nat i) l.

(* ---------- GE and stack: a list of codons ---------- *)
(* create_genotype: gene_length draws of randint(0, sys.maxsize) *)
Definition codons_create (s : src) (len : nat) : res (list Z * src) := draws len s 0 maxsize.

(* mutate: rindex = randint(0, gene_length - 1); clone[rindex] = randint(0, top)   (top = sys.maxsize for GE, 10000 for the stack representation) *)
Definition codons_mutate (s : src) (gene_length top : Z) (dna : list Z) : res (list Z * src) :=
  let* (i, s1) := randint s 0 (gene_length - 1) in
  let* (v, s2) := randint s1 0 top in
  let* l := set_gene dna i v in
  Ok (l, s2).

(* crossover: one cut point rindex = randint(0, cut_top)   (gene_length - 1 for GE, 255 for the stack representation) *)
Definition codons_crossover (s : src) (cut_top : Z) (p1 p2 : list Z) : res ((list Z * list Z) * src) :=
  let* (i, s1) := randint s 0 cut_top in
  Ok ((zfirstn i p1 ++ zskipn i p2, zfirstn i p2 ++ zskipn i p1), s1).

(* ---------- SGE and dSGE: gene lists per key ---------- *)
Definition kgenes (K : Type) := list (K * list Z).

Section Keyed.
Context {K : Type} (keqb : K -> K -> bool).

Fixpoint kget (m : kgenes K) (k : K) : option (list Z) :=
  match m with [] => None | (k', v) :: t => if keqb k k' then Some v else kget t k end.
Fixpoint kset (m : kgenes K) (k : K) (v : list Z) : kgenes K :=
  match m with
  | [] => [(k, v)]
  | (k', w) :: t => if keqb k k' then (k', v) :: t else (k', w) :: kset t k v
  end.

(* SGE create_genotype: for every key, gene_length draws *)
Fixpoint keyed_create (s : src) (keys : list K) (len : nat) : res (kgenes K * src) :=
  match keys with
  | [] => Ok ([], s)
  | k :: r => let* (l, s1) := draws len s 0 maxsize in
              let* (m, s2) := keyed_create s1 r len in
              Ok ((k, l) :: m, s2)
  end.

(* SGE mutate: rkey = choice(keys); rindex = randint(0, len(dna[rkey]) - 1); dna[rkey][rindex] = randint(0, maxsize) *)
Definition sge_mutate (s : src) (m : kgenes K) : res (kgenes K * src) :=
  let* (k, s1) := choice s (map fst m) in
  match kget m k with
  | None => Err KeyError
  | Some l =>
      let* (i, s2) := randint s1 0 (zlen l - 1) in
      let* (v, s3) := randint s2 0 maxsize in
      let* l' := set_gene l i v in
      Ok (kset m k l', s3)
  end.

(* dSGE mutate: nothing happens on an empty genotype or an empty gene list *)
Definition dsge_mutate (s : src) (m : kgenes K) : res (kgenes K * src) :=
  match m with
  | [] => Ok (m, s)
  | _ =>
      let* (k, s1) := choice s (map fst m) in
      match kget m k with
      | None => Err KeyError
      | Some [] => Ok (m, s1)
      | Some l =>
          let* (i, s2) := randint s1 0 (zlen l - 1) in
          let* (v, s3) := randint s2 0 maxsize in
          let* l' := set_gene l i v in
          Ok (kset m k l', s3)
      end
  end.

(* per-key uniform crossover over the keys of parent 1; [strict]: SGE indexes parent2.dna[k] (KeyError),
   dSGE uses .get(k, []) *)
Fixpoint mask_draws (s : src) (keys : list K) : res (list (K * bool) * src) :=
  match keys with
  | [] => Ok ([], s)
  | k :: r => let* (b, s1) := random_bool s in let* (m, s2) := mask_draws s1 r in Ok ((k, b) :: m, s2)
  end.

Definition kfetch (strict : bool) (m : kgenes K) (k : K) : res (list Z) :=
  match kget m k with Some l => Ok l | None => if strict then Err KeyError else Ok [] end.

Fixpoint build_children (strict : bool) (mask : list (K * bool)) (p1 p2 : kgenes K) : res (kgenes K * kgenes K) :=
  match mask with
  | [] => Ok ([], [])
  | (k, b) :: r =>
      let* a := kfetch strict p1 k in
      let* c := kfetch strict p2 k in
      let* (c1, c2) := build_children strict r p1 p2 in
      Ok (if b then ((k, a) :: c1, (k, c) :: c2) else ((k, c) :: c1, (k, a) :: c2))
  end.

Definition keyed_crossover (strict : bool) (s : src) (p1 p2 : kgenes K) : res ((kgenes K * kgenes K) * src) :=
  let* (mask, s1) := mask_draws s (map fst p1) in
  let* cs := build_children strict mask p1 p2 in
  Ok (cs, s1).
End Keyed.

(* ---------- mapping: every decision is read from the genes ---------- *)
Definition start_ty (g : grammar) : ty := TSym (d_start (g_decl g)).

Definition ge_map (fuel : nat) (g : grammar) (k : dkind) (dna : list Z) : res value * sst :=
  create_node fuel g k (start_ty g) ctx0 [] (st_init g (LW KGE dna 0)).
(* SGE: every draw goes to the infrastructure key's gene list *)
Definition sge_map (fuel : nat) (g : grammar) (k : dkind) (infra : list Z) : res value * sst :=
  create_node fuel g k (start_ty g) ctx0 [] (st_init g (LW KSGE infra 0)).
(* dSGE: decisions from the per-type gene lists; genotype.random (the shared source [s]) extends them on demand
   and answers the metahandlers *)
Definition dsge_map (fuel : nat) (g : grammar) (D : Z) (s : src) (dna : list (ty * list Z)) : res value * sst :=
  match decider_validate g (DDsge D) with
  | Err e => (Err e, mkSt s None [] dna (r_alts (g_reg g)))
  | Ok _ =>
      create_node fuel g (DDsge D) (start_ty g) ctx0 []
        (mkSt s None (map (fun x => (key_of_sym x, O)) (r_nodes (g_reg g))) dna (r_alts (g_reg g)))
  end.

(* ---------- tree representation ---------- *)
(* the sub-nodes of class k in pre-order (gengy_types_this_way[k]): through lists, not through tuples *)
Fixpoint subnodes (k : nat) (v : value) : list value :=
  let fix go (l : list value) : list value := match l with [] => [] | x :: t => subnodes k x ++ go t end in
  match v with
  | VNode c args => (if Nat.eqb c k then [v] else []) ++ go args
  | VList vs => go vs
  | _ => []
  end.

Definition tree_create (fuel : nat) (g : grammar) (k : dkind) (st : sst) : res value * sst :=
  create_node fuel g k (start_ty g) ctx0 [] st.
(* mutate: the node to mutate is always the root (F13), which is regenerated under ITS stored synthesis
   context [rctx] (the root context for created trees, a deeper one for a crossover child taken from inside a parent) *)
Definition tree_mutate (fuel : nat) (g : grammar) (k : dkind) (rctx : sctx) (st : sst) : res value * sst :=
  create_node fuel g k (start_ty g) rctx [] st.
(* one child of a crossover: a node of the start symbol's class found in the other parent, else a fresh tree
   generated under the receiving parent's root context *)
Definition tree_cross_child (fuel : nat) (g : grammar) (k : dkind) (donor : value) (rctx : sctx) (st : sst) : res value * sst :=
  match subnodes (d_start (g_decl g)) donor with
  | [] => create_node fuel g k (start_ty g) rctx [] st
  | opts =>
      match k with
      | DDsge _ => (Err KeyError, st)       (* choose_options reads positions[Genotype] *)
      | _ => s_choice opts st
      end
  end.
