(* Search.v — model of the search-level state machines:
     problems/__init__.py        Fitness, SingleObjectiveProblem.evaluate, MultiObjectiveProblem.evaluate, is_better
     solutions/individual.py     fitness_store (has_fitness / set_fitness / get_fitness)
     evaluation/api.py, sequential.py, parallel.py   Evaluator.count, SequentialEvaluator, ParallelEvaluator
     evaluation/tracker.py       SingleObjectiveProgressTracker, MultiObjectiveProgressTracker
     evaluation/budget.py        EvaluationBudget, TargetFitness, AnyOf
     algorithms/random_search.py, one_plus_one.py, hill_climbing.py, gp/gp.py, gp/population.py  (loops)
   Fitness values are exact rationals (every finite float is one).  Individuals are identified by
   an id; the user's fitness function is any function [ff] from ids to component lists.
   Definitions only. *)
From GE Require Export Base.
Open Scope Z_scope.

Record fitness := mkFit { agg : Q; comps : list Q }.

Inductive minspec := MinBool (b : bool) | MinList (bs : list bool).
(* AggDefault: no user aggregate; AggWeights ws: aggregate_fitness = weighted sum (a user callback) *)
Inductive aggspec := AggDefault | AggWeights (ws : list Q).
Inductive problem := SO (minimize : bool) | MO (m : minspec) (a : aggspec).

Definition neg_if (m : bool) (q : Q) : Q := if m then (- q)%Q else q.


(* sum(m and -fit or +fit for (fit, m) in zip(fits, minimize)) *)
Fixpoint merge_list (fits : list Q) (ms : list bool) : Q :=
  match fits, ms with
  | f :: ft, m :: mt => (neg_if m f + merge_list ft mt)%Q
  | _, _ => 0%Q
  end.

Fixpoint dot (ws fits : list Q) : Q :=
  match ws, fits with
  | w :: wt, f :: ft => (w * f + dot wt ft)%Q
  | _, _ => 0%Q
  end.

(* the maximising aggregate the documentation promises *)
Definition aggregate_of (p : problem) (raw : list Q) : Q :=
  match p with
  | SO m => match raw with v :: _ => neg_if m v | [] => 0%Q end
  | MO _ (AggWeights ws) => dot ws raw
  | MO (MinBool b) AggDefault => qsum (map (neg_if b) raw)
  | MO (MinList bs) AggDefault => merge_list raw bs
  end.

(* Problem.evaluate on the raw result of the user's fitness function: the fitness and the number
   of times the user's function is invoked to produce it (1 after the repair of F21) *)
Definition evaluate (p : problem) (raw : list Q) : res (fitness * Z) :=
  match p with
  | SO m => match raw with
            | [v] => Ok (mkFit (neg_if m v) [v], 1)
            | _ => Err TypeError                 (* float() of a non-scalar *)
            end
  | MO _ _ => Ok (mkFit (aggregate_of p raw) raw, 1)
  end.

Definition is_better (a b : fitness) : bool := negb (Qle_bool (agg a) (agg b)).   (* a.agg > b.agg *)

(* ---------- individuals' fitness caches ---------- *)
Definition key := (N * N)%type.                  (* individual id, problem id *)
Definition key_eqb (a b : key) : bool := N.eqb (fst a) (fst b) && N.eqb (snd a) (snd b).
Definition store := list (key * fitness).

Fixpoint lookup (st : store) (k : key) : option fitness :=
  match st with
  | [] => None
  | (k', f) :: t => if key_eqb k k' then Some f else lookup t k
  end.
Definition has_fit (st : store) (k : key) : bool := match lookup st k with Some _ => true | None => false end.

(* evaluator state: caches, the counter the budgets read, and the log of invocations of the
   user's fitness function (newest first) *)
Record ev := mkEv { st : store; count : Z; calls : list key }.
Definition ev0 : ev := mkEv [] 0 [].

Section WithFF.
Variable ff : N -> list Q.        (* the user's fitness function on the individual's program *)
Variable p : problem.
Variable pid : N.

Definition eval_one (e : ev) (i : N) : res ev :=
  if has_fit (st e) (i, pid) then Ok e
  else let* (f, n) := evaluate p (ff i) in
       Ok (mkEv (((i, pid), f) :: st e) (count e + 1) (repeat (i, pid) (Z.to_nat n) ++ calls e)).

(* SequentialEvaluator.evaluate_async, fully consumed *)
Fixpoint eval_seq (e : ev) (batch : list N) : res ev :=
  match batch with
  | [] => Ok e
  | i :: t => let* e' := eval_one e i in eval_seq e' t
  end.

(* ParallelEvaluator.evaluate_async after the repair of F22: only individuals without a fitness,
   each once (by identity), are sent to the pool; pool.map returns results in argument order.
   [order] is the order in which the workers happen to invoke the fitness function (any
   permutation of the work list): it only shows in the invocation log. *)
Fixpoint dedupe (seen : list N) (l : list N) : list N :=
  match l with
  | [] => []
  | i :: t => if existsb (N.eqb i) seen then dedupe seen t else i :: dedupe (i :: seen) t
  end.

Definition par_todo (e : ev) (batch : list N) : list N :=
  dedupe [] (filter (fun i => negb (has_fit (st e) (i, pid))) batch).

Fixpoint par_results (todo : list N) : res (list (N * fitness * Z)) :=
  match todo with
  | [] => Ok []
  | i :: t => let* (f, n) := evaluate p (ff i) in
              let* r := par_results t in Ok ((i, f, n) :: r)
  end.

Definition eval_par (order : list N) (e : ev) (batch : list N) : res ev :=
  let todo := par_todo e batch in
  let* rs := par_results todo in
  Ok (mkEv (fold_left (fun s r => ((fst (fst r), pid), snd (fst r)) :: s) rs (st e))
           (count e + zlen rs)
           (rev (flat_map (fun i => match evaluate p (ff i) with
                                    | Ok (_, n) => repeat (i, pid) (Z.to_nat n)
                                    | Err _ => [] end) order) ++ calls e)).

(* ---------- trackers ---------- *)
(* recorders see (individual, is_best) in order; newest first here *)
Record so_tracker := mkSO { so_best : option N; so_rec : list (N * bool) }.
Definition so0 : so_tracker := mkSO None [].

Definition so_post (s : store) (tr : so_tracker) (i : N) : res so_tracker :=
  match lookup s (i, pid) with
  | None => Err OtherError                       (* IndividualNotEvaluatedException *)
  | Some f =>
      match so_best tr with
      | None => Ok (mkSO (Some i) ((i, true) :: so_rec tr))
      | Some b =>
          match lookup s (b, pid) with
          | None => Err OtherError
          | Some fb =>
              if is_better f fb then Ok (mkSO (Some i) ((i, true) :: so_rec tr))
              else Ok (mkSO (Some b) ((i, false) :: so_rec tr))
          end
      end
  end.

Fixpoint so_posts (s : store) (tr : so_tracker) (batch : list N) : res so_tracker :=
  match batch with
  | [] => Ok tr
  | i :: t => let* tr' := so_post s tr i in so_posts s tr' t
  end.

(* tracker.evaluate(individuals): evaluator, then post_process for every yielded individual *)
Definition so_evaluate (parallel : bool) (e : ev) (tr : so_tracker) (batch : list N) : res (ev * so_tracker) :=
  let* e' := (if parallel then eval_par (par_todo e batch) e batch else eval_seq e batch) in
  let* tr' := so_posts (st e') tr batch in
  Ok (e', tr').

Record mo_tracker := mkMO { front : list N; mo_rec : list (N * bool) }.
Definition mo0 : mo_tracker := mkMO [] [].

(* is_dominated(current, others) = all(is_better(x, current) for x in others) *)
Definition is_dominated (s : store) (cur : N) (others : list N) : res bool :=
  match lookup s (cur, pid) with
  | None => Err OtherError
  | Some fc =>
      fold_left (fun acc x => let* a := acc in
                              match lookup s (x, pid) with
                              | None => Err OtherError
                              | Some fx => Ok (a && is_better fx fc)
                              end) others (Ok true)
  end.

Fixpoint rebuild_front (s : store) (newf : list N) (old : list N) : res (list N) :=
  match old with
  | [] => Ok newf
  | o :: t => let* d := is_dominated s o newf in
              rebuild_front s (if d then newf else newf ++ [o]) t
  end.

Definition mo_post (s : store) (tr : mo_tracker) (i : N) : res mo_tracker :=
  let* nd := (match front tr with
              | [] => Ok true
              | _ => let* d := is_dominated s i (front tr) in Ok (negb d)
              end) in
  if nd then let* f' := rebuild_front s [i] (front tr) in Ok (mkMO f' ((i, true) :: mo_rec tr))
  else Ok (mkMO (front tr) ((i, false) :: mo_rec tr)).

Fixpoint mo_posts (s : store) (tr : mo_tracker) (batch : list N) : res mo_tracker :=
  match batch with
  | [] => Ok tr
  | i :: t => let* tr' := mo_post s tr i in mo_posts s tr' t
  end.

Definition mo_evaluate (parallel : bool) (e : ev) (tr : mo_tracker) (batch : list N) : res (ev * mo_tracker) :=
  let* e' := (if parallel then eval_par (par_todo e batch) e batch else eval_seq e batch) in
  let* tr' := mo_posts (st e') tr batch in
  Ok (e', tr').

(* one tracker type for the loops *)
Inductive tracker := TSO (t : so_tracker) | TMO (t : mo_tracker).

Definition tr_evaluate (parallel : bool) (e : ev) (tr : tracker) (batch : list N) : res (ev * tracker) :=
  match tr with
  | TSO t => let* (e', t') := so_evaluate parallel e t batch in Ok (e', TSO t')
  | TMO t => let* (e', t') := mo_evaluate parallel e t batch in Ok (e', TMO t')
  end.

(* get_best_individual(): the multi-objective tracker answers with the head of its front
   (after the repair of F19) *)
Definition tr_best (tr : tracker) : option N :=
  match tr with
  | TSO t => so_best t
  | TMO t => match front t with [] => None | b :: _ => Some b end
  end.

(* ---------- budgets ---------- *)
Inductive budget := EvalBudget (n : Z) | TargetFit (t : Q) | AnyOf (a b : budget).

Definition Qabs_ (q : Q) : Q := if Qle_bool 0 q then q else (- q)%Q.

Fixpoint is_done (b : budget) (e : ev) (tr : tracker) : res bool :=
  match b with
  | EvalBudget n => Ok (n <=? count e)
  | TargetFit t =>
      match tr with
      | TMO _ => Err AssertionError                  (* assert isinstance(tracker, SingleObjective...) *)
      | TSO t0 =>
          match so_best t0 with
          | None => Ok false
          | Some b =>
              match lookup (st e) (b, pid) with
              | None => Err OtherError
              | Some f => match comps f with
                          | c :: _ => Ok (negb (Qle_bool (1 # 10000) (Qabs_ (c - t))))   (* abs(c - t) < 0.0001 *)
                          | [] => Err IndexError
                          end
              end
          end
      end
  | AnyOf a b' =>
      let* da := is_done a e tr in
      if da then Ok true else is_done b' e tr
  end.

(* ---------- the search loops ---------- *)
(* [checks]: evaluator counter observed at every budget check and the answer of the check,
   newest first *)
Record sstate := mkS { s_ev : ev; s_tr : tracker; s_next : N; s_checks : list (Z * bool) }.

Definition check_done (b : budget) (s : sstate) : res (bool * sstate) :=
  let* d := is_done b (s_ev s) (s_tr s) in
  Ok (d, mkS (s_ev s) (s_tr s) (s_next s) ((count (s_ev s), d) :: s_checks s)).

Fixpoint fresh (next : N) (n : nat) : list N :=
  match n with O => [] | S m => next :: fresh (N.succ next) m end.

(* RandomSearch.search and OnePlusOne.search: one new individual per iteration
   ((1+1) never updates current_ind, so it creates a fresh genotype each time as well) *)
Fixpoint rs_loop (fuel : nat) (b : budget) (s : sstate) : res sstate :=
  match fuel with
  | O => Err OutOfFuel
  | S f =>
      let* (d, s1) := check_done b s in
      if d then Ok s1
      else let* (e', t') := tr_evaluate false (s_ev s1) (s_tr s1) [s_next s1] in
           rs_loop f b (mkS e' t' (N.succ (s_next s1)) (s_checks s1))
  end.

(* HC.search: the first iteration creates one individual, every later one a neighbourhood of
   [m] mutants *)
Fixpoint hc_loop (fuel : nat) (b : budget) (m : nat) (first : bool) (s : sstate) : res sstate :=
  match fuel with
  | O => Err OutOfFuel
  | S f =>
      let* (d, s1) := check_done b s in
      if d then Ok s1
      else
        let k := if first then 1%nat else m in
        let batch := fresh (s_next s1) k in
        let* (e', t') := tr_evaluate false (s_ev s1) (s_tr s1) batch in
        hc_loop f b m (match tr_best t' with None => first | Some _ => false end)
                (mkS e' t' (s_next s1 + N.of_nat k)%N (s_checks s1))
  end.

(* Population(it, tracker): every individual is evaluated singly, in order *)
Fixpoint population (parallel : bool) (e : ev) (tr : tracker) (inds : list N) : res (ev * tracker) :=
  match inds with
  | [] => Ok (e, tr)
  | i :: t => let* (e', tr') := tr_evaluate parallel e tr [i] in population parallel e' tr' t
  end.

(* GeneticProgramming.search.  The step is an oracle: [gens] is the sequence of populations the
   step produces (any behaviour); the loop consumes one per iteration. *)
Fixpoint gp_loop (parallel : bool) (b : budget) (gens : list (list N)) (s : sstate) : res sstate :=
  let* (d, s1) := check_done b s in
  if d then Ok s1
  else match gens with
       | [] => Err OutOfFuel                      (* the supplied behaviour ends before the budget *)
       | g :: rest =>
           let* (e', t') := population parallel (s_ev s1) (s_tr s1) g in
           gp_loop parallel b rest (mkS e' t' (s_next s1) (s_checks s1))
       end.

Definition gp_search (parallel : bool) (b : budget) (init : list N) (gens : list (list N)) (tr0 : tracker) : res sstate :=
  let* (e, t) := population parallel ev0 tr0 init in
  gp_loop parallel b gens (mkS e t 0%N []).

End WithFF.
