(* Stack.v — model of geneticengine/representations/stackgggp/__init__.py: create_tree_using_stacks
   (the stack machine that maps a list of codons to a program) and Grammar.collect_types /
   get_all_mentioned_symbols_in_order (grammar.py), for hierarchies without metahandler-annotated and
   string fields ([stack_decl_ok]).  The machine's state is explicit: the stacks (one per mentioned type, in
   the order of all_stack_types), the gene-backed source, the failure counter.  An IndexError raised in
   the middle of an attempt leaves the pops made so far in place, as in the code.  Definitions only. *)
From GE Require Import Base Tape Grammar Synth.
Open Scope Z_scope.

(* Grammar.collect_types with its list of visited types (after the repair of F47: a class may mention itself through a list,
   tuple or union): the type itself, then what it mentions (a concrete class: the types of its fields; an abstract class:
   nothing); a type already visited is skipped.  [seen] is returned extended, in visiting order. *)
Fixpoint collect_acc (fuel : nat) (d : decl) (t : ty) (seen : list ty) : list ty :=
  match fuel with
  | O => seen
  | S f =>
      if existsb (ty_eqb t) seen then seen
      else
        let seen1 := seen ++ [t] in
        match t with
        | TList a | TAnn a _ => collect_acc f d a seen1
        | TTuple ts | TUnion ts => fold_left (fun acc a => collect_acc f d a acc) ts seen1
        | TBase _ => seen1
        | TSym c => if is_abstract d (SC c) then seen1
                    else fold_left (fun acc a => collect_acc f d a acc) (fields_of d (SC c)) seen1
        end
  end.

Definition ty_of_sym (s : sym) : ty := match s with SB b => TBase b | SC c => TSym c end.

(* get_all_mentioned_symbols_in_order: keys of alternatives, their productions, all_nodes in registration order; first
   occurrences in visiting order (every top-level call starts with an empty visited list and dict.fromkeys drops what an
   earlier call yielded - the same list as threading one visited list through all calls) *)
Definition all_stack_types (g : grammar) : list ty :=
  let alts := r_alts (g_reg g) in
  let syms := map (fun kv => TSym (fst kv)) alts ++ flat_map (fun kv => map TSym (snd kv)) alts ++ map ty_of_sym (r_nodes (g_reg g)) in
  fold_left (fun acc t => collect_acc (200 + 8 * length (d_classes (g_decl g))) (g_decl g) t acc) syms [].

Definition stacks := list (ty * list value).

Record mst := mkMS { m_stk : stacks; m_src : src; m_fail : Z }.

(* outcome of a piece of one attempt: a value, IndexError (a failed attempt), or any other exception (propagates) *)
Definition SM (A : Type) : Type := mst -> res A * mst.
Definition sret {A} (a : A) : SM A := fun s => (Ok a, s).
Definition sfail {A} (e : err) : SM A := fun s => (Err e, s).
Definition sbind {A B} (m : SM A) (f : A -> SM B) : SM B :=
  fun s => match m s with (Ok a, s1) => f a s1 | (Err e, s1) => (Err e, s1) end.
Notation "'do*' x '<-' m ';' k" := (sbind m (fun x => k)) (at level 200, x pattern, m at level 100, k at level 200, right associativity).

Definition s_src {A} (f : src -> res (A * src)) : SM A :=
  fun s => match f (m_src s) with
           | Ok (a, s') => (Ok a, mkMS (m_stk s) s' (m_fail s))
           | Err e => (Err e, s)
           end.

(* stacks[t] (KeyError when the type is not a key) *)
Definition s_get (t : ty) : SM (list value) :=
  fun s => match tget (m_stk s) t with Some l => (Ok l, s) | None => (Err KeyError, s) end.
Definition s_put (t : ty) (l : list value) : SM unit :=
  fun s => (Ok tt, mkMS (tset (m_stk s) t l) (m_src s) (m_fail s)).
(* add_to_stacks: append *)
Definition s_push (t : ty) (v : value) : SM unit :=
  fun s => let l := match tget (m_stk s) t with Some l => l | None => [] end in
           (Ok tt, mkMS (tset (m_stk s) t (l ++ [v])) (m_src s) (m_fail s)).
(* stacks[t].pop(0) *)
Definition s_pop_front (t : ty) : SM value :=
  do* l <- s_get t;
  match l with [] => sfail IndexError | v :: r => do* _ <- s_put t r; sret v end.
(* stacks[t].pop() *)
Definition s_pop_back (t : ty) : SM value :=
  do* l <- s_get t;
  match rev l with [] => sfail IndexError | v :: r => do* _ <- s_put t (rev r); sret v end.
Definition s_failure : SM unit := fun s => (Ok tt, mkMS (m_stk s) (m_src s) (m_fail s + 1)).

Fixpoint s_map {A B} (f : A -> SM B) (l : list A) : SM (list B) :=
  match l with
  | [] => sret []
  | a :: r => do* b <- f a; do* bs <- s_map f r; sret (b :: bs)
  end.

(* one pass through the body of the while loop, without the except clause *)
Definition attempt (g : grammar) (types : list ty) : SM unit :=
  let d := g_decl g in
  let w := weights_of g in
  do* t <- s_src (fun s => choice_weighted s types
                    (map (fun x => match x with TBase b => wget w (SB b) | TSym c => wget w (SC c) | _ => 1%Q end) types));
  match t with
  | TSym c =>
      if is_abstract d (SC c) then
        match alts_of g c with
        | None => sfail IndexError
        | Some prods =>
            do* p <- s_src (fun s => choice s prods);
            do* l <- s_get (TSym p);
            match l with
            | [] => s_failure
            | v :: r => do* _ <- s_put (TSym p) r; s_push t v
            end
        end
      else
        match alts_of g c with
        | Some prods =>
            do* p <- s_src (fun s => choice s prods);
            do* v <- s_pop_back (TSym p);
            s_push t v
        | None =>
            do* args <- s_map s_pop_back (fields_of d (SC c));
            s_push t (VNode c args)
        end
  | TBase BInt => do* v <- s_src (fun s => randint s (-10000) 10000); s_push t (VInt v)
  | TBase BFloat => do* v <- s_src (fun s => random_float s (-100) 100); s_push t (VFloat (FQ v))
  | TBase BBool => do* v <- s_src random_bool; s_push t (VBool v)
  | TBase BStr => sfail OtherError                 (* outside [stack_decl_ok] *)
  | TTuple ts => do* args <- s_map s_pop_front ts; s_push t (VTuple args)
  | TList a =>
      do* l <- s_get a;
      do* n <- s_src (fun s => randint s 0 (zlen l));
      do* _ <- s_put a (skipn (Z.to_nat n) l);
      s_push t (VList (firstn (Z.to_nat n) l))
  | TUnion ts =>
      do* a <- s_src (fun s => choice s ts);
      do* v <- s_pop_back a;
      s_push t v
  | TAnn _ _ => sfail OtherError                   (* outside [stack_decl_ok] *)
  end.

(* while not stacks[start] and failures < limit: try: attempt except IndexError: failures += 1 *)
Fixpoint machine (fuel : nat) (g : grammar) (types : list ty) (limit : Z) (s : mst) : res value :=
  let start := TSym (d_start (g_decl g)) in
  match tget (m_stk s) start with
  | None => Err KeyError
  | Some (v :: _) => Ok v
  | Some [] =>
      if limit <=? m_fail s then Err GeneticEngineError
      else match fuel with
           | O => Err OutOfFuel
           | S f =>
               match attempt g types s with
               | (Ok _, s1) => machine f g types limit s1
               | (Err IndexError, s1) => machine f g types limit (mkMS (m_stk s1) (m_src s1) (m_fail s1 + 1))
               | (Err e, _) => Err e
               end
           end
  end.

Definition stack_map (fuel : nat) (g : grammar) (limit : Z) (dna : list Z) : res value :=
  let types := all_stack_types g in
  machine fuel g types limit (mkMS (map (fun t => (t, [])) types) (LW KStack dna 0) 0).

(* the hierarchies this model speaks about: no metahandler annotation and no string field anywhere *)
Fixpoint stack_ty_ok (t : ty) : bool :=
  match t with
  | TBase BStr => false
  | TBase _ | TSym _ => true
  | TList a => stack_ty_ok a
  | TTuple ts | TUnion ts => (fix all (l : list ty) := match l with [] => true | x :: r => stack_ty_ok x && all r end) ts
  | TAnn _ _ => false
  end.
Definition stack_decl_ok (d : decl) : bool := forallb (fun c => forallb stack_ty_ok (c_fields c)) (d_classes d).

(* every class among the machine's stack types is a registered node of the grammar (a decidable fact about the analysed grammar) *)
Definition types_registered (g : grammar) (types : list ty) : bool :=
  forallb (fun t => match t with TSym c => mem_sym (SC c) (r_nodes (g_reg g)) | _ => true end) types.

(* the production weights are dyadic rationals (then the floats the implementation adds up are exact and the accumulated integer
   weights of choice_weighted are the model's); other weights (1/3, ...) are rounded as floats: outside the model *)
Fixpoint pos_pow2 (p : positive) : bool := match p with xH => true | xO q => pos_pow2 q | xI _ => false end.
Definition weights_dyadic (g : grammar) : bool :=
  forallb (fun s => pos_pow2 (Qden (Qred (wget (weights_of g) s)))) (r_nodes (g_reg g)).
