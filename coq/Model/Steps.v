(* Steps.v — model of the GP steps (algorithms/gp/operators/*.py):
   (a) a size model of every built-in step and combinator: how many individuals
       list(step.apply(..., population, target_size, ...)) yields, or which exception it raises,
       for a population of n individuals (after the repairs F24, F25);
   (b) individual-level models of ElitismStep, TournamentSelection and LexicaseSelection
       (after the repairs F25, F28);
   (c) the initialisers' sizes (after the repair F26).
   Definitions only. *)
From GE Require Export Base Tape Search.
Open Scope Z_scope.

Inductive step :=
| SElitism | SNovelty
| STournament (size : Z) (repl : bool)
| SLexicase (eps : bool)
| SMutation | SCrossover | SIdentity
| SSeq (l : list step)
| SPar (l : list step) (ws : list Q)        (* effective weights (None -> all 1) *)
| SExcl (l : list step) (ws : list Q).

(* Python's round(x, 0) on an exact rational: half to even *)
Definition round_he (q : Q) : Z :=
  let f := Qfloor q in
  let d := (q - inject_Z f)%Q in
  if Qle_bool d (1 # 2) then
    if Qle_bool (1 # 2) d then (if Z.even f then f else f + 1) else f
  else f + 1.

Fixpoint cumsum (acc : Z) (l : list Z) : list Z :=
  match l with [] => [] | x :: t => (acc + x) :: cumsum (acc + x) t end.

Fixpoint zip_next (l : list Z) : list (Z * Z) :=
  match l with
  | a :: ((b :: _) as t) => (a, b) :: zip_next t
  | _ => []
  end.

Fixpoint set_last_end (rs : list (Z * Z)) (k : Z) : list (Z * Z) :=
  match rs with
  | [] => []
  | [(a, _)] => [(a, k)]
  | r :: t => r :: set_last_end t k
  end.

(* ParallelStep.compute_ranges / the same code in ExclusiveParallelStep.iterate, after F24:
   indices = [0] + cumsum(rounded shares); clamp to target_size; zip; last end := target_size *)
Definition ranges (ws : list Q) (n k : Z) : res (list (Z * Z)) :=
  let total := qsum ws in
  match ws with
  | [] => Err IndexError                                   (* ranges[-1] on an empty list *)
  | _ =>
      if Qeq_bool total 0 then Err ZeroDivisionError
      else
        let shares := map (fun w => round_he (w * inject_Z n / total)) ws in
        let idx := map (fun i => Z.min i k) (0 :: cumsum 0 shares) in
        Ok (set_last_end (zip_next idx) k)
  end.

(* len(list(step.apply(...))) for a population of n individuals and target size k *)
Fixpoint out_len (mo : bool) (s : step) (n k : Z) {struct s} : res Z :=
  match s with
  | SElitism => Ok (if k <? 0 then Z.max (n + k) 0 else Z.min k n)          (* sorted(...)[:k] *)
  | SNovelty => Ok (Z.max k 0)
  | STournament size _ =>
      if k <=? 0 then Ok 0
      else if size <=? 0 then Err ValueError                                  (* max([]) *)
      else if n <=? 0 then Err AssertionError                                 (* choice([]) *)
      else Ok k
  | SLexicase _ =>
      if negb mo then Err AssertionError                                      (* needs a MultiObjectiveProblem *)
      else if k <=? 0 then Ok 0
      else if k <=? n then Ok k else Err IndexError                           (* candidates exhausted *)
  | SMutation | SIdentity => Ok (Z.min n (Z.max k 0))
  | SCrossover =>
      if k <? 0 then (if Z.odd k then (if n <=? 0 then Err IndexError else Ok 1) else Ok 0)
      else
        let pairs := k / 2 in
        if (1 <=? pairs) && (n <=? 0) then Err ZeroDivisionError              (* i % len([]) *)
        else if (1 <=? pairs) && (n <=? pairs) then Err IndexError            (* npopulation[j + 1] *)
        else if Z.odd k && (n <=? 0) then Err IndexError                      (* npopulation[0] *)
        else Ok k
  | SSeq l =>
      (fix go (l : list step) (n : Z) : res Z :=
         match l with
         | [] => Ok n
         | s :: t => let* n' := out_len mo s n k in go t n'
         end) l n
  | SPar l ws =>
      if negb (Nat.eqb (length l) (length ws)) then Err AssertionError
      else
        let* rs := ranges ws n k in
        (fix go (l : list step) (rs : list (Z * Z)) : res Z :=
           match l, rs with
           | s :: t, (a, b) :: rt =>
               let* x := (if 0 <? b - a then out_len mo s n (b - a) else Ok 0) in
               let* y := go t rt in Ok (x + y)
           | _, _ => Ok 0
           end) l rs
  | SExcl l ws =>
      if negb (Nat.eqb (length l) (length ws)) then Err AssertionError
      else
        let* rs := ranges ws n k in
        (fix go (l : list step) (rs : list (Z * Z)) : res Z :=
           match l, rs with
           | s :: t, (a, b) :: rt =>
               let* x := out_len mo s (Z.max 0 (Z.min b n - Z.min a n)) (b - a) in   (* npopulation[a:b] *)
               let* y := go t rt in Ok (x + y)
           | _, _ => Ok 0
           end) l rs
  end.

(* well-formed step trees: tournament size >= 1; combinators non-empty (an empty SequenceStep yields
   its whole input); parallel combinators with as many non-negative weights as steps and a positive total *)
Fixpoint wf_step (s : step) : Prop :=
  match s with
  | STournament size _ => 1 <= size
  | SSeq l => l <> [] /\ (fix all (l : list step) : Prop := match l with [] => True | s :: t => wf_step s /\ all t end) l
  | SPar l ws | SExcl l ws =>
      l <> [] /\ length l = length ws /\ Forall (fun w => (0 <= w)%Q) ws /\ (0 < qsum ws)%Q /\
      (fix all (l : list step) : Prop := match l with [] => True | s :: t => wf_step s /\ all t end) l
  | _ => True
  end.

(* lexicase needs a multi-objective problem *)
Fixpoint uses_lexicase (s : step) : bool :=
  match s with
  | SLexicase _ => true
  | SSeq l | SPar l _ | SExcl l _ => (fix any (l : list step) : bool := match l with [] => false | s :: t => uses_lexicase s || any t end) l
  | _ => false
  end.

(* ---------- initialisers (sizes) ---------- *)
Inductive init :=
| IStandard | IFull | IGrow | IPIGrow | IRamped
| IInject (injected : Z) (backup : init).       (* number of injected programs *)

Fixpoint init_len (i : init) (k : Z) : Z :=
  match i with
  | IStandard | IFull | IGrow | IRamped => Z.max k 0
  | IPIGrow => Z.max (k / 2) 0 + Z.max (k - k / 2) 0
  | IInject m backup =>
      let inj := Z.min m (Z.max k 0) in                      (* self.programs[:target_size] *)
      if inj <? k then inj + init_len backup (k - inj) else inj
  end.

(* ---------- individual-level models ---------- *)
Section Individuals.
Variable s : store.
Variable pid : N.

Definition aggr (i : N) : res Q :=
  match lookup s (i, pid) with Some f => Ok (agg f) | None => Err OtherError end.

(* sorted(population, key=maximizing_aggregate, reverse=True): stable, best first *)
Fixpoint insert_desc (x : N * Q) (l : list (N * Q)) : list (N * Q) :=
  match l with
  | [] => [x]
  | y :: t => if Qle_bool (snd y) (snd x) then x :: y :: t else y :: insert_desc x t
  end.
Fixpoint sort_desc (l : list (N * Q)) : list (N * Q) :=
  match l with [] => [] | x :: t => insert_desc x (sort_desc t) end.

Fixpoint with_keys (pop : list N) : res (list (N * Q)) :=
  match pop with
  | [] => Ok []
  | i :: t => let* a := aggr i in let* r := with_keys t in Ok ((i, a) :: r)
  end.

(* ElitismStep.iterate (population already evaluated) *)
Definition elitism (pop : list N) (k : Z) : res (list N) :=
  let* ks := with_keys pop in
  let sorted := map fst (sort_desc ks) in
  Ok (if k <? 0 then firstn (Z.to_nat (Z.max (zlen pop + k) 0)) sorted else firstn (Z.to_nat k) sorted).

(* max(candidates, key=...): the first maximal element *)
Fixpoint first_max (best : N * Q) (l : list (N * Q)) : N :=
  match l with
  | [] => fst best
  | x :: t => if Qle_bool (snd x) (snd best) then first_max best t else first_max x t
  end.

Fixpoint remove_first (x : N) (l : list N) : list N :=
  match l with [] => [] | y :: t => if N.eqb x y then t else y :: remove_first x t end.

Fixpoint draw_n (r : src) (cands : list N) (m : nat) : res (list N * src) :=
  match m with
  | O => Ok ([], r)
  | S m' => let* (x, r1) := choice r cands in
            let* (rest, r2) := draw_n r1 cands m' in Ok (x :: rest, r2)
  end.

(* TournamentSelection.iterate after F25.  Returns, per tournament, the winner together with the
   participants drawn for it.  Faithful to the code: [candidates] is re-bound to the participants,
   so later tournaments draw from the previous participants (minus the winner) until they run out. *)
Fixpoint tournament (k : nat) (r : src) (pop cands : list N) (size : nat) (repl : bool)
  : res (list (N * list N) * src) :=
  match k with
  | O => Ok ([], r)
  | S k' =>
      let* (parts, r1) := draw_n r cands size in
      let* ks := with_keys parts in
      match ks with
      | [] => Err ValueError                                  (* max() of an empty sequence *)
      | b :: t =>
          let w := first_max b t in
          let cands' := if repl then parts
                        else match remove_first w parts with [] => pop | l => l end in
          let* (rest, r2) := tournament k' r1 pop cands' size repl in
          Ok ((w, parts) :: rest, r2)
      end
  end.

(* ----- lexicase ----- *)
Definition comp_of (i : N) (c : nat) : res Q :=
  match lookup s (i, pid) with
  | Some f => match nth_error (comps f) c with Some v => Ok v | None => Err IndexError end
  | None => Err OtherError
  end.

Fixpoint comps_of (cands : list N) (c : nat) : res (list Q) :=
  match cands with
  | [] => Ok []
  | i :: t => let* v := comp_of i c in let* r := comps_of t c in Ok (v :: r)
  end.

Fixpoint qmin_l (x : Q) (l : list Q) : Q := match l with [] => x | y :: t => qmin_l (if Qle_bool x y then x else y) t end.
Fixpoint qmax_l (x : Q) (l : list Q) : Q := match l with [] => x | y :: t => qmax_l (if Qle_bool y x then x else y) t end.

Fixpoint qinsert (x : Q) (l : list Q) : list Q :=
  match l with [] => [x] | y :: t => if Qle_bool x y then x :: y :: t else y :: qinsert x t end.
Fixpoint qsort (l : list Q) : list Q := match l with [] => [] | x :: t => qinsert x (qsort t) end.

(* numpy.median: middle element, or the mean of the two middle elements *)
Definition median (l : list Q) : Q :=
  let srt := qsort l in
  let n := length srt in
  if Nat.even n then ((nth (n / 2 - 1) srt 0 + nth (n / 2) srt 0) / 2)%Q else nth (n / 2) srt 0%Q.

Definition mad (l : list Q) : Q :=
  let m := median l in median (map (fun x => Qabs_ (x - m)) l).

(* one filtering step on case c: keep the candidates that are best (or within the MAD band) *)
Definition lex_keep (eps : bool) (minimize : bool) (vals : list Q) : res (Q -> bool) :=
  match vals with
  | [] => Err ValueError
  | v :: t =>
      let best := if minimize then qmin_l v t else qmax_l v t in
      let band := if eps then mad vals else 0%Q in
      Ok (fun x => if minimize then Qle_bool x (best + band) else Qle_bool (best - band) x)
  end.

Fixpoint filter2 {A} (f : Q -> bool) (l : list A) (vs : list Q) : list A :=
  match l, vs with
  | x :: t, v :: vt => if f v then x :: filter2 f t vt else filter2 f t vt
  | _, _ => []
  end.

(* while len(candidates_to_check) > 1 and cases: c = cases.pop(0); filter *)
Fixpoint lex_filter (eps : bool) (mins : list bool) (cands : list N) (cases : list nat) : res (list N) :=
  match cases with
  | [] => Ok cands
  | c :: rest =>
      match cands with
      | [] | [_] => Ok cands
      | _ =>
          let* vals := comps_of cands c in
          match nth_error mins c with
          | None => Err IndexError
          | Some m =>
              let* keep := lex_keep eps m vals in
              lex_filter eps mins (filter2 keep cands vals) rest
          end
      end
  end.

Fixpoint nat_range (n : nat) : list nat := match n with O => [] | S m => nat_range m ++ [m] end.

(* LexicaseSelection.iterate after F28: the case order is shuffled afresh for every winner.
   Returns, per winner, (winner, candidates available, case order used). *)
Fixpoint lexicase (k : nat) (r : src) (eps : bool) (mins : list bool) (ncases : nat) (cands : list N)
  : res (list (N * list N * list nat) * src) :=
  match k with
  | O => Ok ([], r)
  | S k' =>
      let* (cases, r1) := shuffle r (nat_range ncases) in
      let* surv := lex_filter eps mins cands cases in
      let* (w, r2) := (match surv with
                       | [] => Err IndexError
                       | [x] => Ok (x, r1)
                       | _ => choice r1 surv
                       end) in
      let* (rest, r3) := lexicase k' r2 eps mins ncases (remove_first w cands) in
      Ok ((w, cands, cases) :: rest, r3)
  end.

End Individuals.
