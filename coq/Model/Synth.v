(* Synth.v — model of representations/tree/initializations.py: the five deciders (MaxDepthDecider,
   FullDecider, PositionIndependentGrowDecider, ProgressivelyTerminalDecider and
   dynamic_structured_ge.DynamicSGEDecider), create_node with its backtracking loop, the
   metahandlers' generate methods (grammar/metahandlers/*.py) and their validate methods.
   The state threads everything the Python objects mutate: the random source, the PI-grow decider's
   `expanding` flag, the dSGE read positions and gene lists, and the grammar's `alternatives` lists
   (create_node must leave them alone — C10).  Definitions only. *)
From GE Require Export Base Tape Grammar.
Open Scope Z_scope.

(* ---------- equality tests on types and values (keys of the dSGE genotype, comparisons) ---------- *)
Definition Qeqb' (a b : Q) : bool := Qeq_bool a b.

Fixpoint value_eqb (a b : value) : bool :=
  let fix all2 (l1 l2 : list value) : bool :=
    match l1, l2 with
    | [], [] => true
    | x :: t, y :: u => value_eqb x y && all2 t u
    | _, _ => false
    end in
  match a, b with
  | VInt x, VInt y => x =? y
  | VFloat (FQ x), VFloat (FQ y) => Qeqb' x y
  | VFloat FAny, VFloat FAny => true
  | VStr x, VStr y => list_eqb Z.eqb x y
  | VBool x, VBool y => Bool.eqb x y
  | VNode c l1, VNode c' l2 => Nat.eqb c c' && all2 l1 l2
  | VList l1, VList l2 => all2 l1 l2
  | VTuple l1, VTuple l2 => all2 l1 l2
  | VForeign, VForeign => true
  | _, _ => false
  end.

Definition depfun_eqb (a b : depfun) : bool :=
  match a, b with
  | DIntRangeLo x, DIntRangeLo y | DIntRangeHi x, DIntRangeHi y => x =? y
  | DVarRangeOf, DVarRangeOf | DListSizeUpTo, DListSizeUpTo | DIntRange2, DIntRange2 => true
  | _, _ => false
  end.

Definition mh_eqb (a b : mh) : bool :=
  match a, b with
  | MIntRange l h, MIntRange l' h' => (l =? l') && (h =? h')
  | MIntList x, MIntList y => list_eqb Z.eqb x y
  | MFloatRange l h, MFloatRange l' h' => Qeqb' l l' && Qeqb' h h'
  | MFloatList x, MFloatList y => list_eqb Qeqb' x y
  | MVarRange x, MVarRange y => list_eqb value_eqb x y
  | MListSize l h o, MListSize l' h' o' => (l =? l') && (h =? h') && Bool.eqb o o'
  | MStringSize l h a, MStringSize l' h' a' => (l =? l') && (h =? h') && list_eqb Z.eqb a a'
  | MWeightedString r a, MWeightedString r' a' => list_eqb (list_eqb Qeqb') r r' && list_eqb Z.eqb a a'
  | MInterval a b c, MInterval a' b' c' => (a =? a') && (b =? b') && (c =? c')
  | MDependent ds f, MDependent ds' f' => list_eqb Nat.eqb ds ds' && depfun_eqb f f'
  | _, _ => false
  end.

Fixpoint ty_eqb (a b : ty) : bool :=
  let fix all2 (l1 l2 : list ty) : bool :=
    match l1, l2 with
    | [], [] => true
    | x :: t, y :: u => ty_eqb x y && all2 t u
    | _, _ => false
    end in
  match a, b with
  | TBase x, TBase y => base_eqb x y
  | TSym x, TSym y => Nat.eqb x y
  | TList x, TList y => ty_eqb x y
  | TTuple l1, TTuple l2 => all2 l1 l2
  | TUnion l1, TUnion l2 => all2 l1 l2
  | TAnn x m, TAnn y m' => ty_eqb x y && mh_eqb m m'
  | _, _ => false
  end.

(* ---------- state ---------- *)
Inductive dkind :=
| DMax (D : Z)        (* MaxDepthDecider(max_depth = D) *)
| DFull (D : Z)       (* FullDecider *)
| DPI (D : Z)         (* PositionIndependentGrowDecider *)
| DProg               (* ProgressivelyTerminalDecider *)
| DDsge (D : Z).      (* DynamicSGEDecider *)

Record sctx := mkCtx { c_depth : Z; c_exp : Z }.     (* LocalSynthesisContext.depth / .expansions *)
Definition ctx0 : sctx := mkCtx 0 0.

Record sst := mkSt {
  st_src : src;                        (* GlobalSynthesisContext.random (= decider.random for the tree deciders;
                                          = genotype.random for dSGE) *)
  st_exp : option bool;                (* PositionIndependentGrowDecider.expanding (class-level default True) *)
  st_pos : list (ty * nat);            (* DynamicSGEDecider.positions *)
  st_dna : list (ty * list Z);         (* dSGE Genotype.dna *)
  st_alts : list (nat * list nat)      (* Grammar.alternatives — the lists create_node is handed *)
}.

Definition with_src (st : sst) (s : src) : sst := mkSt s (st_exp st) (st_pos st) (st_dna st) (st_alts st).
Definition with_exp (st : sst) (e : option bool) : sst := mkSt (st_src st) e (st_pos st) (st_dna st) (st_alts st).

(* state-and-error monad: the state survives a failure (a failed attempt inside the backtracking
   loop has consumed draws and advanced the decider) *)
Definition M (A : Type) : Type := sst -> res A * sst.
Definition ret {A} (a : A) : M A := fun st => (Ok a, st).
Definition fail {A} (e : err) : M A := fun st => (Err e, st).
Definition bindM {A B} (m : M A) (f : A -> M B) : M B :=
  fun st => match m st with (Ok a, st1) => f a st1 | (Err e, st1) => (Err e, st1) end.
Notation "'do*' x ':=' m 'in' k" := (bindM m (fun x => k))
  (at level 200, x pattern, m at level 100, k at level 200, right associativity).
Definition lift {A} (r : res A) : M A := fun st => (r, st).
(* a primitive of the random source *)
Definition on_src {A} (f : src -> res (A * src)) : M A :=
  fun st => match f (st_src st) with Ok (a, s') => (Ok a, with_src st s') | Err e => (Err e, st) end.

Definition s_randint (lo hi : Z) : M Z := on_src (fun s => randint s lo hi).
Definition s_choice {A} (l : list A) : M A := on_src (fun s => choice s l).
(* random_float of the context's source; a scripted fraction outside [0,1) is not an answer random() can give *)
Definition s_random_float (lo hi : Q) : M Q :=
  on_src (fun s => match s with
                   | Native (DF u :: _) => if Qle_bool 0 u && negb (Qle_bool 1 u) then random_float s lo hi else Err BadTape
                   | _ => random_float s lo hi
                   end).

(* ---------- the analysed grammar, as the deciders see it ---------- *)
Definition key_of_sym (s : sym) : ty := match s with SB b => TBase b | SC c => TSym c end.
Definition sym_of_ty (t : ty) : option sym := sym_of_ty_head t.

Definition in_rec (g : grammar) (t : ty) : bool :=
  match sym_of_ty t with Some s => mem_sym s (g_rec g) | None => false end.

Definition is_registered (g : grammar) (s : sym) : bool := mem_sym s (r_nodes (g_reg g)).

(* Grammar.get_max_node_depth: max over all_nodes of the distance *)
Definition max_node_depth (g : grammar) : res Z :=
  let ds := map (fun s => match dget (g_dist g) s with Some v => v | None => INF end) (r_nodes (g_reg g)) in
  match ds with [] => Err ValueError | x :: t => Ok (zmax_l x t) end.

(* ---------- dSGE genotype access ---------- *)
Fixpoint tget {A} (m : list (ty * A)) (k : ty) : option A :=
  match m with [] => None | (k', v) :: t => if ty_eqb k k' then Some v else tget t k end.
Fixpoint tset {A} (m : list (ty * A)) (k : ty) (v : A) : list (ty * A) :=
  match m with
  | [] => [(k, v)]
  | (k', w) :: t => if ty_eqb k k' then (k', v) :: t else (k', w) :: tset t k v
  end.

(* Genotype.get: extend dna[ty] with fresh draws from genotype.random until position n exists *)
Fixpoint extend_genes (fuel : nat) (s : src) (l : list Z) (n : nat) : res (list Z * src) :=
  if Nat.ltb n (length l) then Ok (l, s)
  else match fuel with
       | O => Err OutOfFuel
       | S f => let* (v, s') := randint s 0 1024 in extend_genes f s' (l ++ [v]) n
       end.

Definition pos_of (m : list (ty * nat)) (k : ty) : nat := match tget m k with Some n => n | None => O end.

(* DynamicSGEDecider.read *)
Definition dsge_read (k : ty) : M Z :=
  fun st =>
  (* self.positions.get(ty, 0): keys that are not grammar symbols (a Union, Genotype) start at 0 too (repair of F45) *)
  match pos_of (st_pos st) k with
  | n =>
      let l := match tget (st_dna st) k with Some l => l | None => [] end in
      match extend_genes (S n) (st_src st) l n with
      | Err e => (Err e, st)
      | Ok (l', s') =>
          match nth_error l' n with
          | None => (Err IndexError, st)
          | Some v => (Ok v, mkSt s' (st_exp st) (tset (st_pos st) k (S n)) (tset (st_dna st) k l') (st_alts st))
          end
      end
  end.

(* ---------- the deciders ---------- *)
Definition fits (g : grammar) (D : Z) (ctx : sctx) (t : ty) : res bool :=
  let* v := gdist_ty g t in Ok (v <=? D - c_depth ctx).

Fixpoint filter_res {A} (f : A -> res bool) (l : list A) : res (list A) :=
  match l with
  | [] => Ok []
  | x :: t => let* b := f x in let* r := filter_res f t in Ok (if b then x :: r else r)
  end.

Definition decider_random_int (k : dkind) (lo hi : Z) : M Z :=
  match k with
  | DDsge _ => do* v := dsge_read (TBase BInt) in lift (dsge_random_int v lo hi)
  | _ => on_src (fun s => base_random_int s lo hi)
  end.

(* random_int() with the defaults of each class *)
Definition decider_default_int (k : dkind) : M Z :=
  match k with
  | DDsge _ => decider_random_int k (- maxsize) maxsize
  | _ => decider_random_int k (- (maxsize - 1)) maxsize
  end.

Definition decider_random_bool (k : dkind) : M bool :=
  match k with
  | DDsge _ => do* v := dsge_read (TBase BBool) in ret (dsge_random_bool v)
  | _ => on_src random_bool
  end.

(* random_float(): BaseDecider draws normalvariate(0,1) — one scripted fraction for the native
   source, Box-Muller over two random_float(0,1) for the gene-backed ones; dSGE reads a gene and
   computes v % (max_float - min_float) + min_float in floating point.  Only exact results are
   values; anything computed in floating point is FAny. *)
Definition decider_random_float (k : dkind) : M value :=
  match k with
  | DDsge _ => do* _ := dsge_read (TBase BFloat) in ret (VFloat FAny)
  | _ =>
      on_src (fun s =>
        match s with
        | Native (DF q :: t) => Ok (VFloat (FQ q), Native t)
        | Native _ => Err BadTape
        | LW _ _ _ =>
            let* (_, s1) := random_float s 0 1 in
            let* (_, s2) := random_float s1 0 1 in
            Ok (VFloat FAny, s2)
        end)
  end.

(* get_weights().get(alt, 1.0): alternatives that are not grammar symbols count as weight 1 *)
Definition prod_weight (g : grammar) (x : ty) : Q :=
  match sym_of_ty x with
  | Some s => if is_registered g s then wget (weights_of g) s else 1%Q
  | None => 1%Q
  end.

(* the weights ProgressivelyTerminalDecider hands to choice_weighted; an alternative that cannot reach a terminal
   (distance INF) gets 0 (repair of F38) *)
Fixpoint prog_weights (g : grammar) (target : Z) (ctx : sctx) (l : list ty) : res (list Q) :=
  match l with
  | [] => Ok []
  | x :: t =>
      let* v := gdist_ty g x in
      let w := (if INF <=? v then 0
                else if in_rec g x then target / (c_depth ctx + 1)
                else Z.max (target - v) 0) in                                   (* clamped (repair of F44) *)
      let* r := prog_weights g target ctx t in
      Ok ((inject_Z w * prod_weight g x)%Q :: r)
  end.

(* the production weights of the alternatives that can reach a terminal *)
Fixpoint prog_fallback (g : grammar) (l : list ty) : res (list Q) :=
  match l with
  | [] => Ok []
  | x :: t => let* v := gdist_ty g x in let* r := prog_fallback g t in Ok ((if INF <=? v then 0%Q else prod_weight g x) :: r)
  end.

(* `if not any(weights)`: when the depth heuristic leaves no candidate the production weights alone decide (repair of F42) *)
Definition prog_final_weights (g : grammar) (target : Z) (ctx : sctx) (alts : list ty) : res (list Q) :=
  let* ws := prog_weights g target ctx alts in
  if forallb (fun q => Qeq_bool q 0) ws then prog_fallback g alts else Ok ws.

(* the depth the progressive decider steers towards: the grammar's maximum node depth, or an estimate when some symbol is unproductive *)
Definition prog_target (g : grammar) : res Z :=
  let* mx := max_node_depth g in
  if mx =? INF then let* mn := min_tree_depth g in Ok (mn * zlen (g_rec g)) else Ok mx.

(* choose_production_alternatives.  [key] is the type the choice is made for (the abstract class or
   the Union), [alts] the candidates as types. *)
Definition choose (g : grammar) (k : dkind) (key : ty) (alts : list ty) (ctx : sctx) : M ty :=
  match alts with [] => fail AssertionError | _ =>
  match k with
  | DMax D =>
      do* l := lift (filter_res (fits g D ctx) alts) in
      s_choice l
  | DFull D =>
      do* c := lift (if c_depth ctx <=? D
                     then filter_res (fun x => let* v := gdist_ty g x in
                                               Ok ((in_rec g x && (v <? D - c_depth ctx)) || (v =? D - c_depth ctx - 1))) alts
                     else Ok []) in
      do* l := lift (match c with [] => filter_res (fits g D ctx) alts | _ => Ok c end) in
      s_choice l
  | DPI D =>
      do* baseline := lift (filter_res (fits g D ctx) alts) in
      fun st =>
      let e1 := if c_exp ctx =? 0 then Some true else st_exp st in
      let e2 := if c_depth ctx =? D - 1 then Some false else e1 in
      match e2 with
      | None => (Err AttributeError, st)        (* self.expanding read before any root-level creation *)
      | Some e =>
          let st' := with_exp st e2 in
          (do* c := lift (if e then filter_res (fun x => let* v := gdist_ty g x in Ok (in_rec g x && (v <? D - c_depth ctx))) alts
                          else Ok baseline) in
           s_choice (match c with [] => baseline | _ => c end)) st'
      end
  | DProg =>
      do* target := lift (prog_target g) in
      do* ws' := lift (prog_final_weights g target ctx alts) in
      (* nothing that can reach a terminal has a positive weight: no admissible choice (repair of F38, second part) *)
      if forallb (fun q => Qeq_bool q 0) ws' then fail SynthesisException
      else on_src (fun s => choice_weighted s alts ws')
  | DDsge D =>
      do* v := dsge_read key in
      do* l := lift (filter_res (fits g D ctx) alts) in
      match l with
      | [] => fail ZeroDivisionError
      | _ => match znth l (v mod zlen l) with Some x => ret x | None => fail IndexError end
      end
  end end.

(* validate() of the depth-limited deciders, run by their constructors *)
Definition decider_validate (g : grammar) (k : dkind) : res unit :=
  match k with
  | DMax D | DFull D | DPI D => let* mn := min_tree_depth g in if D <? mn then Err GeneticEngineError else Ok tt
  | DDsge D => let* mn := min_tree_depth g in if D <? mn then Err GeneticEngineError else Ok tt
  | DProg => let* mn := min_tree_depth g in if INF <=? mn then Err GeneticEngineError else Ok tt      (* repair of F38 *)
  end.

(* ---------- metahandlers ---------- *)
(* Dependent: the callable applied to the named sibling values *)
Definition eval_dep (f : depfun) (vals : list value) : res mh :=
  match f, vals with
  | DIntRangeLo hi, [VInt a] => Ok (MIntRange a hi)
  | DIntRangeHi lo, [VInt a] => Ok (MIntRange lo a)
  | DVarRangeOf, [VList xs] => match xs with [] => Err SynthesisException | _ => Ok (MVarRange xs) end
  | DListSizeUpTo, [VInt n] => Ok (MListSize 0 n true)
  | DIntRange2, [VInt a; VInt b] => Ok (MIntRange (b - a) b)
  | _, _ => Err TypeError
  end.

Fixpoint lookup_deps (deps : list value) (names : list nat) : res (list value) :=
  match names with
  | [] => Ok []
  | n :: t => match nth_error deps n with
              | Some v => let* r := lookup_deps deps t in Ok (v :: r)
              | None => Err KeyError
              end
  end.

Fixpoint repeatM {A} (n : nat) (f : M A) : M (list A) :=
  match n with
  | O => ret []
  | S k => do* x := f in do* r := repeatM k f in ret (x :: r)
  end.

Fixpoint weighted_rows (rows : list (list Q)) (alphabet : list Z) : M (list Z) :=
  match rows with
  | [] => ret []
  | row :: t => do* c := on_src (fun s => choice_weighted s alphabet row) in
                do* r := weighted_rows t alphabet in
                ret (c :: r)
  end.

(* generate() of the refinements that do not call back into create_node *)
Definition mh_generate_flat (m : mh) : option (M value) :=
  match m with
  | MIntRange lo hi => Some (do* v := s_randint lo hi in ret (VInt v))
  | MIntList xs => Some (do* v := s_choice xs in ret (VInt v))
  | MFloatRange lo hi => Some (do* v := s_random_float lo hi in ret (VFloat (FQ v)))
  | MFloatList xs => Some (do* v := s_choice xs in ret (VFloat (FQ v)))
  | MVarRange opts => Some (s_choice opts)
  | MStringSize lo hi alphabet =>
      Some (do* n := s_randint lo hi in
            do* cs := repeatM (Z.to_nat n) (s_choice alphabet) in
            ret (VStr cs))
  | MWeightedString rows alphabet =>
      Some (do* cs := weighted_rows rows alphabet in ret (VStr cs))
  | MInterval minlen maxlen top =>
      Some (do* len := s_randint minlen maxlen in
            do* start := s_randint 0 (top - len) in
            ret (VTuple [VInt start; VInt (start + len)]))
  | MListSize _ _ _ | MDependent _ _ => None
  end.

(* validate() *)
Definition mh_validate (m : mh) (v : value) : res bool :=
  match m, v with
  | MIntRange lo hi, VInt z => Ok ((lo <=? z) && (z <=? hi))
  | MIntList xs, VInt z => Ok (existsb (Z.eqb z) xs)
  | MFloatRange lo hi, VFloat (FQ q) => Ok (Qle_bool lo q && Qle_bool q hi)
  | MFloatList xs, VFloat (FQ q) => Ok (existsb (Qeqb' q) xs)
  | MVarRange opts, _ => Ok (existsb (value_eqb v) opts)
  | MListSize lo hi _, VList vs => Ok ((lo <=? zlen vs) && (zlen vs <=? hi))
  | MStringSize lo hi alphabet, VStr cs => Ok ((lo <=? zlen cs) && (zlen cs <=? hi) && forallb (fun c => existsb (Z.eqb c) alphabet) cs)
  | MWeightedString rows alphabet, VStr cs => Ok ((zlen cs =? zlen rows) && forallb (fun c => existsb (Z.eqb c) alphabet) cs)
  | MInterval minlen maxlen top, VTuple [VInt a; VInt b] =>
      Ok ((minlen <=? b - a) && (b - a <=? maxlen) && (b <=? top))       (* after the repair of F04 *)
  | MDependent _ _, _ => Err NotImplementedError
  | _, _ => Err TypeError
  end.

(* ---------- create_node ---------- *)
Definition creator := ty -> sctx -> list value -> M value.

Fixpoint remove_first (x : nat) (l : list nat) : list nat :=
  match l with [] => [] | y :: t => if Nat.eqb x y then t else y :: remove_first x t end.

(* the retry loop over the productions of an abstract type; [compat] is a COPY of the grammar's list
   (repair of F17), so the state's st_alts is never written.  A failed attempt keeps the state it
   reached: its draws are not rolled back. *)
Fixpoint try_productions (fuel : nat) (cr : creator) (g : grammar) (k : dkind) (c : nat) (compat : list nat)
         (ctx : sctx) : M value :=
  match fuel with
  | O => fail OutOfFuel
  | S f =>
      match compat with
      | [] => fail SynthesisException
      | _ =>
          do* rule := choose g k (TSym c) (map TSym compat) ctx in
          match rule with
          | TSym p =>
              fun st =>
              match cr rule (mkCtx (c_depth ctx) (c_exp ctx + 1)) [] st with
              | (Ok r, st1) => (Ok r, st1)
              | (Err SynthesisException, st1) => try_productions f cr g k c (remove_first p compat) ctx st1
              | (Err e, st1) => (Err e, st1)
              end
          | _ => fail TypeError
          end
      end
  end.

(* the fields of a concrete production: each sees the values of the earlier ones *)
Fixpoint create_fields (cr : creator) (flds : list ty) (ctx : sctx) (deps : list value) : M (list value) :=
  match flds with
  | [] => ret []
  | t :: r =>
      do* v := cr t ctx deps in
      do* vs := create_fields cr r ctx (deps ++ [v]) in
      ret (v :: vs)
  end.

Fixpoint create_tuple (cr : creator) (ts : list ty) (ctx : sctx) : M (list value) :=
  match ts with
  | [] => ret []
  | t :: r =>
      do* v := cr t ctx [] in
      do* vs := create_tuple cr r ctx in
      ret (v :: vs)
  end.

Fixpoint create_node (fuel : nat) (g : grammar) (k : dkind) (t : ty) (ctx : sctx) (deps : list value) : M value :=
  match fuel with
  | O => fail OutOfFuel
  | S f =>
      let cr := create_node f g k in
      let d := g_decl g in
      match t with
      | TBase BInt => do* v := decider_default_int k in ret (VInt v)
      | TBase BFloat => decider_random_float k
      | TBase BBool => do* b := decider_random_bool k in ret (VBool b)
      | TBase BStr =>
          (* no branch for str: it is treated as a production without arguments: str() *)
          if is_registered g (SB BStr) then ret (VStr []) else fail GeneticEngineError
      | TTuple ts => do* vs := create_tuple cr ts ctx in ret (VTuple vs)
      | TList t' =>
          do* n := decider_random_int k 0 10 in
          let nctx := mkCtx (c_depth ctx + xd d) (c_exp ctx + 1) in          (* after the repair of F06 *)
          do* vs := repeatM (Z.to_nat n) (cr t' nctx []) in
          ret (VList vs)
      | TAnn base m =>
          let rctx := mkCtx (c_depth ctx) (c_exp ctx + 1) in
          match mh_generate_flat m with
          | Some r => r
          | None =>
              match m with
              | MListSize lo hi _ =>
                  match base with
                  | TList inner =>
                      do* n := s_randint lo hi in
                      do* vs := repeatM (Z.to_nat n) (cr inner rctx deps) in
                      ret (VList vs)
                  | _ => fail AssertionError
                  end
              | MDependent names fn =>
                  do* vals := lift (lookup_deps deps names) in
                  do* m' := lift (eval_dep fn vals) in
                  cr (TAnn base m') rctx deps
              | _ => fail OtherError
              end
          end
      | TUnion ts =>
          do* t' := choose g k t ts ctx in
          cr t' ctx deps
      | TSym c =>
          if negb (is_registered g (SC c)) then fail GeneticEngineError
          else fun st =>
               match get_alts (st_alts st) c with
               | Some prods => try_productions (S (length prods)) cr g k c prods ctx st
               | None =>
                   if is_abstract d (SC c) then (Err SynthesisException, st)   (* no productions for an abstract type *)
                   else
                   let nctx := mkCtx (c_depth ctx + 1) (c_exp ctx + 1) in
                   (do* args := create_fields cr (fields_of d (SC c)) nctx [] in
                    ret (VNode c args)) st
               end
      end
  end.

(* random_node / random_tree from the start symbol with a fresh context *)
Definition st_init (g : grammar) (s : src) : sst :=
  mkSt s (Some true) (map (fun x => (key_of_sym x, O)) (r_nodes (g_reg g))) [] (r_alts (g_reg g)).

Definition synth_fuel (g : grammar) (D : Z) : nat :=
  (40 + 4 * Z.to_nat (Z.max D 0) * (3 + length (d_classes (g_decl g))))%nat.
