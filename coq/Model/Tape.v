(* Tape.v — model of geneticengine/random/sources.py (RandomSource and its derived
   primitives) and of the three genotype-backed sources
     ge.ListWrapper, stackgggp.ListWrapper, structured_ge.StructuredListWrapper,
   plus the deciders' bounded integer draws
     BaseDecider.random_int (initializations.py), DynamicSGEDecider.random_int.
   Randomness is explicit: the native source is a tape of scripted answers.
   Definitions only. *)
From GE Require Export Base.

(* A scripted answer of the native source: an integer for randint, a fraction
   u in [0,1) for random(). *)
Inductive draw := DI (z : Z) | DF (q : Q).

(* which Python class a gene-backed source is an instance of *)
Inductive lwkind := KGE | KStack | KSGE.

Inductive src :=
| Native (tape : list draw)
| LW (k : lwkind) (dna : list Z) (idx : nat).

Definition maxsize : Z := 9223372036854775807.   (* sys.maxsize on CPython x86-64 *)

(* ListWrapper.randint: self.index = (self.index + 1) % len(self.dna); v = self.dna[self.index] *)
Definition lw_step (dna : list Z) (idx : nat) : res (Z * nat) :=
  match dna with
  | [] => Err ZeroDivisionError
  | _ => let i := Nat.modulo (S idx) (length dna) in
         match nth_error dna i with
         | Some v => Ok (v, i)
         | None => Err IndexError
         end
  end.

Definition randint (s : src) (lo hi : Z) : res (Z * src) :=
  match s with
  | Native tape =>
      if hi <? lo then Err ValueError          (* random.Random.randint: empty range *)
      else match tape with
           | DI v :: t => if (lo <=? v) && (v <=? hi) then Ok (v, Native t) else Err BadTape
           | _ => Err BadTape
           end
  | LW k dna idx =>
      let* (v, i) := lw_step dna idx in
      let m := hi - lo + 1 in
      if m =? 0 then Err ZeroDivisionError     (* v % 0 *)
      else Ok (v mod m + lo, LW k dna i)        (* Python % is floor-mod = Z.modulo *)
  end.

(* random_float(min, max), exact arithmetic over Q *)
Definition random_float (s : src) (lo hi : Q) : res (Q * src) :=
  match s with
  | Native tape =>
      match tape with
      | DF u :: t => Ok ((u * (hi - lo) + lo)%Q, Native t)
      | _ => Err BadTape
      end
  | LW KStack _ _ =>
      let* (b, s1) := randint s 1 10 in
      let* (e, s2) := randint s1 1 10 in
      let k := b ^ e in
      if k =? 0 then Err ZeroDivisionError
      else Ok ((1 * (hi - lo) / inject_Z k + lo)%Q, s2)
  | LW _ _ _ =>
      let* (k, s1) := randint s 1 maxsize in
      if k =? 0 then Err ZeroDivisionError
      else Ok ((1 * (hi - lo) / inject_Z k + lo)%Q, s1)
  end.

Definition choice {A} (s : src) (l : list A) : res (A * src) :=
  match l with
  | [] => Err AssertionError
  | _ => let* (i, s') := randint s 0 (zlen l - 1) in
         match znth l i with
         | Some x => Ok (x, s')
         | None => Err IndexError
         end
  end.

Definition random_bool (s : src) : res (bool * src) := choice s [true; false].

(* int(x): truncation towards zero *)
Definition Qtrunc (q : Q) : Z := if Qle_bool 0 q then Qfloor q else (- Qfloor (- q))%Z.

Fixpoint accumulate (acc : Q) (ws : list Q) : list Q :=
  match ws with
  | [] => []
  | w :: t => let a := (acc + w)%Q in a :: accumulate a t
  end.

Definition acc_weights (ws : list Q) : list Z :=
  map (fun x => Qtrunc (x * 100000)) (accumulate 0 ws).

(* for choice, acc in zip(choices, acc_weights): if rand_value < acc: return choice *)
Fixpoint select {A} (choices : list A) (accs : list Z) (r : Z) : option A :=
  match choices, accs with
  | c :: cs, a :: t => if r <? a then Some c else select cs t r
  | _, _ => None
  end.

Fixpoint last_error {A} (l : list A) : option A :=
  match l with
  | [] => None
  | x :: t => match t with [] => Some x | _ => last_error t end
  end.

(* choice_weighted on already accumulated integer weights (after the repair of
   F29: randint(0, max(total - 1, 0)) instead of randint(0, total)) *)
Definition choice_weighted_acc {A} (s : src) (choices : list A) (accs : list Z) : res (A * src) :=
  match last_error accs with
  | None => Err IndexError                         (* acc_weights[-1] on an empty list *)
  | Some total =>
      let* (r, s') := randint s 0 (Z.max (total - 1) 0) in
      match select choices accs r with
      | Some c => Ok (c, s')
      | None => match choices with c :: _ => Ok (c, s') | [] => Err IndexError end
      end
  end.

Definition choice_weighted {A} (s : src) (choices : list A) (ws : list Q) : res (A * src) :=
  choice_weighted_acc s choices (acc_weights ws).

(* lst[i], lst[j] = lst[j], lst[i] *)
Definition swap {A} (l : list A) (i j : nat) : option (list A) :=
  match nth_error l i, nth_error l j with
  | Some a, Some b => Some (set_nth (set_nth l i b) j a)
  | _, _ => None
  end.

(* for i in reversed(range(1, len(lst))): j = randint(0, i); swap *)
Fixpoint shuffle_loop {A} (i : nat) (s : src) (l : list A) : res (list A * src) :=
  match i with
  | O => Ok (l, s)
  | S i' =>
      let* (j, s') := randint s 0 (Z.of_nat i) in
      match swap l i (Z.to_nat j) with
      | Some l' => shuffle_loop i' s' l'
      | None => Err IndexError
      end
  end.

Definition shuffle {A} (s : src) (l : list A) : res (list A * src) :=
  shuffle_loop (length l - 1) s l.

(* pop_random: returns the popped element and the list as left behind *)
Definition pop_random {A} (s : src) (l : list A) : res (A * list A * src) :=
  match rev l with
  | [] => Err IndexError                           (* pop from empty list *)
  | item :: r =>
      let l' := rev r in
      let n := zlen l' in
      let* (i, s') := randint s 0 n in
      if i =? n then Ok (item, l', s')
      else match znth l' i with
           | Some x => Ok (x, set_nth l' (Z.to_nat i) item, s')
           | None => Err IndexError
           end
  end.

(* round(log10(w)) for an integer w >= 1, computed on integers: the least e with
   w^2 < 10^(2e+1)  (i.e. log10 w < e + 1/2).  log10 of an integer is never
   exactly a half-integer, so half-even rounding never matters in exact
   arithmetic; CPython computes it in floating point (trusted, see DESIGN). *)
Fixpoint rlog10_from (fuel : nat) (e : Z) (w : Z) : Z :=
  match fuel with
  | O => e
  | S f => if w * w <? 10 ^ (2 * e + 1) then e else rlog10_from f (e + 1) w
  end.
Definition rlog10 (w : Z) : Z := rlog10_from 400 0 w.

(* BaseDecider.random_int after the repair of F30 ("% (half + 1)") *)
Definition base_random_int (s : src) (lo hi : Z) : res (Z * src) :=
  let width := hi - lo in
  if 1000 <? width then
    let half := width / 2 in
    let* (n, s1) := randint s 0 10 in
    let* (e, s2) := randint s1 0 (rlog10 width) in
    let extra := (n ^ e) mod (half + 1) in
    let* (b, s3) := random_bool s2 in
    Ok (lo + half + (if b then extra else - extra), s3)
  else randint s lo hi.

(* DynamicSGEDecider.random_int on the gene it read, after the repair of F31 *)
Definition dsge_random_int (gene lo hi : Z) : res Z :=
  let m := hi - lo + 1 in
  if m =? 0 then Err ZeroDivisionError else Ok (gene mod m + lo).

(* DynamicSGEDecider.random_bool after the repair of F02 *)
Definition dsge_random_bool (gene : Z) : bool := gene mod 2 =? 0.
