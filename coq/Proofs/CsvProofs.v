(* CsvProofs.v — property C20: the CSV log is faithful and a valid prefix at every point between
   two registrations. *)
From GE Require Import Base Search Csv.
From Coq Require Import List Lia.
Import ListNotations.

Section Csv.
Variable fit : N -> list Q.

Definition recorded (ob : bool) (regs : list (N * bool)) : list N :=
  map fst (filter (fun r => negb ob || snd r) regs).

Lemma csv_register_cols c r : c_cols (csv_register fit c r) = c_cols c /\ only_best (csv_register fit c r) = only_best c.
Proof. unfold csv_register. destruct (negb (only_best c) || snd r); simpl; auto. Qed.

Lemma fold_register_inv regs c :
  buf c = [] ->
  let c' := fold_left (csv_register fit) regs c in
  buf c' = [] /\ c_cols c' = c_cols c /\ only_best c' = only_best c /\
  disk c' = disk c ++ map (row_of fit (c_cols c)) (recorded (only_best c) regs).
Proof.
  revert c. induction regs as [|r regs IH]; intros c Hb; cbn [fold_left].
  - unfold recorded; simpl. rewrite app_nil_r. auto.
  - destruct (csv_register_cols c r) as [Hc Ho].
    assert (Hb' : buf (csv_register fit c r) = []).
    { unfold csv_register. destruct (negb (only_best c) || snd r); simpl; auto. }
    specialize (IH _ Hb'). cbv zeta in IH. destruct IH as (H1 & H2 & H3 & H4).
    cbv zeta. rewrite H1, H2, H3, H4, Hc, Ho. repeat split; auto.
    unfold recorded; cbn [filter]. unfold csv_register.
    destruct (negb (only_best c) || snd r) eqn:E; cbn [map fst disk flush writerow c_cols].
    + cbn [buf writerow]. rewrite Hb. cbn [app]. rewrite <- app_assoc. reflexivity.
    + reflexivity.
Qed.

(* after construction and after every registration: nothing is left in the writer's buffer and the
   file is the header followed by one complete row per recorded individual, in order *)
Theorem csv_disk_inv cols ob regs :
  let c := csv_run fit cols ob regs in
  buf c = [] /\ disk c = RHeader cols :: map (row_of fit cols) (recorded ob regs).
Proof.
  unfold csv_run.
  pose proof (fold_register_inv regs (csv_init cols ob) eq_refl) as H. cbv zeta in H.
  destruct H as (H1 & _ & _ & H4). cbv zeta. split; auto.
Qed.

(* the file at an earlier point is a prefix of the file at any later point: a run interrupted
   between two registrations leaves a valid prefix of the full log *)
Theorem csv_prefix cols ob regs more :
  exists suffix, disk (csv_run fit cols ob (regs ++ more)) = disk (csv_run fit cols ob regs) ++ suffix.
Proof.
  destruct (csv_disk_inv cols ob (regs ++ more)) as [_ H1].
  destruct (csv_disk_inv cols ob regs) as [_ H2].
  rewrite H1, H2. unfold recorded. rewrite filter_app, map_app, map_app.
  eexists. cbn [app]. reflexivity.
Qed.

(* one row per registered individual, or only strict improvements when so configured *)
Theorem csv_rows_all (regs : list (N * bool)) : recorded false regs = map fst regs.
Proof. unfold recorded. induction regs as [|r t IH]; simpl; auto. f_equal; auto. Qed.

Theorem csv_rows_only_best (regs : list (N * bool)) i :
  In i (recorded true regs) <-> In (i, true) regs.
Proof.
  unfold recorded. rewrite in_map_iff. split.
  - intros ([j b] & Hj & Hin). simpl in Hj; subst. apply filter_In in Hin. destruct Hin as [Hin Hb].
    simpl in Hb. destruct b; [auto|discriminate].
  - intros Hin. exists (i, true). split; auto. apply filter_In. split; auto.
Qed.

(* in each row the k-th fitness column holds the k-th component of THAT individual, and every
   extra field is that field's own callback applied to that individual *)
Theorem csv_columns nobj extras i n :
  let cols := default_cols nobj extras in
  forall c, nth_error cols n = Some c ->
  nth_error (map (cell_of fit i) cols) n =
  Some (match c with
        | ColTime => CTime
        | ColPheno => CPheno i
        | ColFit k => match nth_error (fit i) k with Some q => CFit q | None => CFail end
        | ColExtra cb => CUser cb i
        end).
Proof. intros cols c H. rewrite nth_error_map, H. simpl. destruct c; reflexivity. Qed.

Lemma fit_cols_nth k n j : (j < n)%nat -> nth_error (fit_cols k n) j = Some (ColFit (k + j)).
Proof.
  revert k j. induction n as [|n IH]; intros k j Hj; [lia|].
  destruct j; simpl.
  - f_equal. f_equal. lia.
  - rewrite IH by lia. f_equal. f_equal. lia.
Qed.

Lemma fit_cols_length k n : length (fit_cols k n) = n.
Proof. revert k; induction n; intros; simpl; auto. Qed.

(* the default layout: column 2+k is "Fitness k" *)
Theorem csv_fitness_column nobj extras k :
  (k < nobj)%nat -> nth_error (default_cols nobj extras) (2 + k) = Some (ColFit k).
Proof.
  intros Hk. unfold default_cols. cbn [plus nth_error].
  rewrite nth_error_app1 by (rewrite fit_cols_length; exact Hk).
  apply (fit_cols_nth 0 nobj k Hk).
Qed.

End Csv.
