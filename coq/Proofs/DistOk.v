(* DistOk.v — the side condition dist_ok of the completeness theorem (C04) holds for every analysed grammar:
   the fixpoint analysis assigns a distance to every registered class and to every field type of every production. *)
From GE Require Import Base Tape Grammar WellTyped Synth Sat Lang RegProofs DistProofs GrowComplete.
Open Scope Z_scope.

Section DistOk.
Variables (d : decl) (order : list sym -> list sym) (g : grammar).
Hypothesis Hperm : perm_order order.
Hypothesis Han : analyse d order = Ok g.
Let r := g_reg g.
Let m := g_dist g.

Lemma Hdecl : g_decl g = d. Proof. exact (analyse_decl d order g Han). Qed.

Lemma gdist_is t : gdist_ty g t = dist_ty d m t.
Proof. unfold gdist_ty. rewrite Hdecl. reflexivity. Qed.

(* every registered symbol has an entry in the distance table *)
Lemma df_entry s : In s (r_nodes r) -> exists n, dget m s = Some n.
Proof.
  intro Hin. destruct (analyse_parts _ _ _ Han) as [_ [El _]]. fold r m in El.
  assert (G : forall fuel m0 m1, dist_loop fuel d r (order (r_nodes r)) m0 = Ok m1 -> forall s0, dget m0 s0 <> None -> dget m1 s0 <> None).
  { clear. induction fuel as [|f IH]; intros m0 m1 H s0 Hs; simpl in H; [discriminate|].
    destruct (dist_pass d r (order (r_nodes r)) m0 false) as [[m' ch]|] eqn:Ep; cbn [bind] in H; [|discriminate].
    assert (P : forall ord ma mb c0 c1, dist_pass d r ord ma c0 = Ok (mb, c1) -> dget ma s0 <> None -> dget mb s0 <> None).
    { clear. induction ord as [|a t IHo]; intros ma mb c0 c1 H Hs; simpl in H; [inversion H; subst; exact Hs|].
      destruct (dist_step d r ma a) as [z|]; cbn [bind] in H; [|discriminate].
      destruct (z <? _); [|eauto]. eapply IHo; [exact H|]. rewrite dget_dset. destruct (sym_eqb s0 a); [discriminate | exact Hs]. }
    destruct ch; [eapply IH; [exact H | eapply P; eauto] | inversion H; subst; eapply P; eauto]. }
  assert (X : forall nodes m0, In s nodes -> dget (fold_left (fun m s => dset m s INF) nodes m0) s <> None).
  { induction nodes as [|a t IH]; intros m0 Hi; [destruct Hi|]. simpl. destruct Hi as [-> | Hi]; [|apply IH; exact Hi].
    assert (Y : forall nodes m1, dget m1 s <> None -> dget (fold_left (fun m s => dset m s INF) nodes m1) s <> None).
    { clear. induction nodes as [|a t IH]; intros m1 H; simpl; [exact H|]. apply IH. rewrite dget_dset. destruct (sym_eqb s a); [discriminate | exact H]. }
    apply Y. rewrite dget_dset, sym_eqb_refl. discriminate. }
  specialize (G _ _ _ El s). destruct (dget m s) as [n|] eqn:E; [eexists; reflexivity|].
  exfalso. apply G; [|reflexivity]. unfold dist_init. apply X. exact Hin.
Qed.

(* a type whose distance is defined has all its parts' distances defined *)
Lemma ty_ok_of_dist : forall t n, dist_ty d m t = Ok n -> ty_dist_ok g t = true.
Proof.
  assert (L : forall ts, Forall (fun t => forall n, dist_ty d m t = Ok n -> ty_dist_ok g t = true) ts ->
                         forall ns, dist_tys d m ts = Ok ns -> tys_dist_ok g ts = true).
  { induction ts as [|t ts IH]; intros HF ns H; [reflexivity|]. cbn [dist_tys] in H.
    apply Forall_cons_iff in HF. destruct HF as [H2 H3].
    destruct (dist_ty d m t) as [x|] eqn:Ex; cbn [bind] in H; [|discriminate].
    destruct (dist_tys d m ts) as [xs|] eqn:Exs; cbn [bind] in H; [|discriminate].
    cbn [tys_dist_ok]. rewrite (H2 _ eq_refl), (IH H3 _ eq_refl). reflexivity. }
  induction t as [b|c|t IH|ts IH|ts IH|t mh IH] using ty_ind'; intros n H; cbn [ty_dist_ok]; rewrite gdist_is, H; cbn [is_ok andb]; try reflexivity.
  - cbn [dist_ty] in H. destruct (dist_ty d m t) as [x|] eqn:Ex; cbn [bind] in H; [|discriminate]. eapply IH; eauto.
  - rewrite tys_dist_okb. rewrite dist_ty_tuple in H. destruct (dist_tys d m ts) as [ns|] eqn:E; cbn [bind] in H; [|discriminate]. eapply L; eauto.
  - rewrite tys_dist_okb. rewrite dist_ty_union in H. destruct (dist_tys d m ts) as [ns|] eqn:E; cbn [bind] in H; [|discriminate]. eapply L; eauto.
  - cbn [dist_ty] in H. eapply IH; eauto.
Qed.

Lemma tys_ok_of_dist : forall ts ns, dist_tys d m ts = Ok ns -> tys_dist_ok g ts = true.
Proof.
  induction ts as [|t ts IH]; intros ns H; [reflexivity|]. cbn [dist_tys] in H.
  destruct (dist_ty d m t) as [x|] eqn:Ex; cbn [bind] in H; [|discriminate].
  destruct (dist_tys d m ts) as [xs|] eqn:Exs; cbn [bind] in H; [|discriminate].
  cbn [tys_dist_ok]. rewrite (ty_ok_of_dist _ _ Ex), (IH _ eq_refl). reflexivity.
Qed.

Theorem dist_ok_analysed : dist_ok g = true.
Proof.
  unfold dist_ok. apply forallb_forall. intros s Hs. fold r in Hs. destruct s as [b|c]; [reflexivity|].
  destruct (df_entry _ Hs) as [n Hn].
  assert (E1 : is_ok (gdist_ty g (TSym c)) = true) by (rewrite gdist_is; cbn [dist_ty]; fold m; rewrite Hn; reflexivity).
  rewrite E1. cbn [andb]. rewrite Hdecl.
  destruct (is_abstract d (SC c)) eqn:Ea; [reflexivity|]. cbn [orb].
  destruct (fields_of d (SC c)) as [|f fs] eqn:Ef; [reflexivity|].
  assert (Hm : mem_sym (SC c) (r_nodes r) = true) by (apply mem_sym_In; exact Hs).
  destruct (df_closed d order g Han c Hm) as [_ B]. specialize (B Ea ltac:(rewrite Ef; discriminate)).
  destruct (df_post d order g Han (SC c) ltac:(apply Hperm; exact Hs)) as [v [Hv _]].
  fold r m in Hv. rewrite (dist_step_fields d r m (SC c) Ea B) in Hv.
  destruct (dist_tys d m (fields_of d (SC c))) as [ns|] eqn:En; cbn [bind] in Hv; [|discriminate].
  rewrite <- Ef. eapply tys_ok_of_dist; eauto.
Qed.
End DistOk.

From GE Require Import SynthFrame SynthSat SynthDepth LangProofs.

(* "no valid program is unreachable" for grow creation, without the side condition *)
Theorem grow_reaches_language_all d order g D :
  extract d order = Ok g -> perm_order order -> d_xdepth d = false -> fc_decl d = true ->
  forall v, InLang g D v -> noempty v = true ->
  exists tape F, forall fuel, (F <= fuel)%nat ->
    exists st', create_node fuel g (DMax D) (TSym (d_start (g_decl g))) ctx0 [] (st_init g (Native tape)) = (Ok v, st') /\
                st_src st' = Native [].
Proof.
  intros H Hperm Hxd Hfc v Hin Hne.
  destruct (extract_analyse _ _ _ H) as [Han _].
  exact (grow_reaches_language d order g D H Hperm Hxd Hfc (dist_ok_analysed (g_decl g) order g Hperm Han) v Hin Hne).
Qed.
