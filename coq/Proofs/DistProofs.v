(* DistProofs.v — C05: the minimum depths computed by Grammar.preprocess (default depth mode) are
   exact with respect to the derivations of Spec/WellTyped.v whose lists are non-empty:
   lower bound (no program is shallower) from the loop's exit condition, upper bound (some program
   attains the reported depth) from a witness invariant over the passes; for every iteration order. *)
From GE Require Import Base Grammar RegProofs WellTyped.
Open Scope Z_scope.

(* ---------- induction on types with nested lists ---------- *)
Section TyInd.
Variable P : ty -> Prop.
Hypothesis Hbase : forall b, P (TBase b).
Hypothesis Hsym : forall c, P (TSym c).
Hypothesis Hlist : forall t, P t -> P (TList t).
Hypothesis Htuple : forall ts, Forall P ts -> P (TTuple ts).
Hypothesis Hunion : forall ts, Forall P ts -> P (TUnion ts).
Hypothesis Hann : forall t m, P t -> P (TAnn t m).
Fixpoint ty_ind' (t : ty) : P t :=
  match t with
  | TBase b => Hbase b
  | TSym c => Hsym c
  | TList t' => Hlist t' (ty_ind' t')
  | TTuple ts => Htuple ts ((fix go (l : list ty) : Forall P l :=
                               match l with [] => Forall_nil P | x :: r => Forall_cons x (ty_ind' x) (go r) end) ts)
  | TUnion ts => Hunion ts ((fix go (l : list ty) : Forall P l :=
                               match l with [] => Forall_nil P | x :: r => Forall_cons x (ty_ind' x) (go r) end) ts)
  | TAnn t' m => Hann t' m (ty_ind' t')
  end.
End TyInd.

(* ---------- helpers ---------- *)
Definition mget (m : dmap) (s : sym) : Z := match dget m s with Some v => v | None => INF end.

Fixpoint dist_tys (d : decl) (m : dmap) (ts : list ty) : res (list Z) :=
  match ts with
  | [] => Ok []
  | x :: r => let* v := dist_ty d m x in let* vs := dist_tys d m r in Ok (v :: vs)
  end.

Lemma dist_ty_union d m ts :
  dist_ty d m (TUnion ts) = let* vs := dist_tys d m ts in
                            match vs with [] => Err ValueError | v :: r => Ok (xd d + zmin_l v r) end.
Proof.
  cbn [dist_ty].
  assert (E : forall l, (fix go (ts : list ty) : res (list Z) :=
              match ts with [] => Ok [] | x :: r => let* v := dist_ty d m x in let* vs := go r in Ok (v :: vs) end) l
              = dist_tys d m l).
  { induction l as [|x r IH]; [reflexivity|]. cbn [dist_tys]. rewrite <- IH. reflexivity. }
  rewrite E. reflexivity.
Qed.

Lemma dist_ty_tuple d m ts :
  dist_ty d m (TTuple ts) = let* vs := dist_tys d m ts in
                            match vs with [] => Err ValueError | v :: r => Ok (xd d + zmax_l v r) end.
Proof.
  cbn [dist_ty].
  assert (E : forall l, (fix go (ts : list ty) : res (list Z) :=
              match ts with [] => Ok [] | x :: r => let* v := dist_ty d m x in let* vs := go r in Ok (v :: vs) end) l
              = dist_tys d m l).
  { induction l as [|x r IH]; [reflexivity|]. cbn [dist_tys]. rewrite <- IH. reflexivity. }
  rewrite E. reflexivity.
Qed.

Lemma zmin_l_le x l : zmin_l x l <= x /\ forall y, In y l -> zmin_l x l <= y.
Proof.
  revert x. induction l as [|a t IH]; intro x; simpl; [split; [lia | tauto]|].
  destruct (IH (Z.min x a)) as [A B]. split; [lia|].
  intros y [<- | Hy]; [lia | apply B; exact Hy].
Qed.

Lemma zmin_l_attained x l : zmin_l x l = x \/ In (zmin_l x l) l.
Proof.
  revert x. induction l as [|a t IH]; intro x; simpl; [left; reflexivity|].
  destruct (IH (Z.min x a)) as [E | E].
  - rewrite E. destruct (Z.min_spec x a) as [[_ ->] | [_ ->]]; [left; reflexivity | right; left; reflexivity].
  - right; right; exact E.
Qed.

Lemma zmax_l_ge x l : x <= zmax_l x l /\ forall y, In y l -> y <= zmax_l x l.
Proof.
  revert x. induction l as [|a t IH]; intro x; simpl; [split; [lia | tauto]|].
  destruct (IH (Z.max x a)) as [A B]. split; [lia|].
  intros y [<- | Hy]; [lia | apply B; exact Hy].
Qed.

Lemma zmax_l_bound x l b : x <= b -> (forall y, In y l -> y <= b) -> zmax_l x l <= b.
Proof.
  revert x. induction l as [|a t IH]; intros x Hx Hl; simpl; [exact Hx|].
  apply IH; [|intros y Hy; apply Hl; right; exact Hy].
  pose proof (Hl a (or_introl eq_refl)). lia.
Qed.

(* the loop body of preprocess for a concrete non-terminal, via dist_tys *)
Lemma dist_step_fields d r m s :
  is_abstract d s = false -> mem_sym s (r_nonterm r) = true ->
  dist_step d r m s = let* vs := dist_tys d m (fields_of d s) in
                      match map (Z.add 1) vs with [] => Err AssertionError | v :: t => Ok (zmax_l v t) end.
Proof.
  intros Ha Hn. unfold dist_step. rewrite Ha, Hn. cbn [negb].
  assert (E : forall l, (fix go (ts : list ty) : res (list Z) :=
              match ts with [] => Ok [] | x :: t => let* v := dist_ty d m x in let* r0 := go t in Ok (1 + v :: r0) end) l
              = let* vs := dist_tys d m l in Ok (map (Z.add 1) vs)).
  { induction l as [|x t IH]; [reflexivity|]. cbn [dist_tys]. rewrite IH.
    destruct (dist_ty d m x); cbn [bind]; [|reflexivity].
    destruct (dist_tys d m t); reflexivity. }
  rewrite E. destruct (dist_tys d m (fields_of d s)); reflexivity.
Qed.

(* ---------- the exit condition of the loop ---------- *)
Lemma dist_pass_true d r : forall order m m' ch,
  dist_pass d r order m true = Ok (m', ch) -> ch = true.
Proof.
  induction order as [|s t IH]; intros m m' ch H; simpl in H.
  - inversion H; reflexivity.
  - destruct (dist_step d r m s) as [v|]; cbn [bind] in H; [|discriminate].
    destruct (v <? _); eapply IH; exact H.
Qed.

Lemma dist_pass_nochange d r : forall order m m',
  dist_pass d r order m false = Ok (m', false) ->
  m' = m /\ forall s, In s order -> exists v, dist_step d r m s = Ok v /\ mget m s <= v.
Proof.
  induction order as [|s t IH]; intros m m' H; simpl in H.
  - inversion H; subst. split; [reflexivity | intros s []].
  - destruct (dist_step d r m s) as [v|] eqn:Es; cbn [bind] in H; [|discriminate].
    destruct (v <? match dget m s with Some x => x | None => INF end) eqn:El.
    + apply dist_pass_true in H. discriminate.
    + destruct (IH _ _ H) as [-> Hall]. split; [reflexivity|].
      intros s0 [<- | Hin]; [|apply Hall; exact Hin].
      exists v. split; [exact Es|]. unfold mget. apply Z.ltb_ge in El. exact El.
Qed.

Lemma dist_loop_exit d r order : forall fuel m m',
  dist_loop fuel d r order m = Ok m' -> dist_pass d r order m' false = Ok (m', false).
Proof.
  induction fuel as [|f IH]; intros m m' H; simpl in H; [discriminate|].
  destruct (dist_pass d r order m false) as [[m1 ch]|] eqn:Ep; cbn [bind] in H; [|discriminate].
  destruct ch.
  - apply IH in H. exact H.
  - inversion H; subst m1. destruct (dist_pass_nochange _ _ _ _ _ Ep) as [-> _]. exact Ep.
Qed.

(* ---------- lower bound ---------- *)
Section Lower.
Variables (d : decl) (r : rstate) (m : dmap) (order : list sym).
Hypothesis Hxd : d_xdepth d = false.
Hypothesis Hinv : reg_inv d r.
Hypothesis Hord : forall s, In s (r_nodes r) -> In s order.
Hypothesis Hpost : forall s, In s order -> exists v, dist_step d r m s = Ok v /\ mget m s <= v.

Lemma xd0 : xd d = 0. Proof. unfold xd. rewrite Hxd. reflexivity. Qed.

Lemma fold_min_le (prods : list nat) : forall init,
  fold_left (fun v p => Z.min v (xd d + match dget m (SC p) with Some x => x | None => INF end)) prods init <= init /\
  forall p, In p prods ->
    fold_left (fun v p => Z.min v (xd d + match dget m (SC p) with Some x => x | None => INF end)) prods init <= mget m (SC p).
Proof.
  induction prods as [|a t IH]; intro init; simpl; [split; [lia | tauto]|].
  destruct (IH (Z.min init (xd d + match dget m (SC a) with Some x => x | None => INF end))) as [A B].
  split; [lia|]. intros p [<- | Hp]; [|apply B; exact Hp].
  unfold mget. rewrite xd0 in *. lia.
Qed.

Lemma abstract_le a l c :
  is_abstract d (SC a) = true -> get_alts (r_alts r) a = Some l -> In c l -> mget m (SC a) <= mget m (SC c).
Proof.
  intros Ha Hg Hin.
  assert (Hreg : In (SC a) (r_nodes r)) by (apply mem_sym_In; apply (ri_key_reg _ _ Hinv _ _ Hg)).
  destruct (Hpost _ (Hord _ Hreg)) as [v [Hs Hle]].
  unfold dist_step in Hs. rewrite Ha, Hg in Hs. inversion Hs; subst v; clear Hs.
  destruct (fold_min_le l (match dget m (SC a) with Some v => v | None => INF end)) as [_ B].
  specialize (B c Hin). lia.
Qed.

Lemma prod_of_le c c' : prod_of d r c c' -> mget m (SC c) <= mget m (SC c').
Proof.
  induction 1 as [c Ha Hm | a l c c' Ha Hg Hin _ IH]; [lia|].
  pose proof (abstract_le a l c Ha Hg Hin). lia.
Qed.

Lemma prod_of_concrete c c' : prod_of d r c c' -> is_abstract d (SC c') = false /\ In (SC c') (r_nodes r).
Proof. induction 1 as [c Ha Hm | a l c c' Ha Hg Hin _ IH]; [split; [exact Ha | apply mem_sym_In; exact Hm] | exact IH]. Qed.

Hypothesis Hbase : forall b, In (SB b) order \/ dget m (SB b) = Some 0.

Lemma base_le b n : dist_ty d m (TBase b) = Ok n -> n <= 0.
Proof.
  cbn [dist_ty]. destruct (dget m (SB b)) as [x|] eqn:E; [|discriminate]. intro H; inversion H; subst x.
  destruct (Hbase b) as [Hin | E0]; [|rewrite E in E0; inversion E0; lia].
  destruct (Hpost _ Hin) as [v [Hs Hle]]. unfold mget in Hle. rewrite E in Hle.
  unfold dist_step in Hs. cbn [is_abstract] in Hs.
  destruct (mem_sym (SB b) (r_nonterm r)); cbn [negb] in Hs.
  - cbn [fields_of] in Hs. discriminate.
  - rewrite Hxd in Hs. inversion Hs; subst. exact Hle.
Qed.

Lemma forall2_max ns vs : Forall2 (fun n v => n <= vdepth v) ns vs ->
  forall y, In y (map (Z.add 1) ns) -> y <= 1 + vdepth_max vs.
Proof.
  induction 1 as [|n v ns vs Hnv _ IH]; cbn [map In vdepth_max]; [tauto|].
  intros y [<- | Hy]; [lia|]. specialize (IH y Hy). lia.
Qed.

Theorem dist_lower_mut :
  (forall t v, WT d r true t v -> forall n, dist_ty d m t = Ok n -> n <= vdepth v) /\
  (forall ts vs, WTs d r true ts vs -> forall ns, dist_tys d m ts = Ok ns ->
       Forall2 (fun n v => n <= vdepth v) ns vs) /\
  (forall t vs, WTall d r true t vs -> forall n, dist_ty d m t = Ok n -> forall v, In v vs -> n <= vdepth v) /\
  (forall ts v, WTany d r true ts v -> forall ns, dist_tys d m ts = Ok ns -> exists n, In n ns /\ n <= vdepth v).
Proof.
  apply WT_mutind.
  - intros z n H. apply base_le in H. simpl. exact H.
  - intros f n H. apply base_le in H. simpl. exact H.
  - intros s0 n H. apply base_le in H. simpl. exact H.
  - intros b n H. apply base_le in H. simpl. exact H.
  - (* node *)
    intros c c' args Hpo Hargs IH n H. cbn [dist_ty] in H.
    destruct (dget m (SC c)) as [x|] eqn:E; [|discriminate]. inversion H; subst x; clear H.
    pose proof (prod_of_le _ _ Hpo) as Hle. unfold mget at 1 in Hle. rewrite E in Hle.
    destruct (prod_of_concrete _ _ Hpo) as [Hconc Hreg].
    destruct (Hpost _ (Hord _ Hreg)) as [v [Hs Hmv]].
    rewrite vdepth_node. pose proof (vdepth_max_nonneg args).
    destruct (mem_sym (SC c') (r_nonterm r)) eqn:En.
    + rewrite (dist_step_fields _ _ _ _ Hconc En) in Hs.
      destruct (dist_tys d m (fields_of d (SC c'))) as [ns|] eqn:Ens; cbn [bind] in Hs; [|discriminate].
      specialize (IH ns eq_refl).
      destruct (map (Z.add 1) ns) as [|y t] eqn:Em; [discriminate|]. inversion Hs; subst v; clear Hs.
      assert (zmax_l y t <= 1 + vdepth_max args).
      { apply zmax_l_bound.
        - apply (forall2_max _ _ IH). rewrite Em. left; reflexivity.
        - intros z Hz. apply (forall2_max _ _ IH). rewrite Em. right; exact Hz. }
      lia.
    + unfold dist_step in Hs. rewrite Hconc, En in Hs. cbn [negb] in Hs. inversion Hs; subst v. lia.
  - (* list *)
    intros t vs Hall IH Hne n H. cbn [dist_ty] in H.
    destruct (dist_ty d m t) as [x|] eqn:E; cbn [bind] in H; [|discriminate]. inversion H; subst n; clear H.
    rewrite xd0. rewrite vdepth_list.
    destruct vs as [|v vs']; [exfalso; apply (Hne eq_refl); reflexivity|].
    specialize (IH x eq_refl v (or_introl eq_refl)). cbn [vdepth_max]. lia.
  - (* tuple *)
    intros ts vs Hs IH n H. rewrite dist_ty_tuple in H.
    destruct (dist_tys d m ts) as [ns|] eqn:E; cbn [bind] in H; [|discriminate].
    destruct ns as [|y t]; [discriminate|]. inversion H; subst n; clear H.
    specialize (IH _ eq_refl). rewrite xd0, vdepth_tuple.
    assert (forall z, In z (y :: t) -> z <= vdepth_max vs).
    { clear - IH. induction IH as [|n v ns vs Hnv _ IHf]; simpl; [tauto|].
      intros z [<- | Hz]; [lia|]. specialize (IHf z Hz). lia. }
    assert (zmax_l y t <= vdepth_max vs).
    { apply zmax_l_bound; [apply H; left; reflexivity | intros z Hz; apply H; right; exact Hz]. }
    lia.
  - (* union *)
    intros ts v Hany IH n H. rewrite dist_ty_union in H.
    destruct (dist_tys d m ts) as [ns|] eqn:E; cbn [bind] in H; [|discriminate].
    destruct ns as [|y t]; [discriminate|]. inversion H; subst n; clear H.
    destruct (IH _ eq_refl) as [k [Hk Hle]]. rewrite xd0.
    destruct (zmin_l_le y t) as [A B].
    destruct Hk as [<- | Hk]; [lia|]. specialize (B k Hk). lia.
  - (* ann *)
    intros t mh v Hv IH n H. cbn [dist_ty] in H. apply IH; exact H.
  - intros ns H. cbn [dist_tys] in H. inversion H; constructor.
  - intros t ts v vs Hv IHv Hvs IHs ns H. cbn [dist_tys] in H.
    destruct (dist_ty d m t) as [x|] eqn:E; cbn [bind] in H; [|discriminate].
    destruct (dist_tys d m ts) as [xs|] eqn:Es; cbn [bind] in H; [|discriminate].
    inversion H; subst ns. constructor; [apply IHv; reflexivity | apply IHs; reflexivity].
  - intros t n H v [].
  - intros t v vs Hv IHv Hvs IHs n H v0 [<- | Hin]; [apply IHv; exact H | apply (IHs n H v0 Hin)].
  - intros t ts v Hv IHv ns H. cbn [dist_tys] in H.
    destruct (dist_ty d m t) as [x|] eqn:E; cbn [bind] in H; [|discriminate].
    destruct (dist_tys d m ts) as [xs|] eqn:Es; cbn [bind] in H; [|discriminate].
    inversion H; subst ns. exists x. split; [left; reflexivity | apply IHv; reflexivity].
  - intros t ts v Hv IHv ns H. cbn [dist_tys] in H.
    destruct (dist_ty d m t) as [x|] eqn:E; cbn [bind] in H; [|discriminate].
    destruct (dist_tys d m ts) as [xs|] eqn:Es; cbn [bind] in H; [|discriminate].
    inversion H; subst ns. destruct (IHv _ eq_refl) as [k [Hk Hle]]. exists k. split; [right; exact Hk | exact Hle].
Qed.
End Lower.

(* ---------- upper bound: every finite distance is attained by a derivation ---------- *)
Definition ty_of (s : sym) : ty := match s with SB b => TBase b | SC c => TSym c end.

Lemma dget_dset m s v s' : dget (dset m s v) s' = if sym_eqb s' s then Some v else dget m s'.
Proof.
  induction m as [|[k w] t IH]; simpl.
  - destruct (sym_eqb s' s); reflexivity.
  - destruct (sym_eqb s k) eqn:E; simpl.
    + apply sym_eqb_eq in E; subst k. destruct (sym_eqb s' s); reflexivity.
    + destruct (sym_eqb s' k) eqn:E2.
      * apply sym_eqb_eq in E2; subst k.
        destruct (sym_eqb s' s) eqn:E3; [|reflexivity].
        apply sym_eqb_eq in E3; subst. rewrite sym_eqb_refl in E; discriminate.
      * exact IH.
Qed.

Section Upper.
Variables (d : decl) (r : rstate).
Hypothesis Hxd : d_xdepth d = false.
Hypothesis Hinv : reg_inv d r.
Hypothesis Hclosed : forall c, mem_sym (SC c) (r_nodes r) = true -> closed_at d r c.

Definition witnessed (m : dmap) : Prop :=
  forall s n, dget m s = Some n -> n < INF -> exists v, WT d r true (ty_of s) v /\ vdepth v <= n.

Lemma xd0' : xd d = 0. Proof. unfold xd. rewrite Hxd. reflexivity. Qed.

Lemma wit_ty m (W : witnessed m) : forall t n,
  dist_ty d m t = Ok n -> n < INF -> exists v, WT d r true t v /\ vdepth v <= n.
Proof.
  induction t as [b|c|t IH|ts IH|ts IH|t mh IH] using ty_ind'; intros n H Hn.
  - cbn [dist_ty] in H. destruct (dget m (SB b)) as [x|] eqn:E; [|discriminate]. inversion H; subst x.
    apply (W (SB b) n E Hn).
  - cbn [dist_ty] in H. destruct (dget m (SC c)) as [x|] eqn:E; [|discriminate]. inversion H; subst x.
    apply (W (SC c) n E Hn).
  - cbn [dist_ty] in H. destruct (dist_ty d m t) as [x|] eqn:E; cbn [bind] in H; [|discriminate].
    inversion H; subst n; clear H. rewrite xd0' in *.
    destruct (IH x eq_refl ltac:(lia)) as [v [Hv Hd]].
    exists (VList [v]). split.
    + constructor; [constructor; [exact Hv | constructor] | intros _; discriminate].
    + rewrite vdepth_list. cbn [vdepth_max]. pose proof (vdepth_nonneg v). lia.
  - (* tuple: all components *)
    rewrite dist_ty_tuple in H.
    destruct (dist_tys d m ts) as [ns|] eqn:E; cbn [bind] in H; [|discriminate].
    destruct ns as [|y t]; [discriminate|]. inversion H; subst n; clear H. rewrite xd0' in *.
    assert (Hall : forall k, In k (y :: t) -> k < INF).
    { intros k Hk. destruct (zmax_l_ge y t) as [A B]. destruct Hk as [<- | Hk]; [lia|]. specialize (B k Hk). lia. }
    assert (G : forall ts, Forall (fun t => forall n, dist_ty d m t = Ok n -> n < INF ->
                                    exists v, WT d r true t v /\ vdepth v <= n) ts ->
                forall ns, dist_tys d m ts = Ok ns -> (forall k, In k ns -> k < INF) ->
                exists vs, WTs d r true ts vs /\ Forall2 (fun n v => vdepth v <= n) ns vs).
    { clear. induction 1 as [|t0 ts0 Ht _ IHf]; intros ns H Hk; cbn [dist_tys] in H.
      - inversion H. exists []. split; constructor.
      - destruct (dist_ty d m t0) as [x|] eqn:E; cbn [bind] in H; [|discriminate].
        destruct (dist_tys d m ts0) as [xs|] eqn:Es; cbn [bind] in H; [|discriminate].
        inversion H; subst ns.
        destruct (Ht x eq_refl (Hk x (or_introl eq_refl))) as [v [Hv Hd]].
        destruct (IHf xs eq_refl (fun k Hin => Hk k (or_intror Hin))) as [vs [Hvs Hds]].
        exists (v :: vs). split; constructor; assumption. }
    destruct (G ts IH _ E Hall) as [vs [Hvs Hds]].
    exists (VTuple vs). split; [constructor; exact Hvs|].
    rewrite vdepth_tuple.
    assert (forall b, (forall k, In k (y :: t) -> k <= b) -> 0 <= b -> vdepth_max vs <= b).
    { clear - Hds. induction Hds as [|n v ns vs Hnv _ IHf]; intros b Hb H0; cbn [vdepth_max]; [exact H0|].
      pose proof (Hb n (or_introl eq_refl)).
      assert (vdepth_max vs <= b) by (apply IHf; [intros k Hk; apply Hb; right; exact Hk | exact H0]). lia. }
    apply H.
    + intros k Hk. destruct (zmax_l_ge y t) as [A B]. destruct Hk as [<- | Hk]; [lia | apply B; exact Hk].
    + inversion Hds; subst. pose proof (vdepth_nonneg y0). destruct (zmax_l_ge y t) as [A _]. lia.
  - (* union: the cheapest alternative *)
    rewrite dist_ty_union in H.
    destruct (dist_tys d m ts) as [ns|] eqn:E; cbn [bind] in H; [|discriminate].
    destruct ns as [|y t]; [discriminate|]. inversion H; subst n; clear H. rewrite xd0' in *.
    assert (Hk : In (zmin_l y t) (y :: t)) by (destruct (zmin_l_attained y t) as [-> | X]; [left; reflexivity | right; exact X]).
    assert (G : forall ts, Forall (fun t => forall n, dist_ty d m t = Ok n -> n < INF ->
                                    exists v, WT d r true t v /\ vdepth v <= n) ts ->
                forall ns, dist_tys d m ts = Ok ns -> forall k, In k ns -> k < INF ->
                exists v, WTany d r true ts v /\ vdepth v <= k).
    { clear. induction 1 as [|t0 ts0 Ht _ IHf]; intros ns H k Hk Hlt; cbn [dist_tys] in H.
      - inversion H; subst. destruct Hk.
      - destruct (dist_ty d m t0) as [x|] eqn:E; cbn [bind] in H; [|discriminate].
        destruct (dist_tys d m ts0) as [xs|] eqn:Es; cbn [bind] in H; [|discriminate].
        inversion H; subst ns. destruct Hk as [<- | Hk].
        + destruct (Ht x eq_refl Hlt) as [v [Hv Hd]]. exists v. split; [apply WTany_here; exact Hv | exact Hd].
        + destruct (IHf xs eq_refl k Hk Hlt) as [v [Hv Hd]]. exists v. split; [apply WTany_there; exact Hv | exact Hd]. }
    destruct (G ts IH _ E _ Hk ltac:(lia)) as [v [Hv Hd]].
    exists v. split; [constructor; exact Hv | lia].
  - cbn [dist_ty] in H. destruct (IH n H Hn) as [v [Hv Hd]]. exists v. split; [constructor; exact Hv | exact Hd].
Qed.

Lemma fold_min_attained m (prods : list nat) : forall init,
  let f := fold_left (fun v p => Z.min v (xd d + match dget m (SC p) with Some x => x | None => INF end)) prods init in
  f = init \/ exists p, In p prods /\ f = xd d + mget m (SC p).
Proof.
  induction prods as [|a t IH]; intro init; simpl; [left; reflexivity|].
  destruct (IH (Z.min init (xd d + match dget m (SC a) with Some x => x | None => INF end))) as [E | [p [Hp E]]].
  - destruct (Z.min_spec init (xd d + match dget m (SC a) with Some x => x | None => INF end)) as [[_ E2] | [_ E2]].
    + left. rewrite E, E2. reflexivity.
    + right. exists a. split; [left; reflexivity|]. rewrite E, E2. reflexivity.
  - right. exists p. split; [right; exact Hp | exact E].
Qed.

Lemma witnessed_step m s v :
  witnessed m -> In s (r_nodes r) -> dist_step d r m s = Ok v -> v < mget m s -> witnessed (dset m s v).
Proof.
  intros W Hreg Hs Hlt s' n Hg Hn. rewrite dget_dset in Hg.
  destruct (sym_eqb s' s) eqn:E; [|apply (W s' n Hg Hn)].
  apply sym_eqb_eq in E; subst s'. inversion Hg; subst n; clear Hg.
  unfold dist_step in Hs.
  destruct (is_abstract d s) eqn:Ha.
  - (* abstract *)
    destruct s as [b|a]; [discriminate|].
    destruct (get_alts (r_alts r) a) as [prods|] eqn:Eg.
    + inversion Hs; subst v; clear Hs.
      destruct (fold_min_attained m prods (match dget m (SC a) with Some v => v | None => INF end)) as [E | [p [Hp E]]];
        cbv zeta in E.
      * unfold mget in Hlt. lia.
      * rewrite E in *. rewrite xd0' in *.
        assert (Hgp : dget m (SC p) = Some (mget m (SC p))).
        { unfold mget in *. destruct (dget m (SC p)); [reflexivity | lia]. }
        destruct (W (SC p) _ Hgp ltac:(lia)) as [w [Hw Hd]].
        cbn [ty_of] in Hw. inversion Hw as [| | | |c0 c' args Hpo Hargs| | | |]; subst.
        exists (VNode c' args). split; [|lia].
        cbn [ty_of]. constructor; [|exact Hargs]. eapply po_step; eassumption.
    + inversion Hs; subst v. unfold mget in Hlt. lia.
  - destruct (mem_sym s (r_nonterm r)) eqn:En; cbn [negb] in Hs.
    + (* concrete non-terminal: build the node from witnesses of its fields *)
      assert (Hs' := dist_step_fields d r m s Ha En). unfold dist_step in Hs'. rewrite Ha, En in Hs'. cbn [negb] in Hs'.
      rewrite Hs' in Hs; clear Hs'.
      destruct (dist_tys d m (fields_of d s)) as [ns|] eqn:Ens; cbn [bind] in Hs; [|discriminate].
      destruct (map (Z.add 1) ns) as [|y t] eqn:Em; [discriminate|]. inversion Hs; subst v; clear Hs.
      destruct s as [b|c]; [cbn [fields_of] in Ens; inversion Ens; subst; discriminate|].
      assert (Hall : forall k, In k ns -> 1 + k <= zmax_l y t).
      { intros k Hk. assert (In (1 + k) (y :: t)) as X by (rewrite <- Em; apply in_map; exact Hk).
        destruct (zmax_l_ge y t) as [A B]. destruct X as [<- | X]; [exact A | apply B; exact X]. }
      assert (G : forall ts ns, dist_tys d m ts = Ok ns -> (forall k, In k ns -> k < INF) ->
                  exists vs, WTs d r true ts vs /\ Forall2 (fun n v => vdepth v <= n) ns vs).
      { clear - W Hxd Hinv Hclosed. induction ts as [|t0 ts0 IHf]; intros ns H Hk; cbn [dist_tys] in H.
        - inversion H. exists []. split; constructor.
        - destruct (dist_ty d m t0) as [x|] eqn:E; cbn [bind] in H; [|discriminate].
          destruct (dist_tys d m ts0) as [xs|] eqn:Es; cbn [bind] in H; [|discriminate].
          inversion H; subst ns.
          destruct (wit_ty m W t0 x E (Hk x (or_introl eq_refl))) as [v [Hv Hd]].
          destruct (IHf xs eq_refl (fun k Hin => Hk k (or_intror Hin))) as [vs [Hvs Hds]].
          exists (v :: vs). split; constructor; assumption. }
      destruct (G _ _ Ens (fun k Hk => ltac:(specialize (Hall k Hk); lia))) as [vs [Hvs Hds]].
      exists (VNode c vs). split.
      * cbn [ty_of]. constructor; [|exact Hvs]. apply po_self; [exact Ha | apply mem_sym_In; exact Hreg].
      * rewrite vdepth_node.
        assert (forall b, (forall k, In k ns -> 1 + k <= b) -> 1 <= b -> 1 + vdepth_max vs <= b).
        { clear - Hds. induction Hds as [|n v ns vs Hnv _ IHf]; intros b Hb H0; cbn [vdepth_max]; [lia|].
          pose proof (Hb n (or_introl eq_refl)).
          assert (1 + vdepth_max vs <= b) by (apply IHf; [intros k Hk; apply Hb; right; exact Hk | exact H0]). lia. }
        apply H; [exact Hall|].
        destruct ns as [|n0 ns0]; [discriminate|]. inversion Hds; subst.
        pose proof (Hall n0 (or_introl eq_refl)). pose proof (vdepth_nonneg y0). lia.
    + (* terminal *)
      destruct s as [b|c].
      * rewrite Hxd in Hs. inversion Hs; subst v.
        exists (match b with BInt => VInt 0 | BFloat => VFloat FAny | BStr => VStr [] | BBool => VBool false end).
        destruct b; cbn [ty_of]; (split; [constructor | simpl; lia]).
      * inversion Hs; subst v.
        assert (Hm : mem_sym (SC c) (r_nodes r) = true) by (apply mem_sym_In; exact Hreg).
        destruct (Hclosed c Hm) as [_ B].
        destruct (fields_of d (SC c)) as [|f fs] eqn:Ef.
        -- exists (VNode c []). split; [|rewrite vdepth_node; simpl; lia].
           cbn [ty_of]. constructor; [apply po_self; assumption | rewrite Ef; constructor].
        -- specialize (B Ha ltac:(discriminate)). congruence.
Qed.

Lemma witnessed_pass : forall order m m' ch ch',
  witnessed m -> (forall s, In s order -> In s (r_nodes r)) ->
  dist_pass d r order m ch = Ok (m', ch') -> witnessed m'.
Proof.
  induction order as [|s t IH]; intros m m' ch ch' W Hsub H; simpl in H.
  - inversion H; subst; exact W.
  - destruct (dist_step d r m s) as [v|] eqn:Es; cbn [bind] in H; [|discriminate].
    destruct (v <? match dget m s with Some x => x | None => INF end) eqn:El.
    + eapply IH; [| |exact H]; [|intros; apply Hsub; right; assumption].
      apply witnessed_step; [exact W | apply Hsub; left; reflexivity | exact Es|].
      unfold mget. apply Z.ltb_lt in El. exact El.
    + eapply IH; [exact W | intros; apply Hsub; right; assumption | exact H].
Qed.

Lemma witnessed_loop order : forall fuel m m',
  witnessed m -> (forall s, In s order -> In s (r_nodes r)) ->
  dist_loop fuel d r order m = Ok m' -> witnessed m'.
Proof.
  induction fuel as [|f IH]; intros m m' W Hsub H; simpl in H; [discriminate|].
  destruct (dist_pass d r order m false) as [[m1 ch]|] eqn:Ep; cbn [bind] in H; [|discriminate].
  pose proof (witnessed_pass _ _ _ _ _ W Hsub Ep) as W1.
  destruct ch; [eapply IH; eassumption | inversion H; subst; exact W1].
Qed.
End Upper.

(* ---------- the initial table and untouched entries ---------- *)
Lemma dist_init_entries r : forall s n, dget (dist_init r) s = Some n ->
  n = INF \/ (exists b, s = SB b /\ n = 0 /\ ~ In s (r_nodes r)).
Proof.
  unfold dist_init.
  assert (G : forall nodes m0,
            (forall s n, dget m0 s = Some n -> n = INF \/ exists b, s = SB b /\ n = 0) ->
            forall s n, dget (fold_left (fun m s => dset m s INF) nodes m0) s = Some n ->
                        n = INF \/ (exists b, s = SB b /\ n = 0 /\ ~ In s nodes)).
  { induction nodes as [|a t IH]; intros m0 H0 s n H; simpl in H.
    - destruct (H0 s n H) as [-> | [b [-> ->]]]; [left; reflexivity | right; exists b; auto].
    - destruct (IH (dset m0 a INF)) with (s := s) (n := n) as [-> | [b [-> [-> Hn]]]]; [| exact H | left; reflexivity |].
      + intros s1 n1 H1. rewrite dget_dset in H1. destruct (sym_eqb s1 a); [inversion H1; left; reflexivity | apply H0; exact H1].
      + (* the entry survived as (SB b, 0): then a <> SB b *)
        assert (Hne : a <> SB b).
        { intro; subst a.
          assert (X : forall nodes m1, dget m1 (SB b) = Some INF ->
                      dget (fold_left (fun m s => dset m s INF) nodes m1) (SB b) = Some INF).
          { clear. induction nodes as [|a t IH]; intros m1 H1; simpl; [exact H1|].
            apply IH. rewrite dget_dset. destruct (sym_eqb (SB b) a); [reflexivity | exact H1]. }
          rewrite (X t (dset m0 (SB b) INF)) in H; [inversion H|].
          rewrite dget_dset, sym_eqb_refl. reflexivity. }
        right. exists b. repeat split; try reflexivity. intros [X | X]; [congruence | tauto]. }
  intros s n H. apply (G (r_nodes r) _) in H; [exact H|].
  intros s1 n1 H1. simpl in H1.
  destruct s1 as [[]|c]; simpl in H1; inversion H1; right; eexists; split; reflexivity.
Qed.

Lemma dist_init_base r b : ~ In (SB b) (r_nodes r) -> dget (dist_init r) (SB b) = Some 0.
Proof.
  unfold dist_init. intro Hn.
  assert (G : forall nodes m0, ~ In (SB b) nodes ->
            dget (fold_left (fun m s => dset m s INF) nodes m0) (SB b) = dget m0 (SB b)).
  { induction nodes as [|a t IH]; intros m0 H; simpl; [reflexivity|].
    rewrite IH; [|intro X; apply H; right; exact X]. rewrite dget_dset.
    destruct (sym_eqb (SB b) a) eqn:E; [apply sym_eqb_eq in E; subst; exfalso; apply H; left; reflexivity | reflexivity]. }
  rewrite G; [|exact Hn]. destruct b; reflexivity.
Qed.

Lemma dist_pass_other d r : forall order m m' ch ch' s,
  dist_pass d r order m ch = Ok (m', ch') -> ~ In s order -> dget m' s = dget m s.
Proof.
  induction order as [|a t IH]; intros m m' ch ch' s H Hn; simpl in H.
  - inversion H; reflexivity.
  - destruct (dist_step d r m a) as [v|]; cbn [bind] in H; [|discriminate].
    destruct (v <? _).
    + rewrite (IH _ _ _ _ _ H); [|intro X; apply Hn; right; exact X]. rewrite dget_dset.
      destruct (sym_eqb s a) eqn:E; [apply sym_eqb_eq in E; subst; exfalso; apply Hn; left; reflexivity | reflexivity].
    + apply (IH _ _ _ _ _ H). intro X; apply Hn; right; exact X.
Qed.

Lemma dist_loop_other d r order : forall fuel m m' s,
  dist_loop fuel d r order m = Ok m' -> ~ In s order -> dget m' s = dget m s.
Proof.
  induction fuel as [|f IH]; intros m m' s H Hn; simpl in H; [discriminate|].
  destruct (dist_pass d r order m false) as [[m1 ch]|] eqn:Ep; cbn [bind] in H; [|discriminate].
  pose proof (dist_pass_other _ _ _ _ _ _ _ s Ep Hn) as E1.
  destruct ch; [rewrite (IH _ _ _ H Hn); exact E1 | inversion H; subst; exact E1].
Qed.

(* ---------- the analysed grammar ---------- *)
Definition perm_order (order : list sym -> list sym) : Prop := forall l s, In s (order l) <-> In s l.

Lemma analyse_parts d order g :
  analyse d order = Ok g ->
  reg (reg_fuel d) d (TSym (d_start d)) r0 = Ok (g_reg g) /\
  dist_loop (4 + 2 * length (r_nodes (g_reg g))) d (g_reg g) (order (r_nodes (g_reg g))) (dist_init (g_reg g)) = Ok (g_dist g) /\
  forallb (fun s => snd (reachable_from d (g_reg g) s)) (r_nodes (g_reg g)) = true /\
  g_rec g = filter (is_recursive d (g_reg g)) (r_nodes (g_reg g)).
Proof.
  unfold analyse. intro H.
  destruct (reg (reg_fuel d) d (TSym (d_start d)) r0) as [r|] eqn:E; cbn [bind] in H; [|discriminate].
  match type of H with context [dist_loop ?a ?b ?c ?e ?f] => destruct (dist_loop a b c e f) as [m|] eqn:El end;
    cbn [bind] in H; [|discriminate].
  match type of H with context [if ?b then _ else _] => destruct b eqn:Ef end; [|discriminate].
  inversion H; subst; simpl. repeat split; [exact El | exact Ef].
Qed.

Lemma analyse_decl d order g : analyse d order = Ok g -> g_decl g = d.
Proof.
  unfold analyse. intro H.
  destruct (reg (reg_fuel d) d (TSym (d_start d)) r0) as [r|]; cbn [bind] in H; [|discriminate].
  match type of H with context [dist_loop ?a ?b ?c ?e ?f] => destruct (dist_loop a b c e f) as [m|] end;
    cbn [bind] in H; [|discriminate].
  match type of H with context [if ?b then _ else _] => destruct b end; [|discriminate].
  inversion H; reflexivity.
Qed.

Theorem dist_exact d order g :
  d_xdepth d = false -> perm_order order -> analyse d order = Ok g ->
  forall c n, dget (g_dist g) (SC c) = Some n ->
    (forall v, WT d (g_reg g) true (TSym c) v -> n <= vdepth v) /\
    (n < INF -> exists v, WT d (g_reg g) true (TSym c) v /\ vdepth v = n).
Proof.
  intros Hxd Hperm H c n Hg.
  destruct (analyse_parts _ _ _ H) as [Er [El _]].
  set (r := g_reg g) in *. set (m := g_dist g) in *.
  assert (Hinv : reg_inv d r) by (eapply reg_result_inv; exact Er).
  assert (Hclosed : forall c, mem_sym (SC c) (r_nodes r) = true -> closed_at d r c).
  { intros c0 Hc0. eapply reg_result_closed; eassumption. }
  assert (Hlow : forall v, WT d r true (TSym c) v -> n <= vdepth v).
  { intros v Hv.
    destruct (dist_pass_nochange _ _ _ _ _ (dist_loop_exit _ _ _ _ _ _ El)) as [_ Hpost].
    refine (proj1 (dist_lower_mut d r m (order (r_nodes r)) Hxd Hinv _ Hpost _) _ _ Hv n _).
    - intros s Hs. apply Hperm. exact Hs.
    - intro b. destruct (mem_sym (SB b) (r_nodes r)) eqn:Emem;
        [assert (Hin : In (SB b) (r_nodes r)) by (apply mem_sym_In; exact Emem)
        |assert (Hnin : ~ In (SB b) (r_nodes r)) by (intro X; apply mem_sym_In in X; congruence)].
      + left. apply Hperm. exact Hin.
      + right. rewrite (dist_loop_other _ _ _ _ _ _ (SB b) El); [apply dist_init_base; exact Hnin|].
        intro X. apply (proj1 (Hperm _ _)) in X. exact (Hnin X).
    - cbn [dist_ty]. fold m. rewrite Hg. reflexivity. }
  split; [exact Hlow|].
  intro Hn.
  assert (W : witnessed d r m).
  { eapply witnessed_loop; try eassumption.
    - intros s k Hs Hk. destruct (dist_init_entries r s k Hs) as [-> | [b [-> [-> _]]]]; [lia|].
      exists (match b with BInt => VInt 0 | BFloat => VFloat FAny | BStr => VStr [] | BBool => VBool false end).
      destruct b; cbn [ty_of]; (split; [constructor | simpl; lia]).
    - intros s Hs. apply (proj1 (Hperm _ _)) in Hs. exact Hs. }
  destruct (W (SC c) n Hg Hn) as [v [Hv Hd]]. exists v. split; [exact Hv|].
  specialize (Hlow v Hv). lia.
Qed.

(* consequence: the distances do not depend on the iteration order of the symbol set (C08) *)
Corollary dist_order_independent d order1 order2 g1 g2 :
  d_xdepth d = false -> perm_order order1 -> perm_order order2 ->
  analyse d order1 = Ok g1 -> analyse d order2 = Ok g2 ->
  g_reg g1 = g_reg g2 /\
  forall c n1 n2, dget (g_dist g1) (SC c) = Some n1 -> dget (g_dist g2) (SC c) = Some n2 ->
                  (n1 < INF \/ n2 < INF) -> n1 = n2.
Proof.
  intros Hxd P1 P2 H1 H2.
  destruct (analyse_parts _ _ _ H1) as [E1 _]. destruct (analyse_parts _ _ _ H2) as [E2 _].
  assert (Hr : g_reg g1 = g_reg g2) by congruence.
  split; [exact Hr|].
  intros c n1 n2 G1 G2 Hfin.
  destruct (dist_exact _ _ _ Hxd P1 H1 c n1 G1) as [L1 U1].
  destruct (dist_exact _ _ _ Hxd P2 H2 c n2 G2) as [L2 U2].
  rewrite Hr in *.
  destruct Hfin as [Hf | Hf].
  - destruct (U1 Hf) as [v [Hv Hd]]. specialize (L2 v Hv).
    assert (n2 < INF) by lia. destruct (U2 H) as [w [Hw Hdw]]. specialize (L1 w Hw). lia.
  - destruct (U2 Hf) as [v [Hv Hd]]. specialize (L1 v Hv).
    assert (n1 < INF) by lia. destruct (U1 H) as [w [Hw Hdw]]. specialize (L2 w Hw). lia.
Qed.

(* ---------- productions: exactly the registered direct subclasses ---------- *)
Theorem alternatives_exact d order g :
  analyse d order = Ok g ->
  NoDup (map fst (r_alts (g_reg g))) /\
  (forall p l, get_alts (r_alts (g_reg g)) p = Some l -> NoDup l /\ l <> [] /\ is_abstract d (SC p) = true) /\
  (forall p c, (exists l, get_alts (r_alts (g_reg g)) p = Some l /\ In c l) <->
               (mem_sym (SC c) (r_nodes (g_reg g)) = true /\ parent_of d c = Some p)).
Proof.
  intro H. destruct (analyse_parts _ _ _ H) as [Er _].
  assert (Hinv : reg_inv d (g_reg g)) by (eapply reg_result_inv; exact Er).
  split; [apply (ri_keys _ _ Hinv)|]. split.
  - intros p l Hg. split; [apply (ri_nodup _ _ Hinv _ _ Hg)|]. split; [apply (ri_nonempty _ _ Hinv _ _ Hg)|].
    destruct l as [|c t]; [exfalso; apply (ri_nonempty _ _ Hinv _ _ Hg); reflexivity|].
    apply (ri_mem _ _ Hinv _ _ c Hg (or_introl eq_refl)).
  - intros p c. split.
    + intros [l [Hg Hin]]. destruct (ri_mem _ _ Hinv _ _ _ Hg Hin) as [A [B _]]. split; assumption.
    + intros [Hm Hp]. destruct (reg_result_closed d _ _ _ c Er Hm) as [A _]. apply A. exact Hp.
Qed.

(* ---------- recursive symbols: exactly those on a cycle of the "can contain" graph ---------- *)
Section Reach.
Variables (d : decl) (r : rstate).

Inductive reach_plus : sym -> sym -> Prop :=
| rp_one x y : In y (succs d r x) -> reach_plus x y
| rp_step x y z : In y (succs d r x) -> reach_plus y z -> reach_plus x z.

Lemma reach_plus_snoc x y z : reach_plus x y -> In z (succs d r y) -> reach_plus x z.
Proof. induction 1; intro Hz; [eapply rp_step; [eassumption | apply rp_one; exact Hz] | eapply rp_step; eauto]. Qed.

Lemma dedupe_In l x : In x (dedupe l) <-> In x l.
Proof.
  unfold dedupe.
  assert (G : forall l a, In x (fold_left (fun a x => if mem_sym x a then a else a ++ [x]) l a) <-> In x a \/ In x l).
  { induction l0 as [|y t IH]; intro a; simpl; [tauto|].
    rewrite IH. destruct (mem_sym y a) eqn:E.
    - apply mem_sym_In in E. split; [tauto|]. intros [X | [<- | X]]; tauto.
    - rewrite in_app_iff. simpl. tauto. }
  rewrite G. simpl. tauto.
Qed.

Lemma reach_n_spec s : forall n frontier acc res,
  reach_n n d r frontier acc = (res, true) ->
  (forall y, In y acc -> reach_plus s y) ->
  (forall y, In y frontier -> y = s \/ reach_plus s y) ->
  (forall x, x = s \/ In x acc -> ~ In x frontier -> forall y, In y (succs d r x) -> In y acc) ->
  forall y, In y res <-> reach_plus s y.
Proof.
  induction n as [|k IH]; intros frontier acc res H I1 I2 I3; simpl in H; [discriminate|].
  set (next := flat_map (succs d r) frontier) in *.
  set (fresh := dedupe (filter (fun x => negb (mem_sym x acc)) next)) in *.
  assert (Hfresh : forall y, In y fresh <-> In y next /\ ~ In y acc).
  { intro y. unfold fresh. rewrite dedupe_In, filter_In. split.
    - intros [A B]. split; [exact A|]. intro X. apply mem_sym_In in X. rewrite X in B. discriminate.
    - intros [A B]. split; [exact A|]. destruct (mem_sym y acc) eqn:E; [apply mem_sym_In in E; tauto | reflexivity]. }
  assert (Hnext : forall y, In y next <-> exists x, In x frontier /\ In y (succs d r x)).
  { intro y. unfold next. rewrite in_flat_map. tauto. }
  destruct fresh as [|f0 ft] eqn:Ef.
  - inversion H; subst res; clear H. intro y. split; [apply I1|].
    (* closed: every successor of s and of acc is in acc *)
    assert (Hcl : forall x, x = s \/ In x acc -> forall z, In z (succs d r x) -> In z acc).
    { intros x Hx z Hz. destruct (in_dec (fun a b => ltac:(destruct (sym_eqb a b) eqn:E; [left; apply sym_eqb_eq; exact E | right; intro X; apply sym_eqb_eq in X; congruence])) x frontier) as [Hin | Hnin].
      - destruct (mem_sym z acc) eqn:E; [apply mem_sym_In; exact E|].
        assert (In z []) as X; [|destruct X].
        apply Hfresh. split; [apply Hnext; exists x; auto|]. intro X. apply mem_sym_In in X. congruence.
      - apply (I3 x Hx Hnin z Hz). }
    intro Hr.
    assert (G : forall x y, reach_plus x y -> x = s \/ In x acc -> In y acc).
    { clear - Hcl. induction 1 as [x y Hy | x y z Hy _ IHr]; intro Hx.
      - apply (Hcl x Hx y Hy).
      - apply IHr. right. apply (Hcl x Hx y Hy). }
    apply (G s y Hr). left; reflexivity.
  - apply (IH _ _ _ H).
    + intros y Hy. apply in_app_or in Hy. destruct Hy as [Hy | Hy]; [apply I1; exact Hy|].
      apply Hfresh in Hy. destruct Hy as [Hy _]. apply Hnext in Hy.
      destruct Hy as [x [Hx Hxy]]. destruct (I2 x Hx) as [-> | Hrx]; [apply rp_one; exact Hxy | eapply reach_plus_snoc; eassumption].
    + intros y Hy. right. apply Hfresh in Hy. destruct Hy as [Hy _]. apply Hnext in Hy.
      destruct Hy as [x [Hx Hxy]]. destruct (I2 x Hx) as [-> | Hrx]; [apply rp_one; exact Hxy | eapply reach_plus_snoc; eassumption].
    + intros x Hx Hnf y Hy. apply in_or_app.
      assert (Hx' : x = s \/ In x acc).
      { destruct Hx as [-> | Hx]; [left; reflexivity|]. apply in_app_or in Hx. destruct Hx as [Hx | Hx]; [right; exact Hx|]. exfalso; apply Hnf; exact Hx. }
      destruct (mem_sym y acc) eqn:E; [left; apply mem_sym_In; exact E|].
      destruct (in_dec (fun a b => ltac:(destruct (sym_eqb a b) eqn:E0; [left; apply sym_eqb_eq; exact E0 | right; intro X; apply sym_eqb_eq in X; congruence])) x frontier) as [Hin | Hnin].
      * right. apply Hfresh. split; [apply Hnext; exists x; auto|]. intro X. apply mem_sym_In in X. congruence.
      * left. apply (I3 x Hx' Hnin y Hy).
Qed.

Theorem reachable_from_spec s res :
  reachable_from d r s = (res, true) -> forall y, In y res <-> reach_plus s y.
Proof.
  unfold reachable_from. intro H. apply (reach_n_spec s _ _ _ _ H).
  - intros y [].
  - intros y [<- | []]. left; reflexivity.
  - intros x [-> | []] Hn. exfalso; apply Hn; left; reflexivity.
Qed.
End Reach.

Theorem recursive_exact d order g :
  analyse d order = Ok g ->
  forall s, In s (g_rec g) <-> (In s (r_nodes (g_reg g)) /\ reach_plus d (g_reg g) s s).
Proof.
  intros H s. destruct (analyse_parts _ _ _ H) as [_ [_ [Hf Hrec]]].
  rewrite Hrec, filter_In. unfold is_recursive.
  split; intros [Hin Hr]; split; try exact Hin.
  - rewrite forallb_forall in Hf. specialize (Hf s Hin).
    destruct (reachable_from d (g_reg g) s) as [res b] eqn:E. simpl in *. subst b.
    apply (reachable_from_spec _ _ _ _ E). apply mem_sym_In. exact Hr.
  - rewrite forallb_forall in Hf. specialize (Hf s Hin).
    destruct (reachable_from d (g_reg g) s) as [res b] eqn:E. simpl in *. subst b.
    apply mem_sym_In. apply (reachable_from_spec _ _ _ _ E). exact Hr.
Qed.

(* ---------- what the depth-limited deciders rely on (C03) ---------- *)
Section DistFacts.
Variables (d : decl) (order : list sym -> list sym) (g : grammar).
Hypothesis Hxd : d_xdepth d = false.
Hypothesis Hperm : perm_order order.
Hypothesis Han : analyse d order = Ok g.

Let r := g_reg g.
Let m := g_dist g.

Lemma df_inv : reg_inv d r.
Proof. destruct (analyse_parts _ _ _ Han) as [Er _]. eapply reg_result_inv; exact Er. Qed.

Lemma df_closed c : mem_sym (SC c) (r_nodes r) = true -> closed_at d r c.
Proof. destruct (analyse_parts _ _ _ Han) as [Er _]. intro H. eapply reg_result_closed; eassumption. Qed.

Lemma df_post : forall s, In s (order (r_nodes r)) -> exists v, dist_step d r m s = Ok v /\ mget m s <= v.
Proof.
  destruct (analyse_parts _ _ _ Han) as [_ [El _]].
  apply (dist_pass_nochange _ _ _ _ _ (dist_loop_exit _ _ _ _ _ _ El)).
Qed.

Lemma df_base b : In (SB b) (order (r_nodes r)) \/ dget m (SB b) = Some 0.
Proof.
  destruct (analyse_parts _ _ _ Han) as [_ [El _]].
  destruct (mem_sym (SB b) (r_nodes r)) eqn:Emem.
  - left. apply Hperm. apply mem_sym_In. exact Emem.
  - right. unfold m. rewrite (dist_loop_other _ _ _ _ _ _ (SB b) El).
    + apply dist_init_base. intro X. apply mem_sym_In in X. fold r in X. congruence.
    + intro X. apply (proj1 (Hperm _ _)) in X. apply mem_sym_In in X. fold r in X. congruence.
Qed.

Lemma df_witnessed : witnessed d r m.
Proof.
  destruct (analyse_parts _ _ _ Han) as [_ [El _]].
  refine (witnessed_loop d r Hxd (fun c Hc => df_closed c Hc) _ _ _ _ _ _ El).
  - intros s k Hs Hk. destruct (dist_init_entries r s k Hs) as [-> | [b [-> [-> _]]]]; [unfold INF in Hk; lia|].
    exists (match b with BInt => VInt 0 | BFloat => VFloat FAny | BStr => VStr [] | BBool => VBool false end).
    destruct b; cbn [ty_of]; (split; [constructor | simpl; lia]).
  - intros s Hs. apply (proj1 (Hperm _ _)) in Hs. exact Hs.
Qed.

Lemma df_lower :
  (forall t v, WT d r true t v -> forall n, dist_ty d m t = Ok n -> n <= vdepth v) /\
  (forall ts vs, WTs d r true ts vs -> forall ns, dist_tys d m ts = Ok ns -> Forall2 (fun n v => n <= vdepth v) ns vs).
Proof.
  destruct (dist_lower_mut d r m (order (r_nodes r)) Hxd df_inv (fun s Hs => proj2 (Hperm _ _) Hs) df_post df_base) as [A [B _]].
  split; assumption.
Qed.

(* every table entry is non-negative *)
Lemma df_nonneg s n : dget m s = Some n -> 0 <= n.
Proof.
  intro H. destruct (Z_lt_le_dec n INF) as [L | L]; [|unfold INF in L; lia].
  destruct (df_witnessed s n H L) as [v [_ Hv]]. pose proof (vdepth_nonneg v). lia.
Qed.

Lemma df_ty_nonneg : forall t n, dist_ty d m t = Ok n -> 0 <= n.
Proof.
  assert (X : xd d = 0) by (unfold xd; rewrite Hxd; reflexivity).
  induction t as [b|c|t IH|ts IH|ts IH|t mh IH] using ty_ind'; intros n H.
  - cbn [dist_ty] in H. destruct (dget m (SB b)) eqn:E; [|discriminate]. inversion H; subst. eapply df_nonneg; eauto.
  - cbn [dist_ty] in H. destruct (dget m (SC c)) eqn:E; [|discriminate]. inversion H; subst. eapply df_nonneg; eauto.
  - cbn [dist_ty] in H. destruct (dist_ty d m t) as [x|]; cbn [bind] in H; [|discriminate]. inversion H; subst.
    specialize (IH x eq_refl). lia.
  - rewrite dist_ty_tuple in H. destruct (dist_tys d m ts) as [ns|] eqn:E; cbn [bind] in H; [|discriminate].
    destruct ns as [|y t]; [discriminate|]. inversion H; subst.
    destruct ts as [|t0 ts0]; [cbn [dist_tys] in E; discriminate|].
    cbn [dist_tys] in E. destruct (dist_ty d m t0) as [x|] eqn:E0; cbn [bind] in E; [|discriminate].
    destruct (dist_tys d m ts0); cbn [bind] in E; [|discriminate]. inversion E; subst.
    inversion IH; subst. specialize (H2 _ E0). destruct (zmax_l_ge y t) as [A _]. lia.
  - rewrite dist_ty_union in H. destruct (dist_tys d m ts) as [ns|] eqn:E; cbn [bind] in H; [|discriminate].
    destruct ns as [|y t]; [discriminate|]. inversion H; subst.
    assert (G : forall ts ns, Forall (fun t => forall n, dist_ty d m t = Ok n -> 0 <= n) ts -> dist_tys d m ts = Ok ns -> forall k, In k ns -> 0 <= k).
    { clear. induction ts as [|t0 ts0 IHt]; intros ns Hf E k Hk; cbn [dist_tys] in E.
      - inversion E; subst. destruct Hk.
      - destruct (dist_ty d m t0) as [x|] eqn:E0; cbn [bind] in E; [|discriminate].
        destruct (dist_tys d m ts0) as [xs|] eqn:Es; cbn [bind] in E; [|discriminate]. inversion E; subst.
        inversion Hf; subst. destruct Hk as [<- | Hk]; [eauto | eapply IHt; eauto]. }
    destruct (zmin_l_attained y t) as [-> | Hin]; [pose proof (G _ _ IH E y (or_introl eq_refl)); lia|].
    pose proof (G _ _ IH E _ (or_intror Hin)). lia.
  - cbn [dist_ty] in H. eauto.
Qed.

(* a concrete production is at least one deeper than each of its fields *)
Lemma df_concrete c n :
  is_abstract d (SC c) = false -> mem_sym (SC c) (r_nodes r) = true -> dget m (SC c) = Some n -> n < INF ->
  1 <= n /\ exists ns, dist_tys d m (fields_of d (SC c)) = Ok ns /\ forall k, In k ns -> 1 + k <= n.
Proof.
  intros Ha Hreg Hg Hn.
  destruct (df_witnessed (SC c) n Hg Hn) as [v [Hv Hd]]. cbn [ty_of] in Hv.
  inversion Hv as [| | | |c0 c' args Hpo Hargs| | | |]; subst.
  assert (c' = c) by (inversion Hpo; subst; [reflexivity | congruence]). subst c'.
  rewrite vdepth_node in Hd. pose proof (vdepth_max_nonneg args). split; [lia|].
  (* the distances of the fields are defined *)
  assert (Hin : In (SC c) (order (r_nodes r))) by (apply Hperm; apply mem_sym_In; exact Hreg).
  destruct (df_post _ Hin) as [sv [Hs _]].
  destruct (mem_sym (SC c) (r_nonterm r)) eqn:En.
  - rewrite (dist_step_fields _ _ _ _ Ha En) in Hs.
    destruct (dist_tys d m (fields_of d (SC c))) as [ns|] eqn:Ens; cbn [bind] in Hs; [|discriminate].
    exists ns. split; [reflexivity|]. intros k Hk.
    pose proof (proj2 df_lower _ _ Hargs ns Ens) as F2.
    assert (forall k, In k ns -> k <= vdepth_max args).
    { clear - F2. induction F2 as [|x y l1 l2 Hxy _ IH]; cbn [vdepth_max]; intros k Hk; [destruct Hk|].
      destruct Hk as [<- | Hk]; [lia | specialize (IH k Hk); lia]. }
    specialize (H0 k Hk). lia.
  - destruct (df_closed c Hreg) as [_ B].
    destruct (fields_of d (SC c)) as [|f fs] eqn:Ef.
    + exists []. split; [reflexivity | intros k []].
    + specialize (B Ha ltac:(discriminate)). congruence.
Qed.

(* an abstract type at finite distance has a production that is not deeper *)
Lemma df_abstract a l n :
  is_abstract d (SC a) = true -> get_alts (r_alts r) a = Some l -> dget m (SC a) = Some n -> n < INF ->
  exists c k, In c l /\ dget m (SC c) = Some k /\ k <= n.
Proof.
  intros Ha Hg Hd Hn.
  destruct (df_witnessed (SC a) n Hd Hn) as [v [Hv Hdv]]. cbn [ty_of] in Hv.
  inversion Hv as [| | | |c0 c' args Hpo Hargs| | | |]; subst.
  inversion Hpo as [c1 Hc1 _ | a1 l1 c c'' Ha1 Hg1 Hin Hpo']; subst; [congruence|].
  assert (l1 = l) by congruence. subst l1.
  assert (Wc : WT d r true (TSym c) (VNode c' args)) by (constructor; assumption).
  (* c is registered, so it has an entry *)
  destruct (ri_mem _ _ df_inv _ _ _ Hg Hin) as [Hreg _].
  assert (Hino : In (SC c) (order (r_nodes r))) by (apply Hperm; apply mem_sym_In; exact Hreg).
  destruct (dget m (SC c)) as [k|] eqn:Ek.
  - exists c, k. split; [exact Hin|]. split; [exact Ek|].
    pose proof (proj1 df_lower _ _ Wc k) as L. cbn [dist_ty] in L. fold m in L. rewrite Ek in L. specialize (L eq_refl). lia.
  - (* impossible: every registered symbol has an entry *)
    exfalso. destruct (analyse_parts _ _ _ Han) as [_ [El _]].
    assert (G : forall fuel m0 m1, dist_loop fuel d r (order (r_nodes r)) m0 = Ok m1 -> forall s, dget m0 s <> None -> dget m1 s <> None).
    { clear. induction fuel as [|f IH]; intros m0 m1 H s Hs; simpl in H; [discriminate|].
      destruct (dist_pass d r (order (r_nodes r)) m0 false) as [[m' ch]|] eqn:Ep; cbn [bind] in H; [|discriminate].
      assert (P : forall ord ma mb c0 c1, dist_pass d r ord ma c0 = Ok (mb, c1) -> dget ma s <> None -> dget mb s <> None).
      { clear. induction ord as [|a t IHo]; intros ma mb c0 c1 H Hs; simpl in H; [inversion H; subst; exact Hs|].
        destruct (dist_step d r ma a) as [z|]; cbn [bind] in H; [|discriminate].
        destruct (z <? _); [|eauto]. eapply IHo; [exact H|]. rewrite dget_dset. destruct (sym_eqb s a); [discriminate | exact Hs]. }
      destruct ch; [eapply IH; [exact H | eapply P; eauto] | inversion H; subst; eapply P; eauto]. }
    apply (G _ _ _ El (SC c)); [|exact Ek].
    unfold dist_init. clear - Hreg. apply mem_sym_In in Hreg. fold r in Hreg.
    assert (X : forall nodes m0, In (SC c) nodes -> dget (fold_left (fun m s => dset m s INF) nodes m0) (SC c) <> None).
    { induction nodes as [|a t IH]; intros m0 Hin; [destruct Hin|]. simpl. destruct Hin as [-> | Hin]; [|apply IH; exact Hin].
      assert (Y : forall nodes m1, dget m1 (SC c) <> None -> dget (fold_left (fun m s => dset m s INF) nodes m1) (SC c) <> None).
      { clear. induction nodes as [|a t IH]; intros m1 H; simpl; [exact H|]. apply IH. rewrite dget_dset. destruct (sym_eqb (SC c) a); [discriminate | exact H]. }
      apply Y. rewrite dget_dset, sym_eqb_refl. discriminate. }
    apply X. exact Hreg.
Qed.
End DistFacts.

(* the whole analysis is independent of the iteration order of the symbol set (C08) *)
Theorem analysis_order_independent d order1 order2 g1 g2 :
  d_xdepth d = false -> perm_order order1 -> perm_order order2 ->
  analyse d order1 = Ok g1 -> analyse d order2 = Ok g2 ->
  g_reg g1 = g_reg g2 /\ g_rec g1 = g_rec g2 /\ g_decl g1 = g_decl g2 /\
  forall c n1 n2, dget (g_dist g1) (SC c) = Some n1 -> dget (g_dist g2) (SC c) = Some n2 ->
                  (n1 < INF \/ n2 < INF) -> n1 = n2.
Proof.
  intros Hxd P1 P2 H1 H2.
  destruct (dist_order_independent _ _ _ _ _ Hxd P1 P2 H1 H2) as [Hr Hd].
  destruct (analyse_parts _ _ _ H1) as [_ [_ [_ R1]]]. destruct (analyse_parts _ _ _ H2) as [_ [_ [_ R2]]].
  split; [exact Hr|]. split; [rewrite R1, R2, Hr; reflexivity|]. split; [|exact Hd].
  rewrite (analyse_decl _ _ _ H1), (analyse_decl _ _ _ H2). reflexivity.
Qed.
