(* DnaExtends.v — C07 / C09: the only thing a run of create_node (any decider, any outcome, backtracking included) does to
   the dSGE genotype carried in the state is to EXTEND gene lists at their end and add new keys; existing genes are never
   rewritten or dropped.  Proved through a generic preservation lemma for any preorder on states that is respected by
   the three primitives that write the state (source, PI-grow flag, dSGE read). *)
From GE Require Import Base Tape Grammar Synth.
Open Scope Z_scope.

Section Pres.
Variable R : sst -> sst -> Prop.
Hypothesis R_refl : forall st, R st st.
Hypothesis R_trans : forall a b c, R a b -> R b c -> R a c.
Hypothesis R_src : forall st s, R st (with_src st s).
Hypothesis R_exp : forall st e, R st (with_exp st e).
Hypothesis R_dsge : forall k st, R st (snd (dsge_read k st)).

Definition pres {A} (m : M A) : Prop := forall st, R st (snd (m st)).

Lemma pres_ret {A} (a : A) : pres (ret a). Proof. intro; apply R_refl. Qed.
Lemma pres_fail {A} e : pres (@fail A e). Proof. intro; apply R_refl. Qed.
Lemma pres_lift {A} (r : res A) : pres (lift r). Proof. intro; apply R_refl. Qed.

Lemma pres_bind {A B} (m : M A) (f : A -> M B) : pres m -> (forall a, pres (f a)) -> pres (bindM m f).
Proof.
  intros Hm Hf st. unfold bindM. specialize (Hm st). destruct (m st) as [[a|e] st1]; cbn [snd] in *.
  - eapply R_trans; [exact Hm|apply Hf].
  - exact Hm.
Qed.

Lemma pres_on_src {A} (f : src -> res (A * src)) : pres (on_src f).
Proof. intro st. unfold on_src. destruct (f (st_src st)) as [[a s']|e]; cbn [snd]; [apply R_src|apply R_refl]. Qed.

Lemma pres_dsge_read k : pres (dsge_read k). Proof. intro st. apply R_dsge. Qed.

Lemma pres_repeatM {A} (f : M A) n : pres f -> pres (repeatM n f).
Proof.
  intro Hf. induction n as [|n IH]; cbn [repeatM]; [apply pres_ret|].
  apply pres_bind; [exact Hf|]. intro x. apply pres_bind; [exact IH|]. intro r. apply pres_ret.
Qed.

Lemma pres_weighted_rows rows alphabet : pres (weighted_rows rows alphabet).
Proof.
  induction rows as [|row t IH]; cbn [weighted_rows]; [apply pres_ret|].
  apply pres_bind; [apply pres_on_src|]. intro c. apply pres_bind; [exact IH|]. intro r. apply pres_ret.
Qed.

Lemma pres_decider_random_int k lo hi : pres (decider_random_int k lo hi).
Proof.
  destruct k; cbn [decider_random_int]; try apply pres_on_src.
  apply pres_bind; [apply pres_dsge_read | intro; apply pres_lift].
Qed.

Lemma pres_decider_default_int k : pres (decider_default_int k).
Proof. destruct k; apply pres_decider_random_int. Qed.

Lemma pres_decider_random_bool k : pres (decider_random_bool k).
Proof.
  destruct k; cbn [decider_random_bool]; try apply pres_on_src.
  apply pres_bind; [apply pres_dsge_read | intro; apply pres_ret].
Qed.

Lemma pres_decider_random_float k : pres (decider_random_float k).
Proof.
  destruct k; cbn [decider_random_float]; try apply pres_on_src.
  apply pres_bind; [apply pres_dsge_read | intro; apply pres_ret].
Qed.

Lemma pres_choose g k key alts ctx : pres (choose g k key alts ctx).
Proof.
  unfold choose. destruct alts as [|a0 t0]; [apply pres_fail|].
  destruct k.
  - apply pres_bind; [apply pres_lift | intro; apply pres_on_src].
  - apply pres_bind; [apply pres_lift|]. intro c. apply pres_bind; [apply pres_lift | intro; apply pres_on_src].
  - apply pres_bind; [apply pres_lift|]. intros baseline st.
    destruct (if c_depth ctx =? D - 1 then Some false else if c_exp ctx =? 0 then Some true else st_exp st) as [e|] eqn:E.
    + match goal with |- R st (snd (?m (with_exp st ?x))) =>
        assert (K : pres m) by (apply pres_bind; [apply pres_lift | intro; apply pres_on_src]);
        eapply R_trans; [apply (R_exp st x)|apply (K (with_exp st x))] end.
    + apply R_refl.
  - apply pres_bind; [apply pres_lift|]. intro tg.
    apply pres_bind; [apply pres_lift|]. intro ws. destruct (forallb _ ws); [apply pres_fail|apply pres_on_src].
  - apply pres_bind; [apply pres_dsge_read|]. intro v. apply pres_bind; [apply pres_lift|]. intro l.
    destruct l; [apply pres_fail|]. destruct (znth _ _); [apply pres_ret | apply pres_fail].
Qed.

Lemma pres_mh_flat m r : mh_generate_flat m = Some r -> pres r.
Proof.
  destruct m; cbn [mh_generate_flat]; intro H; inversion H; subst; clear H.
  - apply pres_bind; [apply pres_on_src | intro; apply pres_ret].
  - apply pres_bind; [apply pres_on_src | intro; apply pres_ret].
  - apply pres_bind; [apply pres_on_src | intro; apply pres_ret].
  - apply pres_bind; [apply pres_on_src | intro; apply pres_ret].
  - apply pres_on_src.
  - apply pres_bind; [apply pres_on_src|]. intro n. apply pres_bind; [apply pres_repeatM, pres_on_src | intro; apply pres_ret].
  - apply pres_bind; [apply pres_weighted_rows | intro; apply pres_ret].
  - apply pres_bind; [apply pres_on_src|]. intro len. apply pres_bind; [apply pres_on_src | intro; apply pres_ret].
Qed.

Definition cr_pres (cr : creator) : Prop := forall t ctx deps, pres (cr t ctx deps).

Lemma pres_try_productions cr g k c ctx (Hcr : cr_pres cr) : forall fuel compat,
  pres (try_productions fuel cr g k c compat ctx).
Proof.
  induction fuel as [|f IH]; intro compat; cbn [try_productions]; [apply pres_fail|].
  destruct compat as [|p0 rest]; [apply pres_fail|].
  apply pres_bind; [apply pres_choose|]. intro rule.
  destruct rule; try apply pres_fail.
  intro st. specialize (Hcr (TSym c0) (mkCtx (c_depth ctx) (c_exp ctx + 1)) [] st).
  destruct (cr (TSym c0) _ [] st) as [[v|e] st1]; cbn [snd] in *; [exact Hcr|].
  destruct e; try exact Hcr.
  eapply R_trans; [exact Hcr|apply IH].
Qed.

Lemma pres_create_fields cr (Hcr : cr_pres cr) ctx : forall flds deps, pres (create_fields cr flds ctx deps).
Proof.
  induction flds as [|t r IH]; intro deps; cbn [create_fields]; [apply pres_ret|].
  apply pres_bind; [apply Hcr|]. intro v. apply pres_bind; [apply IH | intro; apply pres_ret].
Qed.

Lemma pres_create_tuple cr (Hcr : cr_pres cr) ctx : forall ts, pres (create_tuple cr ts ctx).
Proof.
  induction ts as [|t r IH]; cbn [create_tuple]; [apply pres_ret|].
  apply pres_bind; [apply Hcr|]. intro v. apply pres_bind; [apply IH | intro; apply pres_ret].
Qed.

Theorem create_node_pres : forall fuel g k, cr_pres (create_node fuel g k).
Proof.
  induction fuel as [|f IH]; intros g k t ctx deps; cbn [create_node]; [apply pres_fail|].
  specialize (IH g k).
  destruct t as [b|c|t'|ts|ts|base m].
  - destruct b.
    + apply pres_bind; [apply pres_decider_default_int | intro; apply pres_ret].
    + apply pres_decider_random_float.
    + destruct (is_registered g (SB BStr)); [apply pres_ret | apply pres_fail].
    + apply pres_bind; [apply pres_decider_random_bool | intro; apply pres_ret].
  - destruct (negb (is_registered g (SC c))); [apply pres_fail|].
    intro st. destruct (get_alts (st_alts st) c) as [prods|].
    + apply pres_try_productions; exact IH.
    + destruct (is_abstract (g_decl g) (SC c)); [apply R_refl|].
      match goal with |- R st (snd (?m st)) => assert (K : pres m) end.
      { apply pres_bind; [apply pres_create_fields; exact IH | intro; apply pres_ret]. }
      apply K.
  - apply pres_bind; [apply pres_decider_random_int|]. intro n.
    apply pres_bind; [apply pres_repeatM, IH | intro; apply pres_ret].
  - apply pres_bind; [apply pres_create_tuple; exact IH | intro; apply pres_ret].
  - apply pres_bind; [apply pres_choose | intro; apply IH].
  - destruct (mh_generate_flat m) as [r|] eqn:E; [apply (pres_mh_flat _ _ E)|].
    destruct m; try apply pres_fail.
    + destruct base; try apply pres_fail.
      apply pres_bind; [apply pres_on_src|]. intro n.
      apply pres_bind; [apply pres_repeatM, IH | intro; apply pres_ret].
    + apply pres_bind; [apply pres_lift|]. intro vals. apply pres_bind; [apply pres_lift|]. intro m'. apply IH.
Qed.
End Pres.

(* ---------- the instance: gene lists only grow at the end ---------- *)
Definition dna_ext (a b : sst) : Prop :=
  forall k l, tget (st_dna a) k = Some l -> exists l', tget (st_dna b) k = Some (l ++ l').

Lemma dna_ext_refl st : dna_ext st st.
Proof. intros k l H. exists []. rewrite app_nil_r. exact H. Qed.

Lemma dna_ext_trans a b c : dna_ext a b -> dna_ext b c -> dna_ext a c.
Proof.
  intros H1 H2 k l H. destruct (H1 k l H) as [x Hx]. destruct (H2 k _ Hx) as [y Hy].
  exists (x ++ y). rewrite app_assoc. exact Hy.
Qed.

Lemma extend_genes_app : forall fuel s l n l' s', extend_genes fuel s l n = Ok (l', s') -> exists x, l' = l ++ x.
Proof.
  induction fuel as [|f IH]; intros s l n l' s' H; cbn [extend_genes] in H.
  - destruct (Nat.ltb n (length l)); [|discriminate]. inversion H; subst. exists []. rewrite app_nil_r. reflexivity.
  - destruct (Nat.ltb n (length l)); [inversion H; subst; exists []; rewrite app_nil_r; reflexivity|].
    destruct (randint s 0 1024) as [[v s1]|]; cbn [bind] in H; [|discriminate].
    destruct (IH _ _ _ _ _ H) as [x ->]. exists ([v] ++ x). rewrite app_assoc. reflexivity.
Qed.

Lemma tset_extends (m : list (ty * list Z)) k ext : forall q l0,
  tget m q = Some l0 ->
  exists x, tget (tset m k ((match tget m k with Some l => l | None => [] end) ++ ext)) q = Some (l0 ++ x).
Proof.
  induction m as [|[k' w] t IH]; intros q l0 H; cbn [tget] in H; [discriminate|].
  cbn [tget tset]. destruct (ty_eqb k k') eqn:Ek.
  - cbn [tget]. destruct (ty_eqb q k') eqn:Eq.
    + inversion H; subst. exists ext. reflexivity.
    + exists []. rewrite app_nil_r. exact H.
  - cbn [tget]. destruct (ty_eqb q k') eqn:Eq.
    + inversion H; subst. exists []. rewrite app_nil_r. reflexivity.
    + apply IH. exact H.
Qed.

Lemma dsge_read_extends k st : dna_ext st (snd (dsge_read k st)).
Proof.
  unfold dsge_read.
  destruct (extend_genes _ _ _ _) as [[l' s']|e] eqn:E; [|apply dna_ext_refl].
  destruct (nth_error l' _); [|apply dna_ext_refl].
  cbn [snd]. destruct (extend_genes_app _ _ _ _ _ _ E) as [x ->].
  intros q l0 H. cbn [st_dna]. apply tset_extends. exact H.
Qed.

(* every run of create_node - any decider, any outcome, internal backtracking included - leaves every gene list of the
   state as a prefix of what it is afterwards (only dSGE's reads ever add genes, and only at the end) *)
Theorem create_node_extends_dna : forall fuel g k t ctx deps st,
  dna_ext st (snd (create_node fuel g k t ctx deps st)).
Proof.
  intros fuel g k t ctx deps st.
  apply (create_node_pres dna_ext dna_ext_refl dna_ext_trans).
  - intros st0 s k0 l H. exists []. rewrite app_nil_r. exact H.
  - intros st0 e k0 l H. exists []. rewrite app_nil_r. exact H.
  - exact dsge_read_extends.
Qed.
