(* DsgeReplay.v — C07 for dynamic SGE on hierarchies without refined fields: mapping a genotype that an earlier mapping
   has already extended reproduces the same program, draws nothing from the shared source and leaves the genotype as it
   is.  Relational argument: a second run B that starts from a genotype extending the FINAL genotype of run A, with
   the same read positions, replays A read by read (every read of A, including those of attempts that A abandons
   while backtracking, finds its gene already present in B). *)
From GE Require Import Base Tape Grammar WellTyped Synth SynthFrame DnaExtends SynthGenes SynthDepth SynthSat.
Open Scope Z_scope.

Fixpoint plain (t : ty) : bool :=
  let fix allb (l : list ty) : bool := match l with [] => true | x :: r => plain x && allb r end in
  match t with
  | TBase _ | TSym _ => true
  | TList t' => plain t'
  | TTuple ts | TUnion ts => allb ts
  | TAnn _ _ => false
  end.
Fixpoint plain_all (l : list ty) : bool := match l with [] => true | x :: r => plain x && plain_all r end.
Lemma plain_allb l : (fix allb (l : list ty) : bool := match l with [] => true | x :: r => plain x && allb r end) l = plain_all l.
Proof. induction l as [|a t IH]; [reflexivity|]. cbn [plain_all]. rewrite <- IH. reflexivity. Qed.
Definition plain_decl (d : decl) : bool := forallb (fun c => plain_all (c_fields c)) (d_classes d).

Lemma plain_fields d s : plain_decl d = true -> plain_all (fields_of d s) = true.
Proof.
  intro H. destruct s as [b|c]; [reflexivity|]. unfold fields_of. destruct (get_cls d c) as [k|] eqn:E; [|reflexivity].
  unfold plain_decl in H. rewrite forallb_forall in H. apply H. unfold get_cls in E. eapply nth_error_In; eauto.
Qed.

Lemma ty_eqb_refl_plain : forall t, plain t = true -> ty_eqb t t = true.
Proof.
  fix IH 1. intros t Hp.
  assert (L : forall l, plain_all l = true ->
             (fix all2 (l1 l2 : list ty) : bool := match l1, l2 with [], [] => true | x :: t, y :: u => ty_eqb x y && all2 t u | _, _ => false end) l l = true).
  { induction l as [|a r IHl]; intro H; [reflexivity|]. cbn [plain_all] in H. apply andb_prop in H. destruct H as [Ha Hr].
    rewrite (IH a Ha), (IHl Hr). reflexivity. }
  destruct t as [b|c|t'|ts|ts|t' m]; cbn [plain] in Hp; cbn [ty_eqb].
  - destruct b; reflexivity.
  - apply Nat.eqb_refl.
  - apply IH. exact Hp.
  - rewrite plain_allb in Hp. apply L. exact Hp.
  - rewrite plain_allb in Hp. apply L. exact Hp.
  - discriminate.
Qed.

Lemma tget_tset_same {A} (m : list (ty * A)) k v : ty_eqb k k = true -> tget (tset m k v) k = Some v.
Proof.
  intro Hk. induction m as [|[k' w] t IH]; cbn [tset tget]; [rewrite Hk; reflexivity|].
  destruct (ty_eqb k k') eqn:E; cbn [tget]; rewrite E; [reflexivity|exact IH].
Qed.

(* outcomes that the backtracking loop can continue from *)
Definition recoverable {A} (r : res A) : Prop := match r with Ok _ => True | Err e => e = SynthesisException end.

(* B replays A: same result, same final positions, B's genotype and source untouched *)
Definition replays {A} (m : M A) : Prop :=
  forall a r a', m a = (r, a') -> recoverable r ->
  forall b, st_pos b = st_pos a -> st_alts b = st_alts a -> dna_ext a' b ->
  exists b', m b = (r, b') /\ st_pos b' = st_pos a' /\ st_dna b' = st_dna b /\ st_src b' = st_src b /\ st_alts b' = st_alts a'.

Lemma replays_ret {A} (x : A) : replays (ret x).
Proof. intros a r a' H _ b Hp Ha He. inversion H; subst. exists b. repeat split; auto. Qed.

Lemma replays_fail {A} e : replays (@fail A e).
Proof. intros a r a' H _ b Hp Ha He. inversion H; subst. exists b. repeat split; auto. Qed.

Lemma replays_lift {A} (x : res A) : replays (lift x).
Proof. intros a r a' H _ b Hp Ha He. inversion H; subst. exists b. repeat split; auto. Qed.

Lemma replays_bind {A B} (m : M A) (f : A -> M B) :
  replays m -> (forall x, replays (f x)) -> (forall x, pres dna_ext (f x)) -> replays (bindM m f).
Proof.
  intros Hm Hf Hpf a r a' H Hrec b Hp Ha He. unfold bindM in *.
  destruct (m a) as [[x|e] a1] eqn:Em.
  - assert (He1 : dna_ext a1 b) by (eapply dna_ext_trans; [|exact He]; specialize (Hpf x a1); rewrite H in Hpf; exact Hpf).
    destruct (Hm a (Ok x) a1 Em I b Hp Ha He1) as [b1 [Eb [Hp1 [Hd1 [Hs1 Ha1]]]]].
    rewrite Eb.
    assert (He2 : dna_ext a' b1) by (intros k l Hk; rewrite Hd1; exact (He k l Hk)).
    destruct (Hf x a1 r a' H Hrec b1 Hp1 Ha1 He2) as [b2 [Eb2 [Hp2 [Hd2 [Hs2 Ha2]]]]].
    exists b2. rewrite Eb2. repeat split; auto; congruence.
  - inversion H; subst. destruct (Hm a (Err e) a' Em Hrec b Hp Ha He) as [b1 [Eb [Hp1 [Hd1 [Hs1 Ha1]]]]].
    rewrite Eb. exists b1. repeat split; auto.
Qed.

(* the core: a read of A finds its gene already in B *)
Lemma replays_dsge_read k : ty_eqb k k = true -> replays (dsge_read k).
Proof.
  intros Hk a r a' H Hrec b Hp Ha He. unfold dsge_read in *. rewrite Hp.
  set (n := pos_of (st_pos a) k) in *.
  destruct (extend_genes (S n) (st_src a) (match tget (st_dna a) k with Some l => l | None => [] end) n) as [[l' s']|e] eqn:Ex.
  2:{ pose proof (extend_genes_no_ae (S n) (st_src a) (match tget (st_dna a) k with Some l => l | None => [] end) n) as Hn.
      rewrite Ex in Hn. inversion H; subst r a'. cbn in Hrec. subst e. destruct Hn. }
  destruct (nth_error l' n) as [v|] eqn:En.
  2:{ inversion H; subst r a'. cbn in Hrec. discriminate. }
  inversion H; subst r a'. clear H.
  assert (Hl' : tget (tset (st_dna a) k l') k = Some l') by (apply tget_tset_same; exact Hk).
  destruct (He k l' Hl') as [x Hx]. cbn [st_dna] in Hx. rewrite Hx.
  assert (Hlt : (n < length l')%nat) by (apply nth_error_Some; congruence).
  assert (Eb : extend_genes (S n) (st_src b) (l' ++ x) n = Ok (l' ++ x, st_src b)).
  { cbn [extend_genes]. assert (Q : Nat.ltb n (length (l' ++ x)) = true) by (apply Nat.ltb_lt; rewrite app_length; lia). rewrite Q. reflexivity. }
  rewrite Eb. rewrite (nth_error_app1 _ _ Hlt), En.
  eexists. split; [reflexivity|]. cbn [st_pos st_dna st_src st_alts]. rewrite (tset_same _ _ _ Hx).
  repeat split; auto.
Qed.

Lemma replays_bind_post {A B} (m : M A) (f : A -> M B) (P : A -> Prop) :
  replays m -> (forall a x a1, m a = (Ok x, a1) -> P x) ->
  (forall x, P x -> replays (f x)) -> (forall x, pres dna_ext (f x)) -> replays (bindM m f).
Proof.
  intros Hm HP Hf Hpf a r a' H Hrec b Hp Ha He. unfold bindM in *.
  destruct (m a) as [[x|e] a1] eqn:Em.
  - assert (He1 : dna_ext a1 b) by (eapply dna_ext_trans; [|exact He]; specialize (Hpf x a1); rewrite H in Hpf; exact Hpf).
    destruct (Hm a (Ok x) a1 Em I b Hp Ha He1) as [b1 [Eb [Hp1 [Hd1 [Hs1 Ha1]]]]].
    rewrite Eb.
    assert (He2 : dna_ext a' b1) by (intros k l Hk; rewrite Hd1; exact (He k l Hk)).
    destruct (Hf x (HP _ _ _ Em) a1 r a' H Hrec b1 Hp1 Ha1 He2) as [b2 [Eb2 [Hp2 [Hd2 [Hs2 Ha2]]]]].
    exists b2. rewrite Eb2. repeat split; auto; congruence.
  - inversion H; subst. destruct (Hm a (Err e) a' Em Hrec b Hp Ha He) as [b1 [Eb [Hp1 [Hd1 [Hs1 Ha1]]]]].
    rewrite Eb. exists b1. repeat split; auto.
Qed.

Local Notation P_ext := (pres dna_ext).
Lemma pe_ret {A} (x : A) : P_ext (ret x). Proof. apply pres_ret, dna_ext_refl. Qed.
Lemma pe_fail {A} e : P_ext (@fail A e). Proof. apply pres_fail, dna_ext_refl. Qed.
Lemma pe_lift {A} (x : res A) : P_ext (lift x). Proof. apply pres_lift, dna_ext_refl. Qed.
Lemma ext_src st s : dna_ext st (with_src st s). Proof. intros k l H. exists []. rewrite app_nil_r. exact H. Qed.
Lemma ext_exp st e : dna_ext st (with_exp st e). Proof. intros k l H. exists []. rewrite app_nil_r. exact H. Qed.
Lemma pe_create_node fuel g k : cr_pres dna_ext (create_node fuel g k).
Proof. apply (create_node_pres dna_ext dna_ext_refl dna_ext_trans ext_src ext_exp dsge_read_extends). Qed.
Lemma pe_dsge_read k : P_ext (dsge_read k). Proof. intro st. apply dsge_read_extends. Qed.

Section Replay.
Variables (g : grammar) (D : Z).
Let k := DDsge D.
Hypothesis Hplain : plain_decl (g_decl g) = true.

Lemma replays_random_int lo hi : replays (decider_random_int k lo hi).
Proof.
  unfold k. cbn [decider_random_int]. apply replays_bind; [apply replays_dsge_read; reflexivity| |].
  - intro v. apply replays_lift.
  - intro v. apply pe_lift.
Qed.

Lemma replays_default_int : replays (decider_default_int k).
Proof. unfold k, decider_default_int. apply replays_random_int. Qed.

Lemma replays_random_bool : replays (decider_random_bool k).
Proof.
  unfold k. cbn [decider_random_bool]. apply replays_bind; [apply replays_dsge_read; reflexivity| |].
  - intro v. apply replays_ret.
  - intro v. apply pe_ret.
Qed.

Lemma replays_random_float : replays (decider_random_float k).
Proof.
  unfold k. cbn [decider_random_float]. apply replays_bind; [apply replays_dsge_read; reflexivity| |].
  - intro v. apply replays_ret.
  - intro v. apply pe_ret.
Qed.

Lemma replays_choose key alts ctx : ty_eqb key key = true -> replays (choose g k key alts ctx).
Proof.
  intro Hk. unfold choose, k. destruct alts as [|a0 t0]; [apply replays_fail|].
  apply replays_bind; [apply replays_dsge_read; exact Hk| |].
  - intro v. apply replays_bind; [apply replays_lift| |].
    + intro l. destruct l; [apply replays_fail|]. destruct (znth _ _); [apply replays_ret|apply replays_fail].
    + intro l. destruct l; [apply pe_fail|]. destruct (znth _ _); [apply pe_ret|apply pe_fail].
  - intro v. apply pres_bind; [apply dna_ext_trans|apply pe_lift|].
    intro l. destruct l; [apply pe_fail|]. destruct (znth _ _); [apply pe_ret|apply pe_fail].
Qed.

Lemma replays_repeatM {A} (f : M A) n : replays f -> P_ext f -> replays (repeatM n f).
Proof.
  intros Hf Hp. induction n as [|n IH]; cbn [repeatM]; [apply replays_ret|].
  apply replays_bind; [exact Hf| |].
  - intro x. apply replays_bind; [exact IH| |]; intro r; [apply replays_ret|apply pe_ret].
  - intro x. apply pres_bind; [apply dna_ext_trans|apply (pres_repeatM dna_ext dna_ext_refl dna_ext_trans); exact Hp|]. intro r. apply pe_ret.
Qed.

Definition cr_replays (cr : creator) : Prop := forall t ctx deps, plain t = true -> replays (cr t ctx deps).

Lemma replays_create_fields cr (Hcr : cr_replays cr) (Hpe : cr_pres dna_ext cr) ctx : forall flds deps,
  plain_all flds = true -> replays (create_fields cr flds ctx deps).
Proof.
  induction flds as [|t r IH]; intros deps Hp; cbn [create_fields]; [apply replays_ret|].
  cbn [plain_all] in Hp. apply andb_prop in Hp. destruct Hp as [Ht Hr].
  apply replays_bind; [apply Hcr; exact Ht| |].
  - intro v. apply replays_bind; [apply IH; exact Hr| |]; intro vs; [apply replays_ret|apply pe_ret].
  - intro v. apply pres_bind; [apply dna_ext_trans|apply (pres_create_fields dna_ext dna_ext_refl dna_ext_trans); exact Hpe|]. intro vs. apply pe_ret.
Qed.

Lemma replays_create_tuple cr (Hcr : cr_replays cr) (Hpe : cr_pres dna_ext cr) ctx : forall ts,
  plain_all ts = true -> replays (create_tuple cr ts ctx).
Proof.
  induction ts as [|t r IH]; intro Hp; cbn [create_tuple]; [apply replays_ret|].
  cbn [plain_all] in Hp. apply andb_prop in Hp. destruct Hp as [Ht Hr].
  apply replays_bind; [apply Hcr; exact Ht| |].
  - intro v. apply replays_bind; [apply IH; exact Hr| |]; intro vs; [apply replays_ret|apply pe_ret].
  - intro v. apply pres_bind; [apply dna_ext_trans|apply (pres_create_tuple dna_ext dna_ext_refl dna_ext_trans); exact Hpe|]. intro vs. apply pe_ret.
Qed.

Lemma replays_try cr (Hcr : cr_replays cr) (Hpe : cr_pres dna_ext cr) c ctx : forall fuel compat,
  replays (try_productions fuel cr g k c compat ctx).
Proof.
  induction fuel as [|f IH]; intro compat; cbn [try_productions]; [apply replays_fail|].
  destruct compat as [|p0 rest]; [apply replays_fail|].
  apply (replays_bind_post _ _ (fun rule => exists p, rule = TSym p)).
  - apply replays_choose. cbn [ty_eqb]. apply Nat.eqb_refl.
  - intros a x a1 H. apply choose_mem in H. apply in_map_iff in H. destruct H as [p [<- _]]. eexists; reflexivity.
  - intros rule [p ->]. intros a r a' H Hrec b Hp Ha He.
    destruct (cr (TSym p) (mkCtx (c_depth ctx) (c_exp ctx + 1)) [] a) as [[v|e] a1] eqn:Ec.
    + inversion H; subst r a'.
      destruct (Hcr (TSym p) _ [] eq_refl a (Ok v) a1 Ec I b Hp Ha He) as [b1 [Eb R]]. rewrite Eb. exists b1. split; [reflexivity|exact R].
    + destruct e; try (inversion H; subst r a'; cbn in Hrec; discriminate).
      assert (He1 : dna_ext a1 b).
      { eapply dna_ext_trans; [|exact He].
        pose proof (pres_try_productions dna_ext dna_ext_refl dna_ext_trans ext_src ext_exp dsge_read_extends cr g k c ctx Hpe f (remove_first p (p0 :: rest)) a1) as Q.
        rewrite H in Q. exact Q. }
      destruct (Hcr (TSym p) _ [] eq_refl a (Err SynthesisException) a1 Ec eq_refl b Hp Ha He1) as [b1 [Eb [Hp1 [Hd1 [Hs1 Ha1]]]]].
      rewrite Eb.
      assert (He2 : dna_ext a' b1) by (intros kk l Hk; rewrite Hd1; exact (He kk l Hk)).
      destruct (IH _ a1 r a' H Hrec b1 Hp1 Ha1 He2) as [b2 [Eb2 [Hp2 [Hd2 [Hs2 Ha2]]]]].
      exists b2. rewrite Eb2. repeat split; auto; congruence.
  - intros rule. destruct rule; try apply pe_fail.
    intro st. pose proof (Hpe (TSym c0) (mkCtx (c_depth ctx) (c_exp ctx + 1)) [] st) as Q.
    destruct (cr (TSym c0) _ [] st) as [[v|e] st1]; cbn [snd] in *; [exact Q|].
    destruct e; try exact Q.
    eapply dna_ext_trans; [exact Q|].
    apply (pres_try_productions dna_ext dna_ext_refl dna_ext_trans ext_src ext_exp dsge_read_extends cr g k c ctx Hpe).
Qed.

Lemma plain_in ts t : plain_all ts = true -> In t ts -> plain t = true.
Proof. induction ts as [|a r IH]; intros H []; cbn [plain_all] in H; apply andb_prop in H; destruct H; [subst; assumption|auto]. Qed.

Theorem create_node_replays : forall fuel, cr_replays (create_node fuel g k).
Proof.
  induction fuel as [|f IH]; intros t ctx deps Hp; cbn [create_node]; [apply replays_fail|].
  pose proof (pe_create_node f g k) as Hpe.
  destruct t as [b|c|t'|ts|ts|base m]; cbn [plain] in Hp.
  - destruct b.
    + apply replays_bind; [apply replays_default_int| |]; intro v; [apply replays_ret|apply pe_ret].
    + apply replays_random_float.
    + destruct (is_registered g (SB BStr)); [apply replays_ret|apply replays_fail].
    + apply replays_bind; [apply replays_random_bool| |]; intro v; [apply replays_ret|apply pe_ret].
  - destruct (negb (is_registered g (SC c))); [apply replays_fail|].
    intros a r a' H Hrec b Hpb Hab He. rewrite Hab.
    destruct (get_alts (st_alts a) c) as [prods|].
    + exact (replays_try _ IH Hpe c ctx _ _ a r a' H Hrec b Hpb Hab He).
    + destruct (is_abstract (g_decl g) (SC c)).
      * inversion H; subst. exists b. repeat split; auto.
      * revert a r a' H Hrec b Hpb Hab He.
        change (replays (do* args := create_fields (create_node f g k) (fields_of (g_decl g) (SC c)) (mkCtx (c_depth ctx + 1) (c_exp ctx + 1)) [] in ret (VNode c args))).
        apply replays_bind; [apply replays_create_fields; [exact IH|exact Hpe|apply plain_fields; exact Hplain]| |]; intro args; [apply replays_ret|apply pe_ret].
  - apply replays_bind; [apply replays_random_int| |].
    + intro n. apply replays_bind; [apply replays_repeatM; [apply IH; exact Hp|apply Hpe]| |]; intro vs; [apply replays_ret|apply pe_ret].
    + intro n. apply pres_bind; [apply dna_ext_trans|apply (pres_repeatM dna_ext dna_ext_refl dna_ext_trans); apply Hpe|]. intro vs. apply pe_ret.
  - rewrite plain_allb in Hp. apply replays_bind; [apply replays_create_tuple; [exact IH|exact Hpe|exact Hp]| |]; intro vs; [apply replays_ret|apply pe_ret].
  - rewrite plain_allb in Hp.
    apply (replays_bind_post _ _ (fun t' => plain t' = true)).
    + apply replays_choose. apply ty_eqb_refl_plain. cbn [plain]. rewrite plain_allb. exact Hp.
    + intros a x a1 H. apply choose_mem in H. eapply plain_in; eauto.
    + intros t' Ht'. apply IH. exact Ht'.
    + intro t'. apply Hpe.
  - discriminate.
Qed.
End Replay.

From GE Require Import Linear.

(* dynamic SGE on a hierarchy without refined fields: mapping the genotype as the first mapping left it gives the same
   program again, draws nothing from the (arbitrary) source it is handed and leaves the genotype unchanged *)
Theorem dsge_map_idempotent fuel g D s dna v st1 :
  plain_decl (g_decl g) = true ->
  dsge_map fuel g D s dna = (Ok v, st1) ->
  forall s', exists st2, dsge_map fuel g D s' (st_dna st1) = (Ok v, st2) /\ st_src st2 = s' /\ st_dna st2 = st_dna st1.
Proof.
  intros Hp H s'. unfold dsge_map in *. destruct (decider_validate g (DDsge D)) as [u|e]; [|discriminate].
  set (a := mkSt s None (map (fun x => (key_of_sym x, O)) (r_nodes (g_reg g))) dna (r_alts (g_reg g))) in H.
  set (b := mkSt s' None (map (fun x => (key_of_sym x, O)) (r_nodes (g_reg g))) (st_dna st1) (r_alts (g_reg g))).
  destruct (create_node_replays g D Hp fuel (start_ty g) ctx0 [] eq_refl a (Ok v) st1 H I b eq_refl eq_refl)
    as [b' [Eb [_ [Hd [Hs _]]]]].
  - intros k l Hk. exists []. rewrite app_nil_r. exact Hk.
  - exists b'. split; [exact Eb|]. split; [exact Hs|exact Hd].
Qed.
