(* EmptyListRefuted.v — known finding F10 as a theorem about the model: on E -> Lit(int in 0..1) | Many(list of 0..2 E)
   with max_depth = 1 grow creation never returns the valid depth-1 program Many([]), for any state of the random
   source: the analysis charges Many the depth of a list element although the empty list needs none. *)
From GE Require Import Base Tape Grammar WellTyped Synth Sat Lang SynthDepth.
Open Scope Z_scope.

Definition ex10 : decl :=
  mkDecl [ mkCls None true [] None;
           mkCls (Some 0%nat) false [TAnn (TBase BInt) (MIntRange 0 1)] None;
           mkCls (Some 0%nat) false [TAnn (TList (TSym 0%nat)) (MListSize 0 2 true)] None ]
         [0; 1; 2]%nat 0%nat false.

Definition g10 : grammar := match extract ex10 id_order with Ok g => g | Err _ => mkG ex10 r0 [] [] end.
Lemma g10_ok : extract ex10 id_order = Ok g10. Proof. vm_compute. reflexivity. Qed.

Lemma root_choice10 st : choose g10 (DMax 1) (TSym 0%nat) [TSym 1%nat; TSym 2%nat] ctx0 st = s_choice [TSym 1%nat] st.
Proof. unfold choose, bindM, lift. vm_compute. reflexivity. Qed.

Lemma reg0 : is_registered g10 (SC 0%nat) = true. Proof. vm_compute. reflexivity. Qed.
Lemma reg1 : is_registered g10 (SC 1%nat) = true. Proof. vm_compute. reflexivity. Qed.
Lemma alts0 : get_alts (r_alts (g_reg g10)) 0%nat = Some [1; 2]%nat. Proof. vm_compute. reflexivity. Qed.
Lemma alts1 : get_alts (r_alts (g_reg g10)) 1%nat = None. Proof. vm_compute. reflexivity. Qed.
Lemma abs1 : is_abstract (g_decl g10) (SC 1%nat) = false. Proof. vm_compute. reflexivity. Qed.
Lemma fields1 : fields_of (g_decl g10) (SC 1%nat) = [TAnn (TBase BInt) (MIntRange 0 1)]. Proof. vm_compute. reflexivity. Qed.
Opaque g10.

Lemma lit_result10 : forall f ctx st, st_alts st = r_alts (g_reg g10) ->
  match create_node f g10 (DMax 1) (TSym 1%nat) ctx [] st with
  | (Ok v, _) => exists z, v = VNode 1%nat [VInt z]
  | (Err e, _) => e <> SynthesisException
  end.
Proof.
  intros [|f] ctx st Ha; [cbn [create_node]; unfold fail; discriminate|].
  cbn [create_node]. rewrite reg1. cbn [negb]. rewrite Ha, alts1, abs1, fields1.
  cbn [create_fields]. unfold bindM.
  destruct f as [|f]; [cbn [create_node]; unfold fail; discriminate|].
  cbn [create_node mh_generate_flat]. unfold bindM, s_randint, on_src.
  pose proof (randint_no_ae (st_src st) 0 1) as Hn.
  destruct (randint (st_src st) 0 1) as [[z s']|e]; [unfold ret; cbn; eexists; reflexivity|].
  intro He. subst e. exact Hn.
Qed.

Theorem grow_never_returns_the_empty_list_program : forall fuel st v st',
  st_alts st = r_alts (g_reg g10) ->
  create_node fuel g10 (DMax 1) (TSym 0%nat) ctx0 [] st = (Ok v, st') -> v <> VNode 2%nat [VList []].
Proof.
  intros [|f] st v st' Ha H; [discriminate|].
  cbn [create_node] in H. rewrite reg0 in H. cbn [negb] in H. rewrite Ha, alts0 in H.
  cbn [length try_productions map] in H. unfold bindM at 1 in H. rewrite root_choice10 in H.
  unfold s_choice, on_src in H.
  destruct (choice (st_src st) [TSym 1%nat]) as [[x s']|e] eqn:Ec; [|discriminate].
  pose proof (TapeProofs.choice_mem _ _ _ _ Ec) as Hx. destruct Hx as [<-|[]].
  pose proof (lit_result10 f (mkCtx (c_depth ctx0) (c_exp ctx0 + 1)) (with_src st s') Ha) as L.
  destruct (create_node f g10 (DMax 1) (TSym 1%nat) (mkCtx (c_depth ctx0) (c_exp ctx0 + 1)) [] (with_src st s')) as [[r|e] st1].
  - inversion H; subst. destruct L as [z ->]. discriminate.
  - destruct e; try (exfalso; apply L; reflexivity); discriminate.
Qed.

(* ... although Many([]) is a program of the bounded language at depth 1 *)
Example empty_list_program_is_valid : existsb (value_eqb (VNode 2%nat [VList []])) (lang (g_decl g10) (g_reg g10) 1) = true.
Proof. Transparent g10. vm_compute. reflexivity. Qed.
