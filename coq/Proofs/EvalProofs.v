(* EvalProofs.v — property C13: fitness is computed from the program, once, counted honestly;
   the parallel evaluator agrees with the sequential one. *)
From GE Require Import Base Search.
From Coq Require Import Permutation Lia ZArith List QArith.
Import ListNotations.
Open Scope Z_scope.

(* ------------------------------------------------------------------ *)
(* auxiliary lemmas                                                   *)
(* ------------------------------------------------------------------ *)

Lemma key_eqb_eq (a b : key) : key_eqb a b = true <-> a = b.
Proof.
  destruct a as [a1 a2], b as [b1 b2]; unfold key_eqb; cbn [fst snd].
  rewrite andb_true_iff, !N.eqb_eq. split.
  - intros [H1 H2]; subst; reflexivity.
  - intros H; inversion H; subst; split; reflexivity.
Qed.

Lemma key_eqb_refl (a : key) : key_eqb a a = true.
Proof. apply key_eqb_eq; reflexivity. Qed.

Lemma lookup_app (l1 l2 : store) (k : key) :
  lookup (l1 ++ l2) k = match lookup l1 k with Some f => Some f | None => lookup l2 k end.
Proof.
  induction l1 as [|[k' f] t IH]; cbn [app lookup].
  - reflexivity.
  - destruct (key_eqb k k'); [reflexivity | exact IH].
Qed.

Lemma lookup_Some_In (l : store) (k : key) (f : fitness) : lookup l k = Some f -> In (k, f) l.
Proof.
  induction l as [|[k' f'] t IH]; cbn [lookup]; intro H.
  - discriminate H.
  - destruct (key_eqb k k') eqn:E.
    + apply key_eqb_eq in E. subst k'. inversion H; subst. left; reflexivity.
    + right. apply IH. exact H.
Qed.

Lemma has_fit_app (l1 l2 : store) (k : key) : has_fit (l1 ++ l2) k = has_fit l1 k || has_fit l2 k.
Proof.
  unfold has_fit. rewrite lookup_app. destruct (lookup l1 k); reflexivity.
Qed.

Lemma has_fit_In (l : store) (k : key) : has_fit l k = true <-> In k (map fst l).
Proof.
  unfold has_fit. induction l as [|[k' f'] t IH]; cbn [lookup map In fst].
  - split; [discriminate | intros []].
  - destruct (key_eqb k k') eqn:E.
    + apply key_eqb_eq in E. subst k'. split; intros _; [left|]; reflexivity.
    + rewrite IH. split.
      * intro H; right; exact H.
      * intros [H|H]; [|exact H]. subst k'. rewrite key_eqb_refl in E. discriminate E.
Qed.

Lemma fold_left_cons_rev {A B : Type} (g : A -> B) (rs : list A) (s : list B) :
  fold_left (fun s r => g r :: s) rs s = rev (map g rs) ++ s.
Proof.
  revert s. induction rs as [|r t IH]; intro s; cbn [fold_left map rev app].
  - reflexivity.
  - rewrite IH, <- app_assoc. reflexivity.
Qed.

Lemma NoDup_app_intro {A : Type} (l1 l2 : list A) :
  NoDup l1 -> NoDup l2 -> (forall x, In x l1 -> ~ In x l2) -> NoDup (l1 ++ l2).
Proof.
  induction l1 as [|a t IH]; intros H1 H2 Hd; cbn [app].
  - exact H2.
  - inversion H1 as [|a' t' Hna Ht]; subst. constructor.
    + rewrite in_app_iff. intros [H|H].
      * exact (Hna H).
      * exact (Hd a (or_introl eq_refl) H).
    + apply IH; [exact Ht | exact H2 |].
      intros x Hx. apply Hd. right. exact Hx.
Qed.

Lemma evaluate_one (p : problem) (raw : list Q) (f : fitness) (n : Z) :
  evaluate p raw = Ok (f, n) -> n = 1.
Proof.
  destruct p as [m | m a]; cbn [evaluate].
  - destruct raw as [|v [|w t]]; intro H; inversion H; reflexivity.
  - intro H; inversion H; reflexivity.
Qed.

(* dedupe *)
Lemma dedupe_In (l seen : list N) (x : N) :
  In x (dedupe seen l) -> In x l /\ existsb (N.eqb x) seen = false.
Proof.
  revert seen. induction l as [|i t IH]; intros seen; cbn [dedupe].
  - intros [].
  - destruct (existsb (N.eqb i) seen) eqn:E.
    + intro H. destruct (IH _ H) as [H1 H2]. split; [right; exact H1 | exact H2].
    + intros [H|H].
      * subst x. split; [left; reflexivity | exact E].
      * destruct (IH _ H) as [H1 H2]. split; [right; exact H1|].
        cbn [existsb] in H2. apply orb_false_iff in H2. apply H2.
Qed.

Lemma dedupe_NoDup (l seen : list N) : NoDup (dedupe seen l).
Proof.
  revert seen. induction l as [|i t IH]; intros seen; cbn [dedupe].
  - constructor.
  - destruct (existsb (N.eqb i) seen) eqn:E.
    + apply IH.
    + constructor; [|apply IH].
      intro H. apply dedupe_In in H. destruct H as [_ H].
      cbn [existsb] in H. rewrite N.eqb_refl in H. discriminate H.
Qed.

Section Aux.
Variable ff : N -> list Q.
Variable p : problem.
Variable pid : N.

Definition kof (i : N) : key := (i, pid).
Definition rid (r : N * fitness * Z) : N := fst (fst r).
Definition ins (r : N * fitness * Z) : key * fitness := ((fst (fst r), pid), snd (fst r)).

Lemma kof_NoDup (l : list N) : NoDup l -> NoDup (map kof l).
Proof.
  induction l as [|a t IH]; intro H; cbn [map].
  - constructor.
  - inversion H as [|a' t' Hna Ht]; subst. constructor; [|apply IH; exact Ht].
    intro Hin. apply in_map_iff in Hin. destruct Hin as [x [Hx Hin]].
    unfold kof in Hx. inversion Hx; subst. exact (Hna Hin).
Qed.

Lemma has_fit_cons (s : store) (i j : N) (f : fitness) :
  has_fit (((i, pid), f) :: s) (j, pid) = N.eqb j i || has_fit s (j, pid).
Proof.
  unfold has_fit; cbn [lookup]. unfold key_eqb; cbn [fst snd].
  rewrite N.eqb_refl, andb_true_r. destruct (N.eqb j i); reflexivity.
Qed.

Lemma dedupe_step (t : list N) (s : store) (i : N) (f : fitness) : forall s1 s2,
  dedupe (s1 ++ i :: s2) (filter (fun j => negb (has_fit s (j, pid))) t) =
  dedupe (s1 ++ s2) (filter (fun j => negb (has_fit (((i, pid), f) :: s) (j, pid))) t).
Proof.
  induction t as [|a t IH]; intros s1 s2; cbn [filter].
  - reflexivity.
  - rewrite has_fit_cons.
    destruct (N.eqb a i) eqn:Hai; destruct (has_fit s (a, pid)) eqn:Hf; cbn [orb negb].
    + apply IH.
    + cbn [dedupe]. rewrite existsb_app. cbn [existsb]. rewrite Hai.
      rewrite orb_true_l, orb_true_r. apply IH.
    + apply IH.
    + cbn [dedupe]. rewrite !existsb_app. cbn [existsb]. rewrite Hai. rewrite orb_false_l.
      destruct (existsb (N.eqb a) s1 || existsb (N.eqb a) s2).
      * apply IH.
      * f_equal. apply (IH (a :: s1) s2).
Qed.

Lemma par_todo_cached (e : ev) (i : N) (t : list N) :
  has_fit (st e) (i, pid) = true -> par_todo pid e (i :: t) = par_todo pid e t.
Proof.
  intro H. unfold par_todo. cbn [filter]. rewrite H. reflexivity.
Qed.

Lemma par_todo_uncached (e e' : ev) (i : N) (t : list N) (f : fitness) :
  has_fit (st e) (i, pid) = false -> st e' = ((i, pid), f) :: st e ->
  par_todo pid e (i :: t) = i :: par_todo pid e' t.
Proof.
  intros H He'. unfold par_todo. cbn [filter]. rewrite H. cbn [negb dedupe existsb].
  f_equal. rewrite He'. apply (dedupe_step t (st e) i f [] []).
Qed.

Lemma par_todo_NoDup (e : ev) (b : list N) : NoDup (par_todo pid e b).
Proof. apply dedupe_NoDup. Qed.

Lemma par_todo_uncached_In (e : ev) (b : list N) (i : N) :
  In i (par_todo pid e b) -> has_fit (st e) (i, pid) = false.
Proof.
  unfold par_todo. intro H. apply dedupe_In in H. destruct H as [H _].
  apply filter_In in H. destruct H as [_ H]. apply negb_true_iff in H. exact H.
Qed.

(* par_results *)
Lemma par_results_ids (todo : list N) : forall rs,
  par_results ff p todo = Ok rs -> map rid rs = todo.
Proof.
  induction todo as [|i t IH]; intros rs H; cbn [par_results] in H.
  - inversion H; reflexivity.
  - destruct (evaluate p (ff i)) as [[f n]|x] eqn:Hev; cbn [bind] in H; [|discriminate H].
    destruct (par_results ff p t) as [r|x] eqn:Hr; cbn [bind] in H; [|discriminate H].
    inversion H; subst. cbn [map]. unfold rid at 1; cbn [fst]. f_equal. apply IH. reflexivity.
Qed.

Lemma par_results_In (todo : list N) : forall rs r,
  par_results ff p todo = Ok rs -> In r rs ->
  evaluate p (ff (fst (fst r))) = Ok (snd (fst r), snd r).
Proof.
  induction todo as [|i t IH]; intros rs r H Hin; cbn [par_results] in H.
  - inversion H; subst. destruct Hin.
  - destruct (evaluate p (ff i)) as [[f n]|x] eqn:Hev; cbn [bind] in H; [|discriminate H].
    destruct (par_results ff p t) as [r0|x] eqn:Hr; cbn [bind] in H; [|discriminate H].
    inversion H; subst. destruct Hin as [Hin|Hin].
    + subst r. cbn [fst snd]. exact Hev.
    + apply (IH r0); [reflexivity | exact Hin].
Qed.

Lemma par_results_all_ok (todo : list N) : forall rs i,
  par_results ff p todo = Ok rs -> In i todo -> exists f, evaluate p (ff i) = Ok (f, 1).
Proof.
  intros rs i H Hin. rewrite <- (par_results_ids todo rs H) in Hin.
  apply in_map_iff in Hin. destruct Hin as [r [Hr Hin]].
  pose proof (par_results_In todo rs r H Hin) as Hev. unfold rid in Hr. rewrite Hr in Hev.
  exists (snd (fst r)). rewrite Hev. f_equal. f_equal. exact (evaluate_one _ _ _ _ Hev).
Qed.

Definition seq_result (e : ev) (rs : list (N * fitness * Z)) : ev :=
  mkEv (fold_left (fun s r => ((fst (fst r), pid), snd (fst r)) :: s) rs (st e))
       (count e + zlen rs)
       (rev (map (fun r => kof (rid r)) rs) ++ calls e).

Lemma eval_seq_char (b : list N) : forall e,
  eval_seq ff p pid e b =
  bind (par_results ff p (par_todo pid e b)) (fun rs => Ok (seq_result e rs)).
Proof.
  induction b as [|i t IH]; intro e.
  - cbn [eval_seq]. unfold par_todo. cbn [filter dedupe par_results bind].
    unfold seq_result. cbn [fold_left map rev app]. unfold zlen. cbn [length Z.of_nat].
    rewrite Z.add_0_r. destruct e; reflexivity.
  - cbn [eval_seq]. unfold eval_one.
    destruct (has_fit (st e) (i, pid)) eqn:Hf.
    + cbn [bind]. rewrite IH. rewrite (par_todo_cached e i t Hf). reflexivity.
    + destruct (evaluate p (ff i)) as [[f n]|x] eqn:Hev; cbn [bind].
      * rewrite IH.
        rewrite (par_todo_uncached e
                   (mkEv (((i, pid), f) :: st e) (count e + 1) (repeat (i, pid) (Z.to_nat n) ++ calls e))
                   i t f Hf eq_refl).
        cbn [par_results]. rewrite Hev. cbn [bind].
        destruct (par_results ff p _) as [rs|x]; cbn [bind]; [|reflexivity].
        f_equal. unfold seq_result. cbn [st count calls fold_left map rev fst snd].
        f_equal.
        -- unfold zlen. cbn [length]. lia.
        -- rewrite (evaluate_one _ _ _ _ Hev). change (Z.to_nat 1) with 1%nat. cbn [repeat].
           rewrite <- app_assoc. unfold rid at 2. cbn [fst app]. reflexivity.
      * unfold par_todo. cbn [filter]. rewrite Hf. cbn [negb dedupe existsb par_results].
        rewrite Hev. reflexivity.
Qed.

Lemma flat_map_calls (o : list N) :
  (forall i, In i o -> exists f, evaluate p (ff i) = Ok (f, 1)) ->
  flat_map (fun i => match evaluate p (ff i) with
                     | Ok (_, n) => repeat (i, pid) (Z.to_nat n)
                     | Err _ => [] end) o = map kof o.
Proof.
  induction o as [|a t IH]; intro H; cbn [flat_map map].
  - reflexivity.
  - destruct (H a (or_introl eq_refl)) as [f Hf]. rewrite Hf.
    change (Z.to_nat 1) with 1%nat. cbn [repeat app]. f_equal.
    apply IH. intros i Hi. apply H. right. exact Hi.
Qed.

(* one evaluator call, sequential or parallel, described uniformly *)
Definition step_rel (e e' : ev) (b : list N) (rs : list (N * fitness * Z)) (o : list N) : Prop :=
  par_results ff p (par_todo pid e b) = Ok rs /\
  Permutation o (par_todo pid e b) /\
  st e' = rev (map ins rs) ++ st e /\
  count e' = count e + zlen rs /\
  calls e' = rev (map kof o) ++ calls e.

Lemma seq_step (e e' : ev) (b : list N) :
  eval_seq ff p pid e b = Ok e' -> exists rs, step_rel e e' b rs (par_todo pid e b).
Proof.
  rewrite eval_seq_char.
  destruct (par_results ff p (par_todo pid e b)) as [rs|x] eqn:Hr; cbn [bind]; intro H; [|discriminate H].
  inversion H; subst e'. exists rs. unfold step_rel, seq_result; cbn [st count calls].
  split; [exact Hr|]. split; [apply Permutation_refl|].
  split; [apply (fold_left_cons_rev ins)|]. split; [reflexivity|].
  rewrite <- (par_results_ids _ _ Hr). rewrite map_map. reflexivity.
Qed.

Lemma par_step (e e' : ev) (b o : list N) :
  Permutation o (par_todo pid e b) ->
  eval_par ff p pid o e b = Ok e' -> exists rs, step_rel e e' b rs o.
Proof.
  intro Hp. unfold eval_par.
  destruct (par_results ff p (par_todo pid e b)) as [rs|x] eqn:Hr; cbn [bind]; intro H; [|discriminate H].
  inversion H; subst e'. exists rs. unfold step_rel; cbn [st count calls].
  split; [exact Hr|]. split; [exact Hp|].
  split; [apply (fold_left_cons_rev ins)|]. split; [reflexivity|].
  rewrite flat_map_calls; [reflexivity|].
  intros i Hi. apply (par_results_all_ok _ rs i Hr). apply (Permutation_in _ Hp). exact Hi.
Qed.

End Aux.

Section Eval.
Variable ff : N -> list Q.          (* the user's fitness function *)
Variable probs : N -> problem.      (* several problems may share individuals: problem id -> problem *)

(* one call of an evaluator on a batch, for the problem [pid] *)
Inductive call :=
| CSeq (pid : N) (batch : list N)
| CPar (pid : N) (order batch : list N).

(* evaluator states reachable from the initial one by any sequence of evaluator calls; a
   parallel call may invoke the fitness function in any order (any permutation of its work list) *)
Inductive reach : ev -> Prop :=
| reach0 : reach ev0
| reach_seq e pid b e' : reach e -> eval_seq ff (probs pid) pid e b = Ok e' -> reach e'
| reach_par e pid o b e' : reach e -> Permutation o (par_todo pid e b) ->
    eval_par ff (probs pid) pid o e b = Ok e' -> reach e'.

(* the recorded fitness equals what the problem computes from the fitness function's result *)
Definition Inv (e : ev) : Prop :=
  (forall i pid f, lookup (st e) (i, pid) = Some f -> exists n, evaluate (probs pid) (ff i) = Ok (f, n)) /\
  count e = zlen (calls e) /\
  NoDup (calls e) /\
  (forall k, In k (calls e) <-> has_fit (st e) k = true).

Lemma Inv_step e e' pid b rs o :
  Inv e -> step_rel ff (probs pid) pid e e' b rs o -> Inv e'.
Proof.
  intros [CC [CH [ND CI]]] [Hr [Hp [Hst [Hcnt Hcalls]]]].
  pose proof (par_results_ids _ _ _ _ Hr) as Hids.
  assert (Hlen : length o = length rs).
  { rewrite (Permutation_length Hp), <- Hids, map_length. reflexivity. }
  unfold Inv. rewrite Hst, Hcnt, Hcalls.
  split; [|split; [|split]].
  - (* cache correctness *)
    intros i pid' f HL. rewrite lookup_app in HL.
    destruct (lookup (rev (map (ins pid) rs)) (i, pid')) as [f0|] eqn:L.
    + inversion HL; subst f0. apply lookup_Some_In in L. apply in_rev in L.
      apply in_map_iff in L. destruct L as [r [Hr1 Hr2]].
      unfold ins in Hr1. inversion Hr1; subst.
      exists (snd r). apply (par_results_In _ _ _ _ _ Hr Hr2).
    + apply CC. exact HL.
  - (* counter *)
    rewrite CH. unfold zlen. rewrite app_length, rev_length, map_length, Hlen. lia.
  - (* NoDup *)
    apply NoDup_app_intro.
    + apply (Permutation_NoDup (l := map (kof pid) (par_todo pid e b))).
      * eapply Permutation_trans; [|apply Permutation_rev].
        apply Permutation_map. apply Permutation_sym. exact Hp.
      * apply kof_NoDup. apply par_todo_NoDup.
    + exact ND.
    + intros x Hx Hc. apply in_rev in Hx. apply in_map_iff in Hx.
      destruct Hx as [i [Hi Hin]]. subst x.
      apply CI in Hc. apply (Permutation_in _ Hp) in Hin.
      apply par_todo_uncached_In in Hin. unfold kof in Hc. rewrite Hc in Hin. discriminate Hin.
  - (* calls <-> cached *)
    intro k. rewrite in_app_iff, has_fit_app, orb_true_iff, <- CI, has_fit_In.
    rewrite map_rev, map_map, <- !in_rev.
    assert (E : map (fun x => fst (ins pid x)) rs = map (kof pid) (par_todo pid e b)).
    { rewrite <- Hids, map_map. reflexivity. }
    rewrite E.
    assert (P : Permutation (map (kof pid) o) (map (kof pid) (par_todo pid e b))).
    { apply Permutation_map. exact Hp. }
    split; (intros [H|H]; [left|right; exact H]).
    + apply (Permutation_in _ P). exact H.
    + apply (Permutation_in _ (Permutation_sym P)). exact H.
Qed.

Lemma Inv_ev0 : Inv ev0.
Proof.
  unfold Inv, ev0; cbn [st count calls lookup].
  split; [|split; [|split]].
  - intros i pid f H. discriminate H.
  - reflexivity.
  - constructor.
  - intro k. unfold has_fit; cbn [lookup In]. split; [intros [] | discriminate].
Qed.

Lemma reach_Inv e : reach e -> Inv e.
Proof.
  induction 1 as [| e pid b e' Hre IH Hs | e pid o b e' Hre IH Hp Hs].
  - apply Inv_ev0.
  - destruct (seq_step _ _ _ _ _ _ Hs) as [rs Hstep]. exact (Inv_step _ _ _ _ _ _ IH Hstep).
  - destruct (par_step _ _ _ _ _ _ _ Hp Hs) as [rs Hstep]. exact (Inv_step _ _ _ _ _ _ IH Hstep).
Qed.

Theorem cache_correct e : reach e ->
  forall i pid f, lookup (st e) (i, pid) = Some f -> exists n, evaluate (probs pid) (ff i) = Ok (f, n).
Proof. intro H. exact (proj1 (reach_Inv e H)). Qed.

(* the evaluation counter equals the number of invocations of the fitness function *)
Theorem count_honest e : reach e -> count e = zlen (calls e).
Proof. intro H. exact (proj1 (proj2 (reach_Inv e H))). Qed.

(* at most one invocation per (individual, problem) pair, whatever is re-presented *)
Theorem once e : reach e -> NoDup (calls e).
Proof. intro H. exact (proj1 (proj2 (proj2 (reach_Inv e H)))). Qed.

Theorem calls_iff_cached e : reach e -> forall k, In k (calls e) <-> has_fit (st e) k = true.
Proof. intro H. exact (proj2 (proj2 (proj2 (reach_Inv e H)))). Qed.

(* parallel = sequential on caches and counter, for every batch (duplicates, mixes of evaluated
   and new individuals) and every scheduling order; the invocation logs agree as multisets *)
Theorem par_eq_seq e pid o b e1 e2 :
  Permutation o (par_todo pid e b) ->
  eval_par ff (probs pid) pid o e b = Ok e1 ->
  eval_seq ff (probs pid) pid e b = Ok e2 ->
  count e1 = count e2 /\ (forall k, lookup (st e1) k = lookup (st e2) k) /\ Permutation (calls e1) (calls e2).
Proof.
  intros Hp H1 H2.
  destruct (par_step _ _ _ _ _ _ _ Hp H1) as [rs1 [Hr1 [_ [Hst1 [Hc1 Hl1]]]]].
  destruct (seq_step _ _ _ _ _ _ H2) as [rs2 [Hr2 [_ [Hst2 [Hc2 Hl2]]]]].
  rewrite Hr1 in Hr2. inversion Hr2; subst rs2.
  split; [|split].
  - rewrite Hc1, Hc2. reflexivity.
  - intro k. rewrite Hst1, Hst2. reflexivity.
  - rewrite Hl1, Hl2. apply Permutation_app_tail.
    eapply Permutation_trans; [apply Permutation_sym, Permutation_rev|].
    eapply Permutation_trans; [|apply Permutation_rev].
    apply Permutation_map. exact Hp.
Qed.

Theorem par_seq_same_failures e pid o b :
  is_ok (eval_par ff (probs pid) pid o e b) = is_ok (eval_seq ff (probs pid) pid e b).
Proof.
  rewrite eval_seq_char. unfold eval_par.
  destruct (par_results ff (probs pid) (par_todo pid e b)) as [rs|x]; reflexivity.
Qed.

End Eval.

(* the aggregate used for comparisons *)
Theorem aggregate_single (v : Q) (m : bool) : evaluate (SO m) [v] = Ok (mkFit (if m then (- v)%Q else v) [v], 1).
Proof. reflexivity. Qed.

Theorem aggregate_multi_default (raw : list Q) (bs : list bool) :
  evaluate (MO (MinList bs) AggDefault) raw = Ok (mkFit (merge_list raw bs) raw, 1).
Proof. reflexivity. Qed.

(* merge_list is the sum of the components with the minimised ones negated *)
Theorem merge_list_spec (raw : list Q) (bs : list bool) : length raw = length bs ->
  (merge_list raw bs == qsum (map (fun fm : Q * bool => if snd fm then - fst fm else fst fm) (combine raw bs)))%Q.
Proof.
  revert bs. induction raw as [|f ft IH]; intros bs Hlen.
  - destruct bs; cbn [merge_list combine map qsum]; reflexivity.
  - destruct bs as [|m mt]; [discriminate Hlen|].
    cbn [length] in Hlen. injection Hlen as Hlen.
    cbn [merge_list combine map qsum fst snd].
    rewrite (IH mt Hlen). unfold neg_if. reflexivity.
Qed.

Theorem aggregate_multi_bool (raw : list Q) (b : bool) :
  evaluate (MO (MinBool b) AggDefault) raw = Ok (mkFit (qsum (map (fun f : Q => if b then (- f)%Q else f) raw)) raw, 1).
Proof. reflexivity. Qed.
