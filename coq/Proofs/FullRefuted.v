(* FullRefuted.v — known finding F34 as a theorem about the model: on E -> Lit(int in 0..1) | Plus(E, E) with max_depth = 2
   the full decider returns, for EVERY state of the random source, only programs of depth 1, although the four programs
   Plus(Lit a, Lit b) are in the bounded language and have all their branches at depth 2. *)
From GE Require Import Base Tape Grammar WellTyped Synth Sat Lang SynthDepth.
Open Scope Z_scope.

Definition ex4 : decl :=
  mkDecl [ mkCls None true [] None;
           mkCls (Some 0%nat) false [TAnn (TBase BInt) (MIntRange 0 1)] None;
           mkCls (Some 0%nat) false [TSym 0%nat; TSym 0%nat] None ]
         [0; 1; 2]%nat 0%nat false.

Definition g4 : grammar := match extract ex4 id_order with Ok g => g | Err _ => mkG ex4 r0 [] [] end.

Lemma g4_ok : extract ex4 id_order = Ok g4.
Proof. vm_compute. reflexivity. Qed.

(* at the root the full decider's candidate list is [Lit] alone: Plus (recursive, distance 2) is not STRICTLY below the
   remaining budget 2, and its distance is not budget - 1 *)
Lemma root_choice st : choose g4 (DFull 2) (TSym 0%nat) [TSym 1%nat; TSym 2%nat] ctx0 st = s_choice [TSym 1%nat] st.
Proof. unfold choose, bindM, lift. vm_compute. reflexivity. Qed.

Lemma reg0 : is_registered g4 (SC 0%nat) = true. Proof. vm_compute. reflexivity. Qed.
Lemma reg1 : is_registered g4 (SC 1%nat) = true. Proof. vm_compute. reflexivity. Qed.
Lemma alts0 : get_alts (r_alts (g_reg g4)) 0%nat = Some [1; 2]%nat. Proof. vm_compute. reflexivity. Qed.
Lemma alts1 : get_alts (r_alts (g_reg g4)) 1%nat = None. Proof. vm_compute. reflexivity. Qed.
Lemma abs1 : is_abstract (g_decl g4) (SC 1%nat) = false. Proof. vm_compute. reflexivity. Qed.
Lemma fields1 : fields_of (g_decl g4) (SC 1%nat) = [TAnn (TBase BInt) (MIntRange 0 1)]. Proof. vm_compute. reflexivity. Qed.
Opaque g4.

(* creating a Lit: a program of depth 1, or an error of the random source (never SynthesisException) *)
Lemma lit_result : forall f ctx st, st_alts st = r_alts (g_reg g4) ->
  match create_node f g4 (DFull 2) (TSym 1%nat) ctx [] st with
  | (Ok v, _) => vdepth v = 1
  | (Err e, _) => e <> SynthesisException
  end.
Proof.
  intros [|f] ctx st Ha; [cbn [create_node]; unfold fail; discriminate|].
  cbn [create_node]. rewrite reg1. cbn [negb]. rewrite Ha, alts1, abs1, fields1.
  cbn [create_fields]. unfold bindM.
  destruct f as [|f]; [cbn [create_node]; unfold fail; discriminate|].
  cbn [create_node mh_generate_flat]. unfold bindM, s_randint, on_src.
  pose proof (randint_no_ae (st_src st) 0 1) as Hn.
  destruct (randint (st_src st) 0 1) as [[z s']|e]; [unfold ret; cbn; reflexivity|].
  intro He. subst e. exact Hn.
Qed.

Theorem full_stops_one_level_early : forall fuel st v st',
  st_alts st = r_alts (g_reg g4) ->
  create_node fuel g4 (DFull 2) (TSym 0%nat) ctx0 [] st = (Ok v, st') -> vdepth v = 1.
Proof.
  intros [|f] st v st' Ha H; [discriminate|].
  cbn [create_node] in H. rewrite reg0 in H. cbn [negb] in H. rewrite Ha, alts0 in H.
  cbn [length try_productions map] in H. unfold bindM at 1 in H. rewrite root_choice in H.
  unfold s_choice, on_src in H.
  destruct (choice (st_src st) [TSym 1%nat]) as [[x s']|e] eqn:Ec; [|discriminate].
  pose proof (TapeProofs.choice_mem _ _ _ _ Ec) as Hx. destruct Hx as [<-|[]].
  pose proof (lit_result f (mkCtx (c_depth ctx0) (c_exp ctx0 + 1)) (with_src st s') Ha) as L.
  destruct (create_node f g4 (DFull 2) (TSym 1%nat) (mkCtx (c_depth ctx0) (c_exp ctx0 + 1)) [] (with_src st s')) as [[r|e] st1].
  - inversion H; subst. exact L.
  - destruct e; try (exfalso; apply L; reflexivity); discriminate.
Qed.

(* ... although the four programs Plus(Lit a, Lit b) are in the bounded language and have every branch at depth 2 *)
Example full_programs_exist :
  existsb (fun v => full_at 2 v) (lang (g_decl g4) (g_reg g4) 2) = true /\
  length (filter (full_at 2) (lang (g_decl g4) (g_reg g4) 2)) = 4%nat.
Proof. Transparent g4. split; vm_compute; reflexivity. Qed.
