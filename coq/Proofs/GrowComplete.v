(* GrowComplete.v — C04, "no valid program is unreachable": for grow creation (MaxDepthDecider) every program of
   the bounded language that contains no empty list is produced by some sequence of random decisions. *)
From GE Require Import Base Tape Grammar WellTyped Synth Sat Lang RegProofs DistProofs SynthFrame SynthSat SynthDepth LangProofs.
Open Scope Z_scope.

(* ---------- runs of the state-and-error monad on a scripted native source ---------- *)
Section Run.
Variable alts0 : list (nat * list nat).

(* [m] consumes exactly [tape] from the front of the source, returns [a] and changes nothing else *)
Definition Run {A} (m : M A) (tape : list draw) (a : A) : Prop :=
  forall rest st, st_src st = Native (tape ++ rest) -> st_alts st = alts0 -> m st = (Ok a, with_src st (Native rest)).

Lemma with_src_twice st s1 s2 : with_src (with_src st s1) s2 = with_src st s2.
Proof. reflexivity. Qed.

Lemma with_src_same st s : st_src st = s -> with_src st s = st.
Proof. intros <-. destruct st; reflexivity. Qed.

Lemma run_ret {A} (a : A) : Run (ret a) [] a.
Proof. intros rest st Hs Ha. unfold ret. cbn [app] in Hs. rewrite (with_src_same _ _ Hs). reflexivity. Qed.

Lemma run_lift {A} (a : A) : Run (lift (Ok a)) [] a.
Proof. exact (run_ret a). Qed.

Lemma run_bind {A B} (m : M A) (f : A -> M B) t1 t2 a b :
  Run m t1 a -> Run (f a) t2 b -> Run (bindM m f) (t1 ++ t2) b.
Proof.
  intros H1 H2 rest st Hs Ha. unfold bindM. rewrite <- app_assoc in Hs. rewrite (H1 _ _ Hs Ha).
  rewrite (H2 rest (with_src st (Native (t2 ++ rest))) eq_refl Ha). reflexivity.
Qed.

Lemma run_bind_nil {A B} (m : M A) (f : A -> M B) t a b :
  Run m [] a -> Run (f a) t b -> Run (bindM m f) t b.
Proof. intros H1 H2. exact (run_bind m f [] t a b H1 H2). Qed.

Lemma run_bind_r {A B} (m : M A) (f : A -> M B) t a b :
  Run m t a -> Run (f a) [] b -> Run (bindM m f) t b.
Proof. intros H1 H2. rewrite <- (app_nil_r t). exact (run_bind m f t [] a b H1 H2). Qed.

Lemma run_on_src {A} (f : src -> res (A * src)) tape a :
  (forall rest, f (Native (tape ++ rest)) = Ok (a, Native rest)) -> Run (on_src f) tape a.
Proof. intros H rest st Hs _. unfold on_src. rewrite Hs, H. reflexivity. Qed.

Lemma randint_native z lo hi rest : lo <= z <= hi -> randint (Native (DI z :: rest)) lo hi = Ok (z, Native rest).
Proof.
  intro H. cbn [randint]. destruct (hi <? lo) eqn:E; [apply Z.ltb_lt in E; lia|].
  destruct ((lo <=? z) && (z <=? hi)) eqn:E2; [reflexivity|]. apply andb_false_iff in E2. destruct E2 as [E2|E2]; apply Z.leb_gt in E2; lia.
Qed.

Lemma run_randint lo hi z : lo <= z <= hi -> Run (s_randint lo hi) [DI z] z.
Proof. intro H. apply run_on_src. intro rest. apply randint_native. exact H. Qed.

Lemma choice_native {A} (l : list A) i x rest : nth_error l i = Some x -> choice (Native (DI (Z.of_nat i) :: rest)) l = Ok (x, Native rest).
Proof.
  intro H. assert (Hlt : (i < length l)%nat) by (apply nth_error_Some; congruence).
  unfold choice. destruct l as [|y t]; [destruct i; discriminate|].
  rewrite randint_native by (unfold zlen; lia). cbn [bind]. unfold znth.
  destruct (Z.of_nat i <? 0) eqn:E; [apply Z.ltb_lt in E; lia|]. rewrite Nat2Z.id, H. reflexivity.
Qed.

Lemma run_choice {A} (l : list A) i x : nth_error l i = Some x -> Run (s_choice l) [DI (Z.of_nat i)] x.
Proof. intro H. apply run_on_src. intro rest. apply choice_native. exact H. Qed.

Lemma run_repeat {A} (f : M A) : forall tapes vs,
  Forall2 (fun tp v => Run f tp v) tapes vs -> Run (repeatM (length vs) f) (concat tapes) vs.
Proof.
  induction 1 as [|tp v tps vs Hv _ IH]; cbn [repeatM length concat].
  - apply run_ret.
  - eapply run_bind; [exact Hv|]. rewrite <- (app_nil_r (concat tps)). eapply run_bind; [exact IH|apply run_ret].
Qed.
End Run.

(* filter_res succeeds when the test is defined on every element *)
Lemma filter_res_total {A} (f : A -> res bool) : forall l, (forall x, In x l -> exists b, f x = Ok b) -> exists l', filter_res f l = Ok l'.
Proof.
  induction l as [|x t IH]; intros H; cbn [filter_res]; [eexists; reflexivity|].
  destruct (H x (or_introl eq_refl)) as [b Hb]. rewrite Hb. cbn [bind].
  destruct (IH (fun y Hy => H y (or_intror Hy))) as [l' Hl']. rewrite Hl'. cbn [bind]. eexists; reflexivity.
Qed.

(* ---------- values without empty lists; declarations whose distances are all defined ---------- *)
Fixpoint noempty (v : value) : bool :=
  let fix allb (l : list value) : bool := match l with [] => true | x :: t => noempty x && allb t end in
  match v with
  | VList vs => negb (match vs with [] => true | _ => false end) && allb vs
  | VTuple vs | VNode _ vs => allb vs
  | _ => true
  end.
Fixpoint noempty_all (l : list value) : bool := match l with [] => true | x :: t => noempty x && noempty_all t end.
Lemma noempty_allb l : (fix allb (l : list value) : bool := match l with [] => true | x :: t => noempty x && allb t end) l = noempty_all l.
Proof. induction l as [|a t IH]; [reflexivity|]. cbn [noempty_all]. rewrite <- IH. reflexivity. Qed.
Lemma noempty_node c vs : noempty (VNode c vs) = noempty_all vs. Proof. cbn [noempty]. apply noempty_allb. Qed.
Lemma noempty_tuple vs : noempty (VTuple vs) = noempty_all vs. Proof. cbn [noempty]. apply noempty_allb. Qed.
Lemma noempty_list vs : noempty (VList vs) = negb (match vs with [] => true | _ => false end) && noempty_all vs.
Proof. cbn [noempty]. rewrite noempty_allb. reflexivity. Qed.

Section WTne.
Variables (d : decl) (r : rstate).
Lemma WT_ne_mut :
  (forall t v, WT d r false t v -> noempty v = true -> WT d r true t v) /\
  (forall ts vs, WTs d r false ts vs -> noempty_all vs = true -> WTs d r true ts vs) /\
  (forall t vs, WTall d r false t vs -> noempty_all vs = true -> WTall d r true t vs) /\
  (forall ts v, WTany d r false ts v -> noempty v = true -> WTany d r true ts v).
Proof.
  apply WT_mutind; intros;
    repeat match goal with
           | H : noempty (VNode _ _) = true |- _ => rewrite noempty_node in H
           | H : noempty (VTuple _) = true |- _ => rewrite noempty_tuple in H
           | H : noempty (VList _) = true |- _ => rewrite noempty_list in H; apply andb_prop in H; destruct H
           | H : noempty_all (_ :: _) = true |- _ => cbn [noempty_all] in H; apply andb_prop in H; destruct H
           end;
    try (constructor; auto; fail).
  apply WT_list; [auto|]. intros _ ->. discriminate.
Qed.
End WTne.

Fixpoint ty_dist_ok (g : grammar) (t : ty) : bool :=
  let fix allb (l : list ty) : bool := match l with [] => true | x :: r => ty_dist_ok g x && allb r end in
  is_ok (gdist_ty g t) &&
  match t with
  | TList t' | TAnn t' _ => ty_dist_ok g t'
  | TTuple ts | TUnion ts => allb ts
  | _ => true
  end.
Fixpoint tys_dist_ok (g : grammar) (l : list ty) : bool := match l with [] => true | x :: r => ty_dist_ok g x && tys_dist_ok g r end.
Lemma tys_dist_okb g l : (fix allb (l : list ty) : bool := match l with [] => true | x :: r => ty_dist_ok g x && allb r end) l = tys_dist_ok g l.
Proof. induction l as [|a t IH]; [reflexivity|]. cbn [tys_dist_ok]. rewrite <- IH. reflexivity. Qed.

(* the analysis assigned a distance to every registered class and to every field type (and their parts) *)
Definition dist_ok (g : grammar) : bool :=
  forallb (fun s => match s with
                    | SC c => is_ok (gdist_ty g (TSym c)) &&
                              (is_abstract (g_decl g) (SC c) || tys_dist_ok g (fields_of (g_decl g) (SC c)))
                    | SB _ => true
                    end) (r_nodes (g_reg g)).

Section Complete.
Variables (order : list sym -> list sym) (g : grammar).
Let d := g_decl g.
Let r := g_reg g.
Hypothesis Hxd : d_xdepth d = false.
Hypothesis Hperm : perm_order order.
Hypothesis Han : analyse d order = Ok g.
Hypothesis Hfc : fc_decl d = true.
Hypothesis Hdist : dist_ok g = true.
Variable D : Z.
Let k := DMax D.
Let RunG {A} := @Run (r_alts r) A.

Lemma Hinv : reg_inv d r. Proof. exact (df_inv d order g Han). Qed.

Lemma reg_dist c : mem_sym (SC c) (r_nodes r) = true ->
  (exists n, gdist_ty g (TSym c) = Ok n) /\ (is_abstract d (SC c) = false -> tys_dist_ok g (fields_of d (SC c)) = true).
Proof.
  intro H. apply mem_sym_In in H. unfold dist_ok in Hdist. rewrite forallb_forall in Hdist.
  specialize (Hdist _ H). cbn beta iota in Hdist. apply andb_prop in Hdist. destruct Hdist as [A B].
  split; [destruct (gdist_ty g (TSym c)) as [n|]; [eexists; reflexivity|discriminate]|].
  intro Ha. fold d in B. rewrite Ha in B. exact B.
Qed.

Lemma concrete_no_alts c : is_abstract d (SC c) = false -> get_alts (r_alts r) c = None.
Proof.
  intro Ha. destruct (get_alts (r_alts r) c) as [l|] eqn:E; [|reflexivity]. exfalso.
  pose proof (ri_nonempty _ _ Hinv _ _ E) as Hne. destruct l as [|x t]; [congruence|].
  destruct (ri_mem _ _ Hinv _ _ x E (or_introl eq_refl)) as [_ [_ Hab]]. congruence.
Qed.

Lemma lower deps t v n : Sat d r deps t v -> noempty v = true -> gdist_ty g t = Ok n -> n <= vdepth v.
Proof.
  intros Hs Hn Hg. apply (proj1 (Sat_WT d r)) in Hs. apply (proj1 (WT_ne_mut d r)) in Hs; [|exact Hn].
  exact (proj1 (df_lower d order g Hxd Hperm Han) t v Hs n Hg).
Qed.

Lemma run_choose key alts ctx x n :
  (forall y, In y alts -> is_ok (gdist_ty g y) = true) -> In x alts ->
  gdist_ty g x = Ok n -> n <= D - c_depth ctx ->
  exists i, RunG (choose g k key alts ctx) [DI (Z.of_nat i)] x.
Proof.
  intros Hall Hin Hg Hle.
  destruct (filter_res_total (fits g D ctx) alts) as [l Hl].
  { intros y Hy. specialize (Hall y Hy). unfold fits. destruct (gdist_ty g y); [|discriminate]. eexists; reflexivity. }
  pose proof (filter_res_keeps _ _ _ Hl x Hin (fits_true g D x ctx n Hg Hle)) as Hx.
  destruct (In_nth_error _ _ Hx) as [i Hi]. exists i.
  unfold choose, k. destruct alts as [|a t]; [destruct Hin|].
  rewrite Hl. eapply (run_bind_nil _ _ _ _ _ _ (run_lift _ l)). apply run_choice. exact Hi.
Qed.

(* eventually (for every large enough fuel) *)
Definition evf (Q : nat -> Prop) : Prop := exists F, forall fuel, (F <= fuel)%nat -> Q fuel.
Lemma evf_and Q1 Q2 : evf Q1 -> evf Q2 -> evf (fun f => Q1 f /\ Q2 f).
Proof. intros [F1 H1] [F2 H2]. exists (Nat.max F1 F2). intros f Hf. split; [apply H1|apply H2]; lia. Qed.
Lemma evf_S Q : evf Q -> evf (fun f => match f with O => False | S f' => Q f' end).
Proof. intros [F H]. exists (S F). intros [|f'] Hf; [lia|apply H; lia]. Qed.
Lemma evf_imp (Q1 Q2 : nat -> Prop) : (forall f, Q1 f -> Q2 f) -> evf Q1 -> evf Q2.
Proof. intros Hi [F H]. exists F. intros f Hf. apply Hi, H, Hf. Qed.
Lemma evf_const (Q : Prop) : Q -> evf (fun _ => Q).
Proof. intro H. exists 0%nat. intros; exact H. Qed.

Definition CN (fuel : nat) := create_node fuel g k.

Lemma vdepth_max_in vs v : In v vs -> vdepth v <= vdepth_max vs.
Proof. induction vs as [|a t IH]; intros []; cbn [vdepth_max]; [subst; lia|specialize (IH H); lia]. Qed.

Theorem grow_complete_mut :
  (forall deps t v, Sat d r deps t v -> fc_ty t = true -> ty_dist_ok g t = true -> noempty v = true ->
     forall ctx, 0 <= c_depth ctx -> c_depth ctx + vdepth v <= D ->
     exists tape, evf (fun f => RunG (CN f t ctx deps) tape v)) /\
  (forall deps ts vs, SatFields d r deps ts vs -> fc_all ts = true -> tys_dist_ok g ts = true -> noempty_all vs = true ->
     forall ctx, 0 <= c_depth ctx -> c_depth ctx + vdepth_max vs <= D ->
     exists tape, evf (fun f => RunG (create_fields (CN f) ts ctx deps) tape vs)) /\
  (forall deps t vs, SatAll d r deps t vs -> fc_ty t = true -> ty_dist_ok g t = true -> noempty_all vs = true ->
     forall ctx, 0 <= c_depth ctx -> c_depth ctx + vdepth_max vs <= D ->
     exists tapes, evf (fun f => Forall2 (fun tp v => RunG (CN f t ctx deps) tp v) tapes vs)) /\
  (forall ts vs, SatTuple d r ts vs -> fc_all ts = true -> tys_dist_ok g ts = true -> noempty_all vs = true ->
     forall ctx, 0 <= c_depth ctx -> c_depth ctx + vdepth_max vs <= D ->
     exists tape, evf (fun f => RunG (create_tuple (CN f) ts ctx) tape vs)) /\
  (forall deps ts v, SatAny d r deps ts v -> fc_all ts = true -> tys_dist_ok g ts = true -> noempty v = true ->
     forall ctx, 0 <= c_depth ctx -> c_depth ctx + vdepth v <= D ->
     exists t tape, In t ts /\ Sat d r deps t v /\ evf (fun f => RunG (CN f t ctx deps) tape v)).
Proof.
  apply Sat_mutind; try (intros; cbn [fc_ty] in *; discriminate).
  - (* bool *)
    intros deps b _ _ _ ctx _ _. exists [DI (Z.of_nat (if b then 0%nat else 1%nat))]. exists 1%nat. intros [|f] Hf; [lia|].
    unfold CN, k. cbn [create_node decider_random_bool]. eapply run_bind_r; [|apply run_ret].
    apply (run_choice _ [true; false] (if b then 0%nat else 1%nat)). destruct b; reflexivity.
  - (* node *)
    intros deps c c' args Hp Hf IHf _ _ Hne ctx H0 Hd. rewrite vdepth_node in Hd. rewrite noempty_node in Hne.
    pose proof (vdepth_max_nonneg args) as Hnn.
    assert (Hc' : is_abstract d (SC c') = false /\ mem_sym (SC c') (r_nodes r) = true).
    { clear - Hp. induction Hp; [split; assumption|assumption]. }
    destruct Hc' as [Hc'a Hc'm]. destruct (reg_dist c' Hc'm) as [_ Hfd]. specialize (Hfd Hc'a).
    assert (Hsat : forall c0, prod_of d r c0 c' -> Sat d r [] (TSym c0) (VNode c' args)) by (intros; constructor; assumption).
    assert (Hnev : noempty (VNode c' args) = true) by (rewrite noempty_node; exact Hne).
    revert deps ctx H0 Hd. induction Hp as [c0 Ha Hm|a l c0 c1 Ha Hg Hin Hp IHp]; intros deps ctx H0 Hd.
    + destruct (IHf (fc_fields d (SC c0) Hfc) Hfd Hne (mkCtx (c_depth ctx + 1) (c_exp ctx + 1)) ltac:(cbn; lia) ltac:(cbn; lia)) as [tape Hev].
      exists tape. eapply evf_imp; [|apply evf_S; exact Hev]. intros [|f] H; [destruct H|].
      unfold CN in *. cbn [create_node]. unfold is_registered. fold r. rewrite Hm. cbn [negb].
      intros rest st Hs Hal. rewrite Hal. fold d. rewrite (concrete_no_alts c0 Ha), Ha.
      exact (run_bind_r (r_alts r) _ (fun a => ret (VNode c0 a)) _ _ _ H (run_ret _ _) rest st Hs Hal).
    + destruct (ri_mem _ _ Hinv _ _ _ Hg Hin) as [Hreg0 _].
      destruct (reg_dist c0 Hreg0) as [[n Hn] _].
      assert (Hle : n <= D - c_depth ctx).
      { pose proof (lower [] _ _ n (Hsat c0 Hp) Hnev Hn) as L. rewrite vdepth_node in L. lia. }
      destruct (run_choose (TSym a) (map TSym l) ctx (TSym c0) n) as [i Hi]; [| |exact Hn|exact Hle|].
      { intros y Hy. apply in_map_iff in Hy. destruct Hy as [p [<- Hp']].
        destruct (ri_mem _ _ Hinv _ _ _ Hg Hp') as [Hr _]. destruct (reg_dist p Hr) as [[n' ->] _]. reflexivity. }
      { apply in_map. exact Hin. }
      destruct (IHp Hf IHf Hc'a Hc'm Hfd (fun c2 Hc2 => Hsat c2 Hc2) Hnev [] (mkCtx (c_depth ctx) (c_exp ctx + 1)) H0 Hd) as [tape Hev].
      exists ([DI (Z.of_nat i)] ++ tape). eapply evf_imp; [|apply evf_S; exact Hev]. intros [|f] H; [destruct H|].
      unfold CN in *. cbn [create_node]. unfold is_registered. fold r. rewrite (ri_key_reg _ _ Hinv _ _ Hg). cbn [negb].
      intros rest st Hs Hal. rewrite Hal, Hg.
      pose proof (ri_nonempty _ _ Hinv _ _ Hg) as Hne'. destruct l as [|x t] eqn:El; [congruence|]. rewrite <- El in *.
      cbn [try_productions]. rewrite El. rewrite <- El.
      refine (run_bind _ _ _ _ _ _ _ Hi _ rest st Hs Hal).
      intros rest' st' Hs' Hal'. cbn beta iota. rewrite (H rest' st' Hs' Hal'). reflexivity.
  - (* tuple *)
    intros deps ts vs Ht IHt Hfc' Hdo Hne ctx H0 Hd. cbn [fc_ty] in Hfc'. rewrite fc_allb in Hfc'.
    cbn [ty_dist_ok] in Hdo. rewrite tys_dist_okb in Hdo. apply andb_prop in Hdo. destruct Hdo as [_ Hdo].
    rewrite noempty_tuple in Hne. rewrite vdepth_tuple in Hd.
    destruct (IHt Hfc' Hdo Hne ctx H0 Hd) as [tape Hev]. exists tape.
    eapply evf_imp; [|apply evf_S; exact Hev]. intros [|f] H; [destruct H|].
    unfold CN in *. cbn [create_node]. exact (run_bind_r (r_alts r) _ (fun a => ret (VTuple a)) _ _ _ H (run_ret _ _)).
  - (* union *)
    intros deps ts v Ha IHa Hfc' Hdo Hne ctx H0 Hd. cbn [fc_ty] in Hfc'. rewrite fc_allb in Hfc'.
    cbn [ty_dist_ok] in Hdo. rewrite tys_dist_okb in Hdo. apply andb_prop in Hdo. destruct Hdo as [_ Hdo].
    destruct (IHa Hfc' Hdo Hne ctx H0 Hd) as [t' [tape [Hin [Hs' Hev]]]].
    assert (Hall : forall y, In y ts -> ty_dist_ok g y = true).
    { clear - Hdo. induction ts as [|a t IH]; intros y []; cbn [tys_dist_ok] in Hdo; apply andb_prop in Hdo; destruct Hdo; [subst; assumption|auto]. }
    assert (Hok : forall y, In y ts -> is_ok (gdist_ty g y) = true).
    { intros y Hy. specialize (Hall y Hy). destruct y; cbn [ty_dist_ok] in Hall; apply andb_prop in Hall; destruct Hall; assumption. }
    destruct (gdist_ty g t') as [n|] eqn:Hn; [|specialize (Hok t' Hin); rewrite Hn in Hok; discriminate].
    pose proof (lower _ _ _ n Hs' Hne Hn) as L.
    destruct (run_choose (TUnion ts) ts ctx t' n Hok Hin Hn ltac:(lia)) as [i Hi].
    exists ([DI (Z.of_nat i)] ++ tape). eapply evf_imp; [|apply evf_S; exact Hev]. intros [|f] H; [destruct H|].
    unfold CN in *. cbn [create_node]. exact (run_bind (r_alts r) _ (fun t0 => create_node f g k t0 ctx deps) _ _ _ _ Hi H).
  - (* int range *)
    intros deps base lo hi z _ _ Hr Hfc' _ _ ctx _ _. cbn [fc_ty] in Hfc'. apply andb_prop in Hfc'. destruct Hfc' as [Hb Hle].
    exists [DI z]. exists 1%nat. intros [|f] Hf; [lia|]. unfold CN. cbn [create_node mh_generate_flat].
    exact (run_bind_r (r_alts r) _ (fun v => ret (VInt v)) _ _ _ (run_randint _ lo hi z (Hr ltac:(lia))) (run_ret _ _)).
  - (* int list *)
    intros deps base xs z _ _ Hin Hfc' _ _ ctx _ _. destruct (In_nth_error _ _ Hin) as [i Hi].
    exists [DI (Z.of_nat i)]. exists 1%nat. intros [|f] Hf; [lia|]. unfold CN. cbn [create_node mh_generate_flat].
    exact (run_bind_r (r_alts r) _ (fun v => ret (VInt v)) _ _ _ (run_choice _ xs i z Hi) (run_ret _ _)).
  - (* names *)
    intros deps base opts v _ _ Hin Hfc' _ _ ctx _ _. destruct (In_nth_error _ _ Hin) as [i Hi].
    exists [DI (Z.of_nat i)]. exists 1%nat. intros [|f] Hf; [lia|]. unfold CN. cbn [create_node mh_generate_flat].
    exact (run_choice _ opts i v Hi).
  - (* sized list *)
    intros deps inner lo hi ops vs Ha IHa Hsz Hfc' Hdo Hne ctx H0 Hd. cbn [fc_ty] in Hfc'.
    apply andb_prop in Hfc'. destruct Hfc' as [Hfc' Hle]. apply andb_prop in Hfc'. destruct Hfc' as [Hfi Hlo].
    cbn [ty_dist_ok] in Hdo. apply andb_prop in Hdo. destruct Hdo as [_ Hdo]. cbn [ty_dist_ok] in Hdo. apply andb_prop in Hdo. destruct Hdo as [_ Hdo].
    rewrite noempty_list in Hne. apply andb_prop in Hne. destruct Hne as [_ Hne]. rewrite vdepth_list in Hd.
    destruct (IHa Hfi Hdo Hne (mkCtx (c_depth ctx) (c_exp ctx + 1)) H0 Hd) as [tapes Hev].
    exists ([DI (zlen vs)] ++ concat tapes). eapply evf_imp; [|apply evf_S; exact Hev]. intros [|f] H; [destruct H|].
    unfold CN in *. cbn [create_node mh_generate_flat].
    assert (Hn : lo <= zlen vs <= hi) by (apply Hsz; lia).
    refine (run_bind (r_alts r) _ _ _ _ _ _ (run_randint _ lo hi (zlen vs) Hn) _).
    unfold zlen. rewrite Nat2Z.id.
    exact (run_bind_r (r_alts r) _ (fun a => ret (VList a)) _ _ _ (run_repeat _ _ _ _ H) (run_ret _ _)).
  - (* fields: nil *)
    intros deps _ _ _ ctx _ _. exists []. exists 0%nat. intros f _. cbn [create_fields]. apply run_ret.
  - (* fields: cons *)
    intros deps t ts v vs Hs IHs Hf IHf Hfc' Hdo Hne ctx H0 Hd.
    cbn [fc_all] in Hfc'. apply andb_prop in Hfc'. destruct Hfc' as [Ht Hts].
    cbn [tys_dist_ok] in Hdo. apply andb_prop in Hdo. destruct Hdo as [Hdt Hdts].
    cbn [noempty_all] in Hne. apply andb_prop in Hne. destruct Hne as [Hnv Hnvs].
    cbn [vdepth_max] in Hd. pose proof (vdepth_nonneg v). pose proof (vdepth_max_nonneg vs).
    destruct (IHs Ht Hdt Hnv ctx H0 ltac:(lia)) as [t1 E1]. destruct (IHf Hts Hdts Hnvs ctx H0 ltac:(lia)) as [t2 E2].
    exists (t1 ++ t2). eapply evf_imp; [|apply evf_and; [exact E1|exact E2]]. intros f [R1 R2]. cbn [create_fields].
    refine (run_bind (r_alts r) _ _ _ _ _ _ R1 _).
    exact (run_bind_r (r_alts r) _ (fun a => ret (v :: a)) _ _ _ R2 (run_ret _ _)).
  - (* all: nil *) intros deps t _ _ _ ctx _ _. exists []. exists 0%nat. intros f _. constructor.
  - (* all: cons *)
    intros deps t v vs Hs IHs Ha IHa Hfc' Hdo Hne ctx H0 Hd.
    cbn [noempty_all] in Hne. apply andb_prop in Hne. destruct Hne as [Hnv Hnvs].
    cbn [vdepth_max] in Hd. pose proof (vdepth_nonneg v). pose proof (vdepth_max_nonneg vs).
    destruct (IHs Hfc' Hdo Hnv ctx H0 ltac:(lia)) as [t1 E1]. destruct (IHa Hfc' Hdo Hnvs ctx H0 ltac:(lia)) as [t2 E2].
    exists (t1 :: t2). eapply evf_imp; [|apply evf_and; [exact E1|exact E2]]. intros f [R1 R2]. constructor; assumption.
  - (* tuple: nil *) intros _ _ _ ctx _ _. exists []. exists 0%nat. intros f _. cbn [create_tuple]. apply run_ret.
  - (* tuple: cons *)
    intros t ts v vs Hs IHs Ht IHt Hfc' Hdo Hne ctx H0 Hd.
    cbn [fc_all] in Hfc'. apply andb_prop in Hfc'. destruct Hfc' as [Hft Hts].
    cbn [tys_dist_ok] in Hdo. apply andb_prop in Hdo. destruct Hdo as [Hdt Hdts].
    cbn [noempty_all] in Hne. apply andb_prop in Hne. destruct Hne as [Hnv Hnvs].
    cbn [vdepth_max] in Hd. pose proof (vdepth_nonneg v). pose proof (vdepth_max_nonneg vs).
    destruct (IHs Hft Hdt Hnv ctx H0 ltac:(lia)) as [t1 E1]. destruct (IHt Hts Hdts Hnvs ctx H0 ltac:(lia)) as [t2 E2].
    exists (t1 ++ t2). eapply evf_imp; [|apply evf_and; [exact E1|exact E2]]. intros f [R1 R2]. cbn [create_tuple].
    refine (run_bind (r_alts r) _ _ _ _ _ _ R1 _).
    exact (run_bind_r (r_alts r) _ (fun a => ret (v :: a)) _ _ _ R2 (run_ret _ _)).
  - (* any: here *)
    intros deps t ts v Hs IHs Hfc' Hdo Hne ctx H0 Hd.
    cbn [fc_all] in Hfc'. apply andb_prop in Hfc'. destruct Hfc' as [Hft _].
    cbn [tys_dist_ok] in Hdo. apply andb_prop in Hdo. destruct Hdo as [Hdt _].
    destruct (IHs Hft Hdt Hne ctx H0 Hd) as [tape E1]. exists t, tape. split; [left; reflexivity|]. split; assumption.
  - (* any: there *)
    intros deps t ts v Ha IHa Hfc' Hdo Hne ctx H0 Hd.
    cbn [fc_all] in Hfc'. apply andb_prop in Hfc'. destruct Hfc' as [_ Hts].
    cbn [tys_dist_ok] in Hdo. apply andb_prop in Hdo. destruct Hdo as [_ Hdts].
    destruct (IHa Hts Hdts Hne ctx H0 Hd) as [t' [tape [Hin [Hs' E1]]]]. exists t', tape. split; [right; exact Hin|]. split; assumption.
Qed.

Lemma prod_of_registered c c' : prod_of d r c c' -> mem_sym (SC c) (r_nodes r) = true.
Proof. intros [c0 _ Hm|a l c0 c1 _ Hg _ _]; [exact Hm|exact (ri_key_reg _ _ Hinv _ _ Hg)]. Qed.

(* every program of the start symbol that satisfies all refinements, is no deeper than D and contains no empty list
   is the result of creation under SOME sequence of random decisions, for every large enough fuel; the run consumes
   exactly that sequence and leaves the rest of the state alone *)
Theorem grow_complete v :
  Sat d r [] (TSym (d_start d)) v -> vdepth v <= D -> noempty v = true ->
  exists tape F, forall fuel, (F <= fuel)%nat -> forall st, st_src st = Native tape -> st_alts st = r_alts r ->
    create_node fuel g (DMax D) (TSym (d_start d)) ctx0 [] st = (Ok v, with_src st (Native [])).
Proof.
  intros Hs Hd Hne.
  assert (Hreg : mem_sym (SC (d_start d)) (r_nodes r) = true) by (inversion Hs; subst; eapply prod_of_registered; eauto).
  destruct (reg_dist _ Hreg) as [[n Hn] _].
  assert (Hdo : ty_dist_ok g (TSym (d_start d)) = true) by (cbn [ty_dist_ok]; rewrite Hn; reflexivity).
  destruct (proj1 grow_complete_mut [] _ v Hs eq_refl Hdo Hne ctx0 ltac:(cbn; lia) ltac:(cbn; lia)) as [tape [F HF]].
  exists tape, F. intros fuel Hf st Hsrc Hal. apply (HF fuel Hf [] st); [rewrite app_nil_r; exact Hsrc|exact Hal].
Qed.
End Complete.

Lemma fc_decl_store d r w : fc_decl d = true -> fc_decl (store_weights d r w) = true.
Proof.
  unfold fc_decl, store_weights; simpl. rewrite !forallb_forall. intros H k Hk.
  apply in_map_iff in Hk. destruct Hk as [[c k0] [E Hin]].
  apply in_combine_r in Hin. specialize (H k0 Hin).
  destruct (mem_sym (SC c) (r_nodes r)); subst k; simpl; exact H.
Qed.

Lemma extract_fc_decl d order g : extract d order = Ok g -> fc_decl d = true -> fc_decl (g_decl g) = true.
Proof.
  intros H Hok. destruct (WeightProofs.extract_cases _ _ _ H) as [g0 [E0 [[_ ->] | [_ [w [_ [_ Ea]]]]]]].
  - destruct (WeightProofs.analyse_inv _ _ _ E0) as [_ Hd]. rewrite Hd. exact Hok.
  - destruct (WeightProofs.analyse_inv _ _ _ Ea) as [_ Hd]. rewrite Hd. apply fc_decl_store. exact Hok.
Qed.

(* "no valid program is unreachable" for grow creation from an extracted grammar *)
Theorem grow_reaches_language d order g D :
  extract d order = Ok g -> perm_order order -> d_xdepth d = false -> fc_decl d = true -> dist_ok g = true ->
  forall v, InLang g D v -> noempty v = true ->
  exists tape F, forall fuel, (F <= fuel)%nat ->
    exists st', create_node fuel g (DMax D) (TSym (d_start (g_decl g))) ctx0 [] (st_init g (Native tape)) = (Ok v, st') /\
                st_src st' = Native [].
Proof.
  intros H Hperm Hxd Hfc Hdo v [Hs Hd] Hne.
  destruct (extract_analyse _ _ _ H) as [Han Hx].
  destruct (grow_complete order g ltac:(congruence) Hperm Han (extract_fc_decl _ _ _ H Hfc) Hdo D v Hs Hd Hne) as [tape [F HF]].
  exists tape, F. intros fuel Hf. eexists. split; [apply (HF fuel Hf (st_init g (Native tape))); reflexivity|reflexivity].
Qed.
