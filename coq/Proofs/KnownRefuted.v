(* KnownRefuted.v — known findings F15, F05 and F35 as (small) theorems about the model: concrete witnesses evaluated by the kernel. *)
From GE Require Import Base Tape Grammar WellTyped Synth Linear.
Open Scope Z_scope.

(* F15: dynamic SGE with a refined field: the SAME genotype maps to different programs depending on the source the mapping is
   handed (the refinement's value is drawn from it), and the mapping consumes that source *)
Definition ex15 : decl :=
  mkDecl [ mkCls None true [] None;
           mkCls (Some 0%nat) false [TAnn (TBase BInt) (MIntRange 0 9)] None ]
         [0; 1]%nat 0%nat false.
Definition g15 : grammar := match extract ex15 id_order with Ok g => g | Err _ => mkG ex15 r0 [] [] end.

Theorem dsge_refined_mapping_depends_on_the_source :
  exists dna,
    fst (dsge_map 60 g15 3 (Native [DI 3]) dna) = Ok (VNode 1%nat [VInt 3]) /\
    fst (dsge_map 60 g15 3 (Native [DI 7]) dna) = Ok (VNode 1%nat [VInt 7]) /\
    st_src (snd (dsge_map 60 g15 3 (Native [DI 7; DI 5]) dna)) = Native [DI 5].
Proof. exists [(TSym 0%nat, [0])]. repeat split; vm_compute; reflexivity. Qed.

(* F05: Dependent.validate raises NotImplementedError for every value *)
Theorem dependent_validate_refuted : forall names fn v, mh_validate (MDependent names fn) v = Err NotImplementedError.
Proof. intros names fn v. destruct v; reflexivity. Qed.

(* F35: usable_grammar() keeps the abstract parent of a reachable production although that parent is not reachable from the
   start symbol: S -> P1(x: C1) with C1 a subclass of the abstract B, start symbol S *)
Definition ex35 : decl :=
  mkDecl [ mkCls None true [] None;                              (* 0: S abstract, start *)
           mkCls (Some 0%nat) false [TSym 3%nat] None;           (* 1: P1(S) with a field of the concrete class C1 *)
           mkCls None true [] None;                              (* 2: B abstract, never mentioned *)
           mkCls (Some 2%nat) false [] None ]                    (* 3: C1(B) *)
         [0; 1; 2; 3]%nat 0%nat false.

Theorem usable_keeps_an_unreachable_ancestor :
  exists g u, extract ex35 id_order = Ok g /\ usable g id_order = Ok u /\
    mem_sym (SC 2%nat) (r_nodes (g_reg u)) = true /\
    (forall cs, usable_bfs 40 (g_decl g) g [SC 0%nat] [SC 0%nat] = Ok cs -> mem_sym (SC 2%nat) cs = false).
Proof.
  destruct (extract ex35 id_order) as [g|] eqn:E; [|vm_compute in E; discriminate].
  destruct (usable g id_order) as [u|] eqn:U; [|vm_compute in E; inversion E; subst; vm_compute in U; discriminate].
  exists g, u. split; [reflexivity|]. split; [exact U|].
  vm_compute in E. inversion E; subst g. vm_compute in U. inversion U; subst u.
  split; [vm_compute; reflexivity|]. intros cs H. vm_compute in H. inversion H; subst. reflexivity.
Qed.
