(* LabelProofs.v — C11: in the default depth mode the metadata relabel_nodes computes equals the
   independent traversal of Spec/LabelSpec.v, at every node and list of every program whose nodes
   have arguments exactly when their class is a registered non-terminal. *)
From GE Require Import Base Grammar Labels LabelSpec.
Open Scope Z_scope.

Section ValueInd.
Variable P : value -> Prop.
Hypothesis Hint : forall z, P (VInt z).
Hypothesis Hfloat : forall f, P (VFloat f).
Hypothesis Hstr : forall s, P (VStr s).
Hypothesis Hbool : forall b, P (VBool b).
Hypothesis Hnode : forall c args, Forall P args -> P (VNode c args).
Hypothesis Hlist : forall vs, Forall P vs -> P (VList vs).
Hypothesis Htuple : forall vs, Forall P vs -> P (VTuple vs).
Hypothesis Hforeign : P VForeign.
Fixpoint value_ind' (v : value) : P v :=
  let go := (fix go (l : list value) : Forall P l :=
               match l with [] => Forall_nil P | x :: r => Forall_cons x (value_ind' x) (go r) end) in
  match v with
  | VInt z => Hint z | VFloat f => Hfloat f | VStr s => Hstr s | VBool b => Hbool b
  | VNode c args => Hnode c args (go args)
  | VList vs => Hlist vs (go vs)
  | VTuple vs => Htuple vs (go vs)
  | VForeign => Hforeign
  end.
End ValueInd.

Section Lab.
Variables (d : decl) (r : rstate).
Hypothesis Hxd : d_xdepth d = false.

(* every node of the value (outside tuples): it has arguments iff its class is a registered non-terminal *)
Fixpoint shape_ok (v : value) : Prop :=
  let fix all (l : list value) : Prop := match l with [] => True | x :: t => shape_ok x /\ all t end in
  match v with
  | VNode c args => (mem_sym (SC c) (r_nonterm r) = true <-> args <> []) /\ all args
  | VList vs => all vs
  | VTuple vs => Forall (fun x => match x with VInt _ | VFloat _ | VStr _ | VBool _ => True | _ => False end) vs
                 (* no node inside a tuple: relabel_nodes does not look into tuples (known finding F40) *)
  | VForeign => False
  | _ => True
  end.

Fixpoint shape_all (l : list value) : Prop := match l with [] => True | x :: t => shape_ok x /\ shape_all t end.

Lemma shape_all_eq l : (fix all (l : list value) : Prop := match l with [] => True | x :: t => shape_ok x /\ all t end) l = shape_all l.
Proof. induction l as [|a t IH]; simpl; [reflexivity | rewrite IH; reflexivity]. Qed.

Lemma xd0 : xd d = 0. Proof. unfold xd. rewrite Hxd. reflexivity. Qed.

Definition kids_of (ts : list (option ty)) (vs : list value) (acc : lab) : res lab :=
  (fix kids (ts : list (option ty)) (vs : list value) (acc : lab) : res lab :=
    match vs with
    | [] => Ok acc
    | c :: vs' =>
        let t := match ts with t :: _ => t | [] => None end in
        let ts' := match ts with _ :: r => r | [] => [] end in
        let* lc := relabel d r c in
        let* adj := (if is_list_value c then Ok (if d_xdepth d then 1 else 0)
                     else if d_xdepth d then
                       match t with
                       | Some t' => match declared_abstract d t' with
                                    | Some a => match c with
                                                | VNode cc _ => match abs_dist d a cc with Some n => Ok n | None => Err KeyError end
                                                | _ => Err KeyError end
                                    | None => Ok 0 end
                       | None => Ok 0 end
                     else Ok 0) in
        let list_adjust := if is_list_value c then 0 else 1 in
        kids ts' vs' (mkLab (l_nodes acc + adj + l_nodes lc)
                            (Z.max (l_dist acc) (l_dist lc + adj + list_adjust))
                            (l_weighted acc + l_weighted lc))
    end) ts vs acc.

Lemma relabel_node c args :
  relabel d r (VNode c args) =
  if negb (mem_sym (SC c) (r_nonterm r)) then Ok (mkLab (xd d) (xd d) (xd d))
  else let* a := kids_of (map Some (fields_of d (SC c))) args (mkLab 1 1 0) in
       Ok (mkLab (l_nodes a) (l_dist a) (l_weighted a + l_dist a)).
Proof. reflexivity. Qed.

Lemma relabel_list vs : relabel d r (VList vs) = kids_of [] vs (mkLab 0 0 0).
Proof. reflexivity. Qed.

Lemma kids_cons ts c vs acc :
  kids_of ts (c :: vs) acc =
  let* lc := relabel d r c in
  let adj := 0 in
  let list_adjust := if is_list_value c then 0 else 1 in
  kids_of (match ts with _ :: r => r | [] => [] end) vs
          (mkLab (l_nodes acc + adj + l_nodes lc) (Z.max (l_dist acc) (l_dist lc + adj + list_adjust)) (l_weighted acc + l_weighted lc)).
Proof.
  unfold kids_of. cbn -[relabel Z.add Z.max].
  destruct (relabel d r c) as [lc|]; cbn -[relabel Z.add Z.max]; [|reflexivity].
  rewrite Hxd. destruct (is_list_value c); cbn -[relabel Z.add Z.max]; reflexivity.
Qed.

Definition spec_of (v : value) : lab := mkLab (ssize v) (sheight v) (sweight v).

Lemma ssize_sum l : (fix sum (l : list value) : Z := match l with [] => 0 | x :: t => ssize x + sum t end) l = sum_size l.
Proof. induction l as [|a t IH]; [reflexivity|]. cbn [sum_size]. rewrite <- IH. reflexivity. Qed.
Lemma hpair_max l : (fix maxc (l : list value) : Z := match l with [] => 0 | x :: t => Z.max (snd (hpair x)) (maxc t) end) l = max_contrib l.
Proof. induction l as [|a t IH]; [reflexivity|]. cbn [max_contrib]. rewrite <- IH. reflexivity. Qed.
Lemma sweight_sum l : (fix sum (l : list value) : Z := match l with [] => 0 | x :: t => sweight x + sum t end) l = sum_weight l.
Proof. induction l as [|a t IH]; [reflexivity|]. cbn [sum_weight]. rewrite <- IH. reflexivity. Qed.

Lemma max_contrib_nonneg l : 0 <= max_contrib l.
Proof. induction l as [|x t IH]; cbn [max_contrib]; lia. Qed.

Definition is_base_value (x : value) : Prop := match x with VInt _ | VFloat _ | VStr _ | VBool _ => True | _ => False end.

Lemma base_tuple_measures vs : Forall is_base_value vs ->
  sum_size vs = 0 /\ sum_weight vs = 0 /\ 0 <= max_contrib vs <= 1.
Proof.
  induction 1 as [|x t Hx _ IH]; cbn [sum_size sum_weight max_contrib]; [lia|].
  destruct IH as [A [B C]]. destruct x; try destruct Hx; cbn; lia.
Qed.

Lemma snd_hpair_nonlist v : is_list_value v = false -> shape_ok v -> snd (hpair v) = sheight v + 1.
Proof.
  unfold sheight. destruct v as [z|f|s|b|c args|vs|vs|]; try reflexivity; [|discriminate|].
  - destruct args; reflexivity.
  - intros _ Hs. cbn [shape_ok] in Hs. cbn [hpair fst snd]. rewrite hpair_max.
    destruct (base_tuple_measures vs Hs) as [_ [_ C]]. lia.
Qed.
Lemma snd_hpair_list vs : snd (hpair (VList vs)) = sheight (VList vs).
Proof. reflexivity. Qed.

Lemma kids_spec : forall vs, Forall (fun v => shape_ok v -> relabel d r v = Ok (spec_of v)) vs -> shape_all vs ->
  forall ts acc, 0 <= l_dist acc -> kids_of ts vs acc =
    Ok (mkLab (l_nodes acc + sum_size vs) (Z.max (l_dist acc) (max_contrib vs)) (l_weighted acc + sum_weight vs)).
Proof.
  induction 1 as [|c vs Hc _ IH]; intros Hall ts acc Hacc.
  - cbn. f_equal. destruct acc; cbn in *. f_equal; lia.
  - destruct Hall as [Hsc Hall]. rewrite kids_cons, (Hc Hsc). cbn [bind].
    rewrite (IH Hall); [|cbn [l_dist]; lia]. cbn [l_nodes l_dist l_weighted spec_of sum_size max_contrib sum_weight]. f_equal.
    destruct (is_list_value c) eqn:El.
    + destruct c; try discriminate. rewrite snd_hpair_list. f_equal; lia.
    + rewrite (snd_hpair_nonlist c El Hsc). f_equal; lia.
Qed.

Lemma ssize_node c a t : ssize (VNode c (a :: t)) = 1 + sum_size (a :: t).
Proof. cbn [ssize sum_size]. rewrite ssize_sum. reflexivity. Qed.
Lemma ssize_list vs : ssize (VList vs) = sum_size vs.
Proof. cbn [ssize]. apply ssize_sum. Qed.
Lemma hpair_node c a t : hpair (VNode c (a :: t)) = (Z.max 1 (max_contrib (a :: t)), Z.max 1 (max_contrib (a :: t)) + 1).
Proof. cbn [hpair max_contrib]. rewrite hpair_max. reflexivity. Qed.
Lemma hpair_list vs : hpair (VList vs) = (max_contrib vs, max_contrib vs).
Proof. cbn [hpair]. rewrite hpair_max. reflexivity. Qed.
Lemma sweight_node c a t : sweight (VNode c (a :: t)) = sheight (VNode c (a :: t)) + sum_weight (a :: t).
Proof. cbn [sweight sum_weight]. rewrite sweight_sum. reflexivity. Qed.
Lemma sweight_list vs : sweight (VList vs) = sum_weight vs.
Proof. cbn [sweight]. apply sweight_sum. Qed.

Theorem relabel_spec : forall v, shape_ok v -> relabel d r v = Ok (spec_of v).
Proof.
  induction v as [z|f|s|b|c args IH|vs IH|vs IH|] using value_ind'; intro Hs; try (cbn; rewrite xd0; reflexivity).
  - (* node *)
    rewrite relabel_node. cbn [shape_ok] in Hs. rewrite shape_all_eq in Hs. destruct Hs as [Hnt Hall].
    destruct (mem_sym (SC c) (r_nonterm r)) eqn:En; cbn [negb].
    + assert (Hne : args <> []) by (apply Hnt; reflexivity).
      rewrite (kids_spec args IH Hall); [|cbn; lia]. cbn [bind l_nodes l_dist l_weighted].
      destruct args as [|a t]; [congruence|]. unfold spec_of.
      rewrite ssize_node, sweight_node. unfold sheight. rewrite hpair_node. cbn [fst].
      f_equal. f_equal; lia.
    + assert (args = []) by (destruct args; [reflexivity|]; exfalso; assert (X : false = true) by (apply Hnt; discriminate); discriminate).
      subst. rewrite xd0. reflexivity.
  - (* list *)
    rewrite relabel_list. cbn [shape_ok] in Hs. rewrite shape_all_eq in Hs.
    rewrite (kids_spec vs IH Hs); [|cbn; lia]. cbn [l_nodes l_dist l_weighted]. unfold spec_of.
    rewrite ssize_list, sweight_list. unfold sheight. rewrite hpair_list. cbn [fst].
    pose proof (max_contrib_nonneg vs). f_equal. f_equal; lia.
  - (* tuple of base values *)
    cbn [shape_ok] in Hs. destruct (base_tuple_measures vs Hs) as [A [B C]].
    cbn [relabel]. rewrite xd0. unfold spec_of, sheight. cbn [ssize hpair sweight fst].
    rewrite ssize_sum, sweight_sum, A, B. reflexivity.
  - destruct Hs.
Qed.

(* known finding F40: a node inside a tuple field is not seen by its ancestors *)
Lemma relabel_tuple_refuted :
  d_xdepth d = false -> mem_sym (SC 1%nat) (r_nonterm r) = true -> mem_sym (SC 2%nat) (r_nonterm r) = true ->
  let inner := VNode 2%nat [VInt 0] in
  let v := VNode 1%nat [VTuple [inner; VInt 3]] in
  relabel d r v = Ok (mkLab 1 1 1) /\ spec_of v = mkLab 2 2 3.
Proof.
  intros _ H1 H2. cbn [relabel]. rewrite H1. cbn. rewrite Hxd. cbn. unfold xd. rewrite Hxd. split; reflexivity.
Qed.

(* the index of node types: one entry per sub-node of each class (looking through lists) — by definition
   of count_class; the labels of every node in pre-order *)
Theorem all_labels_spec : forall v, shape_ok v ->
  Forall2 (fun l u => l = Ok (spec_of u)) (all_labels d r v)
          ((fix subs (v : value) : list value :=
              let fix go (l : list value) : list value := match l with [] => [] | x :: t => subs x ++ go t end in
              match v with VNode _ args => v :: go args | VList vs => v :: go vs | _ => [] end) v).
Proof.
  induction v as [z|f|s|b|c args IH|vs IH|vs IH|] using value_ind'; intro Hs; try constructor.
  - apply relabel_spec; exact Hs.
  - cbn [shape_ok] in Hs. rewrite shape_all_eq in Hs. destruct Hs as [_ Hall].
    induction IH as [|a t Ha _ IHt]; [constructor|]. destruct Hall as [H1 H2].
    apply Forall2_app; [apply Ha; exact H1 | apply IHt; exact H2].
  - apply relabel_spec; exact Hs.
  - cbn [shape_ok] in Hs. rewrite shape_all_eq in Hs.
    induction IH as [|a t Ha _ IHt]; [constructor|]. destruct Hs as [H1 H2].
    apply Forall2_app; [apply Ha; exact H1 | apply IHt; exact H2].
Qed.
End Lab.
