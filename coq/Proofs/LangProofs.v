(* LangProofs.v — C04: the bounded language.  Soundness of creation w.r.t. the language as a specification
   (Sat and depth), for every decision sequence. *)
From GE Require Import Base Tape Grammar WellTyped Synth Sat Lang DistProofs SynthFrame SynthSat SynthDepth.
Open Scope Z_scope.

(* the bounded language as a predicate: programs of the start symbol that satisfy every refinement and are no deeper than D *)
Definition InLang (g : grammar) (D : Z) (v : value) : Prop :=
  Sat (g_decl g) (g_reg g) [] (TSym (d_start (g_decl g))) v /\ vdepth v <= D.

(* no invalid program is reachable: whatever the decision sequence (source state), the depth-limited decider
   (grow, full, PI-grow, dSGE) and the fuel, a program that creation returns is in the bounded language *)
Theorem creation_in_language d order g k D :
  extract d order = Ok g -> perm_order order -> d_xdepth d = false ->
  decl_ok d = true -> decl_live d = true ->
  depth_limit k = Some D -> D < INF -> decider_validate g k = Ok tt ->
  forall fuel st v st', st_alts st = r_alts (g_reg g) ->
  create_node fuel g k (TSym (d_start (g_decl g))) ctx0 [] st = (Ok v, st') ->
  InLang g D v.
Proof.
  intros H Hperm Hxd Hok Hlive Hk HD Hval fuel st v st' Ha Hc. split.
  - eapply (create_sat_extracted d order g H Hok fuel k _ ctx0 st v st'); eauto.
  - pose proof (create_depth_extracted d order g k D H Hperm Hxd Hok Hlive Hk HD Hval fuel st Ha) as Hd.
    rewrite Hc in Hd. exact Hd.
Qed.

(* ---------- the enumeration Spec/Lang.v only lists members of the bounded language ---------- *)
Lemma zrange_list_spec n : forall lo z, In z (zrange_list lo n) <-> lo <= z < lo + Z.of_nat n.
Proof.
  induction n as [|n IH]; intros lo z; cbn [zrange_list].
  - split; [intros []|lia].
  - cbn [In]. rewrite IH. lia.
Qed.

Lemma zrange_spec lo hi z : In z (zrange lo hi) <-> lo <= z <= hi.
Proof. unfold zrange. rewrite zrange_list_spec. lia. Qed.

Lemma lists_of_spec alts n : forall vs, In vs (lists_of alts n) -> length vs = n /\ Forall (fun v => In v alts) vs.
Proof.
  induction n as [|n IH]; intros vs H; cbn [lists_of] in H.
  - destruct H as [<-|[]]. split; [reflexivity|constructor].
  - apply in_flat_map in H. destruct H as [x [Hx H]]. apply in_map_iff in H. destruct H as [l [<- Hl]].
    destruct (IH _ Hl) as [Hn Hf]. split; [cbn [length]; congruence|constructor; assumption].
Qed.

Lemma product_spec ls : forall vs, In vs (product ls) -> Forall2 (fun l v => In v l) ls vs.
Proof.
  induction ls as [|l ls IH]; intros vs H; cbn [product] in H.
  - destruct H as [<-|[]]. constructor.
  - apply in_flat_map in H. destruct H as [x [Hx H]]. apply in_map_iff in H. destruct H as [t [<- Ht]].
    constructor; [assumption|apply IH; assumption].
Qed.

Lemma dedupe_v_incl l : forall v, In v (dedupe_v l) -> In v l.
Proof.
  unfold dedupe_v.
  assert (G : forall l acc v, In v (fold_left (fun a x => if existsb (value_eqb x) a then a else a ++ [x]) l acc) -> In v acc \/ In v l).
  { clear l. induction l as [|x l IH]; intros acc v H; cbn [fold_left] in H; [left; assumption|].
    apply IH in H. destruct H as [H|H]; [|right; right; assumption].
    destruct (existsb (value_eqb x) acc); [left; assumption|].
    apply in_app_or in H. destruct H as [H|[<-|[]]]; [left; assumption|right; left; reflexivity]. }
  intros v H. apply G in H. destruct H as [[]|H]. exact H.
Qed.

Section EnumSound.
Variable d : decl.
Variable r : rstate.

Lemma SatAny_in deps ts t v : In t ts -> Sat d r deps t v -> SatAny d r deps ts v.
Proof.
  induction ts as [|a ts IH]; intros Hin Hs; [destruct Hin|].
  destruct Hin as [->|Hin]; [apply SatAny_here; assumption|apply SatAny_there; auto].
Qed.

Lemma enum_fields_sound (E : list value -> ty -> list value) (K : Z) :
  0 <= K ->
  (forall deps t v, In v (E deps t) -> Sat d r deps t v /\ vdepth v <= K) ->
  forall ts deps vs, In vs (enum_fields E deps ts) -> SatFields d r deps ts vs /\ vdepth_max vs <= K.
Proof.
  intros HK HE. induction ts as [|t ts IH]; intros deps vs H; cbn [enum_fields] in H.
  - destruct H as [<-|[]]. split; [constructor|cbn [vdepth_max]; lia].
  - apply in_flat_map in H. destruct H as [v [Hv H]]. apply in_map_iff in H. destruct H as [l [<- Hl]].
    destruct (HE _ _ _ Hv) as [Hs Hd]. destruct (IH _ _ Hl) as [Hf Hm].
    split; [constructor; assumption|cbn [vdepth_max]; lia].
Qed.

Lemma opt_kind_sat deps b v : opt_kind_ok b v = true -> Sat d r deps (TBase b) v /\ vdepth v = 0.
Proof.
  unfold opt_kind_ok. destruct v; cbn [vkind]; try discriminate; destruct b; cbn [base_eqb]; try discriminate; intros _; split; try constructor; reflexivity.
Qed.

Theorem enum_sound : forall fuel k deps t v,
  In v (enum d r fuel k deps t) -> Sat d r deps t v /\ vdepth v <= Z.of_nat k.
Proof.
  induction fuel as [|f IH]; intros k deps t v H; [destruct H|].
  destruct t as [b|c|t'|ts|ts|base m]; cbn [enum] in H.
  - destruct b; try (destruct H; fail). destruct H as [<-|[<-|[]]]; (split; [constructor|cbn; lia]).
  - destruct (is_abstract d (SC c)) eqn:Ea.
    + destruct (get_alts (r_alts r) c) as [prods|] eqn:Eg; [|destruct H].
      apply in_flat_map in H. destruct H as [p [Hp H]]. destruct (IH _ _ _ _ H) as [Hs Hd].
      split; [|exact Hd]. inversion Hs; subst. constructor; [|assumption].
      eapply po_step; eauto.
    + destruct (mem_sym (SC c) (r_nodes r)) eqn:Em; [|destruct H].
      destruct k as [|k']; [destruct H|].
      apply in_map_iff in H. destruct H as [args [<- Hargs]].
      destruct (enum_fields_sound (enum d r f k') (Z.of_nat k') ltac:(lia) (fun deps t v Hv => IH k' deps t v Hv) _ _ _ Hargs) as [Hf Hm].
      split; [constructor; [apply po_self; assumption|assumption]|rewrite vdepth_node; lia].
  - destruct H.
  - apply in_map_iff in H. destruct H as [vs [<- Hvs]]. apply product_spec in Hvs.
    assert (G : forall ts vs, Forall2 (fun l v => In v l) (map (enum d r f k []) ts) vs -> SatTuple d r ts vs /\ vdepth_max vs <= Z.of_nat k).
    { clear ts vs Hvs. induction ts as [|t ts IHt]; intros vs HF; inversion HF; subst.
      - split; [constructor|cbn [vdepth_max]; lia].
      - match goal with H1 : In _ (enum _ _ _ _ _ _), H2 : Forall2 _ _ _ |- _ => destruct (IH _ _ _ _ H1) as [Hs Hd]; destruct (IHt _ H2) as [Ht Hm] end.
        split; [constructor; assumption|cbn [vdepth_max]; lia]. }
    destruct (G _ _ Hvs) as [Hs Hm]. split; [constructor; assumption|rewrite vdepth_tuple; assumption].
  - apply in_flat_map in H. destruct H as [t' [Ht' H]]. destruct (IH _ _ _ _ H) as [Hs Hd].
    split; [constructor; eapply SatAny_in; eauto|assumption].
  - destruct m as [lo hi|xs|lo hi|xs|opts|lo hi ops|lo hi al|rows al|mn mx top|names fn]; try (destruct H; fail).
    + destruct base as [[| | |]| | | | |]; cbn [is_int_base] in H; try (destruct H; fail).
      apply in_map_iff in H. destruct H as [z [<- Hz]]. apply zrange_spec in Hz.
      split; [constructor; [constructor|intros _; exact Hz]|cbn; lia].
    + destruct base as [[| | |]| | | | |]; cbn [is_int_base] in H; try (destruct H; fail).
      apply in_map_iff in H. destruct H as [z [<- Hz]].
      split; [constructor; [constructor|assumption]|cbn; lia].
    + destruct base as [b| | | | |]; try (destruct H; fail).
      apply filter_In in H. destruct H as [Hin Hk]. destruct (opt_kind_sat deps b v Hk) as [Hs Hd].
      split; [constructor; assumption|lia].
    + destruct base as [|?|inner| | |]; try (destruct H; fail).
      apply in_map_iff in H. destruct H as [vs [<- Hvs]]. apply in_flat_map in Hvs. destruct Hvs as [n [Hn Hvs]].
      apply zrange_spec in Hn. apply lists_of_spec in Hvs. destruct Hvs as [Hlen Hall].
      assert (G : SatAll d r deps inner vs /\ vdepth_max vs <= Z.of_nat k).
      { clear Hlen. induction Hall as [|x l Hx Hl IHl]; [split; [constructor|cbn [vdepth_max]; lia]|].
        destruct (IH _ _ _ _ Hx) as [Hs Hd]. destruct IHl as [Ha Hm]. split; [constructor; assumption|cbn [vdepth_max]; lia]. }
      destruct G as [Ha Hm]. split; [|rewrite vdepth_list; assumption].
      constructor; [assumption|]. intros H0 Hle. unfold zlen. rewrite Hlen. lia.
    + destruct (lookup_deps deps names) as [vals|] eqn:El; [|destruct H].
      destruct (eval_dep fn vals) as [m'|] eqn:Ee; [|destruct H].
      destruct (IH _ _ _ _ H) as [Hs Hd]. split; [eapply Sat_dependent; eauto|assumption].
Qed.

(* every member of the enumerated language is a program of the start symbol that satisfies all refinements and is no deeper than k *)
Corollary lang_sound k v : In v (lang d r k) -> Sat d r [] (TSym (d_start d)) v /\ vdepth v <= Z.of_nat k.
Proof. unfold lang. intro H. apply dedupe_v_incl in H. eapply enum_sound; eauto. Qed.
End EnumSound.

(* ---------- ... and lists every member of it (finite-choice hierarchies) ---------- *)
(* the finite-choice family of the property: bool, small integer ranges / lists, names, sized lists, unions,
   tuples, classes; refinement parameters as their constructors expect them *)
Fixpoint fc_ty (t : ty) : bool :=
  let fix allb (l : list ty) : bool := match l with [] => true | x :: r => fc_ty x && allb r end in
  match t with
  | TBase BBool => true
  | TBase _ => false
  | TSym _ => true
  | TList _ => false
  | TTuple ts | TUnion ts => allb ts
  | TAnn base m =>
      match m with
      | MIntRange lo hi => is_int_base base && (lo <=? hi)
      | MIntList _ => is_int_base base
      | MVarRange _ => match base with TBase _ => true | _ => false end
      | MListSize lo hi _ => match base with TList inner => fc_ty inner && (0 <=? lo) && (lo <=? hi) | _ => false end
      | _ => false
      end
  end.
Fixpoint fc_all (l : list ty) : bool := match l with [] => true | x :: r => fc_ty x && fc_all r end.
Lemma fc_allb l : (fix allb (l : list ty) : bool := match l with [] => true | x :: r => fc_ty x && allb r end) l = fc_all l.
Proof. induction l as [|a t IH]; [reflexivity|]. cbn [fc_all]. rewrite <- IH. reflexivity. Qed.
Definition fc_decl (d : decl) : bool := forallb (fun c => fc_all (c_fields c)) (d_classes d).

Lemma fc_fields d s : fc_decl d = true -> fc_all (fields_of d s) = true.
Proof.
  intro H. destruct s as [b|c]; try reflexivity. unfold fields_of. destruct (get_cls d c) as [k|] eqn:E; [|reflexivity].
  unfold fc_decl in H. rewrite forallb_forall in H. apply H. unfold get_cls in E. eapply nth_error_In; eauto.
Qed.

Lemma product_complete ls : forall vs, Forall2 (fun l v => In v l) ls vs -> In vs (product ls).
Proof.
  induction ls as [|l ls IH]; intros vs H; inversion H; subst; cbn [product]; [left; reflexivity|].
  apply in_flat_map. eexists; split; [eassumption|]. apply in_map. apply IH. assumption.
Qed.

Lemma lists_of_complete alts vs : Forall (fun v => In v alts) vs -> In vs (lists_of alts (length vs)).
Proof.
  induction 1 as [|x l Hx Hl IH]; cbn [lists_of length]; [left; reflexivity|].
  apply in_flat_map. exists x. split; [assumption|]. apply in_map. assumption.
Qed.

Section EnumComplete.
Variable d : decl.
Variable r : rstate.
Hypothesis Hfc : fc_decl d = true.

Let E := enum d r.
Definition ev (Q : nat -> Prop) : Prop := exists F, forall fuel, (F <= fuel)%nat -> Q fuel.

Lemma ev_and Q1 Q2 : ev Q1 -> ev Q2 -> ev (fun f => Q1 f /\ Q2 f).
Proof. intros [F1 H1] [F2 H2]. exists (Nat.max F1 F2). intros f Hf. split; [apply H1|apply H2]; lia. Qed.

Lemma ev_S Q : ev Q -> ev (fun f => match f with O => False | S f' => Q f' end).
Proof. intros [F H]. exists (S F). intros [|f'] Hf; [lia|apply H; lia]. Qed.

Lemma ev_imp (Q1 Q2 : nat -> Prop) : (forall f, Q1 f -> Q2 f) -> ev Q1 -> ev Q2.
Proof. intros Hi [F H]. exists F. intros f Hf. apply Hi, H, Hf. Qed.

Theorem enum_complete_mut :
  (forall deps t v, Sat d r deps t v -> fc_ty t = true -> forall k, vdepth v <= Z.of_nat k -> ev (fun f => In v (E f k deps t))) /\
  (forall deps ts vs, SatFields d r deps ts vs -> fc_all ts = true -> forall k, vdepth_max vs <= Z.of_nat k ->
                      ev (fun f => In vs (enum_fields (E f k) deps ts))) /\
  (forall deps t vs, SatAll d r deps t vs -> fc_ty t = true -> forall k, vdepth_max vs <= Z.of_nat k ->
                     ev (fun f => Forall (fun v => In v (E f k deps t)) vs)) /\
  (forall ts vs, SatTuple d r ts vs -> fc_all ts = true -> forall k, vdepth_max vs <= Z.of_nat k ->
                 ev (fun f => Forall2 (fun l v => In v l) (map (E f k []) ts) vs)) /\
  (forall deps ts v, SatAny d r deps ts v -> fc_all ts = true -> forall k, vdepth v <= Z.of_nat k ->
                     ev (fun f => exists t, In t ts /\ In v (E f k deps t))).
Proof.
  apply Sat_mutind; try (intros; cbn [fc_ty] in *; discriminate).
  - (* bool *) intros deps b _ k _. exists 1%nat. intros [|f] Hf; [lia|]. unfold E. cbn [enum]. destruct b; cbn [In]; auto.
  - (* node *)
    intros deps c c' args Hp Hf IHf _ k Hd. rewrite vdepth_node in Hd.
    pose proof (vdepth_max_nonneg args) as Hnn.
    destruct k as [|k']; [lia|].
    specialize (IHf (fc_fields d (SC c') Hfc) k' ltac:(lia)).
    clear Hd Hnn. revert deps. induction Hp as [c0 Ha Hm|a l c0 c1 Ha Hg Hin Hp IHp]; intros deps.
    + eapply ev_imp; [|apply ev_S; exact IHf]. intros [|f] H; [destruct H|].
      unfold E in *. cbn [enum]. rewrite Ha, Hm. apply in_map. exact H.
    + specialize (IHp Hf IHf deps).
      eapply ev_imp; [|apply ev_S; exact IHp]. intros [|f] H; [destruct H|].
      unfold E in *. cbn [enum]. rewrite Ha, Hg. apply in_flat_map. exists c0. split; assumption.
  - (* tuple *)
    intros deps ts vs Ht IHt Hfc' k Hd. cbn [fc_ty] in Hfc'. rewrite fc_allb in Hfc'. rewrite vdepth_tuple in Hd.
    specialize (IHt Hfc' k Hd). eapply ev_imp; [|apply ev_S; exact IHt]. intros [|f] H; [destruct H|].
    unfold E in *. cbn [enum]. apply in_map. apply product_complete. exact H.
  - (* union *)
    intros deps ts v Ha IHa Hfc' k Hd. cbn [fc_ty] in Hfc'. rewrite fc_allb in Hfc'.
    specialize (IHa Hfc' k Hd). eapply ev_imp; [|apply ev_S; exact IHa]. intros [|f] H; [destruct H|].
    unfold E in *. cbn [enum]. apply in_flat_map. exact H.
  - (* int range *)
    intros deps base lo hi z _ _ Hr Hfc' k _. cbn [fc_ty] in Hfc'. apply andb_prop in Hfc'. destruct Hfc' as [Hb Hle].
    exists 1%nat. intros [|f] Hf; [lia|]. unfold E. cbn [enum]. rewrite Hb. apply in_map. apply zrange_spec. apply Hr. lia.
  - (* int list *)
    intros deps base xs z _ _ Hin Hfc' k _. cbn [fc_ty] in Hfc'.
    exists 1%nat. intros [|f] Hf; [lia|]. unfold E. cbn [enum]. rewrite Hfc'. apply in_map. exact Hin.
  - (* names *)
    intros deps base opts v Hs _ Hin Hfc' k _. cbn [fc_ty] in Hfc'. destruct base as [b| | | | |]; try discriminate.
    exists 1%nat. intros [|f] Hf; [lia|]. unfold E. cbn [enum]. apply filter_In. split; [assumption|].
    inversion Hs; subst; reflexivity.
  - (* sized list *)
    intros deps inner lo hi ops vs Ha IHa Hsz Hfc' k Hd. cbn [fc_ty] in Hfc'.
    apply andb_prop in Hfc'. destruct Hfc' as [Hfc' Hle]. apply andb_prop in Hfc'. destruct Hfc' as [Hfi H0].
    rewrite vdepth_list in Hd. specialize (IHa Hfi k Hd).
    eapply ev_imp; [|apply ev_S; exact IHa]. intros [|f] H; [destruct H|].
    unfold E in *. cbn [enum]. apply in_map. apply in_flat_map. exists (zlen vs). split.
    + apply zrange_spec. unfold zlen in *. specialize (Hsz ltac:(lia) ltac:(lia)). lia.
    + unfold zlen. rewrite Nat2Z.id. apply lists_of_complete. exact H.
  - (* fields: nil *) intros deps _ k _. exists 0%nat. intros f _. cbn [enum_fields]. left; reflexivity.
  - (* fields: cons *)
    intros deps t ts v vs Hs IHs Hf IHf Hfc' k Hd. cbn [fc_all] in Hfc'. apply andb_prop in Hfc'. destruct Hfc' as [Ht Hts].
    cbn [vdepth_max] in Hd. pose proof (vdepth_nonneg v). pose proof (vdepth_max_nonneg vs).
    specialize (IHs Ht k ltac:(lia)). specialize (IHf Hts k ltac:(lia)).
    eapply ev_imp; [|apply ev_and; [exact IHs|exact IHf]]. intros f [H1 H2]. cbn [enum_fields].
    apply in_flat_map. exists v. split; [exact H1|]. apply in_map. exact H2.
  - (* all: nil *) intros deps t _ k _. exists 0%nat. intros f _. constructor.
  - (* all: cons *)
    intros deps t v vs Hs IHs Ha IHa Hfc' k Hd. cbn [vdepth_max] in Hd. pose proof (vdepth_nonneg v). pose proof (vdepth_max_nonneg vs).
    specialize (IHs Hfc' k ltac:(lia)). specialize (IHa Hfc' k ltac:(lia)).
    eapply ev_imp; [|apply ev_and; [exact IHs|exact IHa]]. intros f [H1 H2]. constructor; assumption.
  - (* tuple: nil *) intros _ k _. exists 0%nat. intros f _. constructor.
  - (* tuple: cons *)
    intros t ts v vs Hs IHs Ht IHt Hfc' k Hd. cbn [fc_all] in Hfc'. apply andb_prop in Hfc'. destruct Hfc' as [Hft Hts].
    cbn [vdepth_max] in Hd. pose proof (vdepth_nonneg v). pose proof (vdepth_max_nonneg vs).
    specialize (IHs Hft k ltac:(lia)). specialize (IHt Hts k ltac:(lia)).
    eapply ev_imp; [|apply ev_and; [exact IHs|exact IHt]]. intros f [H1 H2]. cbn [map]. constructor; assumption.
  - (* any: here *)
    intros deps t ts v Hs IHs Hfc' k Hd. cbn [fc_all] in Hfc'. apply andb_prop in Hfc'. destruct Hfc' as [Hft Hts].
    specialize (IHs Hft k Hd). eapply ev_imp; [|exact IHs]. intros f H. exists t. split; [left; reflexivity|exact H].
  - (* any: there *)
    intros deps t ts v Ha IHa Hfc' k Hd. cbn [fc_all] in Hfc'. apply andb_prop in Hfc'. destruct Hfc' as [Hft Hts].
    specialize (IHa Hts k Hd). eapply ev_imp; [|exact IHa]. intros f [t' [Hin H]]. exists t'. split; [right; exact Hin|exact H].
Qed.

(* with enough fuel the enumeration contains every program of the bounded language *)
Corollary enum_complete k v :
  Sat d r [] (TSym (d_start d)) v -> vdepth v <= Z.of_nat k ->
  exists F, forall fuel, (F <= fuel)%nat -> In v (enum d r fuel k [] (TSym (d_start d))).
Proof. intros Hs Hd. exact (proj1 enum_complete_mut _ _ _ Hs eq_refl k Hd). Qed.
End EnumComplete.
