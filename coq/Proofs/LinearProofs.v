(* LinearProofs.v — C06: crossover of linear / keyed genotypes recombines parental genes locus by locus,
   mutation changes at most one gene and preserves shape; what tree crossover returns when it finds
   donor material. *)
From GE Require Import Base Tape Grammar Synth Linear TapeProofs.
Open Scope Z_scope.

Lemma set_nth_nth {A} (l : list A) n x j : j <> n -> nth_error (set_nth l n x) j = nth_error l j.
Proof.
  revert n j. induction l as [|a t IH]; intros n j H; destruct n, j; simpl; try reflexivity; try congruence.
  apply IH. congruence.
Qed.
Lemma set_nth_len {A} (l : list A) n x : length (set_nth l n x) = length l.
Proof. revert n. induction l as [|a t IH]; intro n; destruct n; simpl; congruence. Qed.

(* ---------- codons (GE, stack) ---------- *)
Theorem codons_mutate_local s gl top dna m s' :
  codons_mutate s gl top dna = Ok (m, s') ->
  length m = length dna /\ exists i, forall j, j <> i -> nth_error m j = nth_error dna j.
Proof.
  unfold codons_mutate. intro H.
  destruct (randint s 0 (gl - 1)) as [[i s1]|]; cbn [bind] in H; [|discriminate].
  destruct (randint s1 0 top) as [[v s2]|]; cbn [bind] in H; [|discriminate].
  unfold set_gene in H. destruct ((i <? 0) || (zlen dna <=? i)); cbn [bind] in H; [discriminate|].
  inversion H; subst. split; [apply set_nth_len|]. exists (Z.to_nat i). intros j Hj. apply set_nth_nth; exact Hj.
Qed.

Lemma nth_firstn_skipn {A} (a b : list A) n j : length a = length b ->
  nth_error (firstn n a ++ skipn n b) j = if Nat.ltb j n then nth_error a j else nth_error b j.
Proof.
  revert b n j. induction a as [|x a IH]; intros b n j Hl; destruct b as [|y b]; simpl in Hl; try discriminate.
  - rewrite firstn_nil, skipn_nil. simpl. destruct (Nat.ltb j n); reflexivity.
  - destruct n as [|n]; cbn [firstn skipn app].
    + reflexivity.
    + destruct j as [|j]; cbn [nth_error]; [reflexivity|]. rewrite IH by congruence.
      change (Nat.ltb (S j) (S n)) with (Nat.ltb j n). reflexivity.
Qed.

Theorem codons_crossover_loci s top p1 p2 c1 c2 s' :
  codons_crossover s top p1 p2 = Ok ((c1, c2), s') -> length p1 = length p2 ->
  length c1 = length p1 /\ length c2 = length p1 /\
  forall j, (nth_error c1 j = nth_error p1 j \/ nth_error c1 j = nth_error p2 j) /\
            (nth_error c2 j = nth_error p1 j \/ nth_error c2 j = nth_error p2 j) /\
            (* the children are complementary: what one took from a parent the other took from the other *)
            ((nth_error c1 j = nth_error p1 j /\ nth_error c2 j = nth_error p2 j) \/
             (nth_error c1 j = nth_error p2 j /\ nth_error c2 j = nth_error p1 j)).
Proof.
  unfold codons_crossover, zfirstn, zskipn. intros H Hl.
  destruct (randint s 0 top) as [[i s1]|]; cbn [bind] in H; [|discriminate]. inversion H; subst; clear H.
  set (n := Z.to_nat i).
  assert (L : forall (a b : list Z), length a = length b -> length (firstn n a ++ skipn n b) = length a).
  { intros a b E. rewrite app_length, firstn_length, skipn_length. lia. }
  split; [apply L; exact Hl|]. split; [rewrite L; congruence|].
  intro j. rewrite (nth_firstn_skipn p1 p2 n j Hl), (nth_firstn_skipn p2 p1 n j (eq_sym Hl)).
  destruct (Nat.ltb j n); tauto.
Qed.

(* ---------- keyed genotypes (SGE, dSGE) ---------- *)
Section Keyed.
Context {K : Type} (keqb : K -> K -> bool).
Hypothesis keqb_eq : forall a b, keqb a b = true <-> a = b.

Lemma kget_kset_same m k v : kget keqb (kset keqb m k v) k = Some v.
Proof.
  induction m as [|[k' w] t IH]; simpl.
  - assert (keqb k k = true) as E by (apply keqb_eq; reflexivity). rewrite E. reflexivity.
  - destruct (keqb k k') eqn:E; simpl; rewrite ?E; [reflexivity | exact IH].
Qed.
Lemma kget_kset_other m k v k0 : k0 <> k -> kget keqb (kset keqb m k v) k0 = kget keqb m k0.
Proof.
  intro Hne. induction m as [|[k' w] t IH]; simpl.
  - destruct (keqb k0 k) eqn:E; [apply keqb_eq in E; congruence | reflexivity].
  - destruct (keqb k k') eqn:E; simpl.
    + apply keqb_eq in E; subst k'. destruct (keqb k0 k) eqn:E2; [apply keqb_eq in E2; congruence | reflexivity].
    + destruct (keqb k0 k'); [reflexivity | exact IH].
Qed.
Lemma keys_kset m k v : kget keqb m k <> None -> map fst (kset keqb m k v) = map fst m.
Proof.
  induction m as [|[k' w] t IH]; simpl; intro H; [congruence|].
  destruct (keqb k k') eqn:E; simpl; [reflexivity|]. f_equal. apply IH. exact H.
Qed.

(* single-gene mutation: same keys, every gene list keeps its length, at most one gene of one key differs *)
Definition one_gene_differs (m m' : kgenes K) : Prop :=
  map fst m' = map fst m /\
  exists k i, forall k0, (k0 <> k -> kget keqb m' k0 = kget keqb m k0) /\
                         (forall l l', kget keqb m k = Some l -> kget keqb m' k = Some l' ->
                                       length l' = length l /\ forall j, j <> i -> nth_error l' j = nth_error l j).

Lemma mutate_core s1 m k l m' s' :
  kget keqb m k = Some l ->
  (let* (i, s2) := randint s1 0 (zlen l - 1) in
   let* (v, s3) := randint s2 0 maxsize in
   let* l' := set_gene l i v in Ok (kset keqb m k l', s3)) = Ok (m', s') ->
  one_gene_differs m m'.
Proof.
  intros Hk H.
  destruct (randint s1 0 (zlen l - 1)) as [[i s2]|]; cbn [bind] in H; [|discriminate].
  destruct (randint s2 0 maxsize) as [[v s3]|]; cbn [bind] in H; [|discriminate].
  unfold set_gene in H. destruct ((i <? 0) || (zlen l <=? i)); cbn [bind] in H; [discriminate|].
  inversion H; subst; clear H. split; [apply keys_kset; congruence|].
  exists k, (Z.to_nat i). intro k0. split.
  - intro Hne. apply kget_kset_other; exact Hne.
  - intros l0 l' H0 H'. rewrite kget_kset_same in H'. inversion H'; subst. rewrite Hk in H0. inversion H0; subst.
    split; [apply set_nth_len | intros j Hj; apply set_nth_nth; exact Hj].
Qed.

Theorem sge_mutate_local s m m' s' : sge_mutate keqb s m = Ok (m', s') -> one_gene_differs m m'.
Proof.
  unfold sge_mutate. intro H.
  destruct (choice s (map fst m)) as [[k s1]|]; cbn [bind] in H; [|discriminate].
  destruct (kget keqb m k) as [l|] eqn:Ek; [|discriminate]. eapply mutate_core; eauto.
Qed.

Theorem dsge_mutate_local s m m' s' : dsge_mutate keqb s m = Ok (m', s') -> m' = m \/ one_gene_differs m m'.
Proof.
  unfold dsge_mutate. intro H. destruct m as [|e t] eqn:Em; [inversion H; left; reflexivity|]. rewrite <- Em in *.
  destruct (choice s (map fst m)) as [[k s1]|]; cbn [bind] in H; [|discriminate].
  destruct (kget keqb m k) as [l|] eqn:Ek; [|discriminate].
  destruct l as [|g0 l0] eqn:El; [inversion H; left; reflexivity|]. rewrite <- El in *.
  right. eapply mutate_core; eauto.
Qed.

(* per-key crossover: the children have the keys of parent 1; under every key a child holds the whole
   gene list of one parent (for dSGE: the empty list if that parent lacks the key) and its sibling the
   other parent's *)
Theorem keyed_crossover_loci strict s p1 p2 c1 c2 s' :
  keyed_crossover keqb strict s p1 p2 = Ok ((c1, c2), s') ->
  map fst c1 = map fst p1 /\ map fst c2 = map fst p1 /\
  Forall2 (fun e1 e2 => fst e1 = fst e2 /\
             exists a c, kfetch keqb strict p1 (fst e1) = Ok a /\ kfetch keqb strict p2 (fst e1) = Ok c /\
                         ((snd e1 = a /\ snd e2 = c) \/ (snd e1 = c /\ snd e2 = a))) c1 c2.
Proof.
  unfold keyed_crossover. intro H.
  destruct (mask_draws s (map fst p1)) as [[mask s1]|] eqn:Em; cbn [bind] in H; [|discriminate].
  destruct (build_children keqb strict mask p1 p2) as [[d1 d2]|] eqn:Eb; cbn [bind] in H; [|discriminate].
  inversion H; subst; clear H.
  assert (Hk : map fst mask = map fst p1).
  { clear Eb. revert s mask s' Em. generalize (map fst p1) as keys. induction keys as [|k r IH]; intros s mask s' Em; simpl in Em.
    - inversion Em; reflexivity.
    - destruct (random_bool s) as [[b s1]|]; cbn [bind] in Em; [|discriminate].
      destruct (mask_draws s1 r) as [[m2 s2]|] eqn:E2; cbn [bind] in Em; [|discriminate].
      inversion Em; subst. simpl. f_equal. eapply IH; eauto. }
  rewrite <- Hk. clear Hk Em.
  revert c1 c2 Eb. induction mask as [|[k b] r IH]; intros c1 c2 Eb; simpl in Eb.
  - inversion Eb; subst. repeat split; constructor.
  - destruct (kfetch keqb strict p1 k) as [a|] eqn:Ea; cbn [bind] in Eb; [|discriminate].
    destruct (kfetch keqb strict p2 k) as [c|] eqn:Ec; cbn [bind] in Eb; [|discriminate].
    destruct (build_children keqb strict r p1 p2) as [[e1 e2]|] eqn:Er; cbn [bind] in Eb; [|discriminate].
    destruct (IH _ _ eq_refl) as [K1 [K2 F]].
    destruct b; inversion Eb; subst; simpl; (split; [f_equal; exact K1|]); (split; [f_equal; exact K2|]);
      constructor; try exact F; simpl; (split; [reflexivity|]); exists a, c; auto.
Qed.
End Keyed.

(* ---------- trees ---------- *)
(* when tree crossover finds donor material it returns a node of the start symbol's class that occurs in
   the other parent (the root of the receiving parent is the replaced subtree) *)
Theorem tree_cross_child_is_donor_subtree fuel g k donor rctx st v st' :
  subnodes (d_start (g_decl g)) donor <> [] ->
  tree_cross_child fuel g k donor rctx st = (Ok v, st') -> In v (subnodes (d_start (g_decl g)) donor).
Proof.
  intros Hne H. unfold tree_cross_child in H.
  destruct (subnodes (d_start (g_decl g)) donor) as [|o opts] eqn:E; [congruence|].
  destruct k; try discriminate;
    (unfold s_choice, on_src in H; destruct (choice (st_src st) (o :: opts)) as [[x s1]|] eqn:Ec; inversion H; subst;
     eapply choice_mem; exact Ec).
Qed.

Lemma subnodes_class k : forall v x, In x (subnodes k v) -> exists args, x = VNode k args.
Proof.
  fix IH 1. intros v x Hx. destruct v as [z|f|s|b|c args|vs|vs|]; simpl in Hx; try contradiction.
  - apply in_app_or in Hx. destruct Hx as [Hx | Hx].
    + destruct (Nat.eqb c k) eqn:E; [|destruct Hx]. apply Nat.eqb_eq in E. destruct Hx as [<- | []]. subst. eauto.
    + induction args as [|a t IHt]; [destruct Hx|]. apply in_app_or in Hx. destruct Hx as [Hx | Hx]; [eapply IH; exact Hx | apply IHt; exact Hx].
  - induction vs as [|a t IHt]; [destruct Hx|]. apply in_app_or in Hx. destruct Hx as [Hx | Hx]; [eapply IH; exact Hx | apply IHt; exact Hx].
Qed.
