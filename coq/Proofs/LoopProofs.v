(* LoopProofs.v — property C14: searches terminate and stop at the first budget check at which the
   budget is met. *)
From GE Require Import Base Search.
From Coq Require Import Permutation Lia ZArith List QArith.
Import ListNotations.
Open Scope Z_scope.

Section Loops.
Variable ff : N -> list Q.
Variable p : problem.
Variable pid : N.
(* the user's fitness function returns something the problem accepts, for every program *)
Hypothesis ff_ok : forall i, exists f, evaluate p (ff i) = Ok (f, 1).

Definition fresh_tracker (tr : tracker) : Prop := tr = TSO so0 \/ tr = TMO mo0.
Definition s_init (tr : tracker) : sstate := mkS ev0 tr 0%N [].

(* counters seen by the successive checks of a run that stops at [n]: n, n-1, ..., 0 (newest first),
   only the last check answering "done" *)
Fixpoint countdown (k : nat) : list (Z * bool) :=
  match k with O => [] | S j => (Z.of_nat j, false) :: countdown j end.


(* ------------------------------------------------------------------ *)
(* auxiliary: caches                                                   *)
(* ------------------------------------------------------------------ *)
Definition cached (s : store) (i : N) : Prop := exists f, lookup s (i, pid) = Some f.

Lemma key_eqb_pid i j : key_eqb (i, pid) (j, pid) = N.eqb i j.
Proof. unfold key_eqb; cbn [fst snd]. rewrite N.eqb_refl. apply andb_true_r. Qed.

Lemma cached_nil j : ~ cached [] j.
Proof. intros [f H]. cbn [lookup] in H. discriminate. Qed.

Lemma cached_cons s i f j : cached (((i, pid), f) :: s) j <-> j = i \/ cached s j.
Proof.
  unfold cached. cbn [lookup]. rewrite key_eqb_pid.
  destruct (N.eqb j i) eqn:E.
  - apply N.eqb_eq in E. split; [auto|]. intros _. eexists; reflexivity.
  - apply N.eqb_neq in E. split; [auto|]. intros [H|H]; [contradiction|exact H].
Qed.

Lemma eval_one_spec e i :
  exists e1, eval_one ff p pid e i = Ok e1 /\
    ((cached (st e) i /\ e1 = e) \/
     (~ cached (st e) i /\ exists f, st e1 = ((i, pid), f) :: st e /\ count e1 = count e + 1)).
Proof.
  unfold eval_one, has_fit.
  destruct (lookup (st e) (i, pid)) as [f0|] eqn:L.
  - exists e. split; [reflexivity|]. left. split; [exists f0; exact L | reflexivity].
  - destruct (ff_ok i) as [f Hf]. rewrite Hf. cbn [bind].
    eexists. split; [reflexivity|]. right. split.
    + intros [f1 H1]. congruence.
    + exists f. cbn [st count]. split; reflexivity.
Qed.

(* what a sequential evaluation of [batch] does to the evaluator *)
Definition ev_step (e e' : ev) (batch : list N) : Prop :=
  (forall j, cached (st e') j <-> cached (st e) j \/ In j batch) /\
  (count e <= count e' <= count e + Z.of_nat (length batch)) /\
  (NoDup batch -> (forall j, In j batch -> ~ cached (st e) j) ->
     count e' = count e + Z.of_nat (length batch)) /\
  ((exists j, In j batch /\ ~ cached (st e) j) -> count e + 1 <= count e').

Lemma eval_seq_spec batch :
  forall e, exists e', eval_seq ff p pid e batch = Ok e' /\ ev_step e e' batch.
Proof.
  induction batch as [|i t IH]; intros e.
  - exists e. split; [reflexivity|]. unfold ev_step. cbn [length In].
    split; [|split; [|split]].
    + intros j. split; [auto|]. intros [H|[]]; exact H.
    + lia.
    + intros _ _. lia.
    + intros (j & [] & _).
  - cbn [eval_seq]. destruct (eval_one_spec e i) as (e1 & E1 & Hc). rewrite E1. cbn [bind].
    destruct (IH e1) as (e' & E' & Hca & Hcnt & Hfull & Hex). exists e'. split; [exact E'|].
    unfold ev_step. cbn [length In]. rewrite Nat2Z.inj_succ.
    destruct Hc as [[Hci ->] | (Hnc & f & Hst & Hcount)].
    + split; [|split; [|split]].
      * intros j. rewrite Hca. split; [tauto|]. intros [H|[<-|H]]; auto.
      * lia.
      * intros _ Hall. exfalso. apply (Hall i); auto.
      * intros (j & [<-|Hj] & Hn); [contradiction|].
        assert (count e + 1 <= count e') by (apply Hex; exists j; auto). lia.
    + split; [|split; [|split]].
      * intros j. rewrite Hca, Hst, cached_cons. split.
        -- intros [[->|H]|H]; auto.
        -- intros [H|[<-|H]]; auto.
      * lia.
      * intros Hnodup Hall. inversion Hnodup as [|x l Hni Hnd']; subst.
        rewrite Hfull; [lia | exact Hnd' | ].
        intros j Hj. rewrite Hst, cached_cons. intros [->|H]; [contradiction | apply (Hall j); auto].
      * intros _. lia.
Qed.

(* ------------------------------------------------------------------ *)
(* auxiliary: trackers                                                 *)
(* ------------------------------------------------------------------ *)
Lemma so_post_spec s tr i :
  cached s i -> (forall b, so_best tr = Some b -> cached s b) ->
  exists tr', so_post pid s tr i = Ok tr' /\
              (forall b, so_best tr' = Some b -> cached s b) /\ so_best tr' <> None.
Proof.
  intros [f Hf] Hb. unfold so_post. rewrite Hf.
  destruct (so_best tr) as [b|] eqn:B.
  - destruct (Hb b eq_refl) as [fb Hfb]. rewrite Hfb.
    destruct (is_better f fb).
    + eexists; split; [reflexivity|]. cbn [so_best]. split; [|discriminate].
      intros b' Hb'. injection Hb' as <-. exists f; exact Hf.
    + eexists; split; [reflexivity|]. cbn [so_best]. split; [|discriminate].
      intros b' Hb'. injection Hb' as <-. exists fb; exact Hfb.
  - eexists; split; [reflexivity|]. cbn [so_best]. split; [|discriminate].
    intros b' Hb'. injection Hb' as <-. exists f; exact Hf.
Qed.

Lemma so_posts_spec s batch : forall tr,
  (forall j, In j batch -> cached s j) -> (forall b, so_best tr = Some b -> cached s b) ->
  exists tr', so_posts pid s tr batch = Ok tr' /\
              (forall b, so_best tr' = Some b -> cached s b) /\
              (batch <> [] \/ so_best tr <> None -> so_best tr' <> None).
Proof.
  induction batch as [|i t IH]; intros tr Hall Hb.
  - exists tr. split; [reflexivity|]. split; [exact Hb|]. intros [H|H]; [congruence|exact H].
  - cbn [so_posts].
    destruct (so_post_spec s tr i (Hall i (or_introl eq_refl)) Hb) as (tr1 & T1 & Hb1 & Hne1).
    rewrite T1. cbn [bind].
    destruct (IH tr1) as (tr' & T' & Hb' & Hne').
    { intros j Hj. apply Hall. right; exact Hj. }
    { exact Hb1. }
    exists tr'. split; [exact T'|]. split; [exact Hb'|]. intros _. apply Hne'. right; exact Hne1.
Qed.

Lemma is_dominated_spec s cur others :
  cached s cur -> Forall (cached s) others -> exists d, is_dominated pid s cur others = Ok d.
Proof.
  intros [fc Hc] Ho. unfold is_dominated. rewrite Hc.
  generalize true. induction Ho as [|x l [fx Hx] Hl IH]; intros b0.
  - exists b0; reflexivity.
  - cbn [fold_left bind]. rewrite Hx. apply IH.
Qed.

Lemma rebuild_front_spec s old : forall newf,
  Forall (cached s) newf -> Forall (cached s) old ->
  exists r, rebuild_front pid s newf old = Ok r /\ Forall (cached s) r /\ (newf <> [] -> r <> []).
Proof.
  induction old as [|o t IH]; intros newf Hn Ho.
  - exists newf. cbn [rebuild_front]. auto.
  - inversion Ho as [|? ? Ho1 Ho2]; subst. cbn [rebuild_front].
    destruct (is_dominated_spec s o newf Ho1 Hn) as [d Hd]. rewrite Hd. cbn [bind].
    destruct d.
    + apply IH; auto.
    + destruct (IH (newf ++ [o])) as (r & Hr & Hc & Hne); auto.
      { apply Forall_app; split; auto. }
      exists r. split; [exact Hr|]. split; [exact Hc|]. intros _. apply Hne.
      destruct newf; discriminate.
Qed.

Lemma mo_post_spec s tr i :
  cached s i -> Forall (cached s) (front tr) ->
  exists tr', mo_post pid s tr i = Ok tr' /\ Forall (cached s) (front tr') /\ front tr' <> [].
Proof.
  intros Hi. unfold mo_post.
  destruct (front tr) as [|b l] eqn:F; intros Hf.
  - cbn [bind rebuild_front]. eexists; split; [reflexivity|]. cbn [front].
    split; [auto|discriminate].
  - destruct (is_dominated_spec s i (b :: l) Hi Hf) as [d Hd]. rewrite Hd. cbn [bind].
    destruct d; cbn [negb].
    + eexists; split; [reflexivity|]. cbn [front]. split; [exact Hf | discriminate].
    + destruct (rebuild_front_spec s (b :: l) [i]) as (r & Hr & Hc & Hne); auto.
      rewrite Hr. cbn [bind]. eexists; split; [reflexivity|]. cbn [front].
      split; [exact Hc|]. apply Hne; discriminate.
Qed.

Lemma mo_posts_spec s batch : forall tr,
  (forall j, In j batch -> cached s j) -> Forall (cached s) (front tr) ->
  exists tr', mo_posts pid s tr batch = Ok tr' /\
              Forall (cached s) (front tr') /\
              (batch <> [] \/ front tr <> [] -> front tr' <> []).
Proof.
  induction batch as [|i t IH]; intros tr Hall Hb.
  - exists tr. split; [reflexivity|]. split; [exact Hb|]. intros [H|H]; [congruence|exact H].
  - cbn [mo_posts].
    destruct (mo_post_spec s tr i (Hall i (or_introl eq_refl)) Hb) as (tr1 & T1 & Hb1 & Hne1).
    rewrite T1. cbn [bind].
    destruct (IH tr1) as (tr' & T' & Hb' & Hne').
    { intros j Hj. apply Hall. right; exact Hj. }
    { exact Hb1. }
    exists tr'. split; [exact T'|]. split; [exact Hb'|]. intros _. apply Hne'. right; exact Hne1.
Qed.

(* the tracker only refers to cached individuals *)
Definition tr_ok (s : store) (tr : tracker) : Prop :=
  match tr with
  | TSO t => forall b, so_best t = Some b -> cached s b
  | TMO t => Forall (cached s) (front t)
  end.

Lemma tr_evaluate_spec e tr batch :
  tr_ok (st e) tr ->
  exists e' tr', tr_evaluate ff p pid false e tr batch = Ok (e', tr') /\
    tr_ok (st e') tr' /\ ev_step e e' batch /\ (batch <> [] -> tr_best tr' <> None).
Proof.
  intros Hok. destruct (eval_seq_spec batch e) as (e' & E & Hstep).
  pose proof Hstep as (Hca & _).
  assert (Hall : forall j, In j batch -> cached (st e') j) by (intros j Hj; apply Hca; auto).
  assert (Hmono : forall j, cached (st e) j -> cached (st e') j) by (intros j Hj; apply Hca; auto).
  destruct tr as [t|t]; cbn [tr_evaluate]; unfold so_evaluate, mo_evaluate; rewrite E; cbn [bind].
  - destruct (so_posts_spec (st e') batch t Hall) as (t' & T & Hb & Hne).
    { intros b B. apply Hmono. apply Hok; exact B. }
    rewrite T. cbn [bind]. exists e', (TSO t'). split; [reflexivity|].
    split; [exact Hb|]. split; [exact Hstep|].
    intros H. cbn [tr_best]. apply Hne; auto.
  - destruct (mo_posts_spec (st e') batch t Hall) as (t' & T & Hb & Hne).
    { cbn [tr_ok] in Hok. eapply Forall_impl; [|exact Hok]. exact Hmono. }
    rewrite T. cbn [bind]. exists e', (TMO t'). split; [reflexivity|].
    split; [exact Hb|]. split; [exact Hstep|].
    intros H. cbn [tr_best]. destruct (front t') as [|x l]; [exfalso; apply Hne; auto | discriminate].
Qed.

(* ------------------------------------------------------------------ *)
(* auxiliary: loop invariant for rs / hc                               *)
(* ------------------------------------------------------------------ *)
Definition inv (s : sstate) : Prop :=
  tr_ok (st (s_ev s)) (s_tr s) /\ forall j, cached (st (s_ev s)) j -> (j < s_next s)%N.

Lemma tr_ok_fresh s tr0 : fresh_tracker tr0 -> tr_ok s tr0.
Proof.
  intros [-> | ->]; cbn [tr_ok so0 mo0 so_best front].
  - intros b H; discriminate.
  - constructor.
Qed.

Lemma inv_init tr0 : fresh_tracker tr0 -> inv (s_init tr0).
Proof.
  intros H. split; cbn [s_init s_ev s_tr s_next ev0 st].
  - apply tr_ok_fresh; exact H.
  - intros j Hj. exfalso. exact (cached_nil j Hj).
Qed.

Lemma check_done_eval n s :
  check_done pid (EvalBudget n) s =
  Ok (n <=? count (s_ev s),
      mkS (s_ev s) (s_tr s) (s_next s) ((count (s_ev s), n <=? count (s_ev s)) :: s_checks s)).
Proof. reflexivity. Qed.

Lemma countdown_succ c : 0 <= c -> countdown (Z.to_nat (c + 1)) = (c, false) :: countdown (Z.to_nat c).
Proof.
  intros H. replace (c + 1) with (Z.succ c) by lia. rewrite Z2Nat.inj_succ by lia.
  cbn [countdown]. rewrite Z2Nat.id by lia. reflexivity.
Qed.

Lemma rs_gen n : forall k fuel s,
  inv s -> 0 <= count (s_ev s) -> count (s_ev s) + Z.of_nat k = n ->
  s_checks s = countdown (Z.to_nat (count (s_ev s))) -> (k < fuel)%nat ->
  exists s', rs_loop ff p pid fuel (EvalBudget n) s = Ok s' /\ count (s_ev s') = n /\
             s_checks s' = (n, true) :: countdown (Z.to_nat n).
Proof.
  induction k as [|k IH]; intros fuel s Hinv H0 Hc Hchk Hfuel.
  - destruct fuel as [|f]; [lia|]. cbn [rs_loop]. rewrite check_done_eval. cbn [bind].
    replace (n <=? count (s_ev s)) with true by (symmetry; apply Z.leb_le; lia).
    eexists; split; [reflexivity|]. cbn [s_ev s_checks]. split; [lia|]. rewrite Hchk.
    replace (count (s_ev s)) with n by lia. reflexivity.
  - destruct fuel as [|f]; [lia|]. cbn [rs_loop]. rewrite check_done_eval. cbn [bind].
    replace (n <=? count (s_ev s)) with false by (symmetry; apply Z.leb_gt; lia).
    cbn [s_ev s_tr s_next s_checks].
    destruct Hinv as [Hok Hlt].
    destruct (tr_evaluate_spec (s_ev s) (s_tr s) [s_next s] Hok)
      as (e' & t' & T & Hok' & (Hca & Hcnt & Hfull & Hex) & _).
    rewrite T. cbn [bind].
    assert (Hcount : count e' = count (s_ev s) + 1).
    { rewrite Hfull; [reflexivity | constructor; [intros []|constructor] | ].
      intros j [<-|[]] Hj. apply Hlt in Hj. lia. }
    apply IH.
    + split; cbn [s_ev s_tr s_next]; [exact Hok'|].
      intros j Hj. apply Hca in Hj. destruct Hj as [Hj|[<-|[]]]; [apply Hlt in Hj|]; lia.
    + cbn [s_ev]. lia.
    + cbn [s_ev]. lia.
    + cbn [s_checks s_ev]. rewrite Hcount, countdown_succ by lia. rewrite Hchk. reflexivity.
    + lia.
Qed.

(* random search and (1+1): terminates, exactly n evaluations, n+1 checks, stops at the first
   check at which count >= n *)
Theorem rs_stops n tr0 fuel :
  0 <= n -> (Z.to_nat n < fuel)%nat -> fresh_tracker tr0 ->
  exists s, rs_loop ff p pid fuel (EvalBudget n) (s_init tr0) = Ok s /\
            count (s_ev s) = n /\ s_checks s = (n, true) :: countdown (Z.to_nat n).
Proof.
  intros Hn Hfuel Hfresh.
  apply (rs_gen n (Z.to_nat n)).
  - apply inv_init; exact Hfresh.
  - cbn. lia.
  - cbn [s_init s_ev ev0 count]. lia.
  - reflexivity.
  - exact Hfuel.
Qed.


Lemma fresh_In k : forall next j, In j (fresh next k) <-> (next <= j < next + N.of_nat k)%N.
Proof.
  induction k as [|k IH]; intros next j; cbn [fresh In].
  - lia.
  - rewrite IH. lia.
Qed.

Lemma fresh_NoDup k : forall next, NoDup (fresh next k).
Proof.
  induction k as [|k IH]; intros next; cbn [fresh]; constructor.
  - rewrite fresh_In. lia.
  - apply IH.
Qed.

Lemma fresh_length k : forall next, length (fresh next k) = k.
Proof. induction k as [|k IH]; intros next; cbn [fresh length]; [reflexivity | rewrite IH; reflexivity]. Qed.

(* evaluating [k] fresh individuals from a state satisfying the invariant *)
Lemma tr_evaluate_fresh s k :
  inv s ->
  exists e' t', tr_evaluate ff p pid false (s_ev s) (s_tr s) (fresh (s_next s) k) = Ok (e', t') /\
    count e' = count (s_ev s) + Z.of_nat k /\
    (k <> O -> tr_best t' <> None) /\
    forall chk, inv (mkS e' t' (s_next s + N.of_nat k)%N chk).
Proof.
  intros [Hok Hlt].
  destruct (tr_evaluate_spec (s_ev s) (s_tr s) (fresh (s_next s) k) Hok)
    as (e' & t' & T & Hok' & (Hca & Hcnt & Hfull & Hex) & Hbest).
  exists e', t'. split; [exact T|]. split; [|split].
  - rewrite Hfull.
    + rewrite fresh_length. reflexivity.
    + apply fresh_NoDup.
    + intros j Hj Hc. apply fresh_In in Hj. apply Hlt in Hc. lia.
  - intros Hk. apply Hbest. destruct k; [congruence|]. cbn [fresh]. discriminate.
  - intros chk. split; cbn [s_ev s_tr s_next]; [exact Hok'|].
    intros j Hj. apply Hca in Hj. destruct Hj as [Hj|Hj].
    + apply Hlt in Hj. lia.
    + apply fresh_In in Hj. lia.
Qed.

Lemma hc_gen n m : (1 <= m)%nat -> forall fuel s,
  inv s -> count (s_ev s) < n + Z.of_nat m -> (Z.to_nat (n - count (s_ev s)) < fuel)%nat ->
  exists s', hc_loop ff p pid fuel (EvalBudget n) m false s = Ok s' /\
             n <= count (s_ev s') < n + Z.of_nat m.
Proof.
  intros Hm. induction fuel as [|f IH]; intros s Hinv Hlt Hfuel; [lia|].
  cbn [hc_loop]. rewrite check_done_eval. cbn [bind].
  destruct (n <=? count (s_ev s)) eqn:D.
  - eexists; split; [reflexivity|]. cbn [s_ev]. apply Z.leb_le in D. lia.
  - apply Z.leb_gt in D. cbn [s_ev s_tr s_next s_checks].
    destruct (tr_evaluate_fresh s m Hinv) as (e' & t' & T & Hcount & _ & Hinv').
    rewrite T. cbn [bind].
    replace (match tr_best t' with None => false | Some _ => false end) with false
      by (destruct (tr_best t'); reflexivity).
    apply IH.
    + apply Hinv'.
    + cbn [s_ev]. lia.
    + cbn [s_ev]. lia.
Qed.

(* hill climbing: terminates with n <= total < n + m  (m >= 1 the neighbourhood size) *)
Theorem hc_stops n m tr0 fuel :
  1 <= n -> (1 <= m)%nat -> (Z.to_nat n < fuel)%nat -> fresh_tracker tr0 ->
  exists s, hc_loop ff p pid fuel (EvalBudget n) m true (s_init tr0) = Ok s /\
            n <= count (s_ev s) < n + Z.of_nat m.
Proof.
  intros Hn Hm Hfuel Hfresh.
  destruct fuel as [|f]; [lia|].
  cbn [hc_loop]. rewrite check_done_eval. cbn [bind].
  cbn [s_init s_ev s_tr s_next s_checks ev0 count].
  replace (n <=? 0) with false by (symmetry; apply Z.leb_gt; lia).
  destruct (tr_evaluate_fresh (s_init tr0) 1 (inv_init tr0 Hfresh)) as (e' & t' & T & Hcount & Hbest & Hinv').
  cbn [s_init s_ev s_tr s_next ev0 count] in T, Hcount.
  rewrite T. cbn [bind].
  destruct (tr_best t') as [b|] eqn:B; [|exfalso; apply Hbest; [discriminate|reflexivity]].
  apply (hc_gen n m Hm).
  - apply Hinv'.
  - cbn [s_ev]. lia.
  - cbn [s_ev]. lia.
Qed.

(* for every budget (evaluation, target fitness, disjunctions) and every loop: the loop stops at
   the FIRST check that answers "done" — every earlier check answered "not done" *)
Definition first_done (checks : list (Z * bool)) : Prop :=
  exists c rest, checks = (c, true) :: rest /\ Forall (fun x => snd x = false) rest.

Theorem rs_first_check fuel b s0 s :
  Forall (fun x => snd x = false) (s_checks s0) ->
  rs_loop ff p pid fuel b s0 = Ok s -> first_done (s_checks s) /\ is_done pid b (s_ev s) (s_tr s) = Ok true.
Proof.
  revert s0. induction fuel as [|f IH]; intros s0 Hall H; [discriminate H|].
  cbn [rs_loop] in H. unfold check_done in H.
  destruct (is_done pid b (s_ev s0) (s_tr s0)) as [d|er] eqn:D; cbn [bind] in H; [|discriminate H].
  destruct d.
  - injection H as <-. cbn [s_checks s_ev s_tr]. split; [|exact D].
    exists (count (s_ev s0)), (s_checks s0). split; [reflexivity|exact Hall].
  - cbn [s_ev s_tr s_next s_checks] in H.
    destruct (tr_evaluate ff p pid false (s_ev s0) (s_tr s0) [s_next s0]) as [[e' t']|er] eqn:T;
      cbn [bind] in H; [|discriminate H].
    apply IH in H; [exact H|]. cbn [s_checks]. constructor; [reflexivity|exact Hall].
Qed.

Theorem hc_first_check fuel b m first s0 s :
  Forall (fun x => snd x = false) (s_checks s0) ->
  hc_loop ff p pid fuel b m first s0 = Ok s -> first_done (s_checks s) /\ is_done pid b (s_ev s) (s_tr s) = Ok true.
Proof.
  revert first s0. induction fuel as [|f IH]; intros first s0 Hall H; [discriminate H|].
  cbn [hc_loop] in H. unfold check_done in H.
  destruct (is_done pid b (s_ev s0) (s_tr s0)) as [d|er] eqn:D; cbn [bind] in H; [|discriminate H].
  destruct d.
  - injection H as <-. cbn [s_checks s_ev s_tr]. split; [|exact D].
    exists (count (s_ev s0)), (s_checks s0). split; [reflexivity|exact Hall].
  - cbn [s_ev s_tr s_next s_checks] in H.
    destruct (tr_evaluate ff p pid false (s_ev s0) (s_tr s0)
                (fresh (s_next s0) (if first then 1%nat else m))) as [[e' t']|er] eqn:T;
      cbn [bind] in H; [|discriminate H].
    apply IH in H; [exact H|]. cbn [s_checks]. constructor; [reflexivity|exact Hall].
Qed.

Theorem gp_first_check par b gens s0 s :
  Forall (fun x => snd x = false) (s_checks s0) ->
  gp_loop ff p pid par b gens s0 = Ok s -> first_done (s_checks s) /\ is_done pid b (s_ev s) (s_tr s) = Ok true.
Proof.
  revert s0. induction gens as [|g rest IH]; intros s0 Hall H.
  - cbn [gp_loop] in H. unfold check_done in H.
    destruct (is_done pid b (s_ev s0) (s_tr s0)) as [d|er] eqn:D; cbn [bind] in H; [|discriminate H].
    destruct d; [|discriminate H].
    injection H as <-. cbn [s_checks s_ev s_tr]. split; [|exact D].
    exists (count (s_ev s0)), (s_checks s0). split; [reflexivity|exact Hall].
  - cbn [gp_loop] in H. unfold check_done in H.
    destruct (is_done pid b (s_ev s0) (s_tr s0)) as [d|er] eqn:D; cbn [bind] in H; [|discriminate H].
    destruct d.
    + injection H as <-. cbn [s_checks s_ev s_tr]. split; [|exact D].
      exists (count (s_ev s0)), (s_checks s0). split; [reflexivity|exact Hall].
    + cbn [s_ev s_tr s_next s_checks] in H.
      destruct (population ff p pid par (s_ev s0) (s_tr s0) g) as [[e' t']|er] eqn:T;
        cbn [bind] in H; [|discriminate H].
      apply IH in H; [exact H|]. cbn [s_checks]. constructor; [reflexivity|exact Hall].
Qed.

(* genetic programming.  The step is an oracle producing the successive populations [gens]; under
   "progress" (every generation contains an individual never seen before) and populations of size
   P, the search terminates within n generations and n <= total < n + P. *)
Fixpoint progressive (seen : list N) (gens : list (list N)) : Prop :=
  match gens with
  | [] => True
  | g :: t => (exists i, In i g /\ ~ In i seen) /\ progressive (g ++ seen) t
  end.


(* ------------------------------------------------------------------ *)
(* auxiliary: populations                                              *)
(* ------------------------------------------------------------------ *)
Lemma population_spec inds : forall e tr,
  tr_ok (st e) tr ->
  exists e' tr', population ff p pid false e tr inds = Ok (e', tr') /\
    tr_ok (st e') tr' /\
    (forall j, cached (st e') j <-> cached (st e) j \/ In j inds) /\
    (count e <= count e' <= count e + Z.of_nat (length inds)) /\
    ((exists j, In j inds /\ ~ cached (st e) j) -> count e + 1 <= count e').
Proof.
  induction inds as [|i t IH]; intros e tr Hok.
  - exists e, tr. split; [reflexivity|]. split; [exact Hok|]. cbn [In length].
    split; [|split].
    + intros j. split; [auto|]. intros [H|[]]; exact H.
    + lia.
    + intros (j & [] & _).
  - cbn [population].
    destruct (tr_evaluate_spec e tr [i] Hok)
      as (e1 & t1 & T & Hok1 & (Hca1 & Hcnt1 & _ & Hex1) & _).
    rewrite T. cbn [bind].
    destruct (IH e1 t1 Hok1) as (e' & t' & P' & Hok' & Hca' & Hcnt' & Hex').
    exists e', t'. split; [exact P'|]. split; [exact Hok'|].
    cbn [length] in Hcnt1. cbn [In length]. rewrite Nat2Z.inj_succ.
    split; [|split].
    + intros j. rewrite Hca', Hca1. cbn [In]. tauto.
    + lia.
    + intros (j & Hj & Hn).
      destruct (N.eq_dec j i) as [->|Hne].
      * assert (count e + 1 <= count e1) by (apply Hex1; exists i; split; [left; reflexivity|exact Hn]).
        lia.
      * destruct Hj as [Hj|Hj]; [congruence|].
        assert (count e1 + 1 <= count e').
        { apply Hex'. exists j. split; [exact Hj|]. intros Hc. apply Hca1 in Hc.
          destruct Hc as [Hc|[Hc|[]]]; [contradiction|congruence]. }
        lia.
Qed.

Lemma gp_loop_eq par b gens s :
  gp_loop ff p pid par b gens s =
  (let* (d, s1) := check_done pid b s in
   if d then Ok s1
   else match gens with
        | [] => Err OutOfFuel
        | g :: rest =>
            let* (e', t') := population ff p pid par (s_ev s1) (s_tr s1) g in
            gp_loop ff p pid par b rest (mkS e' t' (s_next s1) (s_checks s1))
        end).
Proof. destruct gens; reflexivity. Qed.

Lemma gp_gen n P : forall gens seen s,
  tr_ok (st (s_ev s)) (s_tr s) -> (forall j, cached (st (s_ev s)) j -> In j seen) ->
  progressive seen gens -> Forall (fun g => length g = P) gens ->
  count (s_ev s) < n + Z.of_nat P -> (Z.to_nat (n - count (s_ev s)) <= length gens)%nat ->
  exists s', gp_loop ff p pid false (EvalBudget n) gens s = Ok s' /\
             n <= count (s_ev s') < n + Z.of_nat P.
Proof.
  induction gens as [|g rest IH]; intros seen s Hok Hseen Hprog Hlen Hlt Hgens;
    rewrite gp_loop_eq, check_done_eval; cbn [bind];
    destruct (n <=? count (s_ev s)) eqn:D.
  - eexists; split; [reflexivity|]. cbn [s_ev]. apply Z.leb_le in D. lia.
  - apply Z.leb_gt in D. cbn [length] in Hgens. lia.
  - eexists; split; [reflexivity|]. cbn [s_ev]. apply Z.leb_le in D. lia.
  - apply Z.leb_gt in D. cbn [s_ev s_tr s_next s_checks].
    destruct (population_spec g (s_ev s) (s_tr s) Hok) as (e' & t' & P' & Hok' & Hca' & Hcnt' & Hex').
    rewrite P'. cbn [bind].
    cbn [progressive] in Hprog. destruct Hprog as [(i & Hi & Hni) Hprog].
    inversion Hlen as [|? ? Hg Hrest]; subst.
    assert (count (s_ev s) + 1 <= count e').
    { apply Hex'. exists i. split; [exact Hi|]. intros Hc. apply Hni. apply Hseen. exact Hc. }
    apply (IH (g ++ seen)); cbn [s_ev s_tr].
    + exact Hok'.
    + intros j Hj. apply Hca' in Hj. apply in_or_app. destruct Hj as [Hj|Hj]; [right; apply Hseen; exact Hj | left; exact Hj].
    + exact Hprog.
    + exact Hrest.
    + lia.
    + cbn [length] in Hgens. lia.
Qed.

Theorem gp_stops n P init gens tr0 :
  1 <= n -> (1 <= P)%nat -> fresh_tracker tr0 ->
  length init = P -> Forall (fun g => length g = P) gens ->
  progressive init gens -> (Z.to_nat n <= length gens)%nat ->
  exists s, gp_search ff p pid false (EvalBudget n) init gens tr0 = Ok s /\
            n <= count (s_ev s) < n + Z.of_nat P.
Proof.
  intros Hn HP Hfresh Hinit Hlen Hprog Hgens.
  unfold gp_search.
  destruct (population_spec init ev0 tr0 (tr_ok_fresh _ _ Hfresh))
    as (e & t & P0 & Hok & Hca & Hcnt & Hex).
  rewrite P0. cbn [bind]. cbn [ev0 count st] in Hcnt, Hex, Hca.
  assert (H1 : 1 <= count e).
  { destruct init as [|i0 rest]; [cbn [length] in Hinit; lia|].
    assert (0 + 1 <= count e); [|lia].
    apply Hex. exists i0. split; [left; reflexivity|apply cached_nil]. }
  apply (gp_gen n P gens init); cbn [s_ev s_tr].
  - exact Hok.
  - intros j Hj. apply Hca in Hj. destruct Hj as [Hj|Hj]; [exfalso; exact (cached_nil j Hj)|exact Hj].
  - exact Hprog.
  - exact Hlen.
  - lia.
  - lia.
Qed.

(* the boundary of the claim: without progress GP need not terminate (e.g. step = ElitismStep,
   which keeps returning already-evaluated individuals): however many generations are supplied the
   budget is never met *)

Lemma is_better_irrefl f : is_better f f = false.
Proof.
  unfold is_better. replace (Qle_bool (agg f) (agg f)) with true; [reflexivity|].
  symmetry. apply Qle_bool_iff. apply Qle_refl.
Qed.

Lemma gp_np_loop f cl k : forall rc chk,
  gp_loop ff p pid false (EvalBudget 2) (repeat [0%N] k)
    (mkS (mkEv [((0%N, pid), f)] 1 cl) (TSO (mkSO (Some 0%N) rc)) 0%N chk) = Err OutOfFuel.
Proof.
  induction k as [|k IH]; intros rc chk; cbn [repeat]; rewrite gp_loop_eq, check_done_eval;
    cbn [bind s_ev s_tr s_next s_checks count]; change (2 <=? 1) with false; cbv iota.
  - reflexivity.
  - cbn [population tr_evaluate]. unfold so_evaluate. cbn [eval_seq]. unfold eval_one, has_fit.
    cbn [st lookup]. rewrite key_eqb_pid. cbn [N.eqb]. cbn [bind st so_posts].
    unfold so_post. cbn [lookup so_best]. rewrite key_eqb_pid. cbn [N.eqb].
    rewrite is_better_irrefl. cbn [bind so_rec]. apply IH.
Qed.

Theorem gp_no_progress_refuted :
  forall k, gp_search ff p pid false (EvalBudget 2) [0%N] (repeat [0%N] k) (TSO so0) = Err OutOfFuel.
Proof.
  intros k. unfold gp_search.
  cbn [population tr_evaluate]. unfold so_evaluate. cbn [eval_seq]. unfold eval_one, has_fit.
  cbn [ev0 st lookup]. destruct (ff_ok 0%N) as [f Hf]. rewrite Hf.
  cbn [bind st so_posts count calls]. unfold so_post. cbn [lookup so0 so_best so_rec].
  rewrite key_eqb_pid. cbn [N.eqb]. cbn [bind].
  apply gp_np_loop.
Qed.

End Loops.

(* what the budgets mean *)
Theorem eval_budget_spec pid n e tr : is_done pid (EvalBudget n) e tr = Ok (n <=? count e).
Proof. reflexivity. Qed.

Theorem anyof_spec pid a b e tr :
  is_done pid (AnyOf a b) e tr = Ok true <->
  is_done pid a e tr = Ok true \/ (is_done pid a e tr = Ok false /\ is_done pid b e tr = Ok true).
Proof.
  cbn [is_done].
  destruct (is_done pid a e tr) as [da|er]; cbn [bind].
  - destruct da.
    + split; [intros _; left; reflexivity | intros _; reflexivity].
    + split.
      * intros H. right. split; [reflexivity|exact H].
      * intros [H|[_ H]]; [discriminate H|exact H].
  - split; [intros H; discriminate H|]. intros [H|[H _]]; discriminate H.
Qed.

Theorem target_spec pid t e tt :
  is_done pid (TargetFit t) e (TSO tt) = Ok true <->
  exists b f c rest, so_best tt = Some b /\ lookup (st e) (b, pid) = Some f /\ comps f = c :: rest /\
                     (Qabs_ (c - t) < 1 # 10000)%Q.
Proof.
  cbn [is_done]. split.
  - intros H.
    destruct (so_best tt) as [b|] eqn:B; [|discriminate H].
    destruct (lookup (st e) (b, pid)) as [f|] eqn:L; [|discriminate H].
    destruct (comps f) as [|c rest] eqn:C; [discriminate H|].
    injection H as H.
    exists b, f, c, rest. split; [reflexivity|]. split; [exact L|]. split; [exact C|].
    apply negb_true_iff in H. apply Qnot_le_lt. intros Hle.
    apply Qle_bool_iff in Hle. congruence.
  - intros (b & f & c & rest & B & L & C & Hlt).
    rewrite B, L, C. f_equal. apply negb_true_iff.
    destruct (Qle_bool (1 # 10000) (Qabs_ (c - t))) eqn:E; [|reflexivity].
    apply Qle_bool_iff in E. apply Qlt_not_le in Hlt. contradiction.
Qed.
