(* MapProofs.v — C01 / C02 / C03 for the genotype representations: whatever the genotype, a program that the GE, structured GE
   or dynamic structured GE mapping returns satisfies every refinement (hence is well typed) and respects the depth limit.
   Corollaries of the create_node theorems: the mappings ARE create_node on a gene-backed state. *)
From GE Require Import Base Tape Grammar WellTyped Synth Sat Linear DistProofs SynthFrame SynthSat SynthDepth.
Open Scope Z_scope.

Theorem mappings_sat d order g : extract d order = Ok g -> decl_ok d = true ->
  (forall fuel k dna v st, ge_map fuel g k dna = (Ok v, st) -> Sat (g_decl g) (g_reg g) [] (start_ty g) v) /\
  (forall fuel k infra v st, sge_map fuel g k infra = (Ok v, st) -> Sat (g_decl g) (g_reg g) [] (start_ty g) v) /\
  (forall fuel D s dna v st, dsge_map fuel g D s dna = (Ok v, st) -> Sat (g_decl g) (g_reg g) [] (start_ty g) v).
Proof.
  intros H Hok. repeat split.
  - intros fuel k dna v st Hm. unfold ge_map in Hm. eapply (create_sat_extracted d order g H Hok); [| |exact Hm]; reflexivity.
  - intros fuel k infra v st Hm. unfold sge_map in Hm. eapply (create_sat_extracted d order g H Hok); [| |exact Hm]; reflexivity.
  - intros fuel D s dna v st Hm. unfold dsge_map in Hm. destruct (decider_validate g (DDsge D)); [|discriminate].
    eapply (create_sat_extracted d order g H Hok); [| |exact Hm]; reflexivity.
Qed.

Theorem mappings_depth d order g k D : extract d order = Ok g -> perm_order order -> d_xdepth d = false ->
  decl_ok d = true -> decl_live d = true -> depth_limit k = Some D -> D < INF -> decider_validate g k = Ok tt ->
  (forall fuel dna v st, ge_map fuel g k dna = (Ok v, st) -> vdepth v <= D) /\
  (forall fuel infra v st, sge_map fuel g k infra = (Ok v, st) -> vdepth v <= D).
Proof.
  intros H Hperm Hxd Hok Hlive Hk HD Hval. split.
  - intros fuel dna v st Hm. unfold ge_map, start_ty in Hm.
    pose proof (create_depth_extracted d order g k D H Hperm Hxd Hok Hlive Hk HD Hval fuel (st_init g (LW KGE dna 0)) eq_refl) as Q.
    rewrite Hm in Q. exact Q.
  - intros fuel infra v st Hm. unfold sge_map, start_ty in Hm.
    pose proof (create_depth_extracted d order g k D H Hperm Hxd Hok Hlive Hk HD Hval fuel (st_init g (LW KSGE infra 0)) eq_refl) as Q.
    rewrite Hm in Q. exact Q.
Qed.

Theorem dsge_mapping_depth d order g D : extract d order = Ok g -> perm_order order -> d_xdepth d = false ->
  decl_ok d = true -> decl_live d = true -> D < INF ->
  forall fuel s dna v st, dsge_map fuel g D s dna = (Ok v, st) -> vdepth v <= D.
Proof.
  intros H Hperm Hxd Hok Hlive HD fuel s dna v st Hm. unfold dsge_map, start_ty in Hm.
  destruct (decider_validate g (DDsge D)) as [[]|] eqn:Ev; [|discriminate].
  pose proof (create_depth_extracted d order g (DDsge D) D H Hperm Hxd Hok Hlive eq_refl HD Ev fuel
                (mkSt s None (map (fun x => (key_of_sym x, O)) (r_nodes (g_reg g))) dna (r_alts (g_reg g))) eq_refl) as Q.
  rewrite Hm in Q. exact Q.
Qed.

(* ---------- tree variation ---------- *)
Section TreeOps.
Variables (d : decl) (r : rstate).

Lemma prod_of_target c c' : prod_of d r c c' -> is_abstract d (SC c') = false /\ mem_sym (SC c') (r_nodes r) = true.
Proof. induction 1; [split; assumption|assumption]. Qed.

Lemma subnodes_go k l x :
  In x ((fix go (l : list value) : list value := match l with [] => [] | y :: t => subnodes k y ++ go t end) l) ->
  exists y, In y l /\ In x (subnodes k y).
Proof.
  induction l as [|a t IH]; intro H; [destruct H|]. apply in_app_or in H. destruct H as [H|H].
  - exists a. split; [left; reflexivity|exact H].
  - destruct (IH H) as [y [Hy Hx]]. exists y. split; [right; exact Hy|exact Hx].
Qed.

(* every node of class k found inside a well-typed value is itself a well-typed program of the symbol k *)
Lemma subnodes_wt ne k :
  (forall t v, WT d r ne t v -> forall x, In x (subnodes k v) -> WT d r ne (TSym k) x) /\
  (forall ts vs, WTs d r ne ts vs -> forall y x, In y vs -> In x (subnodes k y) -> WT d r ne (TSym k) x) /\
  (forall t vs, WTall d r ne t vs -> forall y x, In y vs -> In x (subnodes k y) -> WT d r ne (TSym k) x) /\
  (forall ts v, WTany d r ne ts v -> forall x, In x (subnodes k v) -> WT d r ne (TSym k) x).
Proof.
  apply WT_mutind.
  - intros z x Hx. destruct Hx.
  - intros f x Hx. destruct Hx.
  - intros s x Hx. destruct Hx.
  - intros b x Hx. destruct Hx.
  - (* node *)
    intros c c' args p Hargs IH x Hx. cbn [subnodes] in Hx. apply in_app_or in Hx. destruct Hx as [Hx|Hx].
    + destruct (Nat.eqb c' k) eqn:E; [|destruct Hx]. apply Nat.eqb_eq in E. subst c'. destruct Hx as [<-|[]].
      destruct (prod_of_target _ _ p) as [Ha Hm]. constructor; [apply po_self; assumption|assumption].
    + destruct (subnodes_go _ _ _ Hx) as [y [Hy Hxy]]. exact (IH y x Hy Hxy).
  - (* list *)
    intros t vs Hall IH Hne x Hx. cbn [subnodes] in Hx. destruct (subnodes_go _ _ _ Hx) as [y [Hy Hxy]]. exact (IH y x Hy Hxy).
  - (* tuple *) intros ts vs Hs IH x Hx. destruct Hx.
  - (* union *) intros ts v Hany IH x Hx. exact (IH x Hx).
  - (* ann *) intros t m v Hv IH x Hx. exact (IH x Hx).
  - (* WTs nil *) intros y x Hy. destruct Hy.
  - (* WTs cons *) intros t ts v vs Hv IHv Hs IHs y x Hy Hx. destruct Hy as [<-|Hy]; [exact (IHv x Hx)|exact (IHs y x Hy Hx)].
  - (* WTall nil *) intros t y x Hy. destruct Hy.
  - (* WTall cons *) intros t v vs Hv IHv Hs IHs y x Hy Hx. destruct Hy as [<-|Hy]; [exact (IHv x Hx)|exact (IHs y x Hy Hx)].
  - (* any here *) intros t ts v Hv IH x Hx. exact (IH x Hx).
  - (* any there *) intros t ts v Hv IH x Hx. exact (IH x Hx).
Qed.
End TreeOps.

(* tree mutation and both children of a tree crossover are well-typed programs of the start symbol, provided the
   donor parent is one *)
Theorem tree_variation_wt dd order g : extract dd order = Ok g -> decl_ok dd = true ->
  forall fuel k rctx st v st', st_alts st = r_alts (g_reg g) ->
  (tree_mutate fuel g k rctx st = (Ok v, st') -> WT (g_decl g) (g_reg g) false (start_ty g) v) /\
  (forall donor, WT (g_decl g) (g_reg g) false (start_ty g) donor ->
     tree_cross_child fuel g k donor rctx st = (Ok v, st') -> WT (g_decl g) (g_reg g) false (start_ty g) v).
Proof.
  intros H Hok fuel k rctx st v st' Ha. split.
  - intro Hm. unfold tree_mutate in Hm. eapply (create_wt_extracted dd order g H Hok); [| |exact Hm]; [reflexivity|exact Ha].
  - intros donor Hd Hc. unfold tree_cross_child in Hc.
    destruct (subnodes (d_start (g_decl g)) donor) as [|o opts] eqn:Es.
    + eapply (create_wt_extracted dd order g H Hok); [| |exact Hc]; [reflexivity|exact Ha].
    + assert (Hin : In v (subnodes (d_start (g_decl g)) donor)).
      { rewrite Es. destruct k; try discriminate; unfold s_choice, on_src in Hc;
        (destruct (choice (st_src st) (o :: opts)) as [[x s']|e] eqn:Ec; [|discriminate]); inversion Hc; subst;
        eapply TapeProofs.choice_mem; eauto. }
      exact (proj1 (subnodes_wt (g_decl g) (g_reg g) false (d_start (g_decl g))) _ _ Hd v Hin).
Qed.

Corollary mappings_wt d order g : extract d order = Ok g -> decl_ok d = true ->
  (forall fuel k dna v st, ge_map fuel g k dna = (Ok v, st) -> WT (g_decl g) (g_reg g) false (start_ty g) v) /\
  (forall fuel k infra v st, sge_map fuel g k infra = (Ok v, st) -> WT (g_decl g) (g_reg g) false (start_ty g) v) /\
  (forall fuel D s dna v st, dsge_map fuel g D s dna = (Ok v, st) -> WT (g_decl g) (g_reg g) false (start_ty g) v).
Proof.
  intros H Hok. destruct (mappings_sat d order g H Hok) as [A [B C]].
  repeat split; intros; eapply (proj1 (Sat_WT (g_decl g) (g_reg g))); eauto.
Qed.

(* C10 for mapping and variation: the productions in the state after the operation are those before it *)
Theorem mappings_keep_productions fuel g :
  (forall k dna, st_alts (snd (ge_map fuel g k dna)) = r_alts (g_reg g)) /\
  (forall k infra, st_alts (snd (sge_map fuel g k infra)) = r_alts (g_reg g)) /\
  (forall D s dna, st_alts (snd (dsge_map fuel g D s dna)) = r_alts (g_reg g)) /\
  (forall k rctx st, st_alts (snd (tree_mutate fuel g k rctx st)) = st_alts st) /\
  (forall k donor rctx st, st_alts (snd (tree_cross_child fuel g k donor rctx st)) = st_alts st).
Proof.
  repeat split.
  - intros k dna. unfold ge_map. rewrite create_node_keeps. reflexivity.
  - intros k infra. unfold sge_map. rewrite create_node_keeps. reflexivity.
  - intros D s dna. unfold dsge_map. destruct (decider_validate g (DDsge D)); [rewrite create_node_keeps|]; reflexivity.
  - intros k rctx st. unfold tree_mutate. apply create_node_keeps.
  - intros k donor rctx st. unfold tree_cross_child. destruct (subnodes _ donor); [apply create_node_keeps|].
    destruct k; try reflexivity; apply keeps_on_src.
Qed.
