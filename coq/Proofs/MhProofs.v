(* MhProofs.v — C02, second clause: each refinement's own validity check (validate) accepts every value
   its generator can produce, and accepts only values satisfying the documented predicate. *)
From GE Require Import Base Tape Grammar WellTyped Synth Sat RegProofs TapeProofs DistProofs SynthFrame SynthSat.
Open Scope Z_scope.

Lemma value_eqb_refl : forall v, value_eqb v v = true.
Proof.
  fix IH 1. intro v.
  assert (Hl : forall l, (fix all2 (l1 l2 : list value) : bool :=
              match l1, l2 with [], [] => true | x :: t, y :: u => value_eqb x y && all2 t u | _, _ => false end) l l = true).
  { induction l as [|a t IHt]; [reflexivity|]. rewrite IH, IHt. reflexivity. }
  destruct v as [z|f|s|b|c args|vs|vs|]; cbn [value_eqb].
  - apply Z.eqb_refl.
  - destruct f; [apply Qeq_bool_iff; reflexivity | reflexivity].
  - induction s as [|a t IHs]; [reflexivity|]. simpl. rewrite Z.eqb_refl. exact IHs.
  - destruct b; reflexivity.
  - rewrite Nat.eqb_refl. apply Hl.
  - apply Hl.
  - apply Hl.
  - reflexivity.
Qed.

(* parameters for which the documented predicate is satisfiable (what the constructors expect) *)
Definition params_ok (m : mh) : Prop :=
  match m with
  | MIntRange lo hi => lo <= hi
  | MFloatRange lo hi => (lo <= hi)%Q
  | MListSize lo hi _ | MStringSize lo hi _ => 0 <= lo <= hi
  | MInterval minlen maxlen top => minlen <= maxlen <= top
  | _ => True
  end.

(* whatever satisfies the specification of a (non-dependent) refinement is accepted by validate *)
Ltac use_premises :=
  repeat match goal with
         | Hx : ?A -> _, Hy : ?A |- _ => specialize (Hx Hy)
         end;
  repeat match goal with Hx : _ /\ _ |- _ => destruct Hx end.

Ltac leb_solve :=
  repeat (apply andb_true_intro; split);
  try (apply Z.leb_le; lia); try (apply Qle_bool_iff; assumption); try (apply Z.eqb_eq; assumption).

Lemma chars_forallb alphabet cs : chars_in alphabet cs -> forallb (fun c => existsb (Z.eqb c) alphabet) cs = true.
Proof.
  intro H. apply forallb_forall. intros c Hc. apply existsb_exists. exists c. split; [apply H; exact Hc | apply Z.eqb_refl].
Qed.

Theorem sat_validate d r deps base m v :
  Sat d r deps (TAnn base m) v -> params_ok m -> (forall ns f, m <> MDependent ns f) -> mh_validate m v = Ok true.
Proof.
  intros H Hp Hnd. inversion H; subst; simpl in Hp |- *; use_premises; try (f_equal; leb_solve; fail).
  - f_equal. apply existsb_exists. exists z. split; [assumption | apply Z.eqb_refl].
  - f_equal. apply existsb_exists. eexists. split; [eassumption | apply Qeq_bool_iff; assumption].
  - f_equal. apply existsb_exists. exists v. split; [assumption | apply value_eqb_refl].
  - f_equal. leb_solve. apply chars_forallb; assumption.
  - f_equal. leb_solve. apply chars_forallb; assumption.
  - exfalso. eapply Hnd; reflexivity.
Qed.

(* generator / validator agreement for the refinements that generate a value directly *)
Theorem generate_validate g (Hinv : reg_inv (g_decl g) (g_reg g)) (Hdecl : decl_ok (g_decl g) = true) m gen dtys base st v st' :
  mh_generate_flat m = Some gen -> ty_ok dtys (TAnn base m) = true -> params_ok m ->
  gen st = (Ok v, st') -> mh_validate m v = Ok true.
Proof.
  intros Hg Hok Hp H.
  eapply (sat_validate (g_decl g) (g_reg g) [] base m v); [eapply (flat_sat g); eauto | exact Hp|].
  intros ns f X. subst m. simpl in Hg. discriminate.
Qed.

(* validate accepts only what the documented predicate allows *)
Definition refined (m : mh) (v : value) : Prop :=
  match m, v with
  | MIntRange lo hi, VInt z => lo <= z <= hi
  | MIntList xs, VInt z => In z xs
  | MFloatRange lo hi, VFloat (FQ q) => (lo <= q)%Q /\ (q <= hi)%Q
  | MFloatList xs, VFloat (FQ q) => exists q', In q' xs /\ (q == q')%Q
  | MVarRange opts, _ => exists o, In o opts /\ value_eqb v o = true
  | MListSize lo hi _, VList vs => lo <= zlen vs <= hi
  | MStringSize lo hi alphabet, VStr cs => lo <= zlen cs <= hi /\ chars_in alphabet cs
  | MWeightedString rows alphabet, VStr cs => zlen cs = zlen rows /\ chars_in alphabet cs
  | MInterval minlen maxlen top, VTuple [VInt a; VInt b] => minlen <= b - a <= maxlen /\ b <= top
  | _, _ => False
  end.

Lemma chars_in_of_forallb alphabet cs :
  forallb (fun c => existsb (Z.eqb c) alphabet) cs = true -> chars_in alphabet cs.
Proof.
  intros H c Hc. rewrite forallb_forall in H. specialize (H c Hc). apply existsb_exists in H.
  destruct H as [x [Hx E]]. apply Z.eqb_eq in E. subst. exact Hx.
Qed.

Theorem validate_sound m v : mh_validate m v = Ok true -> refined m v.
Proof.
  destruct m.
  - destruct v; simpl; intro H; try discriminate. inversion H as [H0].
    apply andb_prop in H0. destruct H0 as [A B]. apply Z.leb_le in A. apply Z.leb_le in B. lia.
  - destruct v; simpl; intro H; try discriminate. inversion H as [H0].
    apply existsb_exists in H0. destruct H0 as [x [Hx E]]. apply Z.eqb_eq in E. subst. exact Hx.
  - destruct v as [| [q|] | | | | | |]; simpl; intro H; try discriminate. inversion H as [H0].
    apply andb_prop in H0. destruct H0 as [A B]. split; apply Qle_bool_iff; assumption.
  - destruct v as [| [q|] | | | | | |]; simpl; intro H; try discriminate. inversion H as [H0].
    apply existsb_exists in H0. destruct H0 as [x [Hx E]]. exists x. split; [exact Hx | apply Qeq_bool_iff; exact E].
  - intro H. assert (E : existsb (value_eqb v) opts = true) by (destruct v; simpl in H; inversion H; reflexivity).
    apply existsb_exists in E. destruct v; exact E.
  - destruct v; simpl; intro H; try discriminate. inversion H as [H0].
    apply andb_prop in H0. destruct H0 as [A B]. apply Z.leb_le in A. apply Z.leb_le in B. lia.
  - destruct v; simpl; intro H; try discriminate. inversion H as [H0].
    apply andb_prop in H0. destruct H0 as [A C]. apply andb_prop in A. destruct A as [A B].
    apply Z.leb_le in A. apply Z.leb_le in B. split; [lia | apply chars_in_of_forallb; exact C].
  - destruct v; simpl; intro H; try discriminate. inversion H as [H0].
    apply andb_prop in H0. destruct H0 as [A C]. apply Z.eqb_eq in A. split; [exact A | apply chars_in_of_forallb; exact C].
  - destruct v as [| | | | | |vs|]; simpl; intro H; try discriminate.
    destruct vs as [|[a| | | | | | |] [|[b| | | | | | |] [|? ?]]]; try discriminate. inversion H as [H1].
    apply andb_prop in H1. destruct H1 as [A C]. apply andb_prop in A. destruct A as [A B].
    apply Z.leb_le in A. apply Z.leb_le in B. apply Z.leb_le in C. lia.
  - destruct v; simpl; intro H; discriminate.
Qed.
