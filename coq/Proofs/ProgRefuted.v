(* ProgRefuted.v — what is left of known finding F38 as a theorem about the model: on E -> Rec(E)<weight 1> | Leaf<weight 0> the
   progressive decider never returns a program, whatever the random source answers and however much fuel it is given
   (the implementation recurses until RecursionError). *)
From GE Require Import Base Tape Grammar WellTyped Synth TapeProofs SynthFrame WeightChoice.
Open Scope Z_scope.

Definition ex38 : decl :=
  mkDecl [ mkCls None true [] None;
           mkCls (Some 0%nat) false [TSym 0%nat] (Some 1%Q);
           mkCls (Some 0%nat) false [] (Some 0%Q) ]
         [0; 1; 2]%nat 0%nat false.
Definition g38 : grammar := match extract ex38 id_order with Ok g => g | Err _ => mkG ex38 r0 [] [] end.

Lemma f_target : prog_target g38 = Ok 2. Proof. vm_compute. reflexivity. Qed.
Lemma f_d1 : gdist_ty g38 (TSym 1%nat) = Ok 2. Proof. vm_compute. reflexivity. Qed.
Lemma f_d2 : gdist_ty g38 (TSym 2%nat) = Ok 1. Proof. vm_compute. reflexivity. Qed.
Lemma f_r1 : in_rec g38 (TSym 1%nat) = true. Proof. vm_compute. reflexivity. Qed.
Lemma f_r2 : in_rec g38 (TSym 2%nat) = false. Proof. vm_compute. reflexivity. Qed.
Lemma f_w1 : prod_weight g38 (TSym 1%nat) = (2 # 2)%Q. Proof. vm_compute. reflexivity. Qed.
Lemma f_w2 : prod_weight g38 (TSym 2%nat) = (0 # 2)%Q. Proof. vm_compute. reflexivity. Qed.
Lemma f_reg0 : is_registered g38 (SC 0%nat) = true. Proof. vm_compute. reflexivity. Qed.
Lemma f_reg1 : is_registered g38 (SC 1%nat) = true. Proof. vm_compute. reflexivity. Qed.
Lemma f_alts0 : get_alts (r_alts (g_reg g38)) 0%nat = Some [1; 2]%nat. Proof. vm_compute. reflexivity. Qed.
Lemma f_alts1 : get_alts (r_alts (g_reg g38)) 1%nat = None. Proof. vm_compute. reflexivity. Qed.
Lemma f_abs1 : is_abstract (g_decl g38) (SC 1%nat) = false. Proof. vm_compute. reflexivity. Qed.
Lemma f_fields1 : fields_of (g_decl g38) (SC 1%nat) = [TSym 0%nat]. Proof. vm_compute. reflexivity. Qed.
Opaque g38.

(* the weights for [Rec; Leaf]: whatever the context, Leaf's weight is zero *)
Lemma weights_two ctx : exists a b, prog_final_weights g38 2 ctx [TSym 1%nat; TSym 2%nat] = Ok [a; b] /\ (b == 0)%Q.
Proof.
  unfold prog_final_weights. cbn [prog_weights]. rewrite f_d1, f_d2, f_r1, f_r2, f_w1, f_w2. cbn [bind].
  destruct (forallb _ _).
  - cbn [prog_fallback]. rewrite f_d1, f_d2, f_w1, f_w2. cbn [bind]. eexists; eexists; split; [reflexivity|]. vm_compute. reflexivity.
  - eexists; eexists; split; [reflexivity|]. vm_compute. reflexivity.
Qed.

Lemma weights_leaf ctx : exists b, prog_final_weights g38 2 ctx [TSym 2%nat] = Ok [b] /\ Qeq_bool b 0 = true.
Proof.
  unfold prog_final_weights. cbn [prog_weights]. rewrite f_d2, f_r2, f_w2. cbn [bind].
  destruct (forallb _ _).
  - cbn [prog_fallback]. rewrite f_d2, f_w2. cbn [bind]. eexists; split; [reflexivity|]. vm_compute. reflexivity.
  - eexists; split; [reflexivity|]. vm_compute. reflexivity.
Qed.

Lemma acc_two a b : (b == 0)%Q -> exists T, acc_weights [a; b] = [T; T].
Proof.
  intro Hb. unfold acc_weights. cbn [accumulate map]. exists (Qtrunc ((0 + a) * 100000)).
  assert (E : Qtrunc ((0 + a + b) * 100000) = Qtrunc ((0 + a) * 100000)) by (apply Qtrunc_comp; rewrite Hb; ring).
  rewrite E. reflexivity.
Qed.

Lemma cw_first {A} s (x y : A) T r s' : choice_weighted_acc s [x; y] [T; T] = Ok (r, s') -> r = x.
Proof.
  unfold choice_weighted_acc. cbn [last_error]. destruct (randint s 0 (Z.max (T - 1) 0)) as [[v s1]|]; cbn [bind]; [|discriminate].
  cbn [select]. destruct (v <? T); intro H; inversion H; reflexivity.
Qed.

Lemma choose_is_rec key ctx st x st' : choose g38 DProg key [TSym 1%nat; TSym 2%nat] ctx st = (Ok x, st') -> x = TSym 1%nat.
Proof.
  unfold choose, bindM, lift. rewrite f_target. destruct (weights_two ctx) as [a [b [-> Hb]]].
  destruct (forallb _ [a; b]); [unfold fail; discriminate|].
  unfold on_src. destruct (choice_weighted (st_src st) [TSym 1%nat; TSym 2%nat] [a; b]) as [[y s1]|] eqn:Ec; [|discriminate].
  intro H. inversion H; subst. unfold choice_weighted in Ec. destruct (acc_two a b Hb) as [T ET]. rewrite ET in Ec.
  eapply cw_first; eauto.
Qed.

Lemma choose_leaf_fails key ctx st : choose g38 DProg key [TSym 2%nat] ctx st = (Err SynthesisException, st).
Proof.
  unfold choose, bindM, lift. rewrite f_target. destruct (weights_leaf ctx) as [b [-> Hb]].
  cbn [forallb]. rewrite Hb. reflexivity.
Qed.

Definition never_ok (f : nat) : Prop :=
  forall ctx st v st', st_alts st = r_alts (g_reg g38) -> create_node f g38 DProg (TSym 0%nat) ctx [] st <> (Ok v, st').

Lemma tp_unfold f cr g k c p rest ctx :
  try_productions (S f) cr g k c (p :: rest) ctx =
  (do* rule := choose g k (TSym c) (map TSym (p :: rest)) ctx in
   match rule with
   | TSym q => fun st =>
       match cr rule (mkCtx (c_depth ctx) (c_exp ctx + 1)) [] st with
       | (Ok r, st1) => (Ok r, st1)
       | (Err SynthesisException, st1) => try_productions f cr g k c (remove_first q (p :: rest)) ctx st1
       | (Err e, st1) => (Err e, st1)
       end
   | _ => fail TypeError
   end).
Proof. reflexivity. Qed.

Lemma never_step f : (forall f', (f' < f)%nat -> never_ok f') -> never_ok f.
Proof.
  intros IH ctx st v st' Ha H. destruct f as [|f]; [discriminate|].
  cbn [create_node] in H. rewrite f_reg0 in H. cbn [negb] in H. rewrite Ha, f_alts0 in H.
  cbn [length] in H. rewrite tp_unfold in H. cbn [map] in H. unfold bindM at 1 in H.
  destruct (choose g38 DProg (TSym 0%nat) [TSym 1%nat; TSym 2%nat] ctx st) as [[x|e] st1] eqn:Ec; [|discriminate].
  pose proof (choose_is_rec _ _ _ _ _ Ec) as ->.
  assert (Ha1 : st_alts st1 = r_alts (g_reg g38)).
  { pose proof (keeps_choose g38 DProg (TSym 0%nat) [TSym 1%nat; TSym 2%nat] ctx st) as K. rewrite Ec in K. cbn [snd] in K. congruence. }
  assert (Hrec : forall c s, st_alts s = r_alts (g_reg g38) -> forall r s', create_node f g38 DProg (TSym 1%nat) c [] s <> (Ok r, s')).
  { intros c s Hs r s' Hc. destruct f as [|f1]; [discriminate|].
    cbn [create_node] in Hc. rewrite f_reg1 in Hc. cbn [negb] in Hc. rewrite Hs, f_alts1, f_abs1, f_fields1 in Hc.
    cbn [create_fields] in Hc. unfold bindM in Hc.
    destruct (create_node f1 g38 DProg (TSym 0%nat) (mkCtx (c_depth c + 1) (c_exp c + 1)) [] s) as [[v0|e0] s0] eqn:E0; [|discriminate].
    exact (IH f1 ltac:(lia) _ _ _ _ Hs E0). }
  cbv beta match in H.
  remember (try_productions 2 (create_node f g38 DProg) g38 DProg 0%nat (remove_first 1%nat [1%nat; 2%nat]) ctx) as retry eqn:Eretry.
  destruct (create_node f g38 DProg (TSym 1%nat) (mkCtx (c_depth ctx) (c_exp ctx + 1)) [] st1) as [[r|e] st2] eqn:Er.
  - exact (Hrec _ _ Ha1 _ _ Er).
  - destruct e; cbv beta match in H;
      match goal with
      | H0 : retry _ = _ |- _ => idtac
      | H0 : (Err _, _) = (Ok _, _) |- _ => inversion H0
      end.
    (* SynthesisException: the loop retries with Leaf alone, which the decider refuses *)
    subst retry. cbn [remove_first Nat.eqb] in H. rewrite tp_unfold in H. cbn [map] in H. unfold bindM at 1 in H.
    rewrite choose_leaf_fails in H. inversion H.
Qed.

Theorem progressive_never_returns : forall f, never_ok f.
Proof.
  intro f. induction f as [f IH] using (well_founded_induction lt_wf). apply never_step. exact IH.
Qed.
