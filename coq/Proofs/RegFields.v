(* RegFields.v — the registration walk of Grammar.register_type is closed under field types: when it ends,
   every symbol mentioned by a field (through lists, tuples, unions, annotations) of a registered concrete
   class is itself registered.  Same shape as the pending-set argument of RegProofs.reg_closed. *)
From GE Require Import Base Grammar RegProofs.

Section RegFields.
Variable d : decl.

Definition freg (s : rstate) (t : ty) : Prop := forall sy, In sy (explode t) -> mem_sym sy (r_nodes s) = true.

Definition fclosed (X : list nat) (s : rstate) : Prop :=
  forall c, mem_sym (SC c) (r_nodes s) = true -> ~ In c X -> is_abstract d (SC c) = false ->
  forall a, In a (fields_of d (SC c)) -> freg s a.

Definition rge_ok (rg : ty -> rstate -> res rstate) : Prop :=
  forall t s s', rg t s = Ok s' -> reg_inv d s -> freg s' t.
Definition rgf_ok (rg : ty -> rstate -> res rstate) : Prop :=
  forall t s s' X, rg t s = Ok s' -> reg_inv d s -> fclosed X s -> fclosed X s'.

Lemma freg_ext s s' t : reg_ext s s' -> freg s t -> freg s' t.
Proof. intros He H sy Hin. apply (re_nodes _ _ He). apply H. exact Hin. Qed.

Lemma freg_nodes s s' t : r_nodes s' = r_nodes s -> freg s t -> freg s' t.
Proof. intros Hn H sy Hin. rewrite Hn. apply H. exact Hin. Qed.

Lemma fclosed_nodes X s s' : r_nodes s' = r_nodes s -> fclosed X s -> fclosed X s'.
Proof.
  intros Hn H c Hm Hx Ha a Hin. rewrite Hn in Hm. apply (freg_nodes s s' a Hn). eapply H; eauto.
Qed.

Lemma explode_go ts sy :
  In sy ((fix go (l : list ty) : list sym := match l with [] => [] | x :: r => explode x ++ go r end) ts) ->
  exists a, In a ts /\ In sy (explode a).
Proof.
  induction ts as [|x r IH]; intro H; [destruct H|].
  apply in_app_or in H. destruct H as [H|H].
  - exists x. split; [left; reflexivity|exact H].
  - destruct (IH H) as [a [Ha Hs]]. exists a. split; [right; exact Ha|exact Hs].
Qed.

Lemma reg_list_freg rg (Hrg : rg_ok d rg) (He : rge_ok rg) : forall ts s s',
  reg_list rg ts s = Ok s' -> reg_inv d s -> forall a, In a ts -> freg s' a.
Proof.
  induction ts as [|x r IHr]; intros s s' H Hi a Hin; [destruct Hin|].
  simpl in H. destruct (rg x s) as [s1|e] eqn:E; simpl in H; [|discriminate].
  destruct (Hrg _ _ _ E Hi) as [Hi1 _].
  destruct Hin as [<- | Hin].
  - destruct (reg_list_post d rg Hrg _ _ _ H Hi1) as [_ He1]. eapply freg_ext; [exact He1|]. eapply He; eauto.
  - eapply IHr; eauto.
Qed.

Theorem reg_explode : forall fuel, rge_ok (reg fuel d).
Proof.
  induction fuel as [|f IH]; intros t s s' H Hi; [discriminate|].
  simpl in H. pose proof (reg_ok d f) as Hrg.
  destruct t as [b|c|t'|ts|ts|t' m].
  - intros sy Hin. cbn [explode] in Hin. destruct Hin as [<- | []].
    destruct (mem_sym (SB b) (r_nodes s)) eqn:Em; [inversion H; subst; exact Em|].
    destruct (reg_new_post d _ Hrg _ _ _ Em Hi H) as [_ [_ Hm]]. exact Hm.
  - intros sy Hin. cbn [explode] in Hin. destruct Hin as [<- | []].
    destruct (mem_sym (SC c) (r_nodes s)) eqn:Em; [inversion H; subst; exact Em|].
    destruct (reg_new_post d _ Hrg _ _ _ Em Hi H) as [_ [_ Hm]]. exact Hm.
  - intros sy Hin. cbn [explode] in Hin. eapply IH; eauto.
  - intros sy Hin. cbn [explode] in Hin. destruct (explode_go _ _ Hin) as [a [Ha Hs]].
    eapply (reg_list_freg _ Hrg IH); eauto.
  - intros sy Hin. cbn [explode] in Hin. destruct (explode_go _ _ Hin) as [a [Ha Hs]].
    eapply (reg_list_freg _ Hrg IH); eauto.
  - intros sy Hin. cbn [explode] in Hin. eapply IH; eauto.
Qed.

Lemma reg_list_fclosed rg (Hrg : rg_ok d rg) (Hc : rgf_ok rg) : forall ts s s' X,
  reg_list rg ts s = Ok s' -> reg_inv d s -> fclosed X s -> fclosed X s'.
Proof.
  induction ts as [|x r IHr]; intros s s' X H Hi Hcl; simpl in H.
  - inversion H; subst; exact Hcl.
  - destruct (rg x s) as [s1|e] eqn:E; simpl in H; [|discriminate].
    destruct (Hrg _ _ _ E Hi) as [Hi1 _].
    apply (IHr _ _ _ H Hi1). apply (Hc _ _ _ _ E Hi Hcl).
Qed.

Lemma reg_subs_fclosed rg (Hrg : rg_ok d rg) (Hc : rgf_ok rg) sy : forall l s s' X,
  reg_subs rg d sy l s = Ok s' -> reg_inv d s -> fclosed X s -> fclosed X s'.
Proof.
  induction l as [|st r IHr]; intros s s' X H Hi Hcl; simpl in H.
  - inversion H; subst; exact Hcl.
  - destruct sy as [b|c].
    + simpl in H. eapply IHr; eassumption.
    + destruct (subclass d st c).
      * destruct (rg (TSym st) s) as [s1|e] eqn:E; simpl in H; [|discriminate].
        destruct (Hrg _ _ _ E Hi) as [Hi1 _].
        apply (IHr _ _ _ H Hi1). apply (Hc _ _ _ _ E Hi Hcl).
      * simpl in H. eapply IHr; eassumption.
Qed.

Lemma fclosed_add_pending X s c : fclosed X s -> fclosed (c :: X) (set_nodes s (r_nodes s ++ [SC c])).
Proof.
  intros Hcl c0 Hm Hx Ha a Hin sy Hsy. simpl in Hm. rewrite mem_sym_app in Hm. simpl in Hm.
  assert (c0 <> c) by (intro; subst; apply Hx; left; reflexivity).
  assert (Nat.eqb c0 c = false) as E by (apply Nat.eqb_neq; assumption).
  rewrite E in Hm. simpl in Hm. rewrite orb_false_r in Hm.
  assert (~ In c0 X) by (intro; apply Hx; right; assumption).
  simpl. rewrite mem_sym_app. rewrite (Hcl c0 Hm H0 Ha a Hin sy Hsy). reflexivity.
Qed.

Lemma fclosed_add_base X s b : fclosed X s -> fclosed X (set_nodes s (r_nodes s ++ [SB b])).
Proof.
  intros Hcl c0 Hm Hx Ha a Hin sy Hsy. simpl in Hm. rewrite mem_sym_app in Hm. simpl in Hm.
  rewrite orb_false_r in Hm. simpl. rewrite mem_sym_app. rewrite (Hcl c0 Hm Hx Ha a Hin sy Hsy). reflexivity.
Qed.

Lemma reg_new_fclosed rg (Hrg : rg_ok d rg) (He : rge_ok rg) (Hc : rgf_ok rg) sy s s' X :
  mem_sym sy (r_nodes s) = false -> reg_inv d s -> fclosed X s -> reg_new rg d sy s = Ok s' -> fclosed X s'.
Proof.
  intros Em Hi Hcl H. unfold reg_new in H.
  destruct (reg_parent rg d sy _) as [s2|e] eqn:E2; cbn [bind] in H; [|discriminate].
  destruct (reg_parent_post d rg Hrg sy s s2 Em Hi E2) as [Hi2 [He2 Hm2]].
  destruct (reg_list rg _ s2) as [s3|e] eqn:E3; cbn [bind] in H; [|discriminate].
  destruct (reg_list_post d rg Hrg _ _ _ E3 Hi2) as [Hi3 He3].
  destruct (reg_subs rg d sy (d_considered d) s3) as [s4|e] eqn:E4; cbn [bind] in H; [|discriminate].
  destruct (reg_subs_post d rg Hrg _ _ _ _ E4 Hi3) as [Hi4 He4].
  assert (Hn' : r_nodes s' = r_nodes s4).
  { match type of H with context [if ?b then _ else _] => destruct b end; inversion H; subst s'; reflexivity. }
  apply (fclosed_nodes X s4 s' Hn').
  destruct sy as [b|c].
  - assert (Hcl2 : fclosed X s2).
    { unfold reg_parent in E2. inversion E2; subst. apply fclosed_add_base; exact Hcl. }
    eapply reg_subs_fclosed; try eassumption. eapply reg_list_fclosed; eassumption.
  - pose (s1 := mkR (r_nodes s ++ [SC c]) (r_alts s) (r_term s) (r_nonterm s)).
    fold s1 in E2.
    assert (Hi1 : reg_inv d s1) by (apply (reg_inv_add_node d s (SC c)); exact Hi).
    assert (Hcl1 : fclosed (c :: X) s1) by (apply (fclosed_add_pending X s c); exact Hcl).
    assert (Hcl2 : fclosed (c :: X) s2).
    { unfold reg_parent in E2.
      destruct (get_cls d c) as [k|] eqn:Ek; [|discriminate].
      destruct (c_parent k) as [p|] eqn:Ep.
      - destruct (rg (TSym p) s1) as [s'0|e] eqn:Er; cbn [bind] in E2; [|discriminate].
        destruct (is_abstract d (SC p)); [|discriminate]. inversion E2; subst s2; clear E2.
        pose proof (Hc _ _ _ _ Er Hi1 Hcl1) as Hcl'.
        eapply fclosed_nodes; [|exact Hcl']. reflexivity.
      - inversion E2; subst s2. exact Hcl1. }
    assert (Hcl4 : fclosed (c :: X) s4).
    { eapply reg_subs_fclosed; try eassumption. eapply reg_list_fclosed; eassumption. }
    intros c0 Hm Hx Ha a Hin.
    destruct (Nat.eq_dec c0 c) as [-> | Hne].
    + rewrite Ha in E3. cbn [negb] in E3.
      eapply freg_ext; [exact He4|]. eapply (reg_list_freg rg Hrg He); eauto.
    + assert (Hx' : ~ In c0 (c :: X)) by (intros [? | ?]; [congruence | tauto]).
      eapply Hcl4; eauto.
Qed.

Theorem reg_fclosed_ok : forall fuel, rgf_ok (reg fuel d).
Proof.
  induction fuel as [|f IH]; intros t s s' X H Hi Hcl; [discriminate|].
  simpl in H. pose proof (reg_ok d f) as Hrg. pose proof (reg_explode f) as Hex.
  destruct t as [b|c|t'|ts|ts|t' m].
  - destruct (mem_sym (SB b) (r_nodes s)) eqn:Em; [inversion H; subst; exact Hcl|].
    eapply reg_new_fclosed; eassumption.
  - destruct (mem_sym (SC c) (r_nodes s)) eqn:Em; [inversion H; subst; exact Hcl|].
    eapply reg_new_fclosed; eassumption.
  - eapply IH; eassumption.
  - eapply reg_list_fclosed; eassumption.
  - eapply reg_list_fclosed; eassumption.
  - eapply IH; eassumption.
Qed.

Corollary reg_result_fclosed fuel t r : reg fuel d t r0 = Ok r -> fclosed [] r.
Proof.
  intro H. apply (reg_fclosed_ok fuel t r0 r [] H (reg_inv_r0 d)).
  intros c Hm. simpl in Hm. discriminate.
Qed.

End RegFields.
