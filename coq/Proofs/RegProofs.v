(* RegProofs.v — invariants of the registration walk (Grammar.register_type) of Model/Grammar.v:
   the productions recorded for an abstract type are duplicate-free, are direct subclasses of it,
   are registered symbols; keys are unique; a class occurs in at most one rule.  Used by C05
   (alternatives) and C19 (weights are normalised rule by rule over disjoint rules). *)
From GE Require Import Base Grammar.
Open Scope Z_scope.

Definition parent_of (d : decl) (c : nat) : option nat :=
  match get_cls d c with Some k => c_parent k | None => None end.

Lemma sym_eqb_eq a b : sym_eqb a b = true <-> a = b.
Proof.
  destruct a as [x|x], b as [y|y]; simpl; split; intro H; try discriminate; try congruence.
  - destruct x, y; simpl in H; congruence.
  - inversion H; subst; destruct y; reflexivity.
  - apply Nat.eqb_eq in H; congruence.
  - inversion H; subst; apply Nat.eqb_refl.
Qed.

Lemma sym_eqb_refl a : sym_eqb a a = true.
Proof. apply sym_eqb_eq; reflexivity. Qed.

Lemma mem_sym_In s l : mem_sym s l = true <-> In s l.
Proof.
  unfold mem_sym; rewrite existsb_exists; split.
  - intros [x [Hin He]]; apply sym_eqb_eq in He; subst; exact Hin.
  - intro H; exists s; split; [exact H | apply sym_eqb_refl].
Qed.

Lemma mem_sym_app s l1 l2 : mem_sym s (l1 ++ l2) = mem_sym s l1 || mem_sym s l2.
Proof. unfold mem_sym; apply existsb_app. Qed.

Lemma NoDup_app_intro_single {A} (l : list A) (x : A) : NoDup l -> ~ In x l -> NoDup (l ++ [x]).
Proof.
  induction l as [|a t IH]; simpl; intros Hn Hx.
  - constructor; [simpl; tauto | constructor].
  - inversion Hn; subst. constructor.
    + intro Hin. apply in_app_or in Hin. destruct Hin as [Hin | [Hin | []]]; [tauto | subst; tauto].
    + apply IH; tauto.
Qed.

(* ---------- add_alt / get_alts ---------- *)
Lemma get_add_alt alts p c q :
  get_alts (add_alt alts p c) q =
  if Nat.eqb q p then Some ((match get_alts alts p with Some l => l | None => [] end) ++ [c])
  else get_alts alts q.
Proof.
  induction alts as [|[k l] t IH]; simpl.
  - destruct (Nat.eqb q p) eqn:E; [reflexivity | reflexivity].
  - destruct (Nat.eqb p k) eqn:Epk.
    + apply Nat.eqb_eq in Epk; subst k. simpl.
      destruct (Nat.eqb q p) eqn:E; reflexivity.
    + simpl. destruct (Nat.eqb q k) eqn:Eqk.
      * apply Nat.eqb_eq in Eqk; subst k.
        destruct (Nat.eqb q p) eqn:E.
        -- apply Nat.eqb_eq in E; subst; rewrite Nat.eqb_refl in Epk; discriminate.
        -- reflexivity.
      * exact IH.
Qed.

Lemma keys_add_alt alts p c :
  map fst (add_alt alts p c) = if existsb (Nat.eqb p) (map fst alts) then map fst alts else map fst alts ++ [p].
Proof.
  induction alts as [|[k l] t IH]; simpl; [reflexivity|].
  destruct (Nat.eqb p k) eqn:E; simpl.
  - apply Nat.eqb_eq in E; subst; reflexivity.
  - rewrite IH. destruct (existsb (Nat.eqb p) (map fst t)); reflexivity.
Qed.

Lemma nodup_keys_add_alt alts p c : NoDup (map fst alts) -> NoDup (map fst (add_alt alts p c)).
Proof.
  intro H. rewrite keys_add_alt.
  destruct (existsb (Nat.eqb p) (map fst alts)) eqn:E; [exact H|].
  apply NoDup_app_intro_single; [exact H|].
  intro Hin. assert (existsb (Nat.eqb p) (map fst alts) = true) as X.
  { apply existsb_exists; exists p; split; [exact Hin | apply Nat.eqb_refl]. }
  congruence.
Qed.

Lemma In_get_alts alts p l : NoDup (map fst alts) -> (In (p, l) alts <-> get_alts alts p = Some l).
Proof.
  induction alts as [|[k m] t IH]; simpl; intro H.
  - split; [tauto | discriminate].
  - inversion H as [|? ? Hn Hd]; subst.
    destruct (Nat.eqb p k) eqn:E.
    + apply Nat.eqb_eq in E; subst k. split.
      * intros [X | X]; [congruence|]. exfalso; apply Hn. apply (in_map fst) in X; exact X.
      * intro X; left; congruence.
    + split.
      * intros [X | X]; [inversion X; subst; rewrite Nat.eqb_refl in E; discriminate|].
        apply IH; assumption.
      * intro X; right; apply IH; assumption.
Qed.

(* ---------- the invariant ---------- *)
Record reg_inv (d : decl) (s : rstate) : Prop := {
  ri_keys : NoDup (map fst (r_alts s));
  ri_nodup : forall p l, get_alts (r_alts s) p = Some l -> NoDup l;
  ri_mem : forall p l c, get_alts (r_alts s) p = Some l -> In c l ->
            mem_sym (SC c) (r_nodes s) = true /\ parent_of d c = Some p /\ is_abstract d (SC p) = true;
  ri_key_reg : forall p l, get_alts (r_alts s) p = Some l -> mem_sym (SC p) (r_nodes s) = true;
  ri_nonempty : forall p l, get_alts (r_alts s) p = Some l -> l <> []
}.

(* what a registration call may change *)
Record reg_ext (s s' : rstate) : Prop := {
  re_nodes : forall x, mem_sym x (r_nodes s) = true -> mem_sym x (r_nodes s') = true;
  re_alts : forall p l' c, get_alts (r_alts s') p = Some l' -> In c l' ->
             (exists l, get_alts (r_alts s) p = Some l /\ In c l) \/ mem_sym (SC c) (r_nodes s) = false;
  re_keep : forall p l c, get_alts (r_alts s) p = Some l -> In c l ->
             exists l', get_alts (r_alts s') p = Some l' /\ In c l';
  re_nonterm : forall x, mem_sym x (r_nonterm s) = true -> mem_sym x (r_nonterm s') = true
}.

Lemma reg_ext_refl s : reg_ext s s.
Proof. constructor; intros; eauto. Qed.

Lemma reg_ext_trans s1 s2 s3 : reg_ext s1 s2 -> reg_ext s2 s3 -> reg_ext s1 s3.
Proof.
  intros [N1 A1 K1 T1] [N2 A2 K2 T2]; constructor; [| | |intros; eauto].
  - intros; eauto.
  - intros p l' c Hg Hin. destruct (A2 _ _ _ Hg Hin) as [[l [Hg2 Hin2]] | Hf].
    + eauto.
    + right. destruct (mem_sym (SC c) (r_nodes s1)) eqn:E; [|reflexivity].
      apply N1 in E; congruence.
  - intros p l c Hg Hin. destruct (K1 _ _ _ Hg Hin) as [l' [Hg' Hin']]. eauto.
Qed.

Definition set_nodes (s : rstate) (n : list sym) : rstate := mkR n (r_alts s) (r_term s) (r_nonterm s).

Section RegInv.
Variable d : decl.

(* what a call rg t must guarantee *)
Definition reg_post (t : ty) (s s' : rstate) : Prop :=
  reg_inv d s' /\ reg_ext s s' /\
  (forall sy, sym_of_ty_head t = Some sy -> mem_sym sy (r_nodes s') = true).

Definition rg_ok (rg : ty -> rstate -> res rstate) : Prop :=
  forall t s s', rg t s = Ok s' -> reg_inv d s -> reg_post t s s'.

Lemma reg_list_post rg (Hrg : rg_ok rg) : forall ts s s',
  reg_list rg ts s = Ok s' -> reg_inv d s -> reg_inv d s' /\ reg_ext s s'.
Proof.
  induction ts as [|x r IHr]; intros s s' H Hi; simpl in H.
  - inversion H; subst; split; [exact Hi | apply reg_ext_refl].
  - destruct (rg x s) as [s1|e] eqn:E; simpl in H; [|discriminate].
    destruct (Hrg _ _ _ E Hi) as [Hi1 [He1 _]].
    destruct (IHr _ _ H Hi1) as [Hi2 He2].
    split; [exact Hi2 | eapply reg_ext_trans; eassumption].
Qed.

Lemma reg_subs_post rg (Hrg : rg_ok rg) sy : forall l s s',
  reg_subs rg d sy l s = Ok s' -> reg_inv d s -> reg_inv d s' /\ reg_ext s s'.
Proof.
  induction l as [|st r IHr]; intros s s' H Hi; simpl in H.
  - inversion H; subst; split; [exact Hi | apply reg_ext_refl].
  - destruct sy as [b|c].
    + simpl in H. apply IHr; assumption.
    + destruct (subclass d st c).
      * destruct (rg (TSym st) s) as [s1|e] eqn:E; simpl in H; [|discriminate].
        destruct (Hrg _ _ _ E Hi) as [Hi1 [He1 _]].
        destruct (IHr _ _ H Hi1) as [Hi2 He2].
        split; [exact Hi2 | eapply reg_ext_trans; eassumption].
      * simpl in H. apply IHr; assumption.
Qed.

(* changing only the terminal / non-terminal sets *)
Lemma reg_inv_same s s' : r_nodes s' = r_nodes s -> r_alts s' = r_alts s -> reg_inv d s -> reg_inv d s'.
Proof. intros Hn Ha [K N M R E]; constructor; rewrite ?Hn, ?Ha; assumption. Qed.

Lemma reg_ext_same s s' : r_nodes s' = r_nodes s -> r_alts s' = r_alts s ->
  (forall x, mem_sym x (r_nonterm s) = true -> mem_sym x (r_nonterm s') = true) -> reg_ext s s'.
Proof. intros Hn Ha Ht; constructor; rewrite ?Hn, ?Ha; intros; eauto. Qed.

Lemma reg_inv_add_node s sy : reg_inv d s -> reg_inv d (set_nodes s (r_nodes s ++ [sy])).
Proof.
  intros [K N M R E]; constructor; simpl; try assumption.
  - intros p l c Hg Hin. destruct (M _ _ _ Hg Hin) as [A B]. split; [|exact B].
    rewrite mem_sym_app, A; reflexivity.
  - intros p l Hg. rewrite mem_sym_app, (R _ _ Hg); reflexivity.
Qed.

Lemma reg_ext_add_node s sy : reg_ext s (set_nodes s (r_nodes s ++ [sy])).
Proof.
  constructor; simpl; intros; eauto.
  rewrite mem_sym_app, H; reflexivity.
Qed.

Lemma mem_last sy l : mem_sym sy (l ++ [sy]) = true.
Proof. rewrite mem_sym_app; simpl. rewrite sym_eqb_refl. apply orb_true_r. Qed.

(* the parent step, relative to the state [s] in which [sy] was still fresh *)
Lemma reg_parent_post rg (Hrg : rg_ok rg) sy s s2 :
  mem_sym sy (r_nodes s) = false -> reg_inv d s ->
  reg_parent rg d sy (set_nodes s (r_nodes s ++ [sy])) = Ok s2 ->
  reg_inv d s2 /\ reg_ext s s2 /\ mem_sym sy (r_nodes s2) = true.
Proof.
  intros Em Hi H.
  set (s1 := set_nodes s (r_nodes s ++ [sy])) in *.
  assert (Hi1 : reg_inv d s1) by (apply reg_inv_add_node; exact Hi).
  assert (He1 : reg_ext s s1) by (apply reg_ext_add_node).
  assert (Hm1 : mem_sym sy (r_nodes s1) = true) by apply mem_last.
  unfold reg_parent in H. destruct sy as [b|c].
  { inversion H; subst. auto. }
  destruct (get_cls d c) as [k|] eqn:Ek; [|discriminate].
  destruct (c_parent k) as [p|] eqn:Ep; [|inversion H; subst; auto].
  destruct (rg (TSym p) s1) as [s'|e] eqn:Er; cbn [bind] in H; [|discriminate].
  destruct (Hrg _ _ _ Er Hi1) as [Hi' [He' Hh]].
  destruct (is_abstract d (SC p)) eqn:Eabs; [|discriminate].
  inversion H; subst s2; clear H.
  assert (Hpar : parent_of d c = Some p) by (unfold parent_of; rewrite Ek; exact Ep).
  assert (Hpreg : mem_sym (SC p) (r_nodes s') = true) by (apply Hh; reflexivity).
  assert (Hcreg : mem_sym (SC c) (r_nodes s') = true) by (apply (re_nodes _ _ He'); exact Hm1).
  assert (Hfresh : forall l, get_alts (r_alts s') p = Some l -> ~ In c l).
  { intros l Hg Hin. destruct (re_alts _ _ He' _ _ _ Hg Hin) as [[l0 [Hg0 Hin0]] | Hf].
    - simpl in Hg0. destruct (ri_mem _ _ Hi _ _ _ Hg0 Hin0) as [X _]. congruence.
    - congruence. }
  split; [|split].
  - constructor; simpl.
    + apply nodup_keys_add_alt; apply (ri_keys _ _ Hi').
    + intros q l Hg. rewrite get_add_alt in Hg.
      destruct (Nat.eqb q p) eqn:Eq.
      * inversion Hg; subst; clear Hg.
        destruct (get_alts (r_alts s') p) as [l0|] eqn:El0.
        -- apply NoDup_app_intro_single; [apply (ri_nodup _ _ Hi' _ _ El0) | apply Hfresh; reflexivity].
        -- simpl. constructor; [simpl; tauto | constructor].
      * apply (ri_nodup _ _ Hi' _ _ Hg).
    + intros q l c0 Hg Hin. rewrite get_add_alt in Hg.
      destruct (Nat.eqb q p) eqn:Eq.
      * apply Nat.eqb_eq in Eq; subst q. inversion Hg; subst; clear Hg.
        apply in_app_or in Hin. destruct Hin as [Hin | [Hin | []]].
        -- destruct (get_alts (r_alts s') p) as [l0|] eqn:El0; [|destruct Hin].
           apply (ri_mem _ _ Hi' _ _ _ El0 Hin).
        -- subst c0. auto.
      * apply (ri_mem _ _ Hi' _ _ _ Hg Hin).
    + intros q l Hg. rewrite get_add_alt in Hg.
      destruct (Nat.eqb q p) eqn:Eq.
      * apply Nat.eqb_eq in Eq; subst q. exact Hpreg.
      * apply (ri_key_reg _ _ Hi' _ _ Hg).
    + intros q l Hg. rewrite get_add_alt in Hg.
      destruct (Nat.eqb q p) eqn:Eq.
      * inversion Hg; subst. intro X. apply app_eq_nil in X. destruct X; discriminate.
      * apply (ri_nonempty _ _ Hi' _ _ Hg).
  - constructor; simpl.
    + intros x Hx. apply (re_nodes _ _ He'). apply (re_nodes _ _ He1). exact Hx.
    + intros q l' c0 Hg Hin. rewrite get_add_alt in Hg.
      assert (Hold : forall l0, get_alts (r_alts s') q = Some l0 -> In c0 l0 ->
                (exists l, get_alts (r_alts s) q = Some l /\ In c0 l) \/ mem_sym (SC c0) (r_nodes s) = false).
      { intros l0 Hg0 Hin0. destruct (re_alts _ _ He' _ _ _ Hg0 Hin0) as [X | X]; [left; exact X|].
        right. destruct (mem_sym (SC c0) (r_nodes s)) eqn:E; [|reflexivity].
        apply (re_nodes _ _ He1) in E. congruence. }
      destruct (Nat.eqb q p) eqn:Eq.
      * apply Nat.eqb_eq in Eq; subst q. inversion Hg; subst; clear Hg.
        apply in_app_or in Hin. destruct Hin as [Hin | [Hin | []]].
        -- destruct (get_alts (r_alts s') p) as [l0|] eqn:El0; [|destruct Hin].
           eapply Hold; [reflexivity | exact Hin].
        -- subst c0. right. exact Em.
      * eapply Hold; eassumption.
    + intros q l c0 Hg Hin.
      destruct (re_keep _ _ He' q l c0 Hg Hin) as [l' [Hg' Hin']].
      rewrite get_add_alt. destruct (Nat.eqb q p) eqn:Eq.
      * apply Nat.eqb_eq in Eq; subst q. rewrite Hg'. eexists; split; [reflexivity|].
        apply in_or_app; left; exact Hin'.
      * eauto.
    + intros x Hx. apply (re_nonterm _ _ He'). apply (re_nonterm _ _ He1). exact Hx.
  - simpl. exact Hcreg.
Qed.

Lemma reg_new_post rg (Hrg : rg_ok rg) sy s s' :
  mem_sym sy (r_nodes s) = false -> reg_inv d s -> reg_new rg d sy s = Ok s' ->
  reg_inv d s' /\ reg_ext s s' /\ mem_sym sy (r_nodes s') = true.
Proof.
  intros Em Hi H. unfold reg_new in H.
  destruct (reg_parent rg d sy _) as [s2|e] eqn:E2; simpl in H; [|discriminate].
  destruct (reg_parent_post rg Hrg sy s s2 Em Hi E2) as [Hi2 [He2 Hm2]].
  destruct (reg_list rg _ s2) as [s3|e] eqn:E3; simpl in H; [|discriminate].
  destruct (reg_list_post rg Hrg _ _ _ E3 Hi2) as [Hi3 He3].
  destruct (reg_subs rg d sy (d_considered d) s3) as [s4|e] eqn:E4; simpl in H; [|discriminate].
  destruct (reg_subs_post rg Hrg _ _ _ _ E4 Hi3) as [Hi4 He4].
  assert (He : reg_ext s s4) by (eapply reg_ext_trans; [|exact He4]; eapply reg_ext_trans; eassumption).
  assert (Hm : mem_sym sy (r_nodes s4) = true) by (apply (re_nodes _ _ He4), (re_nodes _ _ He3); exact Hm2).
  inversion H; subst s'; clear H.
  destruct (negb (is_abstract d sy) && _).
  - split; [|split].
    + eapply reg_inv_same with (s := s4); try reflexivity; exact Hi4.
    + eapply reg_ext_trans; [exact He|]. apply reg_ext_same; try reflexivity. intros x Hx; exact Hx.
    + exact Hm.
  - split; [|split].
    + eapply reg_inv_same with (s := s4); try reflexivity; exact Hi4.
    + eapply reg_ext_trans; [exact He|]. apply reg_ext_same; try reflexivity.
      intros x Hx; simpl. rewrite mem_sym_app, Hx; reflexivity.
    + exact Hm.
Qed.

Theorem reg_ok : forall fuel, rg_ok (reg fuel d).
Proof.
  induction fuel as [|f IH]; intros t s s' H Hi; [discriminate|].
  simpl in H.
  destruct t as [b|c|t'|ts|ts|t' m].
  - destruct (mem_sym (SB b) (r_nodes s)) eqn:Em.
    + inversion H; subst. split; [exact Hi|]. split; [apply reg_ext_refl|].
      intros sy Hs; inversion Hs; subst; exact Em.
    + destruct (reg_new_post _ IH _ _ _ Em Hi H) as [A [B C]].
      split; [exact A|]. split; [exact B|]. intros sy Hs; inversion Hs; subst; exact C.
  - destruct (mem_sym (SC c) (r_nodes s)) eqn:Em.
    + inversion H; subst. split; [exact Hi|]. split; [apply reg_ext_refl|].
      intros sy Hs; inversion Hs; subst; exact Em.
    + destruct (reg_new_post _ IH _ _ _ Em Hi H) as [A [B C]].
      split; [exact A|]. split; [exact B|]. intros sy Hs; inversion Hs; subst; exact C.
  - destruct (IH _ _ _ H Hi) as [A [B _]]. split; [exact A|]. split; [exact B|]. intros sy Hs; discriminate.
  - destruct (reg_list_post _ IH _ _ _ H Hi) as [A B]. split; [exact A|]. split; [exact B|]. intros sy Hs; discriminate.
  - destruct (reg_list_post _ IH _ _ _ H Hi) as [A B]. split; [exact A|]. split; [exact B|]. intros sy Hs; discriminate.
  - destruct (IH _ _ _ H Hi) as [A [B _]]. split; [exact A|]. split; [exact B|]. intros sy Hs; discriminate.
Qed.

Lemma reg_inv_r0 : reg_inv d r0.
Proof. constructor; simpl; intros; try discriminate. constructor. Qed.

(* the registered productions of every analysed grammar *)
Corollary reg_result_inv fuel t r : reg fuel d t r0 = Ok r -> reg_inv d r.
Proof. intro H. apply (reg_ok fuel t r0 r H reg_inv_r0). Qed.

(* ---------- completeness facts, with a set X of symbols whose registration is still in progress ---------- *)
Definition closed_at (s : rstate) (c : nat) : Prop :=
  (forall p, parent_of d c = Some p -> exists l, get_alts (r_alts s) p = Some l /\ In c l) /\
  (is_abstract d (SC c) = false -> fields_of d (SC c) <> [] -> mem_sym (SC c) (r_nonterm s) = true).

Definition reg_closed (X : list nat) (s : rstate) : Prop :=
  forall c, mem_sym (SC c) (r_nodes s) = true -> ~ In c X -> closed_at s c.

Lemma closed_at_ext s s' c : reg_ext s s' -> closed_at s c -> closed_at s' c.
Proof.
  intros He [A B]. split.
  - intros p Hp. destruct (A p Hp) as [l [Hg Hin]]. apply (re_keep _ _ He _ _ _ Hg Hin).
  - intros H1 H2. apply (re_nonterm _ _ He). apply B; assumption.
Qed.

Definition rgc_ok (rg : ty -> rstate -> res rstate) : Prop :=
  forall t s s' X, rg t s = Ok s' -> reg_inv d s -> reg_closed X s -> reg_closed X s'.

Lemma reg_list_closed rg (Hrg : rg_ok rg) (Hc : rgc_ok rg) : forall ts s s' X,
  reg_list rg ts s = Ok s' -> reg_inv d s -> reg_closed X s -> reg_closed X s'.
Proof.
  induction ts as [|x r IHr]; intros s s' X H Hi Hcl; simpl in H.
  - inversion H; subst; exact Hcl.
  - destruct (rg x s) as [s1|e] eqn:E; simpl in H; [|discriminate].
    destruct (Hrg _ _ _ E Hi) as [Hi1 _].
    apply (IHr _ _ _ H Hi1). apply (Hc _ _ _ _ E Hi Hcl).
Qed.

Lemma reg_subs_closed rg (Hrg : rg_ok rg) (Hc : rgc_ok rg) sy : forall l s s' X,
  reg_subs rg d sy l s = Ok s' -> reg_inv d s -> reg_closed X s -> reg_closed X s'.
Proof.
  induction l as [|st r IHr]; intros s s' X H Hi Hcl; simpl in H.
  - inversion H; subst; exact Hcl.
  - destruct sy as [b|c].
    + simpl in H. eapply IHr; eassumption.
    + destruct (subclass d st c).
      * destruct (rg (TSym st) s) as [s1|e] eqn:E; simpl in H; [|discriminate].
        destruct (Hrg _ _ _ E Hi) as [Hi1 _].
        apply (IHr _ _ _ H Hi1). apply (Hc _ _ _ _ E Hi Hcl).
      * simpl in H. eapply IHr; eassumption.
Qed.

Lemma reg_closed_add_pending X s c :
  reg_closed X s -> reg_closed (c :: X) (set_nodes s (r_nodes s ++ [SC c])).
Proof.
  intros Hcl c0 Hm Hx. simpl in Hm. rewrite mem_sym_app in Hm. simpl in Hm.
  assert (c0 <> c) by (intro; subst; apply Hx; left; reflexivity).
  assert (Nat.eqb c0 c = false) as E by (apply Nat.eqb_neq; assumption).
  rewrite E in Hm. simpl in Hm. rewrite orb_false_r in Hm.
  assert (~ In c0 X) by (intro; apply Hx; right; assumption).
  destruct (Hcl c0 Hm H0) as [A B]. split; simpl; assumption.
Qed.

Lemma reg_closed_add_base X s b :
  reg_closed X s -> reg_closed X (set_nodes s (r_nodes s ++ [SB b])).
Proof.
  intros Hcl c0 Hm Hx. simpl in Hm. rewrite mem_sym_app in Hm. simpl in Hm.
  rewrite orb_false_r in Hm. destruct (Hcl c0 Hm Hx) as [A B]. split; simpl; assumption.
Qed.

Lemma reg_new_closed rg (Hrg : rg_ok rg) (Hc : rgc_ok rg) sy s s' X :
  mem_sym sy (r_nodes s) = false -> reg_inv d s -> reg_closed X s -> reg_new rg d sy s = Ok s' ->
  reg_closed X s'.
Proof.
  intros Em Hi Hcl H. unfold reg_new in H.
  destruct (reg_parent rg d sy _) as [s2|e] eqn:E2; cbn [bind] in H; [|discriminate].
  destruct (reg_parent_post rg Hrg sy s s2 Em Hi E2) as [Hi2 [He2 Hm2]].
  destruct (reg_list rg _ s2) as [s3|e] eqn:E3; cbn [bind] in H; [|discriminate].
  destruct (reg_list_post rg Hrg _ _ _ E3 Hi2) as [Hi3 He3].
  destruct (reg_subs rg d sy (d_considered d) s3) as [s4|e] eqn:E4; cbn [bind] in H; [|discriminate].
  destruct (reg_subs_post rg Hrg _ _ _ _ E4 Hi3) as [Hi4 He4].
  destruct sy as [b|c].
  - (* a base type: nothing pending *)
    assert (Hcl2 : reg_closed X s2).
    { unfold reg_parent in E2. inversion E2; subst. apply reg_closed_add_base; exact Hcl. }
    assert (Hcl4 : reg_closed X s4).
    { eapply reg_subs_closed; try eassumption. eapply reg_list_closed; eassumption. }
    match type of H with context [if ?b then _ else _] => destruct b end;
      inversion H; subst s'; clear H; intros c0 Hm Hx; simpl in Hm.
    + destruct (Hcl4 c0 Hm Hx) as [A B]. split; simpl; assumption.
    + destruct (Hcl4 c0 Hm Hx) as [A B]. split; simpl; [assumption|].
      intros H1 H2. rewrite mem_sym_app, (B H1 H2). reflexivity.
  - (* a class: c is pending until the very end *)
    pose (s1 := mkR (r_nodes s ++ [SC c]) (r_alts s) (r_term s) (r_nonterm s)).
    fold s1 in E2.
    assert (Hi1 : reg_inv d s1) by (apply (reg_inv_add_node s (SC c)); exact Hi).
    assert (Hcl1 : reg_closed (c :: X) s1) by (apply (reg_closed_add_pending X s c); exact Hcl).
    (* parent step *)
    assert (Hcl2 : reg_closed (c :: X) s2 /\
                   (forall p, parent_of d c = Some p -> exists l, get_alts (r_alts s2) p = Some l /\ In c l)).
    { unfold reg_parent in E2. unfold parent_of.
      destruct (get_cls d c) as [k|] eqn:Ek; [|discriminate].
      destruct (c_parent k) as [p|] eqn:Ep.
      - destruct (rg (TSym p) s1) as [s'0|e] eqn:Er; cbn [bind] in E2; [|discriminate].
        destruct (is_abstract d (SC p)); [|discriminate]. inversion E2; subst s2; clear E2.
        pose proof (Hc _ _ _ _ Er Hi1 Hcl1) as Hcl'.
        split.
        + intros c0 Hm Hx. simpl in Hm. destruct (Hcl' c0 Hm Hx) as [A B]. split; simpl; [|exact B].
          intros q Hq. destruct (A q Hq) as [l [Hg Hin]]. rewrite get_add_alt.
          destruct (Nat.eqb q p) eqn:Eq.
          * apply Nat.eqb_eq in Eq; subst q. rewrite Hg. eexists; split; [reflexivity|].
            apply in_or_app; left; exact Hin.
          * eauto.
        + intros q Hq. inversion Hq; subst q. simpl. rewrite get_add_alt, Nat.eqb_refl.
          eexists; split; [reflexivity|]. apply in_or_app; right; left; reflexivity.
      - inversion E2; subst s2. split; [exact Hcl1 | intros q Hq; discriminate]. }
    destruct Hcl2 as [Hcl2 Halt2].
    assert (Hcl4 : reg_closed (c :: X) s4).
    { eapply reg_subs_closed; try eassumption. eapply reg_list_closed; eassumption. }
    assert (He24 : reg_ext s2 s4) by (eapply reg_ext_trans; eassumption).
    assert (Hfin : forall sfin, r_nodes sfin = r_nodes s4 -> r_alts sfin = r_alts s4 ->
              (forall x, mem_sym x (r_nonterm s4) = true -> mem_sym x (r_nonterm sfin) = true) ->
              (is_abstract d (SC c) = false -> fields_of d (SC c) <> [] -> mem_sym (SC c) (r_nonterm sfin) = true) ->
              reg_closed X sfin).
    { intros sfin Hn Ha Ht Hcn c0 Hm Hx. rewrite Hn in Hm.
      destruct (Nat.eq_dec c0 c) as [-> | Hne].
      - split.
        + intros p Hp. destruct (Halt2 p Hp) as [l [Hg Hin]].
          destruct (re_keep _ _ He24 _ _ _ Hg Hin) as [l' [Hg' Hin']]. rewrite Ha. eauto.
        + exact Hcn.
      - assert (Hx' : ~ In c0 (c :: X)) by (intros [? | ?]; [congruence | tauto]).
        destruct (Hcl4 c0 Hm Hx') as [A B]. split.
        + rewrite Ha. exact A.
        + intros H1 H2. apply Ht. apply B; assumption. }
    destruct (negb (is_abstract d (SC c)) && _) eqn:Eterm; inversion H; subst s'; clear H; apply Hfin; try reflexivity.
    + intros x Hx; exact Hx.
    + intros H1 H2. rewrite H1 in Eterm. cbn [negb andb] in Eterm.
      destruct (fields_of d (SC c)); [congruence | discriminate].
    + intros x Hx; simpl. rewrite mem_sym_app, Hx. reflexivity.
    + intros _ _. simpl. rewrite mem_sym_app. simpl. rewrite Nat.eqb_refl. apply orb_true_r.
Qed.

Theorem reg_closed_ok : forall fuel, rgc_ok (reg fuel d).
Proof.
  induction fuel as [|f IH]; intros t s s' X H Hi Hcl; [discriminate|].
  simpl in H. pose proof (reg_ok f) as Hrg.
  destruct t as [b|c|t'|ts|ts|t' m].
  - destruct (mem_sym (SB b) (r_nodes s)) eqn:Em; [inversion H; subst; exact Hcl|].
    eapply reg_new_closed; eassumption.
  - destruct (mem_sym (SC c) (r_nodes s)) eqn:Em; [inversion H; subst; exact Hcl|].
    eapply reg_new_closed; eassumption.
  - eapply IH; eassumption.
  - eapply reg_list_closed; eassumption.
  - eapply reg_list_closed; eassumption.
  - eapply IH; eassumption.
Qed.

Corollary reg_result_closed fuel t r c :
  reg fuel d t r0 = Ok r -> mem_sym (SC c) (r_nodes r) = true -> closed_at r c.
Proof.
  intros H Hm. apply (reg_closed_ok fuel t r0 r [] H reg_inv_r0); [|exact Hm | intros []].
  intros c0 Hc0. simpl in Hc0. discriminate.
Qed.

End RegInv.
