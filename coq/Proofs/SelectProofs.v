(* SelectProofs.v — properties C16 (elitism keeps the best) and C17 (selection operators are sound). *)
From GE Require Import Base Tape Search Steps TapeProofs.
From Coq Require Import Permutation Lia ZArith List QArith.
From Coq Require Import Lqa.
Import ListNotations.
Open Scope Z_scope.

Section Select.
Variable s : store.
Variable pid : N.

(* "y is strictly better than x" *)
Definition sbetter (y x : N) : Prop :=
  exists fy fx, lookup s (y, pid) = Some fy /\ lookup s (x, pid) = Some fx /\ (agg fx < agg fy)%Q.

(* ---------------- auxiliary facts: Q comparisons ---------------- *)
Lemma Qle_bool_false x y : Qle_bool x y = false -> (y < x)%Q.
Proof.
  intros H. apply Qnot_le_lt. intros C. apply Qle_bool_iff in C. rewrite C in H. discriminate.
Qed.

(* ---------------- auxiliary facts: keys ---------------- *)
Definition keyed (ks : list (N * Q)) : Prop :=
  forall i a, In (i, a) ks -> exists f, lookup s (i, pid) = Some f /\ agg f = a.

Lemma with_keys_spec pop : forall ks,
  with_keys s pid pop = Ok ks -> map fst ks = pop /\ keyed ks.
Proof.
  induction pop as [|i t IH]; intros ks H.
  - cbn [with_keys] in H. inversion H; subst. split; [reflexivity|]. intros j a [].
  - cbn [with_keys] in H. unfold aggr in H.
    destruct (lookup s (i, pid)) as [f|] eqn:L; cbn [bind] in H; [|discriminate].
    destruct (with_keys s pid t) as [r|e] eqn:W; cbn [bind] in H; [|discriminate].
    inversion H; subst. destruct (IH r eq_refl) as [M K]. split.
    + cbn [map fst]. rewrite M. reflexivity.
    + intros j a [E|I].
      * inversion E; subst. exists f. split; [exact L|reflexivity].
      * apply K. exact I.
Qed.

Lemma keyed_perm ks ks' : Permutation ks ks' -> keyed ks -> keyed ks'.
Proof.
  intros P K i a I. apply K. apply (Permutation_in _ (Permutation_sym P)). exact I.
Qed.

Lemma not_sbetter ks x a y b :
  keyed ks -> In (x, a) ks -> In (y, b) ks -> (b <= a)%Q -> ~ sbetter y x.
Proof.
  intros K Ix Iy Le (fy & fx & Ly & Lx & Lt).
  destruct (K _ _ Ix) as (fx' & Lx' & Ax). destruct (K _ _ Iy) as (fy' & Ly' & Ay).
  rewrite Lx in Lx'. rewrite Ly in Ly'. inversion Lx'; inversion Ly'; subst.
  apply (Qlt_irrefl (agg fx')). eapply Qlt_le_trans; [exact Lt|exact Le].
Qed.

Lemma in_map_fst_keys (ks : list (N * Q)) x : In x (map fst ks) -> exists a, In (x, a) ks.
Proof.
  intros I. apply in_map_iff in I. destruct I as ([x' a] & E & I). cbn [fst] in E. subst x'.
  exists a. exact I.
Qed.

(* ---------------- auxiliary facts: the descending stable sort ---------------- *)
Inductive desc : list (N * Q) -> Prop :=
| desc_nil : desc []
| desc_cons x l : (forall y, In y l -> (snd y <= snd x)%Q) -> desc l -> desc (x :: l).

Lemma insert_desc_perm x l : Permutation (x :: l) (insert_desc x l).
Proof.
  induction l as [|y t IH]; cbn [insert_desc]; [reflexivity|].
  destruct (Qle_bool (snd y) (snd x)); [reflexivity|].
  eapply perm_trans; [apply perm_swap|]. apply perm_skip. exact IH.
Qed.

Lemma sort_desc_perm l : Permutation l (sort_desc l).
Proof.
  induction l as [|x t IH]; cbn [sort_desc]; [constructor|].
  eapply perm_trans; [apply perm_skip; exact IH|]. apply insert_desc_perm.
Qed.

Lemma insert_desc_desc x l : desc l -> desc (insert_desc x l).
Proof.
  induction 1 as [|y t Hy Ht IH]; cbn [insert_desc].
  - constructor; [intros z []|constructor].
  - destruct (Qle_bool (snd y) (snd x)) eqn:E.
    + apply Qle_bool_iff in E. constructor.
      * intros z [Ez|Iz]; [subst z; exact E|].
        eapply Qle_trans; [apply Hy; exact Iz|exact E].
      * constructor; assumption.
    + apply Qle_bool_false in E. constructor; [|exact IH].
      intros z Iz. apply (Permutation_in _ (Permutation_sym (insert_desc_perm x t))) in Iz.
      destruct Iz as [Ez|Iz]; [subst z; apply Qlt_le_weak; exact E|apply Hy; exact Iz].
Qed.

Lemma sort_desc_desc l : desc (sort_desc l).
Proof.
  induction l as [|x t IH]; cbn [sort_desc]; [constructor|]. apply insert_desc_desc. exact IH.
Qed.

Lemma desc_app l1 : forall l2, desc (l1 ++ l2) ->
  forall x y, In x l1 -> In y l2 -> (snd y <= snd x)%Q.
Proof.
  induction l1 as [|h t IH]; intros l2 D x y Ix Iy; [destruct Ix|].
  cbn [app] in D. inversion D as [|h' l' Hh Dt]; subst.
  destruct Ix as [Ex|Ix].
  - subst x. apply Hh. apply in_or_app. right. exact Iy.
  - eapply IH; eassumption.
Qed.

(* ---------------- C16 ---------------- *)
Lemma elitism_inv pop k out :
  elitism s pid pop k = Ok out -> 0 <= k ->
  exists ks, with_keys s pid pop = Ok ks /\ out = firstn (Z.to_nat k) (map fst (sort_desc ks)).
Proof.
  unfold elitism. intros H Hk.
  destruct (with_keys s pid pop) as [ks|e]; cbn [bind] in H; [|discriminate].
  destruct (k <? 0) eqn:E; [apply Z.ltb_lt in E; lia|].
  inversion H; subst. exists ks. split; reflexivity.
Qed.

Theorem elitism_length pop k out :
  elitism s pid pop k = Ok out -> 0 <= k -> zlen out = Z.min k (zlen pop).
Proof.
  intros H Hk. destruct (elitism_inv _ _ _ H Hk) as (ks & W & E). subst out.
  destruct (with_keys_spec _ _ W) as [M _].
  assert (L : length pop = length ks) by (rewrite <- M; apply map_length).
  unfold zlen. rewrite firstn_length, map_length, <- (Permutation_length (sort_desc_perm ks)), L.
  lia.
Qed.

(* the output is the requested number of individuals of the population (as a multiset: the rest of
   the population is what was excluded) and no excluded individual is strictly better than an
   included one *)
Theorem elitism_topk pop k out :
  elitism s pid pop k = Ok out -> 0 <= k ->
  exists rest, Permutation pop (out ++ rest) /\
               forall x y, In x out -> In y rest -> ~ sbetter y x.
Proof.
  intros H Hk. destruct (elitism_inv _ _ _ H Hk) as (ks & W & E). subst out.
  destruct (with_keys_spec _ _ W) as [M K].
  remember (Z.to_nat k) as m eqn:Em. remember (sort_desc ks) as srt eqn:Es.
  assert (P : Permutation ks srt) by (subst srt; apply sort_desc_perm).
  assert (D : desc (firstn m srt ++ skipn m srt))
    by (rewrite firstn_skipn; subst srt; apply sort_desc_desc).
  exists (map fst (skipn m srt)). split.
  - rewrite <- M, firstn_map, <- map_app, firstn_skipn. apply Permutation_map. exact P.
  - intros x y Ix Iy. rewrite firstn_map in Ix.
    apply in_map_fst_keys in Ix. destruct Ix as [a Ix].
    apply in_map_fst_keys in Iy. destruct Iy as [b Iy].
    pose proof (desc_app _ _ D _ _ Ix Iy) as Le. cbn [snd] in Le.
    apply (not_sbetter srt x a y b).
    + exact (keyed_perm _ _ P K).
    + rewrite <- (firstn_skipn m srt). apply in_or_app. left. exact Ix.
    + rewrite <- (firstn_skipn m srt). apply in_or_app. right. exact Iy.
    + exact Le.
Qed.

(* with at least one slot the best of the population survives: for every individual of the input
   some output individual is at least as good *)
Theorem elitism_keeps_best pop k out :
  elitism s pid pop k = Ok out -> 1 <= k -> 
  forall y, In y pop -> exists x, In x out /\ ~ sbetter y x.
Proof.
  intros H Hk y Iy. assert (Hk0 : 0 <= k) by lia.
  destruct (elitism_inv _ _ _ H Hk0) as (ks & W & E). subst out.
  destruct (with_keys_spec _ _ W) as [M K].
  remember (sort_desc ks) as srt eqn:Es.
  assert (P : Permutation ks srt) by (subst srt; apply sort_desc_perm).
  assert (D : desc srt) by (subst srt; apply sort_desc_desc).
  rewrite <- M in Iy. apply in_map_fst_keys in Iy. destruct Iy as [b Iy].
  apply (Permutation_in _ P) in Iy.
  destruct (Z.to_nat k) as [|m] eqn:Em; [lia|].
  destruct srt as [|[x a] t]; [destruct Iy|].
  exists x. split; [cbn [map fst firstn]; left; reflexivity|].
  apply (not_sbetter ((x, a) :: t) x a y b).
  - exact (keyed_perm _ _ P K).
  - left. reflexivity.
  - exact Iy.
  - inversion D as [|h l Hh Dt]; subst. destruct Iy as [Ey|Iy].
    + inversion Ey; subst. apply Qle_refl.
    + apply (Hh _ Iy).
Qed.

(* consequently the best fitness present never gets worse from one generation to the next when the
   next generation contains the elitism slice *)
Theorem best_monotone pop k out others :
  elitism s pid pop k = Ok out -> 1 <= k ->
  forall y, In y pop -> exists x, In x (out ++ others) /\ ~ sbetter y x.
Proof.
  intros H Hk y Iy. destruct (elitism_keeps_best _ _ _ H Hk y Iy) as (x & Ix & Nx).
  exists x. split; [apply in_or_app; left; exact Ix|exact Nx].
Qed.

Lemma with_keys_total pop :
  (forall i, In i pop -> exists f, lookup s (i, pid) = Some f) -> exists ks, with_keys s pid pop = Ok ks.
Proof.
  induction pop as [|i t IH]; intros Hl.
  - exists []. reflexivity.
  - destruct (Hl i (or_introl eq_refl)) as [f Lf].
    destruct IH as [r Hr]; [intros j Ij; apply Hl; right; exact Ij|].
    exists ((i, agg f) :: r). cbn [with_keys]. unfold aggr. rewrite Lf. cbn [bind]. rewrite Hr.
    reflexivity.
Qed.

Theorem elitism_total pop k :
  (forall i, In i pop -> exists f, lookup s (i, pid) = Some f) -> exists out, elitism s pid pop k = Ok out.
Proof.
  intros Hl. destruct (with_keys_total pop Hl) as [ks W]. unfold elitism. rewrite W. cbn [bind].
  eexists. reflexivity.
Qed.

(* ---------------- C17: tournament ---------------- *)
Lemma draw_n_spec cands m : forall r parts r1,
  draw_n r cands m = Ok (parts, r1) -> length parts = m /\ incl parts cands.
Proof.
  induction m as [|m IH]; intros r parts r1 H; cbn [draw_n] in H.
  - inversion H; subst. split; [reflexivity|]. intros x [].
  - destruct (choice r cands) as [[x r2]|e] eqn:C; cbn [bind] in H; [|discriminate].
    destruct (draw_n r2 cands m) as [[rest r3]|e] eqn:Dn; cbn [bind] in H; [|discriminate].
    inversion H; subst. destruct (IH _ _ _ Dn) as [L I]. split.
    + cbn [length]. rewrite L. reflexivity.
    + intros z [Ez|Iz]; [subst z; eapply choice_mem; exact C|apply I; exact Iz].
Qed.

(* max(..., key=...) returns the first element whose key is >= every key *)
Lemma first_max_spec t : forall b,
  exists a, In (first_max b t, a) (b :: t) /\ (snd b <= a)%Q /\ forall z, In z t -> (snd z <= a)%Q.
Proof.
  induction t as [|x t IH]; intros b; cbn [first_max].
  - exists (snd b). split; [left; destruct b; reflexivity|]. split; [apply Qle_refl|intros z []].
  - destruct (Qle_bool (snd x) (snd b)) eqn:E.
    + apply Qle_bool_iff in E. destruct (IH b) as (a & Ia & Ba & Ta). exists a. split.
      * destruct Ia as [Ia|Ia]; [left; exact Ia|right; right; exact Ia].
      * split; [exact Ba|]. intros z [Ez|Iz]; [subst z; eapply Qle_trans; eassumption|apply Ta; exact Iz].
    + apply Qle_bool_false in E. destruct (IH x) as (a & Ia & Xa & Ta). exists a. split.
      * right. exact Ia.
      * split; [eapply Qle_trans; [apply Qlt_le_weak; exact E|exact Xa]|].
        intros z [Ez|Iz]; [subst z; exact Xa|apply Ta; exact Iz].
Qed.

Lemma remove_first_incl w l : incl (remove_first w l) l.
Proof.
  induction l as [|y t IH]; cbn [remove_first]; [intros z []|].
  destruct (N.eqb w y).
  - intros z Iz. right. exact Iz.
  - intros z [Ez|Iz]; [left; exact Ez|right; apply IH; exact Iz].
Qed.

(* every winner is one of the participants drawn for its tournament, the participants are members
   of the population, and no participant is strictly better than the winner; exactly k winners *)
Theorem tournament_sound k r pop cands size repl res r' :
  tournament s pid k r pop cands size repl = Ok (res, r') -> incl cands pop ->
  length res = k /\
  Forall (fun wp => In (fst wp) (snd wp) /\ incl (snd wp) pop /\ length (snd wp) = size /\
                    forall p, In p (snd wp) -> ~ sbetter p (fst wp)) res.
Proof.
  revert r cands res r'. induction k as [|k IH]; intros r cands res r' H Hc; cbn [tournament] in H.
  - inversion H; subst. split; [reflexivity|constructor].
  - destruct (draw_n r cands size) as [[parts r1]|e] eqn:Dn; cbn [bind] in H; [|discriminate].
    destruct (with_keys s pid parts) as [ks|e] eqn:W; cbn [bind] in H; [|discriminate].
    destruct ks as [|b t]; [discriminate|].
    destruct (draw_n_spec _ _ _ _ _ Dn) as [Lp Ip].
    destruct (with_keys_spec _ _ W) as [M K].
    assert (Ipp : incl parts pop) by (intros z Iz; apply Hc; apply Ip; exact Iz).
    remember (first_max b t) as w eqn:Ew.
    remember (if repl then parts
              else match remove_first w parts with [] => pop | l => l end) as cands' eqn:Ec.
    assert (Hc' : incl cands' pop).
    { subst cands'. destruct repl; [exact Ipp|].
      pose proof (remove_first_incl w parts) as Ir.
      destruct (remove_first w parts) as [|h l]; [apply incl_refl|].
      intros z Iz. apply Ipp. apply Ir. exact Iz. }
    destruct (tournament s pid k r1 pop cands' size repl) as [[rest r2]|e] eqn:T;
      cbn [bind] in H; [|discriminate].
    inversion H; subst res r'. destruct (IH _ _ _ _ T Hc') as [Lr Fr]. split.
    + cbn [length]. rewrite Lr. reflexivity.
    + constructor; [|exact Fr]. cbn [fst snd].
      destruct (first_max_spec t b) as (a & Ia & Ba & Ta). rewrite <- Ew in Ia.
      split; [|split; [exact Ipp|split; [exact Lp|]]].
      * rewrite <- M. change w with (fst (w, a)). apply in_map. exact Ia.
      * intros p Ipr. rewrite <- M in Ipr. apply in_map_fst_keys in Ipr. destruct Ipr as [c Ic].
        apply (not_sbetter (b :: t) w a p c K Ia Ic).
        destruct Ic as [Eb|Ic]; [subst b; exact Ba|apply (Ta _ Ic)].
Qed.

(* ---------------- C17: lexicase ---------------- *)
Lemma filter2_incl {A} (f : Q -> bool) (l : list A) : forall vs, incl (filter2 f l vs) l.
Proof.
  induction l as [|x t IH]; intros vs; cbn [filter2]; [intros z []|].
  destruct vs as [|v vt]; [intros z []|].
  destruct (f v).
  - intros z [Ez|Iz]; [left; exact Ez|right; apply (IH vt); exact Iz].
  - intros z Iz. right. apply (IH vt). exact Iz.
Qed.

Lemma filter2_nonempty {A} (f : Q -> bool) v (l : list A) : forall vs,
  length vs = length l -> In v vs -> f v = true -> filter2 f l vs <> [].
Proof.
  induction l as [|x t IH]; intros vs L I Fv; destruct vs as [|u vt];
    cbn [length] in L; try discriminate; try (destruct I; fail).
  cbn [filter2]. destruct (f u) eqn:Fu; [discriminate|].
  destruct I as [E|I]; [subst u; rewrite Fv in Fu; discriminate|].
  apply IH; [lia|exact I|exact Fv].
Qed.

Lemma comps_of_length c cands : forall vals,
  comps_of s pid cands c = Ok vals -> length vals = length cands.
Proof.
  induction cands as [|a t IH]; intros vals C; cbn [comps_of] in C.
  - inversion C; subst. reflexivity.
  - destruct (comp_of s pid a c) as [v|e] eqn:Ca; cbn [bind] in C; [|discriminate].
    destruct (comps_of s pid t c) as [vs|e] eqn:Cr; cbn [bind] in C; [|discriminate].
    inversion C; subst. cbn [length]. rewrite (IH vs eq_refl). reflexivity.
Qed.

Lemma filter2_in c keep x cands : forall vals,
  comps_of s pid cands c = Ok vals -> In x (filter2 keep cands vals) ->
  exists v, comp_of s pid x c = Ok v /\ keep v = true.
Proof.
  induction cands as [|a t IH]; intros vals C I; cbn [comps_of] in C.
  - inversion C; subst. destruct I.
  - destruct (comp_of s pid a c) as [v|e] eqn:Ca; cbn [bind] in C; [|discriminate].
    destruct (comps_of s pid t c) as [vs|e] eqn:Cr; cbn [bind] in C; [|discriminate].
    inversion C; subst. cbn [filter2] in I. destruct (keep v) eqn:Kv.
    + destruct I as [E|I]; [subst a; exists v; split; [exact Ca|exact Kv]|].
      exact (IH vs eq_refl I).
    + exact (IH vs eq_refl I).
Qed.

Lemma lex_filter_step eps mins a b t c rest surv :
  lex_filter s pid eps mins (a :: b :: t) (c :: rest) = Ok surv ->
  exists vals m keep,
    comps_of s pid (a :: b :: t) c = Ok vals /\ nth_error mins c = Some m /\
    lex_keep eps m vals = Ok keep /\
    lex_filter s pid eps mins (filter2 keep (a :: b :: t) vals) rest = Ok surv.
Proof.
  intros H. cbn [lex_filter] in H.
  destruct (comps_of s pid (a :: b :: t) c) as [vals|e] eqn:C; cbn [bind] in H; [|discriminate].
  destruct (nth_error mins c) as [m|]; [|discriminate].
  destruct (lex_keep eps m vals) as [keep|e] eqn:Kp; cbn [bind] in H; [|discriminate].
  exists vals, m, keep. split; [reflexivity|]. split; [reflexivity|]. split; [exact Kp|exact H].
Qed.

Theorem lex_filter_incl eps mins cands cases surv :
  lex_filter s pid eps mins cands cases = Ok surv -> incl surv cands.
Proof.
  revert cands surv. induction cases as [|c rest IH]; intros cands surv H.
  - cbn [lex_filter] in H. inversion H; subst. apply incl_refl.
  - destruct cands as [|a [|b t]];
      [cbn [lex_filter] in H; inversion H; subst; apply incl_refl ..|].
    destruct (lex_filter_step _ _ _ _ _ _ _ _ H) as (vals & m & keep & C & Nm & Kp & R).
    apply IH in R. intros z Iz. apply (filter2_incl keep _ vals). apply R. exact Iz.
Qed.

(* min / max of a non-empty list *)
Lemma qmin_l_spec l : forall x,
  In (qmin_l x l) (x :: l) /\ forall u, In u (x :: l) -> (qmin_l x l <= u)%Q.
Proof.
  induction l as [|y t IH]; intros x; cbn [qmin_l].
  - split; [left; reflexivity|]. intros u [E|[]]. subst u. apply Qle_refl.
  - destruct (Qle_bool x y) eqn:E.
    + apply Qle_bool_iff in E. destruct (IH x) as [I Lb]. split.
      * destruct I as [I|I]; [left; exact I|right; right; exact I].
      * intros u [Eu|[Eu|Iu]].
        -- subst u. apply Lb. left. reflexivity.
        -- subst u. eapply Qle_trans; [apply Lb; left; reflexivity|exact E].
        -- apply Lb. right. exact Iu.
    + apply Qle_bool_false in E. destruct (IH y) as [I Lb]. split.
      * right. exact I.
      * intros u [Eu|Iu].
        -- subst u. eapply Qle_trans; [apply Lb; left; reflexivity|apply Qlt_le_weak; exact E].
        -- apply Lb. exact Iu.
Qed.

Lemma qmax_l_spec l : forall x,
  In (qmax_l x l) (x :: l) /\ forall u, In u (x :: l) -> (u <= qmax_l x l)%Q.
Proof.
  induction l as [|y t IH]; intros x; cbn [qmax_l].
  - split; [left; reflexivity|]. intros u [E|[]]. subst u. apply Qle_refl.
  - destruct (Qle_bool y x) eqn:E.
    + apply Qle_bool_iff in E. destruct (IH x) as [I Ub]. split.
      * destruct I as [I|I]; [left; exact I|right; right; exact I].
      * intros u [Eu|[Eu|Iu]].
        -- subst u. apply Ub. left. reflexivity.
        -- subst u. eapply Qle_trans; [exact E|apply Ub; left; reflexivity].
        -- apply Ub. right. exact Iu.
    + apply Qle_bool_false in E. destruct (IH y) as [I Ub]. split.
      * right. exact I.
      * intros u [Eu|Iu].
        -- subst u. eapply Qle_trans; [apply Qlt_le_weak; exact E|apply Ub; left; reflexivity].
        -- apply Ub. exact Iu.
Qed.

(* the median absolute deviation is non-negative *)
Lemma qinsert_perm x l : Permutation (x :: l) (qinsert x l).
Proof.
  induction l as [|y t IH]; cbn [qinsert]; [reflexivity|].
  destruct (Qle_bool x y); [reflexivity|].
  eapply perm_trans; [apply perm_swap|]. apply perm_skip. exact IH.
Qed.

Lemma qsort_perm l : Permutation l (qsort l).
Proof.
  induction l as [|x t IH]; cbn [qsort]; [constructor|].
  eapply perm_trans; [apply perm_skip; exact IH|]. apply qinsert_perm.
Qed.

Lemma nth_nonneg (l : list Q) n : (forall x, In x l -> (0 <= x)%Q) -> (0 <= nth n l 0%Q)%Q.
Proof.
  intros H. destruct (nth_in_or_default n l 0%Q) as [I|E]; [apply H; exact I|].
  rewrite E. apply Qle_refl.
Qed.

Lemma Qhalf_nonneg (a b : Q) : (0 <= a)%Q -> (0 <= b)%Q -> (0 <= (a + b) / 2)%Q.
Proof.
  intros Ha Hb. unfold Qdiv. apply Qmult_le_0_compat; [lra|]. unfold Qle. cbn. lia.
Qed.

Lemma median_nonneg l : (forall x, In x l -> (0 <= x)%Q) -> (0 <= median l)%Q.
Proof.
  intros H. unfold median.
  assert (Hs : forall x, In x (qsort l) -> (0 <= x)%Q).
  { intros x I. apply H. apply (Permutation_in _ (Permutation_sym (qsort_perm l))). exact I. }
  destruct (Nat.even (length (qsort l))).
  - apply Qhalf_nonneg; apply nth_nonneg; exact Hs.
  - apply nth_nonneg. exact Hs.
Qed.

Lemma Qabs__nonneg x : (0 <= Qabs_ x)%Q.
Proof.
  unfold Qabs_. destruct (Qle_bool 0 x) eqn:E.
  - apply Qle_bool_iff. exact E.
  - apply Qle_bool_false in E. lra.
Qed.

Lemma mad_nonneg l : (0 <= mad l)%Q.
Proof.
  unfold mad. apply median_nonneg. intros x I. apply in_map_iff in I.
  destruct I as (y & E & _). subst x. apply Qabs__nonneg.
Qed.

(* the shape of the keep test *)
Lemma lex_keep_inv eps m vals keep :
  lex_keep eps m vals = Ok keep ->
  exists best band,
    In best vals /\
    (forall u, In u vals -> if m then (best <= u)%Q else (u <= best)%Q) /\
    (0 <= band)%Q /\ (eps = false -> (band == 0)%Q) /\
    forall x, keep x = if m then Qle_bool x (best + band) else Qle_bool (best - band) x.
Proof.
  unfold lex_keep. destruct vals as [|v t]; [discriminate|]. intros H. inversion H; subst keep.
  exists (if m then qmin_l v t else qmax_l v t), (if eps then mad (v :: t) else 0%Q).
  split; [|split; [|split; [|split]]].
  - destruct m; [apply (qmin_l_spec t v)|apply (qmax_l_spec t v)].
  - intros u Iu. destruct m; [apply (qmin_l_spec t v); exact Iu|apply (qmax_l_spec t v); exact Iu].
  - destruct eps; [apply mad_nonneg|apply Qle_refl].
  - intros E. subst eps. apply Qeq_refl.
  - intros x. reflexivity.
Qed.

Lemma lex_keep_sufficient eps m vals keep v :
  lex_keep eps m vals = Ok keep ->
  (forall u, In u vals -> if m then (v <= u)%Q else (u <= v)%Q) -> keep v = true.
Proof.
  intros H Hv. destruct (lex_keep_inv _ _ _ _ H) as (best & band & Ib & Hb & Bn & _ & Hk).
  rewrite Hk. specialize (Hv best Ib). destruct m; apply Qle_bool_iff; lra.
Qed.

Lemma lex_keep_pass eps m vals keep :
  lex_keep eps m vals = Ok keep -> exists v, In v vals /\ keep v = true.
Proof.
  intros H. destruct (lex_keep_inv _ _ _ _ H) as (best & band & Ib & Hb & _).
  exists best. split; [exact Ib|]. eapply lex_keep_sufficient; [exact H|exact Hb].
Qed.

Theorem lex_filter_nonempty eps mins cands cases surv :
  lex_filter s pid eps mins cands cases = Ok surv -> cands <> [] -> surv <> [].
Proof.
  revert cands surv. induction cases as [|c rest IH]; intros cands surv H Hn.
  - cbn [lex_filter] in H. inversion H; subst. exact Hn.
  - destruct cands as [|a [|b t]];
      [cbn [lex_filter] in H; inversion H; subst; exact Hn ..|].
    destruct (lex_filter_step _ _ _ _ _ _ _ _ H) as (vals & m & keep & C & Nm & Kp & R).
    apply (IH _ _ R). destruct (lex_keep_pass _ _ _ _ Kp) as (v & Iv & Kv).
    apply (filter2_nonempty keep v); [apply (comps_of_length c); exact C|exact Iv|exact Kv].
Qed.

(* what surviving the first case means: the survivor's value on that case passes the keep test
   computed from all candidates' values on that case *)
Theorem lex_first_case eps mins cands c rest surv :
  lex_filter s pid eps mins cands (c :: rest) = Ok surv -> (2 <= length cands)%nat ->
  forall x, In x surv ->
  exists v vals m keep, comp_of s pid x c = Ok v /\ comps_of s pid cands c = Ok vals /\
                        nth_error mins c = Some m /\ lex_keep eps m vals = Ok keep /\ keep v = true.
Proof.
  intros H L x Ix. destruct cands as [|a [|b t]]; [cbn [length] in L; lia ..|].
  destruct (lex_filter_step _ _ _ _ _ _ _ _ H) as (vals & m & keep & C & Nm & Kp & R).
  apply lex_filter_incl in R.
  destruct (filter2_in c keep x _ _ C (R x Ix)) as (v & Cv & Kv).
  exists v, vals, m, keep. repeat split; assumption.
Qed.

(* without epsilon the keep test is "best on that case" in the case's direction *)
Theorem lex_keep_best m vals keep v :
  lex_keep false m vals = Ok keep ->
  (keep v = true <-> forall u, In u vals -> if m then (v <= u)%Q else (u <= v)%Q).
Proof.
  intros H. split.
  - intros Kv u Iu.
    destruct (lex_keep_inv _ _ _ _ H) as (best & band & Ib & Hb & Bn & Bz & Hk).
    specialize (Bz eq_refl). rewrite Hk in Kv. specialize (Hb u Iu).
    destruct m; apply Qle_bool_iff in Kv; lra.
  - intros Hv. eapply lex_keep_sufficient; [exact H|exact Hv].
Qed.

(* with epsilon the keep test is "within the band best +- MAD", and the band is non-negative, so
   the best individuals always pass *)
Theorem lex_keep_eps m vals keep v :
  lex_keep true m vals = Ok keep ->
  (forall u, In u vals -> if m then (v <= u)%Q else (u <= v)%Q) -> In v vals -> keep v = true.
Proof.
  intros H Hv _. eapply lex_keep_sufficient; [exact H|exact Hv].
Qed.

Lemma remove_first_perm w l : In w l -> Permutation l (w :: remove_first w l).
Proof.
  induction l as [|y t IH]; intros I; [destruct I|]. cbn [remove_first].
  destruct (N.eqb w y) eqn:E.
  - apply N.eqb_eq in E. subst y. reflexivity.
  - destruct I as [Ey|I]; [subst y; rewrite N.eqb_refl in E; discriminate|].
    eapply perm_trans; [apply perm_skip; apply IH; exact I|]. apply perm_swap.
Qed.

(* every winner is one of the candidates still available when it is chosen and survives the
   lexicase filter for the case order shuffled for that winner (a permutation of all cases); the
   winners, with multiplicity, are drawn from the population without replacement *)
Theorem lexicase_sound k r eps mins ncases cands res r' :
  lexicase s pid k r eps mins ncases cands = Ok (res, r') ->
  length res = k /\
  (exists rest, Permutation cands (map (fun x => fst (fst x)) res ++ rest)) /\
  Forall (fun x => let '(w, avail, cases) := x in
                   incl avail cands /\ Permutation (nat_range ncases) cases /\
                   exists surv, lex_filter s pid eps mins avail cases = Ok surv /\ In w surv) res.
Proof.
  revert r cands res r'. induction k as [|k IH]; intros r cands res r' H; cbn [lexicase] in H.
  - inversion H; subst. split; [reflexivity|]. split; [|constructor].
    exists cands. reflexivity.
  - destruct (shuffle r (nat_range ncases)) as [[cases r1]|e] eqn:Sh; cbn [bind] in H; [|discriminate].
    destruct (lex_filter s pid eps mins cands cases) as [surv|e] eqn:Lf; cbn [bind] in H; [|discriminate].
    match type of H with bind ?m _ = _ => remember m as pk eqn:Epk end.
    destruct pk as [[w r2]|e]; cbn [bind] in H; [|discriminate].
    assert (Iw : In w surv).
    { destruct surv as [|x [|x' t']]; [discriminate| |].
      - inversion Epk; subst. left. reflexivity.
      - eapply choice_mem. symmetry. exact Epk. }
    clear Epk.
    destruct (lexicase s pid k r2 eps mins ncases (remove_first w cands)) as [[rest r3]|e] eqn:Lx;
      cbn [bind] in H; [|discriminate].
    inversion H; subst res r'. destruct (IH _ _ _ _ Lx) as (Lr & [rst Pr] & Fr).
    assert (Iwc : In w cands) by (apply (lex_filter_incl _ _ _ _ _ Lf); exact Iw).
    split; [cbn [length]; rewrite Lr; reflexivity|]. split.
    + exists rst. cbn [map fst app].
      eapply perm_trans; [apply remove_first_perm; exact Iwc|]. apply perm_skip. exact Pr.
    + constructor.
      * split; [apply incl_refl|]. split; [eapply shuffle_perm; exact Sh|].
        exists surv. split; [exact Lf|exact Iw].
      * eapply Forall_impl; [|exact Fr]. intros [[w' av] cs] (Ia & Pc & Hs).
        split; [|split; [exact Pc|exact Hs]].
        intros z Iz. apply (remove_first_incl w cands). apply Ia. exact Iz.
Qed.

End Select.
