(* StackProofs.v — C01 for the stack representation: whatever the codons, a program the stack machine
   (Model/Stack.v) returns is a well-typed program of the start symbol.  Invariant: every value on the stack
   of a type is well-typed at that type; it is kept by every attempt, also by one that ends in an IndexError
   half-way through its pops. *)
From GE Require Import Base Tape Grammar WellTyped Synth Stack RegProofs TapeProofs DistProofs.
Open Scope Z_scope.

Section StackWT.
Variable g : grammar.
Let d := g_decl g.
Let r := g_reg g.
Hypothesis Hinv : reg_inv d r.
Notation WTf := (WT d r false).
Notation all2 := (fix all2 (l1 l2 : list ty) : bool :=
                    match l1, l2 with [] , [] => true | x :: t, y :: u => ty_eqb x y && all2 t u | _, _ => false end).

(* well-typedness does not see the difference between two types that ty_eqb identifies *)
Definition same_wt (a : ty) : Prop := forall b, ty_eqb a b = true -> forall v, WTf a v <-> WTf b v.

Lemma WTall_iff a b : (forall v, WTf a v <-> WTf b v) -> forall vs, WTall d r false a vs <-> WTall d r false b vs.
Proof.
  intros H vs. induction vs as [|v vs IH]; split; intro K; try constructor; inversion K; subst.
  - apply H; assumption.
  - apply IH; assumption.
  - apply H; assumption.
  - apply IH; assumption.
Qed.

Lemma WTs_iff : forall ts us, Forall same_wt ts -> all2 ts us = true -> forall vs, WTs d r false ts vs <-> WTs d r false us vs.
Proof.
  induction ts as [|t ts IH]; intros us HF E vs; destruct us as [|u us]; try discriminate; [reflexivity|].
  apply andb_prop in E. destruct E as [E1 E2]. inversion HF as [|? ? Ht Hts]; subst.
  split; intro K; inversion K; subst; constructor.
  - apply (Ht u E1); assumption.
  - apply (IH us Hts E2); assumption.
  - apply (Ht u E1); assumption.
  - apply (IH us Hts E2); assumption.
Qed.

Lemma WTany_iff : forall ts us, Forall same_wt ts -> all2 ts us = true -> forall v, WTany d r false ts v <-> WTany d r false us v.
Proof.
  induction ts as [|t ts IH]; intros us HF E v; destruct us as [|u us]; try discriminate; [reflexivity|].
  apply andb_prop in E. destruct E as [E1 E2]. inversion HF as [|? ? Ht Hts]; subst.
  split; intro K; inversion K; subst.
  - apply WTany_here. apply (Ht u E1); assumption.
  - apply WTany_there. apply (IH us Hts E2); assumption.
  - apply WTany_here. apply (Ht u E1); assumption.
  - apply WTany_there. apply (IH us Hts E2); assumption.
Qed.

Lemma WT_eqb : forall a, same_wt a.
Proof.
  induction a as [x|c|t IH|ts IH|ts IH|t m IH] using ty_ind'; intros b E v; destruct b as [y|c'|t'|ts'|ts'|t' m']; cbn [ty_eqb] in E; try discriminate.
  - assert (x = y) by (destruct x, y; try discriminate; reflexivity). subst. reflexivity.
  - apply Nat.eqb_eq in E. subst. reflexivity.
  - pose proof (WTall_iff t t' (IH t' E)) as HA.
    split; intro K; inversion K; subst; constructor; try (intro; discriminate); apply HA; assumption.
  - pose proof (WTs_iff ts ts' IH E) as HS.
    split; intro K; inversion K; subst; constructor; apply HS; assumption.
  - pose proof (WTany_iff ts ts' IH E) as HS.
    split; intro K; inversion K; subst; constructor; apply HS; assumption.
  - apply andb_prop in E. destruct E as [E1 _].
    split; intro K; inversion K; subst; constructor; apply (IH t' E1); assumption.
Qed.

(* ---------- the invariant ---------- *)
Definition Inv (s : mst) : Prop := Forall (fun kv => Forall (WTf (fst kv)) (snd kv)) (m_stk s).

Lemma tget_inv : forall (m : stacks) t l, Forall (fun kv => Forall (WTf (fst kv)) (snd kv)) m -> tget m t = Some l -> Forall (WTf t) l.
Proof.
  induction m as [|[k w] m IH]; intros t l HF H; cbn [tget] in H; [discriminate|].
  inversion HF as [|? ? Hk Hm]; subst. destruct (ty_eqb t k) eqn:E.
  - inversion H; subst. cbn [fst snd] in Hk. eapply Forall_impl; [|exact Hk]. intros v Hv. apply (WT_eqb t k E). exact Hv.
  - eapply IH; eauto.
Qed.

Lemma tset_inv : forall (m : stacks) t l, Forall (fun kv => Forall (WTf (fst kv)) (snd kv)) m -> Forall (WTf t) l ->
  Forall (fun kv => Forall (WTf (fst kv)) (snd kv)) (tset m t l).
Proof.
  induction m as [|[k w] m IH]; intros t l HF Hl; cbn [tset].
  - constructor; [exact Hl|constructor].
  - inversion HF as [|? ? Hk Hm]; subst. destruct (ty_eqb t k) eqn:E.
    + constructor; [|exact Hm]. cbn [fst snd]. eapply Forall_impl; [|exact Hl]. intros v Hv. apply (WT_eqb t k E). exact Hv.
    + constructor; [exact Hk|]. apply IH; assumption.
Qed.

(* a piece of an attempt keeps the invariant whatever its outcome, and its value satisfies Q *)
Definition spres {A} (m : SM A) (Q : A -> Prop) : Prop :=
  forall s, Inv s -> Inv (snd (m s)) /\ forall a, fst (m s) = Ok a -> Q a.

Lemma spres_ret {A} (a : A) (Q : A -> Prop) : Q a -> spres (sret a) Q.
Proof. intros H s Hs. split; [exact Hs|]. intros a' E. inversion E; subst. exact H. Qed.

Lemma spres_fail {A} e (Q : A -> Prop) : spres (sfail e) Q.
Proof. intros s Hs. split; [exact Hs|]. intros a E. discriminate. Qed.

Lemma spres_bind {A B} (m : SM A) (f : A -> SM B) (Q : A -> Prop) (R : B -> Prop) :
  spres m Q -> (forall a, Q a -> spres (f a) R) -> spres (sbind m f) R.
Proof.
  intros Hm Hf s Hs. unfold sbind. destruct (Hm s Hs) as [H1 H2]. destruct (m s) as [[a|e] s1]; cbn [fst snd] in *.
  - apply (Hf a (H2 a eq_refl) s1 H1).
  - split; [exact H1|]. intros b E. discriminate.
Qed.

Lemma spres_weaken {A} (m : SM A) (Q R : A -> Prop) : spres m Q -> (forall a, Q a -> R a) -> spres m R.
Proof. intros H HQ s Hs. destruct (H s Hs) as [H1 H2]. split; [exact H1|]. intros a E. apply HQ, H2, E. Qed.

Lemma spres_src {A} (f : src -> res (A * src)) (Q : A -> Prop) :
  (forall s a s', f s = Ok (a, s') -> Q a) -> spres (s_src f) Q.
Proof.
  intros H s Hs. unfold s_src. destruct (f (m_src s)) as [[a s']|e] eqn:E; cbn [fst snd].
  - split; [exact Hs|]. intros a' Ea. inversion Ea; subst. eapply H; eauto.
  - split; [exact Hs|]. intros a' Ea. discriminate.
Qed.

Lemma spres_get t : spres (s_get t) (fun l => Forall (WTf t) l).
Proof.
  intros s Hs. unfold s_get. destruct (tget (m_stk s) t) as [l|] eqn:E; cbn [fst snd]; (split; [exact Hs|]); intros a Ea; inversion Ea; subst.
  eapply tget_inv; eauto.
Qed.

Lemma spres_put t l : Forall (WTf t) l -> spres (s_put t l) (fun _ => True).
Proof. intros Hl s Hs. unfold s_put. cbn [fst snd]. split; [|auto]. apply tset_inv; assumption. Qed.

Lemma spres_push t v : WTf t v -> spres (s_push t v) (fun _ => True).
Proof.
  intros Hv s Hs. unfold s_push. cbn [fst snd]. split; [|auto]. apply tset_inv; [exact Hs|].
  destruct (tget (m_stk s) t) as [l|] eqn:E.
  - apply Forall_app. split; [eapply tget_inv; eauto|constructor; [exact Hv|constructor]].
  - constructor; [exact Hv|constructor].
Qed.

Lemma spres_pop_front t : spres (s_pop_front t) (WTf t).
Proof.
  unfold s_pop_front. eapply spres_bind; [apply spres_get|]. intros l Hl. destruct l as [|v rest]; [apply spres_fail|].
  inversion Hl; subst. eapply spres_bind; [apply spres_put; assumption|]. intros _ _. apply spres_ret. assumption.
Qed.

Lemma spres_pop_back t : spres (s_pop_back t) (WTf t).
Proof.
  unfold s_pop_back. eapply spres_bind; [apply spres_get|]. intros l Hl.
  assert (Hr : Forall (WTf t) (rev l)) by (apply Forall_rev; exact Hl).
  destruct (rev l) as [|v rest]; [apply spres_fail|].
  inversion Hr; subst. eapply spres_bind; [apply spres_put; apply Forall_rev; assumption|]. intros _ _. apply spres_ret. assumption.
Qed.

Lemma spres_failure : spres s_failure (fun _ => True).
Proof. intros s Hs. split; [exact Hs|auto]. Qed.

Lemma spres_map_pop (pop : ty -> SM value) : (forall t, spres (pop t) (WTf t)) ->
  forall ts, spres (s_map pop ts) (fun vs => WTs d r false ts vs).
Proof.
  intros Hp. induction ts as [|t ts IH]; cbn [s_map]; [apply spres_ret; constructor|].
  eapply spres_bind; [apply Hp|]. intros v Hv. eapply spres_bind; [apply IH|]. intros vs Hvs. apply spres_ret. constructor; assumption.
Qed.

Lemma WT_promote c p l v : is_abstract d (SC c) = true -> get_alts (r_alts r) c = Some l -> In p l -> WTf (TSym p) v -> WTf (TSym c) v.
Proof.
  intros Ha Hg Hin Hv. inversion Hv; subst. constructor; [|assumption]. eapply po_step; eauto.
Qed.

Lemma Forall_firstn {A} (P : A -> Prop) n : forall l, Forall P l -> Forall P (firstn n l).
Proof. induction n as [|n IH]; intros l H; cbn [firstn]; [constructor|]. destruct l; [constructor|]. inversion H; subst. constructor; auto. Qed.
Lemma Forall_skipn {A} (P : A -> Prop) n : forall l, Forall P l -> Forall P (skipn n l).
Proof. induction n as [|n IH]; intros l H; cbn [skipn]; [exact H|]. destruct l; [constructor|]. inversion H; subst. auto. Qed.
Lemma Forall_WTall t vs : Forall (WTf t) vs -> WTall d r false t vs.
Proof. induction 1; constructor; assumption. Qed.
Lemma In_WTany ts a v : In a ts -> WTf a v -> WTany d r false ts v.
Proof. induction ts as [|t ts IH]; intros Hin Hv; [destruct Hin|]. destruct Hin as [->|Hin]; [apply WTany_here; exact Hv|apply WTany_there; auto]. Qed.

Theorem attempt_keeps types : types_registered g types = true -> spres (attempt g types) (fun _ => True).
Proof.
  intro Hreg. unfold attempt. fold d.
  eapply spres_bind.
  { apply spres_src with (Q := fun t => In t types). intros s a s' H. unfold choice_weighted in H. eapply choice_weighted_mem; eauto. }
  intros t Hin.
  assert (Ht : match t with TSym c => mem_sym (SC c) (r_nodes r) = true | _ => True end).
  { unfold types_registered in Hreg. rewrite forallb_forall in Hreg. specialize (Hreg t Hin). destruct t; auto. }
  destruct t as [b|c|a|ts|ts|a m].
  - destruct b.
    + eapply spres_bind; [apply spres_src with (Q := fun _ => True); auto|]. intros v _. apply spres_push. apply WT_int.
    + eapply spres_bind; [apply spres_src with (Q := fun _ => True); auto|]. intros v _. apply spres_push. apply WT_float.
    + apply spres_fail.
    + eapply spres_bind; [apply spres_src with (Q := fun _ => True); auto|]. intros v _. apply spres_push. apply WT_bool.
  - destruct (is_abstract d (SC c)) eqn:Ha.
    + unfold alts_of. fold r. destruct (get_alts (r_alts r) c) as [prods|] eqn:Hg; [|apply spres_fail].
      eapply spres_bind; [apply spres_src with (Q := fun p => In p prods); intros s a s' H; eapply choice_mem; eauto|].
      intros p Hp. eapply spres_bind; [apply spres_get|]. intros l Hl. destruct l as [|v rest]; [apply spres_failure|].
      inversion Hl as [|? ? Hv Hrest]; subst. eapply spres_bind; [apply spres_put; assumption|]. intros _ _. apply spres_push. exact (WT_promote c p prods v Ha Hg Hp Hv).
    + unfold alts_of. fold r. destruct (get_alts (r_alts r) c) as [prods|] eqn:Hg.
      * (* a concrete class never has productions of its own (registration refuses them) *)
        exfalso. pose proof (ri_nonempty _ _ Hinv _ _ Hg) as Hne. destruct prods as [|p0 rest]; [congruence|].
        destruct (ri_mem _ _ Hinv c (p0 :: rest) p0 Hg (or_introl eq_refl)) as [_ [_ Habs]]. congruence.
      * eapply spres_bind; [apply spres_map_pop; apply spres_pop_back|]. intros args Hargs. apply spres_push.
        constructor; [apply po_self; assumption|exact Hargs].
  - eapply spres_bind; [apply spres_get|]. intros l Hl.
    eapply spres_bind; [apply spres_src with (Q := fun _ => True); auto|]. intros n _.
    eapply spres_bind; [apply spres_put; apply Forall_skipn; exact Hl|]. intros _ _.
    apply spres_push. constructor; [apply Forall_WTall, Forall_firstn; exact Hl|intro; discriminate].
  - eapply spres_bind; [apply spres_map_pop; apply spres_pop_front|]. intros args Hargs. apply spres_push. constructor. exact Hargs.
  - eapply spres_bind; [apply spres_src with (Q := fun a => In a ts); intros s a s' H; eapply choice_mem; eauto|].
    intros a Ha. eapply spres_bind; [apply spres_pop_back|]. intros v Hv. apply spres_push. apply WT_union. exact (In_WTany ts a v Ha Hv).
  - apply spres_fail.
Qed.

Theorem machine_wt types limit : types_registered g types = true ->
  forall fuel s v, Inv s -> machine fuel g types limit s = Ok v -> WTf (TSym (d_start d)) v.
Proof.
  intro Hreg. induction fuel as [|f IH]; intros s v Hs H; cbn [machine] in H; fold d in H.
  - destruct (tget (m_stk s) (TSym (d_start d))) as [[|v0 rest]|] eqn:E; try discriminate.
    + destruct (limit <=? m_fail s); discriminate.
    + inversion H; subst. pose proof (tget_inv _ _ _ Hs E) as K. inversion K; subst. assumption.
  - destruct (tget (m_stk s) (TSym (d_start d))) as [[|v0 rest]|] eqn:E; try discriminate.
    + destruct (limit <=? m_fail s); [discriminate|].
      destruct (attempt_keeps types Hreg s Hs) as [H1 _].
      destruct (attempt g types s) as [[u|e] s1]; cbn [snd] in H1.
      * eapply IH; eauto.
      * destruct e; try discriminate. eapply IH; [|exact H]. exact H1.
    + inversion H; subst. pose proof (tget_inv _ _ _ Hs E) as K. inversion K; subst. assumption.
Qed.

Lemma Inv_init (types : list ty) : Forall (fun kv : ty * list value => Forall (WTf (fst kv)) (snd kv)) (map (fun t => (t, [])) types).
Proof. induction types as [|t ts IH]; cbn [map]; [constructor|]. constructor; [constructor|exact IH]. Qed.

Theorem stack_map_wt fuel limit dna v : types_registered g (all_stack_types g) = true ->
  stack_map fuel g limit dna = Ok v -> WTf (TSym (d_start d)) v.
Proof.
  intros Hreg H. unfold stack_map in H. eapply machine_wt; [exact Hreg| |exact H].
  unfold Inv. cbn [m_stk]. apply Inv_init.
Qed.

End StackWT.

From GE Require Import SynthSat SynthDepth WeightProofs RegFields.

(* ---------- every class among the machine's stack types is registered ---------- *)
Section Registered.
Variable g : grammar.
Let d := g_decl g.
Let r := g_reg g.
Hypothesis Hinv : reg_inv d r.
Hypothesis Hfc : fclosed d [] r.

Lemma explode_in_go ts a sy : In a ts -> In sy (explode a) ->
  In sy ((fix go (l : list ty) : list sym := match l with [] => [] | x :: r => explode x ++ go r end) ts).
Proof.
  induction ts as [|x rest IH]; intros Ha Hs; [destruct Ha|].
  apply in_or_app. destruct Ha as [-> | Ha]; [left; exact Hs|right; apply IH; assumption].
Qed.

Lemma fold_collect_freg (F : ty -> list ty -> list ty) :
  (forall a seen, Forall (freg r) seen -> freg r a -> Forall (freg r) (F a seen)) ->
  forall ts seen, Forall (freg r) seen -> (forall a, In a ts -> freg r a) -> Forall (freg r) (fold_left (fun acc a => F a acc) ts seen).
Proof.
  intros HF. induction ts as [|a ts IH]; intros seen Hs Ht; cbn [fold_left]; [exact Hs|].
  apply IH; [apply HF; [exact Hs|apply Ht; left; reflexivity] | intros b Hb; apply Ht; right; exact Hb].
Qed.

Lemma collect_registered : forall fuel t seen, Forall (freg r) seen -> freg r t -> Forall (freg r) (collect_acc fuel d t seen).
Proof.
  induction fuel as [|f IH]; intros t seen Hs Ht; cbn [collect_acc]; [exact Hs|].
  destruct (existsb (ty_eqb t) seen); [exact Hs|].
  assert (Hs1 : Forall (freg r) (seen ++ [t])) by (apply Forall_app; split; [exact Hs|constructor; [exact Ht|constructor]]).
  destruct t as [b|c|a|ts|ts|a m].
  - exact Hs1.
  - destruct (is_abstract d (SC c)) eqn:Ea; [exact Hs1|].
    apply (fold_collect_freg (collect_acc f d)); [intros; apply IH; assumption | exact Hs1|].
    intros a Ha. apply (Hfc c); [apply Ht; left; reflexivity | intros [] | exact Ea | exact Ha].
  - apply IH; [exact Hs1|exact Ht].
  - apply (fold_collect_freg (collect_acc f d)); [intros; apply IH; assumption | exact Hs1|].
    intros a Ha sy Hsy. apply Ht. cbn [explode]. eapply explode_in_go; eauto.
  - apply (fold_collect_freg (collect_acc f d)); [intros; apply IH; assumption | exact Hs1|].
    intros a Ha sy Hsy. apply Ht. cbn [explode]. eapply explode_in_go; eauto.
  - apply IH; [exact Hs1|exact Ht].
Qed.

Theorem stack_types_registered : types_registered g (all_stack_types g) = true.
Proof.
  unfold types_registered. apply forallb_forall. intros t Ht. fold r.
  assert (K : freg r t).
  { unfold all_stack_types in Ht. fold d in Ht. fold r in Ht.
    match type of Ht with In t (fold_left ?F ?syms []) =>
      assert (HF : Forall (freg r) (fold_left F syms [])) end.
    { apply (fold_collect_freg (collect_acc (200 + 8 * length (d_classes d)) d)); [intros; apply collect_registered; assumption | constructor|].
      intros t0 Ht0.
      apply in_app_or in Ht0. destruct Ht0 as [H0 | H0]; [|apply in_app_or in H0; destruct H0 as [H0 | H0]].
      - apply in_map_iff in H0. destruct H0 as [[k l] [<- Hkl]]. cbn [fst]. intros sy [<- | []].
        apply (In_get_alts _ _ _ (ri_keys _ _ Hinv)) in Hkl. eapply (ri_key_reg _ _ Hinv); eauto.
      - apply in_flat_map in H0. destruct H0 as [[k l] [Hkl Hv]]. cbn [snd] in Hv. apply in_map_iff in Hv. destruct Hv as [v [<- Hv]].
        intros sy [<- | []]. apply (In_get_alts _ _ _ (ri_keys _ _ Hinv)) in Hkl.
        destruct (ri_mem _ _ Hinv _ _ _ Hkl Hv) as [Hm _]. exact Hm.
      - apply in_map_iff in H0. destruct H0 as [s0 [<- Hs0]]. intros sy Hsy. apply mem_sym_In.
        destruct s0; cbn [ty_of_sym explode] in Hsy; destruct Hsy as [<- | []]; exact Hs0. }
    rewrite Forall_forall in HF. apply HF. exact Ht. }
  destruct t; try reflexivity. apply K. left. reflexivity.
Qed.
End Registered.

Lemma extract_fclosed d order g : extract d order = Ok g -> fclosed (g_decl g) [] (g_reg g).
Proof.
  intro H. destruct (extract_analyse _ _ _ H) as [Ha _]. destruct (analyse_reg _ _ _ Ha) as [Er Hd].
  eapply reg_result_fclosed. exact Er.
Qed.

(* for every hierarchy the library accepts, every codon list, failure limit and fuel: a program the stack machine returns is a
   well-typed program of the start symbol *)
Theorem stack_mapped_well_typed d order g : extract d order = Ok g ->
  forall fuel limit dna v, stack_map fuel g limit dna = Ok v -> WT (g_decl g) (g_reg g) false (TSym (d_start (g_decl g))) v.
Proof.
  intros E fuel limit dna v H. pose proof (extract_reg_inv d order g E) as Hi.
  eapply stack_map_wt; [exact Hi| |exact H]. apply stack_types_registered; [exact Hi|]. eapply extract_fclosed; eauto.
Qed.

Theorem extract_fields_registered d order g : extract d order = Ok g ->
  forall c, mem_sym (SC c) (r_nodes (g_reg g)) = true -> is_abstract (g_decl g) (SC c) = false ->
  forall a, In a (fields_of (g_decl g) (SC c)) -> forall sy, In sy (explode a) -> mem_sym sy (r_nodes (g_reg g)) = true.
Proof. intros E c Hm Ha a Hin sy Hs. exact (extract_fclosed d order g E c Hm (fun f => f) Ha a Hin sy Hs). Qed.
