(* StepsProofs.v — property C15: population size is invariant across step compositions. *)
From GE Require Import Base Tape Search Steps.
From Coq Require Import Permutation Lia ZArith List QArith Qround.
Import ListNotations.
Open Scope Z_scope.

(* the slices of a parallel combinator form a chain 0 = a0 <= b0 = a1 <= ... <= b_last = k *)
Inductive chain : Z -> list (Z * Z) -> Z -> Prop :=
| chain_one a k : a <= k -> chain a [(a, k)] k
| chain_cons a b rs k : a <= b -> chain b rs k -> chain a ((a, b) :: rs) k.

(* ---------- rounding ---------- *)
Lemma Qfloor_nonneg q : (0 <= q)%Q -> 0 <= Qfloor q.
Proof.
  intros Hq.
  assert (H : Qfloor 0 <= Qfloor q) by (apply Qfloor_resp_le; exact Hq).
  exact H.
Qed.

Theorem round_he_nonneg q : (0 <= q)%Q -> 0 <= round_he q.
Proof.
  intros Hq.
  pose proof (Qfloor_nonneg q Hq) as Hf.
  unfold round_he.
  destruct (Qle_bool (q - inject_Z (Qfloor q)) (1 # 2)) eqn:E1.
  - destruct (Qle_bool (1 # 2) (q - inject_Z (Qfloor q))) eqn:E2.
    + destruct (Z.even (Qfloor q)) eqn:E3; lia.
    + lia.
  - lia.
Qed.

(* ---------- ranges ---------- *)
Lemma zip_next_cons2 a b t : zip_next (a :: b :: t) = (a, b) :: zip_next (b :: t).
Proof. reflexivity. Qed.

Lemma set_last_end_cons2 r r' t k :
  set_last_end (r :: r' :: t) k = r :: set_last_end (r' :: t) k.
Proof. destruct r as [a b]; reflexivity. Qed.

Lemma cum_chain k : forall sh acc,
  sh <> [] -> Forall (fun x => 0 <= x) sh ->
  length (set_last_end (zip_next (map (fun i => Z.min i k) (acc :: cumsum acc sh))) k) = length sh /\
  chain (Z.min acc k) (set_last_end (zip_next (map (fun i => Z.min i k) (acc :: cumsum acc sh))) k) k.
Proof.
  induction sh as [|x t IH]; intros acc Hne Hnn.
  - contradiction.
  - inversion Hnn as [|x' t' Hx Ht]; subst.
    destruct t as [|y t2].
    + cbn [cumsum map zip_next set_last_end length]. split; [reflexivity|].
      apply chain_one. lia.
    + assert (Hne2 : y :: t2 <> []) by discriminate.
      destruct (IH (acc + x) Hne2 Ht) as [IHlen IHch].
      change (cumsum acc (x :: y :: t2)) with ((acc + x) :: cumsum (acc + x) (y :: t2)).
      change (cumsum (acc + x) (y :: t2)) with ((acc + x + y) :: cumsum (acc + x + y) t2) in *.
      cbn [map] in *.
      rewrite zip_next_cons2.
      rewrite (zip_next_cons2 (Z.min (acc + x) k)) in *.
      rewrite set_last_end_cons2.
      split.
      * cbn [length]. cbn [length] in IHlen. rewrite IHlen. reflexivity.
      * apply chain_cons; [lia | exact IHch].
Qed.

Lemma share_nonneg w n total :
  (0 <= w)%Q -> 0 <= n -> (0 < total)%Q -> (0 <= w * inject_Z n / total)%Q.
Proof.
  intros Hw Hn Ht.
  unfold Qdiv.
  apply Qmult_le_0_compat.
  - apply Qmult_le_0_compat; [exact Hw|].
    change 0%Q with (inject_Z 0). rewrite <- Zle_Qle. exact Hn.
  - apply Qinv_le_0_compat. apply Qlt_le_weak. exact Ht.
Qed.

Lemma shares_nonneg n total ws :
  Forall (fun w => (0 <= w)%Q) ws -> 0 <= n -> (0 < total)%Q ->
  Forall (fun x => 0 <= x) (map (fun w => round_he (w * inject_Z n / total)) ws).
Proof.
  intros Hnn Hn Ht. induction Hnn as [|w l Hw Hl IHl].
  - constructor.
  - cbn [map]. constructor.
    + apply round_he_nonneg. apply share_nonneg; assumption.
    + exact IHl.
Qed.

Theorem ranges_chain ws n k :
  ws <> [] -> Forall (fun w => (0 <= w)%Q) ws -> (0 < qsum ws)%Q -> 0 <= n -> 0 <= k ->
  exists rs, ranges ws n k = Ok rs /\ length rs = length ws /\ chain 0 rs k.
Proof.
  intros Hne Hnn Hpos Hn Hk.
  unfold ranges.
  destruct ws as [|w0 wt] eqn:Ews; [contradiction|].
  rewrite <- Ews in *.
  destruct (Qeq_bool (qsum ws) 0) eqn:E0.
  - apply Qeq_bool_iff in E0. rewrite E0 in Hpos. exfalso. exact (Qlt_irrefl 0 Hpos).
  - set (sh := map (fun w => round_he (w * inject_Z n / qsum ws)) ws).
    assert (Hsh : Forall (fun x => 0 <= x) sh).
    { unfold sh. apply shares_nonneg; assumption. }
    assert (Hshne : sh <> []).
    { unfold sh. rewrite Ews. cbn [map]. discriminate. }
    destruct (cum_chain k sh 0 Hshne Hsh) as [Hlen Hch].
    eexists. split; [reflexivity|].
    split.
    + rewrite Hlen. unfold sh. apply map_length.
    + replace (Z.min 0 k) with 0 in Hch by lia. exact Hch.
Qed.

(* ---------- a usable induction principle for the nested step type ---------- *)
Section StepInd.
  Variable P : step -> Prop.
  Hypothesis Hel : P SElitism.
  Hypothesis Hnov : P SNovelty.
  Hypothesis Htour : forall size repl, P (STournament size repl).
  Hypothesis Hlex : forall eps, P (SLexicase eps).
  Hypothesis Hmut : P SMutation.
  Hypothesis Hcross : P SCrossover.
  Hypothesis Hid : P SIdentity.
  Hypothesis Hseq : forall l, Forall P l -> P (SSeq l).
  Hypothesis Hpar : forall l ws, Forall P l -> P (SPar l ws).
  Hypothesis Hex : forall l ws, Forall P l -> P (SExcl l ws).

  Fixpoint step_ind' (s : step) : P s :=
    match s with
    | SElitism => Hel
    | SNovelty => Hnov
    | STournament size repl => Htour size repl
    | SLexicase eps => Hlex eps
    | SMutation => Hmut
    | SCrossover => Hcross
    | SIdentity => Hid
    | SSeq l =>
        Hseq l ((fix go (l : list step) : Forall P l :=
                   match l with
                   | [] => Forall_nil P
                   | x :: t => Forall_cons x (step_ind' x) (go t)
                   end) l)
    | SPar l ws =>
        Hpar l ws ((fix go (l : list step) : Forall P l :=
                      match l with
                      | [] => Forall_nil P
                      | x :: t => Forall_cons x (step_ind' x) (go t)
                      end) l)
    | SExcl l ws =>
        Hex l ws ((fix go (l : list step) : Forall P l :=
                     match l with
                     | [] => Forall_nil P
                     | x :: t => Forall_cons x (step_ind' x) (go t)
                     end) l)
    end.
End StepInd.

(* ---------- names for the nested fixpoints ---------- *)
Definition all_wf : list step -> Prop :=
  fix all (l : list step) : Prop := match l with [] => True | s :: t => wf_step s /\ all t end.

Definition any_lex : list step -> bool :=
  fix any (l : list step) : bool := match l with [] => false | s :: t => uses_lexicase s || any t end.

Lemma all_wf_Forall l : all_wf l -> Forall wf_step l.
Proof.
  induction l as [|s t IH]; intros H.
  - constructor.
  - destruct H as [Hs Ht]. constructor; [exact Hs | exact (IH Ht)].
Qed.

Lemma any_lex_Forall mo l :
  (any_lex l = true -> mo = true) -> Forall (fun s => uses_lexicase s = true -> mo = true) l.
Proof.
  induction l as [|s t IH]; intros H.
  - constructor.
  - constructor.
    + intros Hs. apply H. cbn [any_lex]. rewrite Hs. reflexivity.
    + apply IH. intros Ht. apply H. cbn [any_lex].
      change ((fix any (l : list step) : bool :=
                 match l with [] => false | s :: t => uses_lexicase s || any t end) t)
        with (any_lex t).
      rewrite Ht. apply orb_true_r.
Qed.

Definition len_exact (mo : bool) (s : step) : Prop :=
  forall n k, 0 <= k <= n -> out_len mo s n k = Ok k.

Definition exactP (mo : bool) (s : step) : Prop :=
  wf_step s -> (uses_lexicase s = true -> mo = true) -> len_exact mo s.

Lemma children_exact mo l :
  Forall (exactP mo) l -> all_wf l -> (any_lex l = true -> mo = true) -> Forall (len_exact mo) l.
Proof.
  intros HP Hwf Hlex.
  apply all_wf_Forall in Hwf. apply any_lex_Forall in Hlex.
  induction HP as [|s t Hs Ht IH].
  - constructor.
  - inversion Hwf as [|s1 t1 Hwfs Hwft]; subst.
    inversion Hlex as [|s2 t2 Hlexs Hlext]; subst.
    constructor; [exact (Hs Hwfs Hlexs) | exact (IH Hwft Hlext)].
Qed.

(* ---------- sequences ---------- *)
Definition seq_go (mo : bool) (k : Z) : list step -> Z -> res Z :=
  fix go (l : list step) (n : Z) : res Z :=
    match l with
    | [] => Ok n
    | s :: t => let* n' := out_len mo s n k in go t n'
    end.

Lemma out_len_seq mo l n k : out_len mo (SSeq l) n k = seq_go mo k l n.
Proof. reflexivity. Qed.

Lemma seq_go_cons mo k s t n :
  seq_go mo k (s :: t) n = bind (out_len mo s n k) (fun n' => seq_go mo k t n').
Proof. reflexivity. Qed.

Lemma seq_go_fix mo k l : 0 <= k -> Forall (len_exact mo) l -> seq_go mo k l k = Ok k.
Proof.
  intros Hk HF. induction HF as [|s t Hs Ht IH].
  - reflexivity.
  - rewrite seq_go_cons. rewrite (Hs k k) by lia. cbn [bind]. exact IH.
Qed.

(* ---------- parallel ---------- *)
Definition par_go (mo : bool) (n : Z) : list step -> list (Z * Z) -> res Z :=
  fix go (l : list step) (rs : list (Z * Z)) : res Z :=
    match l, rs with
    | s :: t, (a, b) :: rt =>
        let* x := (if 0 <? b - a then out_len mo s n (b - a) else Ok 0) in
        let* y := go t rt in Ok (x + y)
    | _, _ => Ok 0
    end.

Definition excl_go (mo : bool) (n : Z) : list step -> list (Z * Z) -> res Z :=
  fix go (l : list step) (rs : list (Z * Z)) : res Z :=
    match l, rs with
    | s :: t, (a, b) :: rt =>
        let* x := out_len mo s (Z.max 0 (Z.min b n - Z.min a n)) (b - a) in
        let* y := go t rt in Ok (x + y)
    | _, _ => Ok 0
    end.

Lemma out_len_par mo l ws n k :
  out_len mo (SPar l ws) n k =
  if negb (Nat.eqb (length l) (length ws)) then Err AssertionError
  else bind (ranges ws n k) (fun rs => par_go mo n l rs).
Proof. reflexivity. Qed.

Lemma out_len_excl mo l ws n k :
  out_len mo (SExcl l ws) n k =
  if negb (Nat.eqb (length l) (length ws)) then Err AssertionError
  else bind (ranges ws n k) (fun rs => excl_go mo n l rs).
Proof. reflexivity. Qed.

Lemma par_go_cons mo n s t a b rt :
  par_go mo n (s :: t) ((a, b) :: rt) =
  bind (if 0 <? b - a then out_len mo s n (b - a) else Ok 0)
       (fun x => bind (par_go mo n t rt) (fun y => Ok (x + y))).
Proof. reflexivity. Qed.

Lemma excl_go_cons mo n s t a b rt :
  excl_go mo n (s :: t) ((a, b) :: rt) =
  bind (out_len mo s (Z.max 0 (Z.min b n - Z.min a n)) (b - a))
       (fun x => bind (excl_go mo n t rt) (fun y => Ok (x + y))).
Proof. reflexivity. Qed.

Lemma par_go_nil mo n rs : par_go mo n [] rs = Ok 0.
Proof. reflexivity. Qed.

Lemma excl_go_nil mo n rs : excl_go mo n [] rs = Ok 0.
Proof. reflexivity. Qed.

Lemma chain_le a rs k : chain a rs k -> a <= k.
Proof. induction 1; lia. Qed.

Lemma par_slice mo s n a b :
  len_exact mo s -> 0 <= a -> a <= b -> b <= n ->
  (if 0 <? b - a then out_len mo s n (b - a) else Ok 0) = Ok (b - a).
Proof.
  intros Hs Ha Hab Hbn.
  destruct (0 <? b - a) eqn:E.
  - apply Hs. lia.
  - apply Z.ltb_ge in E. f_equal. lia.
Qed.

Lemma excl_slice mo s n a b :
  len_exact mo s -> 0 <= a -> a <= b -> b <= n ->
  out_len mo s (Z.max 0 (Z.min b n - Z.min a n)) (b - a) = Ok (b - a).
Proof.
  intros Hs Ha Hab Hbn.
  replace (Z.max 0 (Z.min b n - Z.min a n)) with (b - a) by lia.
  apply Hs. lia.
Qed.

Lemma par_go_exact mo n a rs k :
  chain a rs k -> forall l, length l = length rs -> Forall (len_exact mo) l ->
  0 <= a -> k <= n -> par_go mo n l rs = Ok (k - a).
Proof.
  induction 1 as [a k Hak | a b rs k Hab Hch IH]; intros l Hlen HF Ha Hkn.
  - destruct l as [|s t]; [discriminate Hlen|].
    destruct t as [|s2 t2]; [|discriminate Hlen].
    inversion HF as [|s1 t1 Hs Ht]; subst.
    rewrite par_go_cons, par_go_nil.
    rewrite (par_slice mo s n a k Hs Ha Hak Hkn).
    cbn [bind]. f_equal. lia.
  - destruct l as [|s t]; [discriminate Hlen|].
    inversion HF as [|s1 t1 Hs Ht]; subst.
    pose proof (chain_le _ _ _ Hch) as Hbk.
    rewrite par_go_cons.
    rewrite (par_slice mo s n a b Hs Ha Hab) by lia.
    cbn [bind].
    rewrite (IH t) by (try assumption; try lia; cbn [length] in Hlen; lia).
    cbn [bind]. f_equal. lia.
Qed.

Lemma excl_go_exact mo n a rs k :
  chain a rs k -> forall l, length l = length rs -> Forall (len_exact mo) l ->
  0 <= a -> k <= n -> excl_go mo n l rs = Ok (k - a).
Proof.
  induction 1 as [a k Hak | a b rs k Hab Hch IH]; intros l Hlen HF Ha Hkn.
  - destruct l as [|s t]; [discriminate Hlen|].
    destruct t as [|s2 t2]; [|discriminate Hlen].
    inversion HF as [|s1 t1 Hs Ht]; subst.
    rewrite excl_go_cons, excl_go_nil.
    rewrite (excl_slice mo s n a k Hs Ha Hak Hkn).
    cbn [bind]. f_equal. lia.
  - destruct l as [|s t]; [discriminate Hlen|].
    inversion HF as [|s1 t1 Hs Ht]; subst.
    pose proof (chain_le _ _ _ Hch) as Hbk.
    rewrite excl_go_cons.
    rewrite (excl_slice mo s n a b Hs Ha Hab) by lia.
    cbn [bind].
    rewrite (IH t) by (try assumption; try lia; cbn [length] in Hlen; lia).
    cbn [bind]. f_equal. lia.
Qed.

(* Each built-in step, asked for k individuals and given a population of at least k, yields exactly
   k — for every nesting depth, every weight vector, every size. *)
Theorem out_len_exact mo s :
  wf_step s -> (uses_lexicase s = true -> mo = true) ->
  forall n k, 0 <= k <= n -> out_len mo s n k = Ok k.
Proof.
  change (exactP mo s).
  induction s using step_ind'; unfold exactP, len_exact.
  - (* elitism *)
    intros _ _ n k Hk. cbn [out_len].
    destruct (k <? 0) eqn:E; [apply Z.ltb_lt in E; lia|].
    f_equal. lia.
  - (* novelty *)
    intros _ _ n k Hk. cbn [out_len]. f_equal. lia.
  - (* tournament *)
    intros Hwf _ n k Hk. cbn [out_len wf_step] in *.
    destruct (k <=? 0) eqn:E1.
    { apply Z.leb_le in E1. f_equal. lia. }
    apply Z.leb_gt in E1.
    destruct (size <=? 0) eqn:E2; [apply Z.leb_le in E2; lia|].
    destruct (n <=? 0) eqn:E3; [apply Z.leb_le in E3; lia|].
    reflexivity.
  - (* lexicase *)
    intros _ Hlex n k Hk. cbn [out_len uses_lexicase] in *.
    rewrite (Hlex eq_refl). cbn [negb].
    destruct (k <=? 0) eqn:E1.
    { apply Z.leb_le in E1. f_equal. lia. }
    destruct (k <=? n) eqn:E2; [reflexivity|].
    apply Z.leb_gt in E2. lia.
  - (* mutation *)
    intros _ _ n k Hk. cbn [out_len]. f_equal. lia.
  - (* crossover *)
    intros _ _ n k Hk. cbn [out_len].
    destruct (k <? 0) eqn:E0; [apply Z.ltb_lt in E0; lia|].
    assert (Hdiv : 1 <= k / 2 -> k / 2 < k).
    { intros H1.
      pose proof (Z.div_mod k 2 ltac:(lia)) as Hdm.
      pose proof (Z.mod_pos_bound k 2 ltac:(lia)) as Hmb.
      lia. }
    destruct (1 <=? k / 2) eqn:E1.
    + apply Z.leb_le in E1. specialize (Hdiv E1).
      destruct (n <=? 0) eqn:E2; [apply Z.leb_le in E2; lia|].
      destruct (n <=? k / 2) eqn:E3; [apply Z.leb_le in E3; lia|].
      cbn [andb]. rewrite andb_false_r. reflexivity.
    + cbn [andb].
      destruct (Z.odd k) eqn:E4; [|reflexivity].
      destruct (n <=? 0) eqn:E2; [|reflexivity].
      apply Z.leb_le in E2. assert (k = 0) by lia. subst k. discriminate E4.
  - (* identity *)
    intros _ _ n k Hk. cbn [out_len]. f_equal. lia.
  - (* sequence *)
    intros Hwf Hlex n k Hk.
    change (wf_step (SSeq l)) with (l <> [] /\ all_wf l) in Hwf.
    change (uses_lexicase (SSeq l)) with (any_lex l) in Hlex.
    destruct Hwf as [Hne Hall].
    pose proof (children_exact mo l H Hall Hlex) as HF.
    rewrite out_len_seq.
    destruct l as [|s t]; [contradiction|].
    inversion HF as [|s1 t1 Hs Ht]; subst.
    rewrite seq_go_cons. rewrite (Hs n k Hk). cbn [bind].
    apply seq_go_fix; [lia | exact Ht].
  - (* parallel *)
    intros Hwf Hlex n k Hk.
    change (wf_step (SPar l ws)) with
      (l <> [] /\ length l = length ws /\ Forall (fun w => (0 <= w)%Q) ws /\ (0 < qsum ws)%Q /\ all_wf l) in Hwf.
    change (uses_lexicase (SPar l ws)) with (any_lex l) in Hlex.
    destruct Hwf as (Hne & Hlen & Hnn & Hpos & Hall).
    pose proof (children_exact mo l H Hall Hlex) as HF.
    rewrite out_len_par.
    rewrite Hlen, Nat.eqb_refl. cbn [negb].
    assert (Hwne : ws <> []).
    { intros ->. destruct l; [contradiction | discriminate Hlen]. }
    destruct (ranges_chain ws n k Hwne Hnn Hpos) as (rs & Hrs & Hrlen & Hch); try lia.
    rewrite Hrs. cbn [bind].
    rewrite (par_go_exact mo n 0 rs k Hch l) by (try assumption; lia).
    f_equal. lia.
  - (* exclusive parallel *)
    intros Hwf Hlex n k Hk.
    change (wf_step (SExcl l ws)) with
      (l <> [] /\ length l = length ws /\ Forall (fun w => (0 <= w)%Q) ws /\ (0 < qsum ws)%Q /\ all_wf l) in Hwf.
    change (uses_lexicase (SExcl l ws)) with (any_lex l) in Hlex.
    destruct Hwf as (Hne & Hlen & Hnn & Hpos & Hall).
    pose proof (children_exact mo l H Hall Hlex) as HF.
    rewrite out_len_excl.
    rewrite Hlen, Nat.eqb_refl. cbn [negb].
    assert (Hwne : ws <> []).
    { intros ->. destruct l; [contradiction | discriminate Hlen]. }
    destruct (ranges_chain ws n k Hwne Hnn Hpos) as (rs & Hrs & Hrlen & Hch); try lia.
    rewrite Hrs. cbn [bind].
    rewrite (excl_go_exact mo n 0 rs k Hch l) by (try assumption; lia).
    f_equal. lia.
Qed.

(* every generation of a GP run has the configured size: the step maps a population of size P to
   a population of size P *)
Theorem gp_generation_size mo s P :
  wf_step s -> (uses_lexicase s = true -> mo = true) -> 0 <= P -> out_len mo s P P = Ok P.
Proof.
  intros Hwf Hlex HP. apply out_len_exact; [exact Hwf | exact Hlex | lia].
Qed.

Fixpoint wf_init (i : init) : Prop :=
  match i with IInject m backup => 0 <= m /\ wf_init backup | _ => True end.

Theorem init_len_exact i k : wf_init i -> 0 <= k -> init_len i k = k.
Proof.
  revert k. induction i as [| | | | |m backup IH]; intros k Hwf Hk; cbn [init_len].
  - lia.
  - lia.
  - lia.
  - pose proof (Z.div_mod k 2 ltac:(lia)) as Hdm.
    pose proof (Z.mod_pos_bound k 2 ltac:(lia)) as Hmb.
    lia.
  - lia.
  - cbn [wf_init] in Hwf. destruct Hwf as [Hm Hb].
    destruct (Z.min m (Z.max k 0) <? k) eqn:E.
    + apply Z.ltb_lt in E. rewrite IH; [lia | exact Hb | lia].
    + apply Z.ltb_ge in E. lia.
Qed.
