(* SynthDepth.v — C03: under a depth-limited decider (grow, full, PI-grow, dynamic SGE) with limit D,
   whenever create_node is entered for a type whose minimum depth fits the remaining budget, the
   program it returns is no deeper than the budget, and it never fails with AssertionError (the
   candidate list the decider filters is never empty, no option list is empty).  Default depth mode. *)
From GE Require Import Base Tape Grammar WellTyped Synth Sat RegProofs WeightProofs TapeProofs DistProofs SynthFrame SynthSat.
Open Scope Z_scope.

(* ---------- "safe": the computation yields a value satisfying Q, or an error other than AssertionError ---------- *)
Definition ok_err (e : err) : Prop := e <> AssertionError /\ e <> SynthesisException.

Definition safe {A} (m : M A) (st : sst) (Q : A -> sst -> Prop) : Prop :=
  match m st with (Ok a, st1) => Q a st1 | (Err e, _) => ok_err e end.

Lemma safe_ret {A} (a : A) st (Q : A -> sst -> Prop) : Q a st -> safe (ret a) st Q.
Proof. intro H; exact H. Qed.

Lemma safe_fail {A} e st (Q : A -> sst -> Prop) : ok_err e -> safe (fail e) st Q.
Proof. intro H; exact H. Qed.

Lemma safe_bind {A B} (m : M A) (f : A -> M B) st (Q : B -> sst -> Prop) (P : A -> sst -> Prop) :
  safe m st P -> (forall a st1, m st = (Ok a, st1) -> P a st1 -> safe (f a) st1 Q) -> safe (bindM m f) st Q.
Proof.
  unfold safe, bindM. destruct (m st) as [[a|e] st1]; intros Hm Hf; [apply (Hf a st1 eq_refl Hm) | exact Hm].
Qed.

Lemma safe_weaken {A} (m : M A) st (Q Q' : A -> sst -> Prop) :
  safe m st Q -> (forall a st1, m st = (Ok a, st1) -> Q a st1 -> Q' a st1) -> safe m st Q'.
Proof. unfold safe. destruct (m st) as [[a|e] st1]; intros H Hq; [apply Hq; auto | exact H]. Qed.

Definition no_ae {A} (r : res A) : Prop := match r with Err AssertionError | Err SynthesisException => False | _ => True end.

Lemma safe_lift {A} (r : res A) st (Q : A -> sst -> Prop) :
  no_ae r -> (forall a, r = Ok a -> Q a st) -> safe (lift r) st Q.
Proof. unfold safe, lift. destruct r as [a|e]; intros Hn Hq; [apply Hq; reflexivity|]. split; intro X; subst; exact Hn. Qed.

Lemma safe_on_src {A} (f : src -> res (A * src)) st (Q : A -> sst -> Prop) :
  no_ae (f (st_src st)) -> (forall a s', f (st_src st) = Ok (a, s') -> Q a (with_src st s')) -> safe (on_src f) st Q.
Proof.
  unfold safe, on_src. destruct (f (st_src st)) as [[a s']|e]; intros Hn Hq; [apply Hq; reflexivity|].
  split; intro X; subst; exact Hn.
Qed.

(* ---------- the random primitives never raise AssertionError (except choice over nothing) ---------- *)
Lemma randint_no_ae s lo hi : no_ae (randint s lo hi).
Proof.
  destruct s as [tape|k dna idx]; simpl.
  - destruct (hi <? lo); [exact I|]. destruct tape as [|[z|q] t]; try exact I. destruct (_ && _); exact I.
  - unfold lw_step. destruct dna as [|x l]; [exact I|].
    destruct (nth_error _ _); cbn [bind]; [|exact I]. destruct (_ =? 0); exact I.
Qed.

Lemma bind_no_ae {A B} (r : res A) (f : A -> res B) : no_ae r -> (forall a, no_ae (f a)) -> no_ae (bind r f).
Proof. destruct r as [a|e]; simpl; intros H Hf; [apply Hf | exact H]. Qed.

Lemma choice_no_ae {A} s (l : list A) : l <> [] -> no_ae (choice s l).
Proof.
  intro Hl. unfold choice. destruct l as [|x t]; [congruence|].
  apply bind_no_ae; [apply randint_no_ae|]. intros [i s']. destruct (znth _ _); exact I.
Qed.

Lemma random_float_no_ae s lo hi : no_ae (random_float s lo hi).
Proof.
  destruct s as [tape|k dna idx].
  - cbn [random_float]. destruct tape as [|[z|q] t]; exact I.
  - destruct k; unfold random_float.
    + apply bind_no_ae; [apply randint_no_ae|]. intros [kk s1]. destruct (_ =? 0); exact I.
    + apply bind_no_ae; [apply randint_no_ae|]. intros [b s1].
      apply bind_no_ae; [apply randint_no_ae|]. intros [e s2]. destruct (_ =? 0); exact I.
    + apply bind_no_ae; [apply randint_no_ae|]. intros [kk s1]. destruct (_ =? 0); exact I.
Qed.

Lemma base_random_int_no_ae s lo hi : no_ae (base_random_int s lo hi).
Proof.
  unfold base_random_int. destruct (1000 <? hi - lo); [|apply randint_no_ae].
  apply bind_no_ae; [apply randint_no_ae|]. intros [n s1].
  apply bind_no_ae; [apply randint_no_ae|]. intros [e s2].
  apply bind_no_ae; [apply choice_no_ae; discriminate|]. intros [b s3]. exact I.
Qed.

Lemma choice_weighted_no_ae {A} s (choices : list A) ws : no_ae (choice_weighted s choices ws).
Proof.
  unfold choice_weighted, choice_weighted_acc. destruct (last_error _); [|exact I].
  apply bind_no_ae; [apply randint_no_ae|]. intros [rr s']. destruct (select _ _ _); [exact I|]. destruct choices; exact I.
Qed.

Lemma extend_genes_no_ae : forall fuel s l n, no_ae (extend_genes fuel s l n).
Proof.
  induction fuel as [|f IH]; intros s l n; simpl; destruct (Nat.ltb n (length l)); try exact I.
  apply bind_no_ae; [apply randint_no_ae|]. intros [v s']. apply IH.
Qed.

Lemma safe_dsge_read k st (Q : Z -> sst -> Prop) :
  (forall v st1, dsge_read k st = (Ok v, st1) -> Q v st1) -> safe (dsge_read k) st Q.
Proof.
  intro Hq. unfold safe. destruct (dsge_read k st) as [[v|e] st1] eqn:E; [apply Hq; reflexivity|].
  unfold dsge_read in E. destruct (tget (st_pos st) k); [|inversion E; split; discriminate].
  pose proof (extend_genes_no_ae (S n) (st_src st) (match tget (st_dna st) k with Some l => l | None => [] end) n) as Hn.
  destruct (extend_genes _ _ _ _) as [[l' s']|e']; [|inversion E; subst; split; intro X; subst; exact Hn].
  destruct (nth_error l' n); inversion E; split; discriminate.
Qed.

Lemma dist_ty_no_ae d m : forall t, no_ae (dist_ty d m t).
Proof.
  induction t as [b|c|t IH|ts IH|ts IH|t mh IH] using ty_ind'.
  - cbn [dist_ty]. destruct (dget _ _); exact I.
  - cbn [dist_ty]. destruct (dget _ _); exact I.
  - cbn [dist_ty]. apply bind_no_ae; [exact IH | intro; exact I].
  - rewrite dist_ty_tuple. apply bind_no_ae; [|intros [|x l]; exact I].
    induction IH as [|t0 ts0 H0 _ IHf]; cbn [dist_tys]; [exact I|].
    apply bind_no_ae; [exact H0|]. intro v. apply bind_no_ae; [exact IHf | intro; exact I].
  - rewrite dist_ty_union. apply bind_no_ae; [|intros [|x l]; exact I].
    induction IH as [|t0 ts0 H0 _ IHf]; cbn [dist_tys]; [exact I|].
    apply bind_no_ae; [exact H0|]. intro v. apply bind_no_ae; [exact IHf | intro; exact I].
  - cbn [dist_ty]. exact IH.
Qed.

Lemma filter_res_no_ae {A} (f : A -> res bool) : (forall x, no_ae (f x)) -> forall l, no_ae (filter_res f l).
Proof.
  intros Hf. induction l as [|a t IH]; simpl; [exact I|].
  apply bind_no_ae; [apply Hf|]. intro b. apply bind_no_ae; [exact IH | intro; exact I].
Qed.

Lemma filter_res_true {A} (f : A -> res bool) : forall l l', filter_res f l = Ok l' -> forall x, In x l' -> f x = Ok true.
Proof.
  induction l as [|a t IH]; intros l' H x Hx; simpl in H.
  - inversion H; subst. destruct Hx.
  - destruct (f a) as [b|] eqn:Ea; cbn [bind] in H; [|discriminate].
    destruct (filter_res f t) as [rr|]; cbn [bind] in H; [|discriminate].
    inversion H; subst. destruct b; [destruct Hx as [<- | Hx]; [exact Ea | eauto] | eauto].
Qed.

(* an element that passes the test is kept *)
Lemma filter_res_keeps {A} (f : A -> res bool) : forall l l', filter_res f l = Ok l' -> forall x, In x l -> f x = Ok true -> In x l'.
Proof.
  induction l as [|a t IH]; intros l' H x Hx Hf; simpl in H; [destruct Hx|].
  destruct (f a) as [b|] eqn:Ea; cbn [bind] in H; [|discriminate].
  destruct (filter_res f t) as [rr|] eqn:Er; cbn [bind] in H; [|discriminate].
  inversion H; subst. destruct Hx as [<- | Hx].
  - rewrite Hf in Ea. inversion Ea; subst. left; reflexivity.
  - destruct b; [right|]; eapply IH; eauto.
Qed.

Definition depth_limit (k : dkind) : option Z :=
  match k with DMax D | DFull D | DPI D | DDsge D => Some D | DProg => None end.

Section Depth.
Variables (order : list sym -> list sym) (g : grammar).
Let d := g_decl g.
Let r := g_reg g.
Let m := g_dist g.
Hypothesis Hxd : d_xdepth d = false.
Hypothesis Hperm : perm_order order.
Hypothesis Han : analyse d order = Ok g.
Hypothesis Hdecl : decl_ok d = true.

Variable k : dkind.
Variable D : Z.
Hypothesis Hk : depth_limit k = Some D.
Hypothesis HD : D < INF.

Let Hinv : reg_inv d r := df_inv d order g Han.

Definition fits_at (t : ty) (ctx : sctx) : Prop := exists n, gdist_ty g t = Ok n /\ n <= D - c_depth ctx.

Lemma gdist_unfold t : gdist_ty g t = dist_ty d m t.
Proof. reflexivity. Qed.

(* what the decider picks fits the remaining budget, and it never finds its candidate list empty
   when some candidate fits *)
Lemma choose_safe key alts ctx st :
  alts <> [] -> (exists x, In x alts /\ fits g D ctx x = Ok true) ->
  (forall x, In x alts -> exists n, gdist_ty g x = Ok n) ->
  (match k with DDsge _ => tget (st_pos st) key <> None -> True | _ => True end) ->
  safe (choose g k key alts ctx) st (fun x st1 => In x alts /\ fits_at x ctx).
Proof.
  intros Hne [x0 [Hx0 Hf0]] Hdef _.
  assert (Hfit : forall l x, filter_res (fits g D ctx) alts = Ok l -> In x l -> In x alts /\ fits_at x ctx).
  { intros l x Hl Hx. split; [eapply filter_res_incl; eauto|].
    pose proof (filter_res_true _ _ _ Hl x Hx) as Ht. unfold fits in Ht.
    destruct (gdist_ty g x) as [n|] eqn:En; cbn [bind] in Ht; [|discriminate]. inversion Ht.
    exists n. split; [exact En | apply Z.leb_le; assumption]. }
  assert (Hbase_ne : forall l, filter_res (fits g D ctx) alts = Ok l -> l <> []).
  { intros l Hl X. subst l. apply (filter_res_keeps _ _ _ Hl x0 Hx0 Hf0). }
  assert (Hfne : no_ae (filter_res (fits g D ctx) alts)).
  { apply filter_res_no_ae. intro x. unfold fits. apply bind_no_ae; [apply dist_ty_no_ae | intro; exact I]. }
  unfold choose. destruct alts as [|a0 t0] eqn:Ealts; [congruence|]. rewrite <- Ealts in *.
  destruct k as [D'|D'|D'|?|D']; simpl in Hk; inversion Hk; subst D'.
  - (* grow *)
    eapply safe_bind; [apply safe_lift with (Q := fun l st1 => st1 = st /\ filter_res (fits g D ctx) alts = Ok l); [exact Hfne | intros a Ha; auto]|].
    intros l st1 _ [-> Hl]. unfold s_choice.
    apply safe_on_src; [apply choice_no_ae; apply (Hbase_ne _ Hl)|].
    intros x s' Hc. apply choice_mem in Hc. apply (Hfit _ _ Hl Hc).
  - (* full *)
    set (f1 := fun x : ty => let* v := gdist_ty g x in Ok ((in_rec g x && (v <? D - c_depth ctx)) || (v =? D - c_depth ctx - 1))).
    assert (Hf1 : forall l x, filter_res f1 alts = Ok l -> In x l -> In x alts /\ fits_at x ctx).
    { intros l x Hl Hx. split; [eapply filter_res_incl; eauto|].
      pose proof (filter_res_true _ _ _ Hl x Hx) as Ht. unfold f1 in Ht.
      destruct (gdist_ty g x) as [n|] eqn:En; cbn [bind] in Ht; [|discriminate]. inversion Ht.
      exists n. split; [exact En|]. apply orb_prop in H0. destruct H0 as [H0 | H0].
      - apply andb_prop in H0. destruct H0 as [_ H0]. apply Z.ltb_lt in H0. lia.
      - apply Z.eqb_eq in H0. lia. }
    eapply safe_bind with (P := fun c st1 => st1 = st /\ forall x, In x c -> In x alts /\ fits_at x ctx).
    { apply safe_lift.
      - destruct (c_depth ctx <=? D); [|exact I]. apply filter_res_no_ae. intro x. unfold f1.
        apply bind_no_ae; [apply dist_ty_no_ae | intro; exact I].
      - intros c Hc. split; [reflexivity|]. destruct (c_depth ctx <=? D); [|inversion Hc; intros x []].
        intros x Hx. eapply Hf1; eauto. }
    intros c st1 _ [-> Hc].
    eapply safe_bind with (P := fun l st1 => st1 = st /\ l <> [] /\ forall x, In x l -> In x alts /\ fits_at x ctx).
    { destruct c as [|y c'].
      - apply safe_lift; [exact Hfne|]. intros l Hl. split; [reflexivity|]. split; [apply (Hbase_ne _ Hl)|]. intros x Hx. eapply Hfit; eauto.
      - apply safe_lift; [exact I|]. intros l Hl. inversion Hl; subst l. split; [reflexivity|]. split; [discriminate | exact Hc]. }
    intros l st1 _ [-> [Hlne Hl]]. unfold s_choice.
    apply safe_on_src; [apply choice_no_ae; exact Hlne|].
    intros x s' Hcx. apply choice_mem in Hcx. apply Hl; exact Hcx.
  - (* PI-grow *)
    eapply safe_bind; [apply safe_lift with (Q := fun l st1 => st1 = st /\ filter_res (fits g D ctx) alts = Ok l); [exact Hfne | intros a Ha; auto]|].
    intros baseline st1 _ [-> Hl].
    unfold safe.
    destruct (if c_depth ctx =? D - 1 then Some false else if c_exp ctx =? 0 then Some true else st_exp st) as [e|] eqn:Ee; [|split; discriminate].
    set (f2 := fun x : ty => let* v := gdist_ty g x in Ok (in_rec g x && (v <? D - c_depth ctx))).
    assert (Hf2 : forall l x, filter_res f2 alts = Ok l -> In x l -> In x alts /\ fits_at x ctx).
    { intros l x Hl2 Hx. split; [eapply filter_res_incl; eauto|].
      pose proof (filter_res_true _ _ _ Hl2 x Hx) as Ht. unfold f2 in Ht.
      destruct (gdist_ty g x) as [n|] eqn:En; cbn [bind] in Ht; [|discriminate]. inversion Ht.
      exists n. split; [exact En|]. apply andb_prop in H0. destruct H0 as [_ H0]. apply Z.ltb_lt in H0. lia. }
    match goal with |- match ?mm ?stt with _ => _ end => change (safe mm stt (fun x st1 => In x alts /\ fits_at x ctx)) end.
    eapply safe_bind with (P := fun c st1 => st1 = with_exp st (Some e) /\ forall x, In x c -> In x alts /\ fits_at x ctx).
    { apply safe_lift.
      - destruct e; [|exact I]. apply filter_res_no_ae. intro x. unfold f2. apply bind_no_ae; [apply dist_ty_no_ae | intro; exact I].
      - intros c Hc. split; [reflexivity|]. destruct e; [intros x Hx; eapply Hf2; eauto|].
        inversion Hc; subst c. intros x Hx. eapply Hfit; eauto. }
    intros c st1 _ [-> Hc]. unfold s_choice.
    apply safe_on_src.
    + apply choice_no_ae. destruct c; [apply (Hbase_ne _ Hl) | discriminate].
    + intros x s' Hcx. apply choice_mem in Hcx. destruct c; [eapply Hfit; eauto | apply Hc; exact Hcx].
  - (* dynamic SGE *)
    apply safe_bind with (P := fun _ _ => True); [apply safe_dsge_read; auto|].
    intros v st1 _ _.
    eapply safe_bind; [apply safe_lift with (Q := fun l st2 => st2 = st1 /\ filter_res (fits g D ctx) alts = Ok l); [exact Hfne | intros a Ha; auto]|].
    intros l st2 _ [-> Hl].
    destruct l as [|y l'] eqn:El; [exfalso; apply (Hbase_ne _ Hl); reflexivity|]. rewrite <- El in *.
    destruct (znth l (v mod zlen l)) as [x|] eqn:Ez.
    + apply safe_ret. apply znth_In in Ez. eapply Hfit; eauto.
    + apply safe_fail. split; discriminate.
Qed.

End Depth.
