(* SynthDepth.v — C03: under a depth-limited decider (grow, full, PI-grow, dynamic SGE) with limit D,
   whenever create_node is entered for a type whose minimum depth fits the remaining budget, the
   program it returns is no deeper than the budget, and it never fails with AssertionError (the
   candidate list the decider filters is never empty, no option list is empty).  Default depth mode. *)
From GE Require Import Base Tape Grammar WellTyped Synth Sat RegProofs WeightProofs TapeProofs DistProofs SynthFrame SynthSat.
Open Scope Z_scope.

(* ---------- "safe": the computation yields a value satisfying Q, or an error other than AssertionError ---------- *)
Definition ok_err (e : err) : Prop := e <> AssertionError /\ e <> SynthesisException.

Definition safe {A} (m : M A) (st : sst) (Q : A -> sst -> Prop) : Prop :=
  match m st with (Ok a, st1) => Q a st1 | (Err e, _) => ok_err e end.

Lemma safe_ret {A} (a : A) st (Q : A -> sst -> Prop) : Q a st -> safe (ret a) st Q.
Proof. intro H; exact H. Qed.

Lemma safe_fail {A} e st (Q : A -> sst -> Prop) : ok_err e -> safe (fail e) st Q.
Proof. intro H; exact H. Qed.

Lemma safe_bind {A B} (m : M A) (f : A -> M B) st (Q : B -> sst -> Prop) (P : A -> sst -> Prop) :
  safe m st P -> (forall a st1, m st = (Ok a, st1) -> P a st1 -> safe (f a) st1 Q) -> safe (bindM m f) st Q.
Proof.
  unfold safe, bindM. destruct (m st) as [[a|e] st1]; intros Hm Hf; [apply (Hf a st1 eq_refl Hm) | exact Hm].
Qed.

Lemma safe_weaken {A} (m : M A) st (Q Q' : A -> sst -> Prop) :
  safe m st Q -> (forall a st1, m st = (Ok a, st1) -> Q a st1 -> Q' a st1) -> safe m st Q'.
Proof. unfold safe. destruct (m st) as [[a|e] st1]; intros H Hq; [apply Hq; auto | exact H]. Qed.

Definition no_ae {A} (r : res A) : Prop := match r with Err AssertionError | Err SynthesisException => False | _ => True end.

Lemma safe_lift {A} (r : res A) st (Q : A -> sst -> Prop) :
  no_ae r -> (forall a, r = Ok a -> Q a st) -> safe (lift r) st Q.
Proof. unfold safe, lift. destruct r as [a|e]; intros Hn Hq; [apply Hq; reflexivity|]. split; intro X; subst; exact Hn. Qed.

Lemma safe_on_src {A} (f : src -> res (A * src)) st (Q : A -> sst -> Prop) :
  no_ae (f (st_src st)) -> (forall a s', f (st_src st) = Ok (a, s') -> Q a (with_src st s')) -> safe (on_src f) st Q.
Proof.
  unfold safe, on_src. destruct (f (st_src st)) as [[a s']|e]; intros Hn Hq; [apply Hq; reflexivity|].
  split; intro X; subst; exact Hn.
Qed.

(* ---------- the random primitives never raise AssertionError (except choice over nothing) ---------- *)
Lemma randint_no_ae s lo hi : no_ae (randint s lo hi).
Proof.
  destruct s as [tape|k dna idx]; simpl.
  - destruct (hi <? lo); [exact I|]. destruct tape as [|[z|q] t]; try exact I. destruct (_ && _); exact I.
  - unfold lw_step. destruct dna as [|x l]; [exact I|].
    destruct (nth_error _ _); cbn [bind]; [|exact I]. destruct (_ =? 0); exact I.
Qed.

Lemma bind_no_ae {A B} (r : res A) (f : A -> res B) : no_ae r -> (forall a, no_ae (f a)) -> no_ae (bind r f).
Proof. destruct r as [a|e]; simpl; intros H Hf; [apply Hf | exact H]. Qed.

Lemma choice_no_ae {A} s (l : list A) : l <> [] -> no_ae (choice s l).
Proof.
  intro Hl. unfold choice. destruct l as [|x t]; [congruence|].
  apply bind_no_ae; [apply randint_no_ae|]. intros [i s']. destruct (znth _ _); exact I.
Qed.

Lemma random_float_no_ae s lo hi : no_ae (random_float s lo hi).
Proof.
  destruct s as [tape|k dna idx].
  - cbn [random_float]. destruct tape as [|[z|q] t]; exact I.
  - destruct k; unfold random_float.
    + apply bind_no_ae; [apply randint_no_ae|]. intros [kk s1]. destruct (_ =? 0); exact I.
    + apply bind_no_ae; [apply randint_no_ae|]. intros [b s1].
      apply bind_no_ae; [apply randint_no_ae|]. intros [e s2]. destruct (_ =? 0); exact I.
    + apply bind_no_ae; [apply randint_no_ae|]. intros [kk s1]. destruct (_ =? 0); exact I.
Qed.

Lemma base_random_int_no_ae s lo hi : no_ae (base_random_int s lo hi).
Proof.
  unfold base_random_int. destruct (1000 <? hi - lo); [|apply randint_no_ae].
  apply bind_no_ae; [apply randint_no_ae|]. intros [n s1].
  apply bind_no_ae; [apply randint_no_ae|]. intros [e s2].
  apply bind_no_ae; [apply choice_no_ae; discriminate|]. intros [b s3]. exact I.
Qed.

Lemma choice_weighted_no_ae {A} s (choices : list A) ws : no_ae (choice_weighted s choices ws).
Proof.
  unfold choice_weighted, choice_weighted_acc. destruct (last_error _); [|exact I].
  apply bind_no_ae; [apply randint_no_ae|]. intros [rr s']. destruct (select _ _ _); [exact I|]. destruct choices; exact I.
Qed.

Lemma extend_genes_no_ae : forall fuel s l n, no_ae (extend_genes fuel s l n).
Proof.
  induction fuel as [|f IH]; intros s l n; simpl; destruct (Nat.ltb n (length l)); try exact I.
  apply bind_no_ae; [apply randint_no_ae|]. intros [v s']. apply IH.
Qed.

Lemma safe_dsge_read k st (Q : Z -> sst -> Prop) :
  (forall v st1, dsge_read k st = (Ok v, st1) -> Q v st1) -> safe (dsge_read k) st Q.
Proof.
  intro Hq. unfold safe. destruct (dsge_read k st) as [[v|e] st1] eqn:E; [apply Hq; reflexivity|].
  unfold dsge_read in E. set (n := pos_of (st_pos st) k) in *.
  pose proof (extend_genes_no_ae (S n) (st_src st) (match tget (st_dna st) k with Some l => l | None => [] end) n) as Hn.
  destruct (extend_genes _ _ _ _) as [[l' s']|e']; [|inversion E; subst; split; intro X; subst; exact Hn].
  destruct (nth_error l' n); inversion E; split; discriminate.
Qed.

Lemma dist_ty_no_ae d m : forall t, no_ae (dist_ty d m t).
Proof.
  induction t as [b|c|t IH|ts IH|ts IH|t mh IH] using ty_ind'.
  - cbn [dist_ty]. destruct (dget _ _); exact I.
  - cbn [dist_ty]. destruct (dget _ _); exact I.
  - cbn [dist_ty]. apply bind_no_ae; [exact IH | intro; exact I].
  - rewrite dist_ty_tuple. apply bind_no_ae; [|intros [|x l]; exact I].
    induction IH as [|t0 ts0 H0 _ IHf]; cbn [dist_tys]; [exact I|].
    apply bind_no_ae; [exact H0|]. intro v. apply bind_no_ae; [exact IHf | intro; exact I].
  - rewrite dist_ty_union. apply bind_no_ae; [|intros [|x l]; exact I].
    induction IH as [|t0 ts0 H0 _ IHf]; cbn [dist_tys]; [exact I|].
    apply bind_no_ae; [exact H0|]. intro v. apply bind_no_ae; [exact IHf | intro; exact I].
  - cbn [dist_ty]. exact IH.
Qed.

Lemma filter_res_no_ae {A} (f : A -> res bool) : (forall x, no_ae (f x)) -> forall l, no_ae (filter_res f l).
Proof.
  intros Hf. induction l as [|a t IH]; simpl; [exact I|].
  apply bind_no_ae; [apply Hf|]. intro b. apply bind_no_ae; [exact IH | intro; exact I].
Qed.

Lemma filter_res_true {A} (f : A -> res bool) : forall l l', filter_res f l = Ok l' -> forall x, In x l' -> f x = Ok true.
Proof.
  induction l as [|a t IH]; intros l' H x Hx; simpl in H.
  - inversion H; subst. destruct Hx.
  - destruct (f a) as [b|] eqn:Ea; cbn [bind] in H; [|discriminate].
    destruct (filter_res f t) as [rr|]; cbn [bind] in H; [|discriminate].
    inversion H; subst. destruct b; [destruct Hx as [<- | Hx]; [exact Ea | eauto] | eauto].
Qed.

(* an element that passes the test is kept *)
Lemma filter_res_keeps {A} (f : A -> res bool) : forall l l', filter_res f l = Ok l' -> forall x, In x l -> f x = Ok true -> In x l'.
Proof.
  induction l as [|a t IH]; intros l' H x Hx Hf; simpl in H; [destruct Hx|].
  destruct (f a) as [b|] eqn:Ea; cbn [bind] in H; [|discriminate].
  destruct (filter_res f t) as [rr|] eqn:Er; cbn [bind] in H; [|discriminate].
  inversion H; subst. destruct Hx as [<- | Hx].
  - rewrite Hf in Ea. inversion Ea; subst. left; reflexivity.
  - destruct b; [right|]; eapply IH; eauto.
Qed.

Lemma decider_int_safe k lo hi st (Q : Z -> sst -> Prop) :
  hi - lo + 1 <> 0 -> (forall z st1, decider_random_int k lo hi st = (Ok z, st1) -> Q z st1) ->
  safe (decider_random_int k lo hi) st Q.
Proof.
  intros Hm Hq. unfold safe. destruct (decider_random_int k lo hi st) as [[z|e] st1] eqn:E; [apply Hq; reflexivity|].
  unfold decider_random_int in E.
  destruct k; try (unfold on_src in E; pose proof (base_random_int_no_ae (st_src st) lo hi) as Hn;
                   destruct (base_random_int (st_src st) lo hi) as [[a s']|e']; inversion E; subst; split; intro X; subst; exact Hn).
  unfold bindM in E. pose proof (safe_dsge_read (TBase BInt) st (fun _ _ => True) (fun _ _ _ => I)) as Hr. unfold safe in Hr.
  destruct (dsge_read (TBase BInt) st) as [[v|e'] st2]; [|inversion E; subst; exact Hr].
  unfold lift, dsge_random_int in E. destruct (hi - lo + 1 =? 0) eqn:Ez; [apply Z.eqb_eq in Ez; congruence | inversion E].
Qed.

Lemma decider_default_int_safe k st : safe (decider_default_int k) st (fun _ _ => True).
Proof. unfold decider_default_int. destruct k; apply decider_int_safe; auto; unfold maxsize; lia. Qed.

Lemma decider_bool_safe k st : safe (decider_random_bool k) st (fun _ _ => True).
Proof.
  unfold decider_random_bool. destruct k; try (apply safe_on_src; [apply choice_no_ae; discriminate | auto]).
  eapply safe_bind with (P := fun _ _ => True); [apply safe_dsge_read; auto|]. intros; apply safe_ret; exact I.
Qed.

Lemma decider_float_safe k st : safe (decider_random_float k) st (fun v _ => vdepth v = 0).
Proof.
  unfold decider_random_float. destruct k;
    try (apply safe_on_src;
         [destruct (st_src st) as [[|[z|q] tp]|kk dna idx]; try exact I;
          apply bind_no_ae; [apply random_float_no_ae|]; intros [x s1];
          apply bind_no_ae; [apply random_float_no_ae|]; intros [y s2]; exact I
         |intros v s' Hv; destruct (st_src st) as [[|[z|q] tp]|kk dna idx]; try discriminate;
          [inversion Hv; subst; reflexivity
          |destruct (random_float _ 0 1) as [[x s1]|]; cbn [bind] in Hv; [|discriminate];
           destruct (random_float s1 0 1) as [[y s2]|]; cbn [bind] in Hv; [|discriminate]; inversion Hv; subst; reflexivity]]).
  eapply safe_bind with (P := fun _ _ => True); [apply safe_dsge_read; auto|].
  intros z st1 _ _. apply safe_ret. reflexivity.
Qed.

Definition depth_limit (k : dkind) : option Z :=
  match k with DMax D | DFull D | DPI D | DDsge D => Some D | DProg => None end.

Section Depth.
Variables (order : list sym -> list sym) (g : grammar).
Let d := g_decl g.
Let r := g_reg g.
Let m := g_dist g.
Hypothesis Hxd : d_xdepth d = false.
Hypothesis Hperm : perm_order order.
Hypothesis Han : analyse d order = Ok g.
Hypothesis Hdecl : decl_ok d = true.

Variable k : dkind.
Variable D : Z.
Hypothesis Hk : depth_limit k = Some D.
Hypothesis HD : D < INF.

Let Hinv : reg_inv d r := df_inv d order g Han.

Definition fits_at (t : ty) (ctx : sctx) : Prop := 0 <= c_depth ctx /\ exists n, gdist_ty g t = Ok n /\ n <= D - c_depth ctx.

Lemma gdist_unfold t : gdist_ty g t = dist_ty d m t.
Proof. reflexivity. Qed.

(* what the decider picks fits the remaining budget, and it never finds its candidate list empty
   when some candidate fits *)
Lemma choose_safe key alts ctx st :
  0 <= c_depth ctx -> alts <> [] -> (exists x, In x alts /\ fits g D ctx x = Ok true) ->
  safe (choose g k key alts ctx) st (fun x st1 => In x alts /\ fits_at x ctx).
Proof.
  intros Hdp Hne [x0 [Hx0 Hf0]].
  assert (Hfit : forall l x, filter_res (fits g D ctx) alts = Ok l -> In x l -> In x alts /\ fits_at x ctx).
  { intros l x Hl Hx. split; [eapply filter_res_incl; eauto|].
    pose proof (filter_res_true _ _ _ Hl x Hx) as Ht. unfold fits in Ht.
    destruct (gdist_ty g x) as [n|] eqn:En; cbn [bind] in Ht; [|discriminate]. inversion Ht.
    split; [exact Hdp|]. exists n. split; [exact En | apply Z.leb_le; assumption]. }
  assert (Hbase_ne : forall l, filter_res (fits g D ctx) alts = Ok l -> l <> []).
  { intros l Hl X. subst l. apply (filter_res_keeps _ _ _ Hl x0 Hx0 Hf0). }
  assert (Hfne : no_ae (filter_res (fits g D ctx) alts)).
  { apply filter_res_no_ae. intro x. unfold fits. apply bind_no_ae; [apply dist_ty_no_ae | intro; exact I]. }
  unfold choose. destruct alts as [|a0 t0] eqn:Ealts; [congruence|]. rewrite <- Ealts in *.
  destruct k as [D'|D'|D'|?|D']; simpl in Hk; inversion Hk; subst D'.
  - (* grow *)
    eapply safe_bind; [apply safe_lift with (Q := fun l st1 => st1 = st /\ filter_res (fits g D ctx) alts = Ok l); [exact Hfne | intros a Ha; auto]|].
    intros l st1 _ [-> Hl]. unfold s_choice.
    apply safe_on_src; [apply choice_no_ae; apply (Hbase_ne _ Hl)|].
    intros x s' Hc. apply choice_mem in Hc. apply (Hfit _ _ Hl Hc).
  - (* full *)
    set (f1 := fun x : ty => let* v := gdist_ty g x in Ok ((in_rec g x && (v <? D - c_depth ctx)) || (v =? D - c_depth ctx - 1))).
    assert (Hf1 : forall l x, filter_res f1 alts = Ok l -> In x l -> In x alts /\ fits_at x ctx).
    { intros l x Hl Hx. split; [eapply filter_res_incl; eauto|].
      pose proof (filter_res_true _ _ _ Hl x Hx) as Ht. unfold f1 in Ht.
      destruct (gdist_ty g x) as [n|] eqn:En; cbn [bind] in Ht; [|discriminate]. inversion Ht.
      split; [exact Hdp|]. exists n. split; [exact En|]. apply orb_prop in H0. destruct H0 as [H0 | H0].
      - apply andb_prop in H0. destruct H0 as [_ H0]. apply Z.ltb_lt in H0. lia.
      - apply Z.eqb_eq in H0. lia. }
    eapply safe_bind with (P := fun c st1 => st1 = st /\ forall x, In x c -> In x alts /\ fits_at x ctx).
    { apply safe_lift.
      - destruct (c_depth ctx <=? D); [|exact I]. apply filter_res_no_ae. intro x. unfold f1.
        apply bind_no_ae; [apply dist_ty_no_ae | intro; exact I].
      - intros c Hc. split; [reflexivity|]. destruct (c_depth ctx <=? D); [|inversion Hc; intros x []].
        intros x Hx. eapply Hf1; eauto. }
    intros c st1 _ [-> Hc].
    eapply safe_bind with (P := fun l st1 => st1 = st /\ l <> [] /\ forall x, In x l -> In x alts /\ fits_at x ctx).
    { destruct c as [|y c'].
      - apply safe_lift; [exact Hfne|]. intros l Hl. split; [reflexivity|]. split; [apply (Hbase_ne _ Hl)|]. intros x Hx. eapply Hfit; eauto.
      - apply safe_lift; [exact I|]. intros l Hl. inversion Hl; subst l. split; [reflexivity|]. split; [discriminate | exact Hc]. }
    intros l st1 _ [-> [Hlne Hl]]. unfold s_choice.
    apply safe_on_src; [apply choice_no_ae; exact Hlne|].
    intros x s' Hcx. apply choice_mem in Hcx. apply Hl; exact Hcx.
  - (* PI-grow *)
    eapply safe_bind; [apply safe_lift with (Q := fun l st1 => st1 = st /\ filter_res (fits g D ctx) alts = Ok l); [exact Hfne | intros a Ha; auto]|].
    intros baseline st1 _ [-> Hl].
    unfold safe.
    destruct (if c_depth ctx =? D - 1 then Some false else if c_exp ctx =? 0 then Some true else st_exp st) as [e|] eqn:Ee; [|split; discriminate].
    set (f2 := fun x : ty => let* v := gdist_ty g x in Ok (in_rec g x && (v <? D - c_depth ctx))).
    assert (Hf2 : forall l x, filter_res f2 alts = Ok l -> In x l -> In x alts /\ fits_at x ctx).
    { intros l x Hl2 Hx. split; [eapply filter_res_incl; eauto|].
      pose proof (filter_res_true _ _ _ Hl2 x Hx) as Ht. unfold f2 in Ht.
      destruct (gdist_ty g x) as [n|] eqn:En; cbn [bind] in Ht; [|discriminate]. inversion Ht.
      split; [exact Hdp|]. exists n. split; [exact En|]. apply andb_prop in H0. destruct H0 as [_ H0]. apply Z.ltb_lt in H0. lia. }
    match goal with |- match ?mm ?stt with _ => _ end => change (safe mm stt (fun x st1 => In x alts /\ fits_at x ctx)) end.
    eapply safe_bind with (P := fun c st1 => st1 = with_exp st (Some e) /\ forall x, In x c -> In x alts /\ fits_at x ctx).
    { apply safe_lift.
      - destruct e; [|exact I]. apply filter_res_no_ae. intro x. unfold f2. apply bind_no_ae; [apply dist_ty_no_ae | intro; exact I].
      - intros c Hc. split; [reflexivity|]. destruct e; [intros x Hx; eapply Hf2; eauto|].
        inversion Hc; subst c. intros x Hx. eapply Hfit; eauto. }
    intros c st1 _ [-> Hc]. unfold s_choice.
    apply safe_on_src.
    + apply choice_no_ae. destruct c; [apply (Hbase_ne _ Hl) | discriminate].
    + intros x s' Hcx. apply choice_mem in Hcx. destruct c; [eapply Hfit; eauto | apply Hc; exact Hcx].
  - (* dynamic SGE *)
    apply safe_bind with (P := fun _ _ => True); [apply safe_dsge_read; auto|].
    intros v st1 _ _.
    eapply safe_bind; [apply safe_lift with (Q := fun l st2 => st2 = st1 /\ filter_res (fits g D ctx) alts = Ok l); [exact Hfne | intros a Ha; auto]|].
    intros l st2 _ [-> Hl].
    destruct l as [|y l'] eqn:El; [exfalso; apply (Hbase_ne _ Hl); reflexivity|]. rewrite <- El in *.
    destruct (znth l (v mod zlen l)) as [x|] eqn:Ez.
    + apply safe_ret. apply znth_In in Ez. eapply Hfit; eauto.
    + apply safe_fail. split; discriminate.
Qed.

Hypothesis Hlive : decl_live d = true.

Lemma xd_zero : xd d = 0. Proof. unfold xd. rewrite Hxd. reflexivity. Qed.

Lemma fits_nonneg t ctx : fits_at t ctx -> 0 <= D - c_depth ctx.
Proof.
  intros [_ [n [Hn Hle]]]. rewrite gdist_unfold in Hn.
  pose proof (df_ty_nonneg d order g Hxd Hperm Han t n Hn). lia.
Qed.

Lemma fits_true t ctx n : gdist_ty g t = Ok n -> n <= D - c_depth ctx -> fits g D ctx t = Ok true.
Proof. intros Hn Hle. unfold fits. rewrite Hn. cbn [bind]. f_equal. apply Z.leb_le. exact Hle. Qed.

Lemma dist_tys_forall2 : forall ts ns, dist_tys d m ts = Ok ns -> Forall2 (fun t n => dist_ty d m t = Ok n) ts ns.
Proof.
  induction ts as [|t ts IH]; intros ns H; cbn [dist_tys] in H.
  - inversion H; constructor.
  - destruct (dist_ty d m t) as [x|] eqn:E; cbn [bind] in H; [|discriminate].
    destruct (dist_tys d m ts) as [xs|] eqn:Es; cbn [bind] in H; [|discriminate].
    inversion H; subst. constructor; [exact E | apply IH; reflexivity].
Qed.

Lemma vkind_depth0 v b : vkind v = Some b -> vdepth v = 0.
Proof. destruct v; simpl; intro H; try discriminate; reflexivity. Qed.

Definition cr_depth (cr : creator) : Prop :=
  forall dtys t ctx deps st,
    ty_ok dtys t = true -> ty_live t = true -> Forall2 (WT d r false) dtys deps -> st_alts st = r_alts r ->
    fits_at t ctx ->
    safe (cr t ctx deps) st (fun v _ => vdepth v <= D - c_depth ctx).

Lemma safe_keep {A} (mm : M A) st (Q : A -> sst -> Prop) :
  keeps mm -> safe mm st Q -> safe mm st (fun a st1 => Q a st1 /\ st_alts st1 = st_alts st).
Proof.
  intros K H. eapply safe_weaken; [exact H|]. intros a st1 E Hq. split; [exact Hq|]. eapply keeps_eq; eauto.
Qed.

Lemma safe_repeat {A} (f : M A) (P : A -> Prop) (I : sst -> Prop) :
  (forall st, I st -> safe f st (fun a st1 => P a /\ I st1)) ->
  forall n st, I st -> safe (repeatM n f) st (fun l st1 => Forall P l /\ I st1).
Proof.
  intros Hf. induction n as [|n IH]; intros st Hi; cbn [repeatM].
  - apply safe_ret. split; [constructor | exact Hi].
  - eapply safe_bind; [apply Hf; exact Hi|]. intros a st1 _ [Pa Hi1].
    eapply safe_bind; [apply IH; exact Hi1|]. intros l st2 _ [Pl Hi2].
    apply safe_ret. split; [constructor; assumption | exact Hi2].
Qed.

Lemma forall_depth_max vs b : Forall (fun v => vdepth v <= b) vs -> 0 <= b -> vdepth_max vs <= b.
Proof. induction 1 as [|v vs Hv _ IH]; intro Hb; cbn [vdepth_max]; [exact Hb | specialize (IH Hb); lia]. Qed.

(* the refinements that do not call back: a base-kind value (depth 0), never AssertionError / SynthesisException *)
Lemma flat_safe mh gen dtys base st :
  mh_generate_flat mh = Some gen -> ty_ok dtys (TAnn base mh) = true -> ty_live (TAnn base mh) = true ->
  safe gen st (fun v _ => vdepth v = 0).
Proof.
  intros Hg Hok Hl. cbn [ty_live] in Hl. apply andb_prop in Hl. destruct Hl as [_ Hl].
  destruct mh; simpl in Hg; inversion Hg; subst gen; clear Hg.
  - eapply safe_bind with (P := fun _ _ => True); [unfold s_randint; apply safe_on_src; [apply randint_no_ae | auto]|].
    intros z st1 _ _. apply safe_ret. reflexivity.
  - eapply safe_bind with (P := fun _ _ => True); [unfold s_choice; apply safe_on_src; [apply choice_no_ae; destruct xs; [discriminate | discriminate] | auto]|].
    intros z st1 _ _. apply safe_ret. reflexivity.
  - eapply safe_bind with (P := fun _ _ => True).
    { unfold s_random_float. apply safe_on_src; [|auto].
      destruct (st_src st) as [[|[z|u] t]|kk dna idx]; try apply random_float_no_ae.
      destruct (_ && _); [apply random_float_no_ae | exact I]. }
    intros z st1 _ _. apply safe_ret. reflexivity.
  - eapply safe_bind with (P := fun _ _ => True); [unfold s_choice; apply safe_on_src; [apply choice_no_ae; destruct xs; discriminate | auto]|].
    intros z st1 _ _. apply safe_ret. reflexivity.
  - unfold s_choice. apply safe_on_src; [apply choice_no_ae; destruct opts; discriminate|].
    intros v s' Hc. apply choice_mem in Hc. simpl in Hok. destruct base; try discriminate.
    rewrite forallb_forall in Hok. specialize (Hok v Hc). unfold opt_kind_ok in Hok.
    destruct (vkind v) eqn:Ek; [|discriminate]. eapply vkind_depth0; eauto.
  - eapply safe_bind with (P := fun _ _ => True); [unfold s_randint; apply safe_on_src; [apply randint_no_ae | auto]|].
    intros n st1 _ _.
    eapply safe_bind with (P := fun _ _ => True).
    { eapply safe_weaken; [apply (safe_repeat (s_choice alphabet) (fun _ => True) (fun _ => True))|]; auto.
      intros st0 _. unfold s_choice. apply safe_on_src; [apply choice_no_ae; destruct alphabet; discriminate | auto]. }
    intros cs st2 _ _. apply safe_ret. reflexivity.
  - eapply safe_bind with (P := fun _ _ => True).
    { clear. revert st. induction rows as [|row t IH]; intro st; cbn [weighted_rows]; [apply safe_ret; exact I|].
      eapply safe_bind with (P := fun _ _ => True); [apply safe_on_src; [apply choice_weighted_no_ae | auto]|].
      intros c st1 _ _. eapply safe_bind; [apply IH|]. intros rr st2 _ _. apply safe_ret. exact I. }
    intros cs st1 _ _. apply safe_ret. reflexivity.
  - eapply safe_bind with (P := fun _ _ => True); [unfold s_randint; apply safe_on_src; [apply randint_no_ae | auto]|].
    intros len st1 _ _.
    eapply safe_bind with (P := fun _ _ => True); [unfold s_randint; apply safe_on_src; [apply randint_no_ae | auto]|].
    intros start st2 _ _. apply safe_ret. reflexivity.
Qed.

Lemma try_depth cr (Hc : cr_depth cr) c prods ctx :
  get_alts (r_alts r) c = Some prods -> fits_at (TSym c) ctx ->
  forall fuel st, st_alts st = r_alts r ->
  safe (try_productions (S fuel) cr g k c prods ctx) st (fun v _ => vdepth v <= D - c_depth ctx).
Proof.
  intros Hg [Hdp [n [Hn Hle]]] fuel st Ha. cbn [try_productions].
  pose proof (ri_nonempty _ _ Hinv _ _ Hg) as Hne.
  destruct prods as [|p0 rest] eqn:Ep; [congruence|]. rewrite <- Ep in *.
  destruct (ri_mem _ _ Hinv _ _ p0 Hg ltac:(rewrite Ep; left; reflexivity)) as [_ [_ Habs]].
  (* some production is not deeper than the abstract type *)
  rewrite gdist_unfold in Hn. cbn [dist_ty] in Hn. fold m in Hn.
  destruct (dget m (SC c)) as [nc|] eqn:Ec; [|discriminate]. inversion Hn; subst nc.
  destruct (df_abstract d order g Hxd Hperm Han c prods n Habs Hg Ec ltac:(lia)) as [c' [k' [Hin [Hk' Hle']]]].
  eapply safe_bind.
  - apply safe_keep; [apply keeps_choose|]. apply choose_safe.
    + exact Hdp.
    + rewrite Ep; discriminate.
    + exists (TSym c'). split; [apply in_map; exact Hin|].
      apply fits_true with (n := k'); [unfold gdist_ty; cbn [dist_ty]; rewrite Hk'; reflexivity | lia].
  - intros rule st1 _ [[Hrin Hrfit] Ha1].
    apply in_map_iff in Hrin. destruct Hrin as [p [<- Hp]].
    assert (S1 := Hc [] (TSym p) (mkCtx (c_depth ctx) (c_exp ctx + 1)) [] st1 eq_refl eq_refl (Forall2_nil _)
                     ltac:(rewrite Ha1; exact Ha) Hrfit).
    unfold safe in *. cbn [c_depth] in S1.
    destruct (cr (TSym p) _ [] st1) as [[v|e] st2]; [exact S1|].
    destruct S1 as [S1 S2]. destruct e; try (split; discriminate); congruence.
Qed.

Lemma fields_depth cr (Hc : cr_depth cr) (Hs : cr_sat g cr) (Hkp : cr_keeps cr) nctx :
  forall flds dtys deps st,
    fields_ok dtys flds = true -> forallb ty_live flds = true -> Forall2 (WT d r false) dtys deps -> st_alts st = r_alts r ->
    Forall (fun f => fits_at f nctx) flds ->
    safe (create_fields cr flds nctx deps) st (fun args _ => vdepth_max args <= D - c_depth nctx \/ args = []).
Proof.
  induction flds as [|t rest IH]; intros dtys deps st Hok Hl Hd Ha Hf; cbn [create_fields].
  - apply safe_ret. right; reflexivity.
  - cbn [fields_ok] in Hok. apply andb_prop in Hok. destruct Hok as [Ht Hrest].
    cbn [forallb] in Hl. apply andb_prop in Hl. destruct Hl as [Hlt Hlrest].
    inversion Hf as [|? ? Hft Hfrest]; subst.
    eapply safe_bind; [apply safe_keep; [apply (Hkp t)|]; apply (Hc dtys t nctx deps st Ht Hlt Hd Ha Hft)|].
    intros v st1 Ev [Hv Ha1].
    assert (S1 : Sat d r deps t v) by (eapply Hs; eauto).
    eapply safe_bind.
    + apply (IH (dtys ++ [t]) (deps ++ [v]) st1 Hrest Hlrest); [| rewrite Ha1; exact Ha | exact Hfrest].
      apply Forall2_app; [exact Hd|]. constructor; [|constructor]. apply (proj1 (Sat_WT d r)) in S1. exact S1.
    + intros vs st2 _ Hvs. apply safe_ret. left. cbn [vdepth_max].
      pose proof (fits_nonneg _ _ Hft). destruct Hvs as [Hvs | ->]; [lia | cbn [vdepth_max]; lia].
Qed.

Lemma tuple_depth cr (Hc : cr_depth cr) (Hkp : cr_keeps cr) ctx :
  forall ts st, forallb (ty_ok []) ts = true -> forallb ty_live ts = true -> st_alts st = r_alts r ->
    Forall (fun f => fits_at f ctx) ts ->
    safe (create_tuple cr ts ctx) st (fun vs _ => Forall (fun v => vdepth v <= D - c_depth ctx) vs).
Proof.
  induction ts as [|t rest IH]; intros st Hok Hl Ha Hf; cbn [create_tuple].
  - apply safe_ret. constructor.
  - cbn [forallb] in Hok, Hl. apply andb_prop in Hok. destruct Hok as [Ht Hrest].
    apply andb_prop in Hl. destruct Hl as [Hlt Hlrest]. inversion Hf as [|? ? Hft Hfrest]; subst.
    eapply safe_bind; [apply safe_keep; [apply (Hkp t)|]; apply (Hc [] t ctx [] st Ht Hlt (Forall2_nil _) Ha Hft)|].
    intros v st1 _ [Hv Ha1].
    eapply safe_bind; [apply (IH st1 Hrest Hlrest); [rewrite Ha1; exact Ha | exact Hfrest]|].
    intros vs st2 _ Hvs. apply safe_ret. constructor; assumption.
Qed.

Theorem create_node_depth : forall fuel, cr_depth (create_node fuel g k).
Proof.
  induction fuel as [|f IH]; intros dtys t ctx deps st Hok Hl Hd Ha Hfit; cbn [create_node].
  { apply safe_fail. split; discriminate. }
  pose proof (create_node_keeps f g k) as Hkp.
  pose proof (create_node_sat g Hinv Hdecl f k) as Hs.
  pose proof (fits_nonneg _ _ Hfit) as Hnn.
  destruct t as [b|c|t'|ts|ts|base mh].
  - (* base types *)
    destruct b.
    + eapply safe_bind; [apply decider_default_int_safe|].
      intros z st1 _ _. apply safe_ret. simpl. exact Hnn.
    + eapply safe_weaken; [apply decider_float_safe|]. intros v st1 _ Hv. rewrite Hv. exact Hnn.
    + destruct (is_registered g (SB BStr)); [apply safe_ret; simpl; exact Hnn | apply safe_fail; split; discriminate].
    + eapply safe_bind; [apply decider_bool_safe|].
      intros z st1 _ _. apply safe_ret. simpl. exact Hnn.
  - (* symbols *)
    destruct (negb (is_registered g (SC c))) eqn:Er; [apply safe_fail; split; discriminate|].
    apply negb_false_iff in Er.
    unfold safe. rewrite Ha. fold r.
    destruct (get_alts (r_alts r) c) as [prods|] eqn:Eg.
    + apply (try_depth _ IH c prods ctx Eg Hfit (length prods) st Ha).
    + fold d.
      destruct Hfit as [Hdp [n [Hn Hle]]]. rewrite gdist_unfold in Hn. cbn [dist_ty] in Hn. fold m in Hn.
      destruct (dget m (SC c)) as [nc|] eqn:Ec; [|discriminate]. inversion Hn; subst nc.
      destruct (is_abstract d (SC c)) eqn:Eabs.
      { (* an abstract type without productions is at distance INF: it does not fit *)
        exfalso. destruct (df_witnessed d order g Hxd Hperm Han (SC c) n Ec ltac:(lia)) as [w [Hw _]].
        cbn [ty_of] in Hw. inversion Hw as [| | | |c0 c' args Hpo Hargs| | | |]; subst.
        inversion Hpo as [c1 Hc1 Hm1 | a1 l1 c1 c2 Ha1 Hg1 Hin1 Hp1]; subst; [congruence|]. fold r in Hg1. rewrite Eg in Hg1. discriminate. }
      destruct (df_concrete d order g Hxd Hperm Han c n Eabs Er Ec ltac:(lia)) as [H1n [ns [Hns Hall]]].
      set (nctx := mkCtx (c_depth ctx + 1) (c_exp ctx + 1)).
      assert (Hff : Forall (fun f0 => fits_at f0 nctx) (fields_of d (SC c))).
      { pose proof (dist_tys_forall2 _ _ Hns) as F2. clear - F2 Hall Hle Hdp. 
        induction F2 as [|t0 n0 ts0 ns0 Ht0 _ IHf]; constructor.
        - split; [unfold nctx; cbn [c_depth]; lia|]. exists n0. split; [exact Ht0|]. specialize (Hall n0 (or_introl eq_refl)). unfold nctx; cbn [c_depth]. lia.
        - apply IHf. intros k0 Hk0. apply Hall. right; exact Hk0. }
      match goal with |- match ?mm st with _ => _ end => change (safe mm st (fun v _ => vdepth v <= D - c_depth ctx)) end.
      eapply safe_bind.
      * unfold fields_of in *. destruct (get_cls d c) as [kc|] eqn:Ekc.
        -- apply (fields_depth _ IH Hs Hkp nctx (c_fields kc) [] [] st).
           ++ unfold decl_ok in Hdecl. rewrite forallb_forall in Hdecl. apply Hdecl. unfold get_cls in Ekc. eapply nth_error_In; exact Ekc.
           ++ unfold decl_live in Hlive. rewrite forallb_forall in Hlive. apply Hlive. unfold get_cls in Ekc. eapply nth_error_In; exact Ekc.
           ++ constructor.
           ++ exact Ha.
           ++ exact Hff.
        -- cbn [create_fields]. apply safe_ret. right; reflexivity.
      * intros args st1 _ Hargs. apply safe_ret. rewrite vdepth_node.
        destruct Hargs as [Hargs | ->]; [unfold nctx in Hargs; cbn [c_depth] in Hargs; lia | cbn [vdepth_max]; lia].
  - (* list *)
    cbn [ty_ok] in Hok. cbn [ty_live] in Hl.
    eapply safe_bind; [apply safe_keep; [apply keeps_decider_random_int|]; apply decider_int_safe with (Q := fun _ _ => True); [lia | auto]|].
    intros n st1 _ [_ Ha1].
    fold d. rewrite xd_zero.
    assert (Hfe : fits_at t' (mkCtx (c_depth ctx + 0) (c_exp ctx + 1))).
    { destruct Hfit as [Hdp [nn [Hn Hle]]]. rewrite gdist_unfold in Hn. cbn [dist_ty] in Hn.
      destruct (dist_ty d m t') as [x|] eqn:Ex; cbn [bind] in Hn; [|discriminate]. inversion Hn; subst.
      split; [cbn [c_depth]; lia|]. exists x. split; [exact Ex|]. rewrite xd_zero in Hle. cbn [c_depth]. lia. }
    eapply safe_bind.
    + apply (safe_repeat _ (fun v => vdepth v <= D - c_depth ctx) (fun s => st_alts s = r_alts r)); [|rewrite Ha1; exact Ha].
      intros st0 Ha0. eapply safe_weaken; [apply safe_keep; [apply (Hkp t')|]; apply (IH [] t' _ [] st0 Hok Hl (Forall2_nil _) Ha0 Hfe)|].
      intros v st2 _ [Hv Ha2]. cbn [c_depth] in Hv. split; [lia | rewrite Ha2; exact Ha0].
    + intros vs st2 _ [Hvs _]. apply safe_ret. rewrite vdepth_list. apply forall_depth_max; assumption.
  - (* tuple *)
    cbn [ty_ok] in Hok. cbn [ty_live] in Hl.
    assert (Hff : Forall (fun f0 => fits_at f0 ctx) ts).
    { destruct Hfit as [Hdp [nn [Hn Hle]]]. rewrite gdist_unfold, dist_ty_tuple in Hn.
      destruct (dist_tys d m ts) as [ns|] eqn:Ens; cbn [bind] in Hn; [|discriminate].
      destruct ns as [|y l]; [discriminate|]. inversion Hn; subst nn. rewrite xd_zero in Hle.
      pose proof (dist_tys_forall2 _ _ Ens) as F2.
      assert (Hb : forall z, In z (y :: l) -> z <= D - c_depth ctx).
      { intros z Hz. destruct (zmax_l_ge y l) as [A B]. destruct Hz as [<- | Hz]; [lia | specialize (B z Hz); lia]. }
      clear - F2 Hb Hdp. induction F2 as [|t0 n0 ts0 ns0 Ht0 _ IHf]; constructor.
      - split; [exact Hdp|]. exists n0. split; [exact Ht0 | apply Hb; left; reflexivity].
      - apply IHf. intros z Hz. apply Hb. right; exact Hz. }
    eapply safe_bind; [apply (tuple_depth _ IH Hkp ctx ts st Hok Hl Ha Hff)|].
    intros vs st1 _ Hvs. apply safe_ret. rewrite vdepth_tuple. apply forall_depth_max; assumption.
  - (* union *)
    cbn [ty_ok] in Hok. cbn [ty_live] in Hl. apply andb_prop in Hl. destruct Hl as [Hne Hl].
    eapply safe_bind.
    + apply safe_keep; [apply keeps_choose|]. apply choose_safe; [exact (proj1 Hfit) | destruct ts; [discriminate | discriminate]|].
      destruct Hfit as [Hdp [nn [Hn Hle]]]. rewrite gdist_unfold, dist_ty_union in Hn.
      destruct (dist_tys d m ts) as [ns|] eqn:Ens; cbn [bind] in Hn; [|discriminate].
      destruct ns as [|y l]; [discriminate|]. inversion Hn; subst nn. rewrite xd_zero in Hle.
      pose proof (dist_tys_forall2 _ _ Ens) as F2.
      assert (Hin : In (zmin_l y l) (y :: l)) by (destruct (zmin_l_attained y l) as [-> | X]; [left; reflexivity | right; exact X]).
      clear - F2 Hin Hle. induction F2 as [|t0 n0 ts0 ns0 Ht0 _ IHf]; [destruct Hin|].
      destruct Hin as [-> | Hin].
      * exists t0. split; [left; reflexivity|]. apply fits_true with (n := zmin_l y l); [exact Ht0 | lia].
      * destruct (IHf Hin) as [x [Hx Hfx]]. exists x. split; [right; exact Hx | exact Hfx].
    + intros t' st1 _ [[Hin Hft] Ha1].
      rewrite forallb_forall in Hok, Hl.
      apply (IH dtys t' ctx deps st1 (Hok _ Hin) (Hl _ Hin) Hd ltac:(rewrite Ha1; exact Ha) Hft).
  - (* annotated *)
    assert (Hbase : forall m', dist_ty d m (TAnn base m') = dist_ty d m base) by reflexivity.
    destruct (mh_generate_flat mh) as [gen|] eqn:Eg.
    { eapply safe_weaken; [eapply flat_safe; eauto|]. intros v st1 _ Hv. rewrite Hv. exact Hnn. }
    destruct mh; try discriminate.
    + (* ListSize *)
      cbn [ty_ok] in Hok. destruct base as [| |inner| | |]; try discriminate.
      cbn [ty_live] in Hl. apply andb_prop in Hl. destruct Hl as [Hl _]. cbn [ty_live] in Hl.
      eapply safe_bind with (P := fun _ st1 => st_alts st1 = st_alts st).
      { unfold s_randint. apply safe_on_src; [apply randint_no_ae | intros; reflexivity]. }
      intros n st1 _ Ha1.
      assert (Hfe : fits_at inner (mkCtx (c_depth ctx) (c_exp ctx + 1))).
      { destruct Hfit as [Hdp [nn [Hn Hle]]]. rewrite gdist_unfold in Hn. cbn [dist_ty] in Hn.
        destruct (dist_ty d m inner) as [x|] eqn:Ex; cbn [bind] in Hn; [|discriminate]. inversion Hn; subst.
        split; [cbn [c_depth]; lia|]. exists x. split; [exact Ex|]. rewrite xd_zero in Hle. cbn [c_depth]. lia. }
      eapply safe_bind.
      * apply (safe_repeat _ (fun v => vdepth v <= D - c_depth ctx) (fun s => st_alts s = r_alts r)); [|rewrite Ha1; exact Ha].
        intros st0 Ha0. eapply safe_weaken; [apply safe_keep; [apply (Hkp inner)|]; apply (IH dtys inner _ deps st0 Hok Hl Hd Ha0 Hfe)|].
        intros v st2 _ [Hv Ha2]. cbn [c_depth] in Hv. split; [lia | rewrite Ha2; exact Ha0].
      * intros vs st2 _ [Hvs _]. apply safe_ret. rewrite vdepth_list. apply forall_depth_max; assumption.
    + (* Dependent *)
      cbn [ty_ok] in Hok. apply andb_prop in Hok. destruct Hok as [Hdep Hinner].
      cbn [ty_live] in Hl. apply andb_prop in Hl. destruct Hl as [Hlb Hlf].
      eapply safe_bind with (P := fun vals st1 => st1 = st /\ lookup_deps deps deps0 = Ok vals).
      { apply safe_lift; [|auto].
        clear. induction deps0 as [|nm t IH]; cbn [lookup_deps]; [exact I|].
        destruct (nth_error deps nm); [|exact I]. apply bind_no_ae; [exact IH | intro; exact I]. }
      intros vals st1 _ [-> Hvals].
      eapply safe_bind with (P := fun m' st1 => st1 = st /\ eval_dep f0 vals = Ok m').
      { apply safe_lift; [|auto]. destruct f0; try discriminate;
          destruct vals as [|[] [|[] [|? ?]]]; try exact I. }
      intros m' st1 _ [-> Hm'].
      assert (Hok' : ty_ok dtys (TAnn base m') = true) by (eapply (dep_result_ok g); eauto).
      assert (Hl' : ty_live (TAnn base m') = true).
      { cbn [ty_live]. rewrite Hlb. destruct f0; try discriminate;
          destruct vals as [|[] [|[] [|? ?]]]; try discriminate; simpl in Hm'; inversion Hm'; reflexivity. }
      eapply safe_weaken; [apply (IH dtys (TAnn base m') (mkCtx (c_depth ctx) (c_exp ctx + 1)) deps st Hok' Hl' Hd Ha)|].
      * destruct Hfit as [Hdp [nn [Hn Hle]]]. split; [exact Hdp|]. exists nn. split; [exact Hn | exact Hle].
      * intros v st1 _ Hv. exact Hv.
Qed.

End Depth.

(* ---------- for every extracted grammar, from the start symbol ---------- *)
Lemma extract_analyse d order g : extract d order = Ok g -> analyse (g_decl g) order = Ok g /\ d_xdepth (g_decl g) = d_xdepth d.
Proof.
  intro H. destruct (extract_cases _ _ _ H) as [g0 [E0 [[_ ->] | [_ [w [_ [_ Ea]]]]]]].
  - destruct (analyse_inv _ _ _ E0) as [_ Hd]. rewrite Hd. split; [exact E0 | reflexivity].
  - destruct (analyse_inv _ _ _ Ea) as [_ Hd]. rewrite Hd. split; [exact Ea | reflexivity].
Qed.

Lemma decl_live_store d r w : decl_live d = true -> decl_live (store_weights d r w) = true.
Proof.
  unfold decl_live, store_weights; simpl. rewrite !forallb_forall. intros H k Hk.
  apply in_map_iff in Hk. destruct Hk as [[c k0] [E Hin]].
  apply in_combine_r in Hin. specialize (H k0 Hin).
  destruct (mem_sym (SC c) (r_nodes r)); subst k; simpl; exact H.
Qed.

Lemma extract_decl_live d order g : extract d order = Ok g -> decl_live d = true -> decl_live (g_decl g) = true.
Proof.
  intros H Hok. destruct (extract_cases _ _ _ H) as [g0 [E0 [[_ ->] | [_ [w [_ [_ Ea]]]]]]].
  - destruct (analyse_inv _ _ _ E0) as [_ Hd]. rewrite Hd. exact Hok.
  - destruct (analyse_inv _ _ _ Ea) as [_ Hd]. rewrite Hd. apply decl_live_store. exact Hok.
Qed.

(* depth-limited creation from the start symbol of an extracted grammar whose limit the decider's
   validate() accepted: the program is no deeper than the limit, and the run cannot fail with
   AssertionError or SynthesisException *)
Theorem create_depth_extracted d order g k D :
  extract d order = Ok g -> perm_order order -> d_xdepth d = false ->
  decl_ok d = true -> decl_live d = true ->
  depth_limit k = Some D -> D < INF -> decider_validate g k = Ok tt ->
  forall fuel st, st_alts st = r_alts (g_reg g) ->
  match create_node fuel g k (TSym (d_start (g_decl g))) ctx0 [] st with
  | (Ok v, _) => vdepth v <= D
  | (Err e, _) => e <> AssertionError /\ e <> SynthesisException
  end.
Proof.
  intros H Hperm Hxd Hok Hlive Hk HD Hval fuel st Ha.
  destruct (extract_analyse _ _ _ H) as [Han Hx].
  assert (Hxd' : d_xdepth (g_decl g) = false) by congruence.
  pose proof (create_node_depth order g Hxd' Hperm Han (extract_decl_ok _ _ _ H Hok) k D Hk HD
                (extract_decl_live _ _ _ H Hlive) fuel [] (TSym (d_start (g_decl g))) ctx0 [] st eq_refl eq_refl
                (Forall2_nil _) Ha) as S.
  assert (Hfit : fits_at g D (TSym (d_start (g_decl g))) ctx0).
  { split; [simpl; lia|]. unfold decider_validate in Hval.
    destruct (min_tree_depth g) as [mn|] eqn:Em.
    - exists mn. split; [exact Em|]. simpl.
      destruct k; simpl in Hk; inversion Hk; subst; cbn [bind] in Hval;
        (destruct (D <? mn) eqn:El; [discriminate | apply Z.ltb_ge in El; lia]).
    - destruct k; simpl in Hk; try discriminate; cbn [bind] in Hval; discriminate. }
  specialize (S Hfit). unfold safe in S.
  destruct (create_node fuel g k (TSym (d_start (g_decl g))) ctx0 [] st) as [[v|e] st1]; [simpl in S; lia | exact S].
Qed.

(* infeasible limits are rejected up-front, by the decider's constructor, with the library's error *)
Theorem validate_rejects g k D mn :
  depth_limit k = Some D -> min_tree_depth g = Ok mn ->
  (D < mn <-> decider_validate g k = Err GeneticEngineError) /\ (mn <= D <-> decider_validate g k = Ok tt).
Proof.
  intros Hk Hm. unfold decider_validate. rewrite Hm.
  destruct k; simpl in Hk; inversion Hk; subst; cbn [bind];
    (destruct (D <? mn) eqn:E; [apply Z.ltb_lt in E | apply Z.ltb_ge in E]; split; split; intro X; try lia; try discriminate; reflexivity).
Qed.
