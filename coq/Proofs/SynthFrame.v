(* SynthFrame.v — C10: nothing in create_node, the deciders or the metahandlers writes the grammar's
   productions: for every type, context, decider, source and fuel, whether the call succeeds, fails or
   backtracks internally, the alternatives in the final state are those of the initial state. *)
From GE Require Import Base Tape Grammar Synth.
Open Scope Z_scope.

Definition keeps {A} (m : M A) : Prop := forall st, st_alts (snd (m st)) = st_alts st.

Lemma keeps_ret {A} (a : A) : keeps (ret a). Proof. intro; reflexivity. Qed.
Lemma keeps_fail {A} e : keeps (@fail A e). Proof. intro; reflexivity. Qed.
Lemma keeps_lift {A} (r : res A) : keeps (lift r). Proof. intro; reflexivity. Qed.

Lemma keeps_bind {A B} (m : M A) (f : A -> M B) : keeps m -> (forall a, keeps (f a)) -> keeps (bindM m f).
Proof.
  intros Hm Hf st. unfold bindM. specialize (Hm st). destruct (m st) as [[a|e] st1]; simpl in *.
  - rewrite (Hf a st1). exact Hm.
  - exact Hm.
Qed.

Lemma keeps_on_src {A} (f : src -> res (A * src)) : keeps (on_src f).
Proof. intro st. unfold on_src. destruct (f (st_src st)) as [[a s']|e]; reflexivity. Qed.

Lemma keeps_dsge_read k : keeps (dsge_read k).
Proof.
  intro st. unfold dsge_read.
  destruct (extend_genes _ _ _ _) as [[l' s']|e]; [|reflexivity].
  destruct (nth_error l' _); reflexivity.
Qed.

Lemma keeps_repeatM {A} (f : M A) n : keeps f -> keeps (repeatM n f).
Proof.
  intro Hf. induction n as [|n IH]; simpl; [apply keeps_ret|].
  apply keeps_bind; [exact Hf|]. intro x. apply keeps_bind; [exact IH|]. intro r. apply keeps_ret.
Qed.

Lemma keeps_weighted_rows rows alphabet : keeps (weighted_rows rows alphabet).
Proof.
  induction rows as [|row t IH]; simpl; [apply keeps_ret|].
  apply keeps_bind; [apply keeps_on_src|]. intro c. apply keeps_bind; [exact IH|]. intro r. apply keeps_ret.
Qed.

Lemma keeps_decider_random_int k lo hi : keeps (decider_random_int k lo hi).
Proof.
  destruct k; simpl; try apply keeps_on_src.
  apply keeps_bind; [apply keeps_dsge_read | intro; apply keeps_lift].
Qed.

Lemma keeps_decider_default_int k : keeps (decider_default_int k).
Proof. destruct k; apply keeps_decider_random_int. Qed.

Lemma keeps_decider_random_bool k : keeps (decider_random_bool k).
Proof.
  destruct k; simpl; try apply keeps_on_src.
  apply keeps_bind; [apply keeps_dsge_read | intro; apply keeps_ret].
Qed.

Lemma keeps_decider_random_float k : keeps (decider_random_float k).
Proof.
  destruct k; simpl; try apply keeps_on_src.
  apply keeps_bind; [apply keeps_dsge_read | intro; apply keeps_ret].
Qed.

Lemma keeps_choose g k key alts ctx : keeps (choose g k key alts ctx).
Proof.
  unfold choose. destruct alts as [|a0 t0]; [apply keeps_fail|].
  destruct k.
  - apply keeps_bind; [apply keeps_lift | intro; apply keeps_on_src].
  - apply keeps_bind; [apply keeps_lift|]. intro c. apply keeps_bind; [apply keeps_lift | intro; apply keeps_on_src].
  - apply keeps_bind; [apply keeps_lift|]. intros baseline st.
    destruct (if c_depth ctx =? D - 1 then Some false else if c_exp ctx =? 0 then Some true else st_exp st) as [e|] eqn:E.
    + match goal with |- st_alts (snd (?m (with_exp st ?x))) = _ =>
        assert (K : keeps m) by (apply keeps_bind; [apply keeps_lift | intro; apply keeps_on_src]);
        rewrite (K (with_exp st x)) end.
      reflexivity.
    + reflexivity.
  - apply keeps_bind; [apply keeps_lift|]. intro tg.
    apply keeps_bind; [apply keeps_lift|]. intro ws. destruct (forallb _ ws); [apply keeps_fail|apply keeps_on_src].
  - apply keeps_bind; [apply keeps_dsge_read|]. intro v. apply keeps_bind; [apply keeps_lift|]. intro l.
    destruct l; [apply keeps_fail|]. destruct (znth _ _); [apply keeps_ret | apply keeps_fail].
Qed.

Lemma keeps_mh_flat m r : mh_generate_flat m = Some r -> keeps r.
Proof.
  destruct m; simpl; intro H; inversion H; subst; clear H.
  - apply keeps_bind; [apply keeps_on_src | intro; apply keeps_ret].
  - apply keeps_bind; [apply keeps_on_src | intro; apply keeps_ret].
  - apply keeps_bind; [apply keeps_on_src | intro; apply keeps_ret].
  - apply keeps_bind; [apply keeps_on_src | intro; apply keeps_ret].
  - apply keeps_on_src.
  - apply keeps_bind; [apply keeps_on_src|]. intro n. apply keeps_bind; [apply keeps_repeatM, keeps_on_src | intro; apply keeps_ret].
  - apply keeps_bind; [apply keeps_weighted_rows | intro; apply keeps_ret].
  - apply keeps_bind; [apply keeps_on_src|]. intro len. apply keeps_bind; [apply keeps_on_src | intro; apply keeps_ret].
Qed.

Definition cr_keeps (cr : creator) : Prop := forall t ctx deps, keeps (cr t ctx deps).

Lemma keeps_try_productions cr g k c ctx (Hcr : cr_keeps cr) : forall fuel compat,
  keeps (try_productions fuel cr g k c compat ctx).
Proof.
  induction fuel as [|f IH]; intro compat; simpl; [apply keeps_fail|].
  destruct compat as [|p0 rest]; [apply keeps_fail|].
  apply keeps_bind; [apply keeps_choose|]. intro rule.
  destruct rule; try apply keeps_fail.
  intro st. specialize (Hcr (TSym c0) (mkCtx (c_depth ctx) (c_exp ctx + 1)) [] st).
  destruct (cr (TSym c0) _ [] st) as [[v|e] st1]; simpl in *; [exact Hcr|].
  destruct e; try exact Hcr.
  rewrite IH. exact Hcr.
Qed.

Lemma keeps_create_fields cr (Hcr : cr_keeps cr) ctx : forall flds deps, keeps (create_fields cr flds ctx deps).
Proof.
  induction flds as [|t r IH]; intro deps; simpl; [apply keeps_ret|].
  apply keeps_bind; [apply Hcr|]. intro v. apply keeps_bind; [apply IH | intro; apply keeps_ret].
Qed.

Lemma keeps_create_tuple cr (Hcr : cr_keeps cr) ctx : forall ts, keeps (create_tuple cr ts ctx).
Proof.
  induction ts as [|t r IH]; simpl; [apply keeps_ret|].
  apply keeps_bind; [apply Hcr|]. intro v. apply keeps_bind; [apply IH | intro; apply keeps_ret].
Qed.

Theorem create_node_keeps : forall fuel g k, cr_keeps (create_node fuel g k).
Proof.
  induction fuel as [|f IH]; intros g k t ctx deps; cbn [create_node]; [apply keeps_fail|].
  specialize (IH g k).
  destruct t as [b|c|t'|ts|ts|base m].
  - destruct b.
    + apply keeps_bind; [apply keeps_decider_default_int | intro; apply keeps_ret].
    + apply keeps_decider_random_float.
    + destruct (is_registered g (SB BStr)); [apply keeps_ret | apply keeps_fail].
    + apply keeps_bind; [apply keeps_decider_random_bool | intro; apply keeps_ret].
  - destruct (negb (is_registered g (SC c))); [apply keeps_fail|].
    intro st. destruct (get_alts (st_alts st) c) as [prods|].
    + apply keeps_try_productions; exact IH.
    + destruct (is_abstract (g_decl g) (SC c)); [reflexivity|].
      match goal with |- st_alts (snd (?m st)) = _ => assert (K : keeps m) end.
      { apply keeps_bind; [apply keeps_create_fields; exact IH | intro; apply keeps_ret]. }
      apply K.
  - apply keeps_bind; [apply keeps_decider_random_int|]. intro n.
    apply keeps_bind; [apply keeps_repeatM, IH | intro; apply keeps_ret].
  - apply keeps_bind; [apply keeps_create_tuple; exact IH | intro; apply keeps_ret].
  - apply keeps_bind; [apply keeps_choose | intro; apply IH].
  - destruct (mh_generate_flat m) as [r|] eqn:E; [apply (keeps_mh_flat _ _ E)|].
    destruct m; try apply keeps_fail.
    + destruct base; try apply keeps_fail.
      apply keeps_bind; [apply keeps_on_src|]. intro n.
      apply keeps_bind; [apply keeps_repeatM, IH | intro; apply keeps_ret].
    + apply keeps_bind; [apply keeps_lift|]. intro vals. apply keeps_bind; [apply keeps_lift|]. intro m'. apply IH.
Qed.

(* along any sequence of creations (each from the state the previous one left, whatever its outcome) *)
Fixpoint run_creations (fuel : nat) (g : grammar) (k : dkind) (reqs : list (ty * sctx)) (st : sst) : sst :=
  match reqs with
  | [] => st
  | (t, ctx) :: r => run_creations fuel g k r (snd (create_node fuel g k t ctx [] st))
  end.

Theorem creations_keep : forall fuel g k reqs st, st_alts (run_creations fuel g k reqs st) = st_alts st.
Proof.
  intros fuel g k. induction reqs as [|[t ctx] r IH]; intro st; simpl; [reflexivity|].
  rewrite IH. apply create_node_keeps.
Qed.
