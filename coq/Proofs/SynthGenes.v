(* SynthGenes.v — C07: when create_node runs on a gene-backed source (GE / SGE mapping: decider and
   metahandlers read the same ListWrapper), every draw is a read of the given gene list: in every
   intermediate and final state the source is still a wrapper over the SAME genes — nothing else is
   consulted, nothing is appended.  Hence the mapping is a function of the genotype alone. *)
From GE Require Import Base Tape Grammar Synth Linear SynthFrame.
Open Scope Z_scope.

Definition over_genes (k : lwkind) (dna : list Z) (s : src) : Prop := exists idx, s = LW k dna idx.

Lemma randint_genes k dna s lo hi v s' : over_genes k dna s -> randint s lo hi = Ok (v, s') -> over_genes k dna s'.
Proof.
  intros [idx ->] H. simpl in H. destruct (lw_step dna idx) as [[x i]|]; cbn [bind] in H; [|discriminate].
  destruct (_ =? 0); inversion H; subst. exists i; reflexivity.
Qed.

Lemma choice_genes {A} k dna s (l : list A) x s' : over_genes k dna s -> choice s l = Ok (x, s') -> over_genes k dna s'.
Proof.
  intros Hs H. unfold choice in H. destruct l; [discriminate|].
  destruct (randint s 0 _) as [[i s1]|] eqn:E; cbn [bind] in H; [|discriminate].
  destruct (znth _ _); inversion H; subst. eapply randint_genes; eauto.
Qed.

Lemma random_float_genes k dna s lo hi v s' : over_genes k dna s -> random_float s lo hi = Ok (v, s') -> over_genes k dna s'.
Proof.
  intros [idx ->] H. destruct k; unfold random_float in H.
  - destruct (randint _ 1 maxsize) as [[kk s1]|] eqn:E; cbn [bind] in H; [|discriminate].
    destruct (kk =? 0); inversion H; subst. eapply randint_genes; [eexists; reflexivity | exact E].
  - destruct (randint _ 1 10) as [[b s1]|] eqn:E; cbn [bind] in H; [|discriminate].
    destruct (randint s1 1 10) as [[e s2]|] eqn:E2; cbn [bind] in H; [|discriminate].
    destruct (_ =? 0); inversion H; subst.
    eapply randint_genes; [|exact E2]. eapply randint_genes; [eexists; reflexivity | exact E].
  - destruct (randint _ 1 maxsize) as [[kk s1]|] eqn:E; cbn [bind] in H; [|discriminate].
    destruct (kk =? 0); inversion H; subst. eapply randint_genes; [eexists; reflexivity | exact E].
Qed.

Lemma base_random_int_genes k dna s lo hi v s' : over_genes k dna s -> base_random_int s lo hi = Ok (v, s') -> over_genes k dna s'.
Proof.
  intros Hs H. unfold base_random_int in H. destruct (1000 <? hi - lo); [|eapply randint_genes; eauto].
  destruct (randint s 0 10) as [[n s1]|] eqn:E1; cbn [bind] in H; [|discriminate].
  destruct (randint s1 0 _) as [[e s2]|] eqn:E2; cbn [bind] in H; [|discriminate].
  destruct (random_bool s2) as [[b s3]|] eqn:E3; cbn [bind] in H; [|discriminate]. inversion H; subst.
  eapply choice_genes; [|exact E3]. eapply randint_genes; [|exact E2]. eapply randint_genes; eauto.
Qed.

Lemma choice_weighted_genes {A} k dna s (c : list A) ws x s' : over_genes k dna s -> choice_weighted s c ws = Ok (x, s') -> over_genes k dna s'.
Proof.
  intros Hs H. unfold choice_weighted, choice_weighted_acc in H. destruct (last_error _); [|discriminate].
  destruct (randint s 0 _) as [[rr s1]|] eqn:E; cbn [bind] in H; [|discriminate].
  assert (s' = s1) by (destruct (select _ _ _); [inversion H; reflexivity | destruct c; inversion H; reflexivity]). subst.
  eapply randint_genes; eauto.
Qed.

(* the monadic invariant: the source stays a wrapper over the same genes, whatever the outcome *)
Definition gkeeps {A} (k : lwkind) (dna : list Z) (m : M A) : Prop :=
  forall st, over_genes k dna (st_src st) -> over_genes k dna (st_src (snd (m st))).

Section G.
Variables (k : lwkind) (dna : list Z).

Lemma gk_ret {A} (a : A) : gkeeps k dna (ret a). Proof. intros st H; exact H. Qed.
Lemma gk_fail {A} e : gkeeps k dna (@fail A e). Proof. intros st H; exact H. Qed.
Lemma gk_lift {A} (r : res A) : gkeeps k dna (lift r). Proof. intros st H; exact H. Qed.
Lemma gk_bind {A B} (m : M A) (f : A -> M B) : gkeeps k dna m -> (forall a, gkeeps k dna (f a)) -> gkeeps k dna (bindM m f).
Proof.
  intros Hm Hf st H. unfold bindM. specialize (Hm st H). destruct (m st) as [[a|e] st1]; simpl in *; [apply Hf; exact Hm | exact Hm].
Qed.
Lemma gk_on_src {A} (f : src -> res (A * src)) :
  (forall s a s', over_genes k dna s -> f s = Ok (a, s') -> over_genes k dna s') -> gkeeps k dna (on_src f).
Proof.
  intros Hf st H. unfold on_src. destruct (f (st_src st)) as [[a s']|e] eqn:E; simpl; [eapply Hf; eauto | exact H].
Qed.

Lemma gk_repeatM {A} (f : M A) n : gkeeps k dna f -> gkeeps k dna (repeatM n f).
Proof.
  intro Hf. induction n as [|n IH]; simpl; [apply gk_ret|].
  apply gk_bind; [exact Hf|]. intro x. apply gk_bind; [exact IH | intro; apply gk_ret].
Qed.

Lemma gk_with_exp {A} (m : M A) e : gkeeps k dna m -> gkeeps k dna (fun st => m (with_exp st e)).
Proof. intros Hm st H. apply (Hm (with_exp st e)). exact H. Qed.

(* deciders other than the dynamic-SGE one (which reads its own genotype structure) *)
Definition tree_decider (kd : dkind) : Prop := match kd with DDsge _ => False | _ => True end.

Lemma gk_decider_int kd lo hi : tree_decider kd -> gkeeps k dna (decider_random_int kd lo hi).
Proof. intro Ht. destruct kd; try destruct Ht; apply gk_on_src; intros; eapply base_random_int_genes; eauto. Qed.
Lemma gk_decider_default_int kd : tree_decider kd -> gkeeps k dna (decider_default_int kd).
Proof. intro Ht. destruct kd; try destruct Ht; apply gk_decider_int; exact I. Qed.
Lemma gk_decider_bool kd : tree_decider kd -> gkeeps k dna (decider_random_bool kd).
Proof. intro Ht. destruct kd; try destruct Ht; apply gk_on_src; intros s a s' Hs H; unfold random_bool in H; eapply choice_genes; eauto. Qed.
Lemma gk_decider_float kd : tree_decider kd -> gkeeps k dna (decider_random_float kd).
Proof.
  intro Ht. destruct kd; try destruct Ht; apply gk_on_src; intros s a s' [idx ->] H;
    (destruct (random_float (LW k dna idx) 0 1) as [[x s1]|] eqn:E1; cbn [bind] in H; [|discriminate];
     destruct (random_float s1 0 1) as [[y s2]|] eqn:E2; cbn [bind] in H; [|discriminate]; inversion H; subst;
     eapply random_float_genes; [|exact E2]; eapply random_float_genes; [eexists; reflexivity | exact E1]).
Qed.

Lemma gk_choose g kd key alts ctx : tree_decider kd -> gkeeps k dna (choose g kd key alts ctx).
Proof.
  intro Ht. unfold choose. destruct alts as [|a0 t0]; [apply gk_fail|].
  destruct kd; try destruct Ht.
  - apply gk_bind; [apply gk_lift | intro; apply gk_on_src; intros; eapply choice_genes; eauto].
  - apply gk_bind; [apply gk_lift|]. intro c. apply gk_bind; [apply gk_lift | intro; apply gk_on_src; intros; eapply choice_genes; eauto].
  - apply gk_bind; [apply gk_lift|]. intros baseline st H.
    destruct (if c_depth ctx =? D - 1 then Some false else if c_exp ctx =? 0 then Some true else st_exp st) as [e|]; [|exact H].
    match goal with |- over_genes _ _ (st_src (snd (?m (with_exp st ?x)))) =>
      assert (K : gkeeps k dna m) by (apply gk_bind; [apply gk_lift | intro; apply gk_on_src; intros; eapply choice_genes; eauto]);
      apply (K (with_exp st x)) end. exact H.
  - apply gk_bind; [apply gk_lift|]. intro tg.
    apply gk_bind; [apply gk_lift|]. intro ws. destruct (forallb _ ws); [apply gk_fail|].
    apply gk_on_src; intros; eapply choice_weighted_genes; eauto.
Qed.

Lemma gk_weighted_rows rows alphabet : gkeeps k dna (weighted_rows rows alphabet).
Proof.
  induction rows as [|row t IH]; simpl; [apply gk_ret|].
  apply gk_bind; [apply gk_on_src; intros; eapply choice_weighted_genes; eauto|]. intro c. apply gk_bind; [exact IH | intro; apply gk_ret].
Qed.

Lemma gk_mh_flat m r : mh_generate_flat m = Some r -> gkeeps k dna r.
Proof.
  destruct m; simpl; intro H; inversion H; subst; clear H.
  - apply gk_bind; [apply gk_on_src; intros; eapply randint_genes; eauto | intro; apply gk_ret].
  - apply gk_bind; [apply gk_on_src; intros; eapply choice_genes; eauto | intro; apply gk_ret].
  - apply gk_bind; [|intro; apply gk_ret]. apply gk_on_src. intros s a s' [idx ->] H. eapply random_float_genes; [eexists; reflexivity | exact H].
  - apply gk_bind; [apply gk_on_src; intros; eapply choice_genes; eauto | intro; apply gk_ret].
  - apply gk_on_src; intros; eapply choice_genes; eauto.
  - apply gk_bind; [apply gk_on_src; intros; eapply randint_genes; eauto|]. intro n.
    apply gk_bind; [apply gk_repeatM; apply gk_on_src; intros; eapply choice_genes; eauto | intro; apply gk_ret].
  - apply gk_bind; [apply gk_weighted_rows | intro; apply gk_ret].
  - apply gk_bind; [apply gk_on_src; intros; eapply randint_genes; eauto|]. intro len.
    apply gk_bind; [apply gk_on_src; intros; eapply randint_genes; eauto | intro; apply gk_ret].
Qed.

Definition cr_gk (cr : creator) : Prop := forall t ctx deps, gkeeps k dna (cr t ctx deps).

Lemma gk_try cr g kd c ctx (Ht : tree_decider kd) (Hcr : cr_gk cr) : forall fuel compat, gkeeps k dna (try_productions fuel cr g kd c compat ctx).
Proof.
  induction fuel as [|f IH]; intro compat; simpl; [apply gk_fail|].
  destruct compat as [|p0 rest]; [apply gk_fail|].
  apply gk_bind; [apply gk_choose; exact Ht|]. intro rule. destruct rule; try apply gk_fail.
  intros st H. specialize (Hcr (TSym c0) (mkCtx (c_depth ctx) (c_exp ctx + 1)) [] st H).
  destruct (cr (TSym c0) _ [] st) as [[v|e] st1]; simpl in *; [exact Hcr|].
  destruct e; try exact Hcr. apply IH. exact Hcr.
Qed.

Lemma gk_fields cr (Hcr : cr_gk cr) ctx : forall flds deps, gkeeps k dna (create_fields cr flds ctx deps).
Proof.
  induction flds as [|t r IH]; intro deps; simpl; [apply gk_ret|].
  apply gk_bind; [apply Hcr|]. intro v. apply gk_bind; [apply IH | intro; apply gk_ret].
Qed.
Lemma gk_tuple cr (Hcr : cr_gk cr) ctx : forall ts, gkeeps k dna (create_tuple cr ts ctx).
Proof.
  induction ts as [|t r IH]; simpl; [apply gk_ret|].
  apply gk_bind; [apply Hcr|]. intro v. apply gk_bind; [apply IH | intro; apply gk_ret].
Qed.

Theorem create_node_genes : forall fuel g kd, tree_decider kd -> cr_gk (create_node fuel g kd).
Proof.
  induction fuel as [|f IH]; intros g kd Ht t ctx deps; cbn [create_node]; [apply gk_fail|].
  specialize (IH g kd Ht).
  destruct t as [b|c|t'|ts|ts|base m].
  - destruct b.
    + apply gk_bind; [apply gk_decider_default_int; exact Ht | intro; apply gk_ret].
    + apply gk_decider_float; exact Ht.
    + destruct (is_registered g (SB BStr)); [apply gk_ret | apply gk_fail].
    + apply gk_bind; [apply gk_decider_bool; exact Ht | intro; apply gk_ret].
  - destruct (negb (is_registered g (SC c))); [apply gk_fail|].
    intros st H. destruct (get_alts (st_alts st) c) as [prods|].
    + apply gk_try; assumption.
    + destruct (is_abstract (g_decl g) (SC c)); [exact H|].
      match goal with |- over_genes _ _ (st_src (snd (?m st))) => assert (K : gkeeps k dna m) end.
      { apply gk_bind; [apply gk_fields; exact IH | intro; apply gk_ret]. }
      apply K; exact H.
  - apply gk_bind; [apply gk_decider_int; exact Ht|]. intro n.
    apply gk_bind; [apply gk_repeatM, IH | intro; apply gk_ret].
  - apply gk_bind; [apply gk_tuple; exact IH | intro; apply gk_ret].
  - apply gk_bind; [apply gk_choose; exact Ht | intro; apply IH].
  - destruct (mh_generate_flat m) as [r|] eqn:E; [apply (gk_mh_flat _ _ E)|].
    destruct m; try apply gk_fail.
    + destruct base; try apply gk_fail.
      apply gk_bind; [apply gk_on_src; intros; eapply randint_genes; eauto|]. intro n.
      apply gk_bind; [apply gk_repeatM, IH | intro; apply gk_ret].
    + apply gk_bind; [apply gk_lift|]. intro vals. apply gk_bind; [apply gk_lift|]. intro m'. apply IH.
Qed.
End G.

(* GE and SGE mapping: the final source is still a wrapper over the genotype's own genes *)
Theorem ge_map_reads_only_genes fuel g kd dna : tree_decider kd ->
  over_genes KGE dna (st_src (snd (ge_map fuel g kd dna))).
Proof. intro Ht. unfold ge_map. apply (create_node_genes KGE dna fuel g kd Ht). exists O. reflexivity. Qed.

Theorem sge_map_reads_only_genes fuel g kd infra : tree_decider kd ->
  over_genes KSGE infra (st_src (snd (sge_map fuel g kd infra))).
Proof. intro Ht. unfold sge_map. apply (create_node_genes KSGE infra fuel g kd Ht). exists O. reflexivity. Qed.

(* dynamic SGE: a read that falls inside the genes the genotype already has consumes nothing from the
   shared source and leaves the genes as they are (only the read position moves) *)
Lemma tset_same {A} (m : list (ty * A)) k v : tget m k = Some v -> tset m k v = m.
Proof.
  induction m as [|[k' w] t IH]; simpl; [discriminate|].
  destruct (ty_eqb k k') eqn:E; [intro H; inversion H; subst; reflexivity | intro H; rewrite (IH H); reflexivity].
Qed.

Theorem dsge_read_inside k st n l :
  tget (st_pos st) k = Some n -> tget (st_dna st) k = Some l -> (n < length l)%nat ->
  exists v, nth_error l n = Some v /\
            dsge_read k st = (Ok v, mkSt (st_src st) (st_exp st) (tset (st_pos st) k (S n)) (st_dna st) (st_alts st)).
Proof.
  intros Hp Hd Hn. unfold dsge_read, pos_of. rewrite Hp, Hd.
  assert (E : extend_genes (S n) (st_src st) l n = Ok (l, st_src st)).
  { simpl. apply Nat.ltb_lt in Hn. rewrite Hn. reflexivity. }
  rewrite E. destruct (nth_error l n) as [v|] eqn:En; [|apply nth_error_None in En; lia].
  exists v. split; [reflexivity|]. rewrite (tset_same _ _ _ Hd). reflexivity.
Qed.
