(* SynthSat.v — C01 + C02: every value create_node returns is a program of the requested type in which
   every refinement holds (dependent refinements against the actual sibling values), for every decider,
   random source, context and fuel.  Induction on fuel with one lemma per loop of create_node. *)
From GE Require Import Base Tape Grammar WellTyped Synth Sat RegProofs WeightProofs TapeProofs DistProofs SynthFrame.
From Coq Require Import Lqa.
Open Scope Z_scope.

(* ---------- inversion of the monad ---------- *)
Lemma bind_ok {A B} (m : M A) (f : A -> M B) st b st' :
  bindM m f st = (Ok b, st') -> exists a st1, m st = (Ok a, st1) /\ f a st1 = (Ok b, st').
Proof.
  unfold bindM. destruct (m st) as [[a|e] st1]; intro H; [eauto | discriminate].
Qed.

Lemma ret_ok {A} (a b : A) st st' : ret a st = (Ok b, st') -> b = a /\ st' = st.
Proof. unfold ret; intro H; inversion H; auto. Qed.

Lemma lift_ok {A} (r : res A) a st st' : lift r st = (Ok a, st') -> r = Ok a /\ st' = st.
Proof. unfold lift; intro H; inversion H; auto. Qed.

Lemma on_src_ok {A} (f : src -> res (A * src)) a st st' :
  on_src f st = (Ok a, st') -> exists s', f (st_src st) = Ok (a, s') /\ st' = with_src st s'.
Proof.
  unfold on_src. destruct (f (st_src st)) as [[x s']|e]; intro H; inversion H; subst; eauto.
Qed.

Ltac minv H :=
  match type of H with
  | bindM _ _ _ = (Ok _, _) =>
      let a := fresh "a" in let st1 := fresh "st" in let H1 := fresh "H" in let H2 := fresh "H" in
      apply bind_ok in H; destruct H as [a [st1 [H1 H2]]]
  | ret _ _ = (Ok _, _) => apply ret_ok in H; destruct H; subst
  | lift _ _ = (Ok _, _) => apply lift_ok in H; destruct H; subst
  | fail _ _ = (Ok _, _) => discriminate H
  end.

(* every step of the monadic code leaves the productions alone: used to carry "st_alts st = A" along *)
Lemma keeps_eq {A} (m : M A) st r st' : keeps m -> m st = (r, st') -> st_alts st' = st_alts st.
Proof. intros K H. specialize (K st). rewrite H in K. exact K. Qed.

(* ---------- choices are members ---------- *)
Lemma filter_res_incl {A} (f : A -> res bool) : forall l l', filter_res f l = Ok l' -> forall x, In x l' -> In x l.
Proof.
  induction l as [|a t IH]; intros l' H x Hx; simpl in H.
  - inversion H; subst. destruct Hx.
  - destruct (f a) as [b|]; cbn [bind] in H; [|discriminate].
    destruct (filter_res f t) as [r|]; cbn [bind] in H; [|discriminate].
    inversion H; subst. destruct b; [destruct Hx as [<- | Hx]|]; [left; reflexivity | right; eauto | right; eauto].
Qed.

Lemma s_choice_mem {A} (l : list A) x st st' : s_choice l st = (Ok x, st') -> In x l.
Proof. intro H. unfold s_choice in H. apply on_src_ok in H. destruct H as [s' [H _]]. eapply choice_mem; exact H. Qed.

Tactic Notation "mbind" hyp(H) "as" ident(a) ident(st1) ident(H1) ident(H2) :=
  apply bind_ok in H; destruct H as [a [st1 [H1 H2]]].
Ltac mlift H := apply lift_ok in H; let E := fresh "E" in destruct H as [H E]; subst.
Ltac mret H := apply ret_ok in H; let E := fresh "E" in destruct H as [H E]; subst.

Lemma choose_mem g k key alts ctx st x st' : choose g k key alts ctx st = (Ok x, st') -> In x alts.
Proof.
  unfold choose. destruct alts as [|a0 t0]; [discriminate|]. set (alts := a0 :: t0).
  destruct k; intro H.
  - mbind H as l st1 H1 H2. mlift H1. apply s_choice_mem in H2. eapply filter_res_incl; eauto.
  - mbind H as c st1 H1 H2. mlift H1. mbind H2 as l st2 H2 H3. mlift H2. apply s_choice_mem in H3.
    destruct c as [|y c']; [eapply filter_res_incl; eauto|]. inversion H2; subst l.
    destruct (c_depth ctx <=? D); [eapply filter_res_incl; [exact H1 | exact H3] | discriminate].
  - mbind H as baseline st1 H1 H2. mlift H1.
    destruct (if c_depth ctx =? D - 1 then Some false else if c_exp ctx =? 0 then Some true else st_exp st) as [e|]; [|discriminate].
    mbind H2 as c st2 H2 H3. mlift H2. apply s_choice_mem in H3.
    assert (Hb : forall x, In x baseline -> In x alts) by (intros; eapply filter_res_incl; eauto).
    destruct e.
    + destruct c as [|y l]; [apply Hb; exact H3|]. eapply filter_res_incl; [exact H2 | exact H3].
    + inversion H2; subst c. destruct baseline; apply Hb; exact H3.
  - mbind H as tg st2 H2 H3. mlift H2. mbind H3 as ws st3 H3 H4. mlift H3.
    destruct (forallb (fun q => Qeq_bool q 0) ws); [discriminate|].
    apply on_src_ok in H4. destruct H4 as [s' [H4 _]]. unfold choice_weighted in H4.
    eapply choice_weighted_mem; exact H4.
  - mbind H as v st1 H1 H2. mbind H2 as l st2 H2 H3. mlift H2.
    destruct l as [|y l]; [discriminate|].
    destruct (znth (y :: l) (v mod zlen (y :: l))) as [z|] eqn:Ez; [|discriminate].
    mret H3. apply znth_In in Ez. eapply filter_res_incl; eauto.
Qed.

(* ---------- loops ---------- *)
Lemma repeatM_spec {A} (f : M A) (P : A -> Prop) (I : sst -> Prop) :
  (forall st a st', I st -> f st = (Ok a, st') -> P a /\ I st') ->
  forall n st l st', I st -> repeatM n f st = (Ok l, st') -> Forall P l /\ length l = n /\ I st'.
Proof.
  intros Hf. induction n as [|n IH]; intros st l st' Hi H; simpl in H.
  - minv H. auto.
  - minv H. minv H1. minv H2.
    destruct (Hf _ _ _ Hi H0) as [Pa Hi1]. destruct (IH _ _ _ Hi1 H) as [Pl [Hl Hi2]].
    split; [constructor; assumption|]. split; [simpl; congruence | exact Hi2].
Qed.

Lemma wt_kind d r : forall e x b, WT d r false e x -> base_kind e = Some b -> vkind x = Some b.
Proof.
  induction e as [b0|c|t IH|ts IH|ts IH|t m IH] using ty_ind'; intros x b H Hk; simpl in Hk; try discriminate.
  - inversion Hk; subst. inversion H; subst; reflexivity.
  - inversion H; subst. eapply IH; eauto.
Qed.

Section Main.
Variable g : grammar.
Let d := g_decl g.
Let r := g_reg g.
Hypothesis Hinv : reg_inv d r.
Hypothesis Hdecl : decl_ok d = true.

Definition cr_sat (cr : creator) : Prop :=
  forall dtys t ctx deps st v st',
    ty_ok dtys t = true -> Forall2 (WT d r false) dtys deps -> st_alts st = r_alts r ->
    cr t ctx deps st = (Ok v, st') -> Sat d r deps t v.

Definition cr_keeps' (cr : creator) : Prop := cr_keeps cr.

Lemma sat_base_kind deps b v : vkind v = Some b -> Sat d r deps (TBase b) v.
Proof. destruct v; simpl; intro H; inversion H; subst; constructor. Qed.

Lemma base_is_eq base b : base_is base b = true -> base = TBase b.
Proof. destruct base; simpl; try discriminate. intro H. destruct b, b0; simpl in H; try discriminate; reflexivity. Qed.

Lemma randint_st_range lo hi z st st' : s_randint lo hi st = (Ok z, st') -> lo <= hi -> lo <= z <= hi.
Proof. intros H Hle. unfold s_randint in H. apply on_src_ok in H. destruct H as [s' [H _]]. eapply randint_range; eauto. Qed.

(* the refinements that do not call back into create_node *)
Lemma flat_sat m gen dtys base deps st v st' :
  mh_generate_flat m = Some gen -> ty_ok dtys (TAnn base m) = true -> gen st = (Ok v, st') ->
  Sat d r deps (TAnn base m) v.
Proof.
  intros Hg Hok H. destruct m; simpl in Hg; inversion Hg; subst gen; clear Hg; simpl in Hok.
  - (* IntRange *) apply base_is_eq in Hok; subst base. mbind H as z st1 H1 H2. mret H2.
    constructor; [constructor|]. intro Hle. eapply randint_st_range; eauto.
  - (* IntList *) apply base_is_eq in Hok; subst base. mbind H as z st1 H1 H2. mret H2.
    constructor; [constructor|]. eapply s_choice_mem; eauto.
  - (* FloatRange *) apply base_is_eq in Hok; subst base. mbind H as q st1 H1 H2. mret H2.
    constructor; [constructor|]. intro Hle.
    unfold s_random_float in H1. apply on_src_ok in H1. destruct H1 as [s' [H1 _]].
    destruct (st_src st) as [[|[z|u] t]|k dna idx] eqn:Es;
      try (eapply random_float_range_partial; [exact H1 | exact Hle | intros u0 t0 X; discriminate X]).
    destruct (Qle_bool 0 u && negb (Qle_bool 1 u)) eqn:Eu; [|discriminate].
    eapply random_float_range_partial; [exact H1 | exact Hle|].
    intros u0 t0 X. inversion X; subst. apply andb_prop in Eu. destruct Eu as [E1 E2].
    apply Qle_bool_iff in E1. split; [exact E1|].
    destruct (Qlt_le_dec u0 1) as [L | L]; [exact L|]. apply Qle_bool_iff in L. rewrite L in E2. discriminate.
  - (* FloatList *) apply base_is_eq in Hok; subst base. mbind H as q st1 H1 H2. mret H2.
    econstructor; [constructor | eapply s_choice_mem; eauto | reflexivity].
  - (* VarRange *) destruct base; try discriminate.
    assert (Hin : In v opts) by (eapply s_choice_mem; eauto).
    constructor; [|exact Hin].
    rewrite forallb_forall in Hok. specialize (Hok v Hin). unfold opt_kind_ok in Hok.
    destruct (vkind v) as [b'|] eqn:Ek; [|discriminate].
    assert (b = b') by (destruct b, b'; simpl in Hok; try discriminate; reflexivity). subst.
    apply sat_base_kind; exact Ek.
  - (* StringSize *) apply base_is_eq in Hok; subst base. mbind H as n st1 H1 H2. mbind H2 as cs st2 H2 H3. mret H3.
    destruct (repeatM_spec (s_choice alphabet) (fun c => In c alphabet) (fun _ => True)
                (fun st a st' _ H => conj (s_choice_mem _ _ _ _ H) I) _ _ _ _ I H2) as [Hall [Hlen _]].
    constructor; [constructor | | intros c Hc; rewrite Forall_forall in Hall; auto].
    intros H0lo Hle. pose proof (randint_st_range _ _ _ _ _ H1 Hle). unfold zlen. rewrite Hlen. rewrite Z2Nat.id; lia.
  - (* WeightedString *) apply base_is_eq in Hok; subst base. mbind H as cs st1 H1 H2. mret H2.
    assert (G : forall rows st l st', weighted_rows rows alphabet st = (Ok l, st') ->
                length l = length rows /\ forall c, In c l -> In c alphabet).
    { clear. induction rows as [|row t IH]; intros st l st' H; simpl in H.
      - mret H. split; [reflexivity | intros c []].
      - mbind H as c st1 H1 H2. mbind H2 as rr st2 H2 H3. mret H3. destruct (IH _ _ _ H2) as [L M].
        apply on_src_ok in H1. destruct H1 as [s' [H1 _]]. unfold choice_weighted in H1.
        apply choice_weighted_mem in H1.
        split; [simpl; congruence|]. intros c0 [<- | Hc]; auto. }
    destruct (G _ _ _ _ H1) as [L Mem].
    constructor; [constructor | unfold zlen; congruence | exact Mem].
  - (* Interval *) destruct base as [| | |[|[[]| | | | |] [|[[]| | | | |] []]]| |]; try discriminate.
    mbind H as len st1 H1 H2. mbind H2 as start st2 H2 H3. mret H3.
    constructor.
    + constructor. constructor; [constructor|]. constructor; [constructor | constructor].
    + intros H1' H2'. pose proof (randint_st_range _ _ _ _ _ H1 H1').
      assert (0 <= top - len) by lia. pose proof (randint_st_range _ _ _ _ _ H2 H0). lia.
Qed.

Lemma try_productions_sat cr (Hcr : cr_sat cr) (Hk : cr_keeps cr) k c prods ctx deps :
  get_alts (r_alts r) c = Some prods ->
  forall fuel compat st v st',
    (forall p, In p compat -> In p prods) -> st_alts st = r_alts r ->
    try_productions fuel cr g k c compat ctx st = (Ok v, st') -> Sat d r deps (TSym c) v.
Proof.
  intros Hg. induction fuel as [|f IH]; intros compat st v st' Hsub Ha H; simpl in H; [discriminate|].
  destruct compat as [|p0 rest]; [discriminate|].
  minv H.
  assert (Ha1 : st_alts st0 = r_alts r).
  { rewrite <- Ha. eapply keeps_eq; [apply keeps_choose | exact H0]. }
  apply choose_mem in H0. apply in_map_iff in H0. destruct H0 as [p [<- Hp]].
  destruct (cr (TSym p) (mkCtx (c_depth ctx) (c_exp ctx + 1)) [] st0) as [[w|e] st2] eqn:Ec.
  - inversion H1; subst w st2.
    assert (S1 : Sat d r [] (TSym p) v) by (eapply (Hcr [] (TSym p)); eauto; constructor).
    inversion S1; subst.
    destruct (ri_mem _ _ Hinv _ _ _ Hg (Hsub _ Hp)) as [_ [_ Habs]].
    constructor; [|assumption]. eapply po_step; eauto.
  - destruct e; try discriminate.
    eapply IH; [| |exact H1].
    + intros q Hq. apply Hsub.
      clear - Hq. induction (p0 :: rest) as [|y t IHt]; simpl in Hq; [destruct Hq|].
      destruct (Nat.eqb p y); [right; exact Hq|]. destruct Hq as [<- | Hq]; [left; reflexivity | right; auto].
    + rewrite <- Ha1. eapply keeps_eq; [apply (Hk (TSym p)) | exact Ec].
Qed.

Lemma create_fields_sat cr (Hcr : cr_sat cr) (Hk : cr_keeps cr) ctx : forall flds dtys deps st args st',
  fields_ok dtys flds = true -> Forall2 (WT d r false) dtys deps -> st_alts st = r_alts r ->
  create_fields cr flds ctx deps st = (Ok args, st') -> SatFields d r deps flds args.
Proof.
  induction flds as [|t rest IH]; intros dtys deps st args st' Hok Hd Ha H; simpl in H.
  - minv H. constructor.
  - simpl in Hok. apply andb_prop in Hok. destruct Hok as [Ht Hrest].
    minv H. minv H1. minv H2.
    assert (S1 : Sat d r deps t a) by (eapply Hcr; eauto).
    constructor; [exact S1|].
    eapply (IH (dtys ++ [t])); [exact Hrest | | | exact H].
    + apply Forall2_app; [exact Hd|]. constructor; [|constructor]. apply (proj1 (Sat_WT d r)) in S1. exact S1.
    + rewrite <- Ha. eapply keeps_eq; [apply (Hk t) | exact H0].
Qed.

Lemma create_tuple_sat cr (Hcr : cr_sat cr) (Hk : cr_keeps cr) ctx : forall ts st vs st',
  forallb (ty_ok []) ts = true -> st_alts st = r_alts r ->
  create_tuple cr ts ctx st = (Ok vs, st') -> SatTuple d r ts vs.
Proof.
  induction ts as [|t rest IH]; intros st vs st' Hok Ha H; simpl in H.
  - minv H. constructor.
  - simpl in Hok. apply andb_prop in Hok. destruct Hok as [Ht Hrest].
    minv H. minv H1. minv H2.
    constructor; [eapply (Hcr []); eauto; constructor|].
    eapply IH; [exact Hrest | | exact H]. rewrite <- Ha. eapply keeps_eq; [apply (Hk t) | exact H0].
Qed.

Lemma repeat_sat cr (Hcr : cr_sat cr) (Hk : cr_keeps cr) dtys t ctx deps :
  ty_ok dtys t = true -> Forall2 (WT d r false) dtys deps ->
  forall n st vs st', st_alts st = r_alts r -> repeatM n (cr t ctx deps) st = (Ok vs, st') ->
  SatAll d r deps t vs /\ length vs = n.
Proof.
  intros Hok Hd n st vs st' Ha H.
  destruct (repeatM_spec (cr t ctx deps) (fun v => Sat d r deps t v) (fun st => st_alts st = r_alts r)) with (n := n) (st := st) (l := vs) (st' := st')
    as [Hall [Hlen _]]; [| exact Ha | exact H |].
  - intros st0 a st1 Hi Hc. split; [eapply Hcr; eauto|]. rewrite <- Hi. eapply keeps_eq; [apply (Hk t) | exact Hc].
  - split; [|exact Hlen]. clear - Hall. induction Hall; constructor; assumption.
Qed.

Lemma class_fields_ok c k : get_cls d c = Some k -> fields_ok [] (c_fields k) = true.
Proof.
  intro H. unfold decl_ok in Hdecl. rewrite forallb_forall in Hdecl. apply Hdecl.
  unfold get_cls in H. eapply nth_error_In; exact H.
Qed.

Lemma nth_forall2 {A B} (P : A -> B -> Prop) : forall l1 l2 i a b,
  Forall2 P l1 l2 -> nth_error l1 i = Some a -> nth_error l2 i = Some b -> P a b.
Proof.
  intros l1 l2 i a b H. revert i. induction H as [|x y l1 l2 Hxy _ IH]; intros i E1 E2; [destruct i; discriminate|].
  destruct i; simpl in *; [inversion E1; inversion E2; subst; exact Hxy | eauto].
Qed.

Lemma wtall_in t vs x : WTall d r false t vs -> In x vs -> WT d r false t x.
Proof. induction 1; intros Hx; [destruct Hx | destruct Hx as [<- | Hx]; auto]. Qed.

(* the refinement a Dependent(...) evaluates to is one create_node can honour at this base type *)
Lemma dep_result_ok dtys deps base names fn vals m' :
  Forall2 (WT d r false) dtys deps ->
  dep_ok dtys base names fn = true ->
  (match base with TList inner => ty_ok dtys inner | _ => true end) = true ->
  lookup_deps deps names = Ok vals -> eval_dep fn vals = Ok m' ->
  ty_ok dtys (TAnn base m') = true.
Proof.
  intros Hd Hdep Hinner Hl He. unfold dep_ok in Hdep. destruct fn.
  - destruct names as [|i [|? ?]]; try discriminate. apply andb_prop in Hdep. destruct Hdep as [Hb _].
    simpl in He. destruct vals as [|[] [|? ?]]; try discriminate. inversion He; subst. exact Hb.
  - destruct names as [|i [|? ?]]; try discriminate. apply andb_prop in Hdep. destruct Hdep as [Hb _].
    simpl in He. destruct vals as [|[] [|? ?]]; try discriminate. inversion He; subst. exact Hb.
  - (* VarRangeOf: the options are the elements of the sibling list *)
    destruct names as [|i [|? ?]]; try discriminate.
    destruct base as [b| | | | |]; try discriminate.
    destruct (nth_error dtys i) as [ti|] eqn:Eti; [|discriminate].
    destruct (list_elem ti) as [e|] eqn:Ele; [|discriminate].
    destruct (base_kind e) as [b'|] eqn:Ebk; [|discriminate].
    simpl in Hl. destruct (nth_error deps i) as [vi|] eqn:Evi; [|discriminate].
    cbn [bind] in Hl. inversion Hl; subst vals; clear Hl.
    simpl in He. destruct vi as [| | | | |xs| |]; try discriminate.
    destruct xs as [|x0 xs0]; [discriminate|]. inversion He; subst m'; clear He.
    cbn [ty_ok]. apply forallb_forall. intros x Hx.
    assert (Wi : WT d r false ti (VList (x0 :: xs0))) by (eapply nth_forall2; eauto).
    assert (We : WT d r false e x).
    { destruct ti; simpl in Ele; try discriminate.
      - inversion Ele; subst. inversion Wi; subst. eapply wtall_in; eauto.
      - destruct ti; try discriminate. inversion Ele; subst. inversion Wi; subst.
        match goal with Hw : WT _ _ _ (TList _) _ |- _ => inversion Hw; subst end. eapply wtall_in; eauto. }
    unfold opt_kind_ok. rewrite (wt_kind d r e x b' We Ebk). exact Hdep.
  - destruct names as [|i [|? ?]]; try discriminate. apply andb_prop in Hdep. destruct Hdep as [Hb _].
    simpl in He. destruct vals as [|[] [|? ?]]; try discriminate. inversion He; subst.
    destruct base; try discriminate. simpl. exact Hinner.
  - destruct names as [|i [|j [|? ?]]]; try discriminate. apply andb_prop in Hdep. destruct Hdep as [Hb _].
    simpl in He. destruct vals as [|[] [|[] [|? ?]]]; try discriminate. inversion He; subst. exact Hb.
Qed.

Theorem create_node_sat : forall fuel k, cr_sat (create_node fuel g k).
Proof.
  induction fuel as [|f IH]; intros k dtys t ctx deps st v st' Hok Hd Ha H; cbn [create_node] in H; [discriminate|].
  pose proof (create_node_keeps f g k) as Hk. specialize (IH k).
  destruct t as [b|c|t'|ts|ts|base m].
  - destruct b.
    + mbind H as z st1 H1 H2. mret H2. constructor.
    + unfold decider_random_float in H. destruct k;
        try (apply on_src_ok in H; destruct H as [s' [H _]];
             destruct (st_src st) as [[|[z|q] tp]|kk dna idx]; try discriminate;
             [inversion H; subst; constructor
             | destruct (random_float _ 0 1) as [[x s1]|]; cbn [bind] in H; [|discriminate];
               destruct (random_float s1 0 1) as [[y s2]|]; cbn [bind] in H; [|discriminate]; inversion H; subst; constructor]).
      mbind H as z st1 H1 H2. mret H2. constructor.
    + destruct (is_registered g (SB BStr)); [|discriminate]. mret H. constructor.
    + mbind H as z st1 H1 H2. mret H2. constructor.
  - (* symbol *)
    destruct (negb (is_registered g (SC c))) eqn:Er; [discriminate|].
    apply negb_false_iff in Er.
    rewrite Ha in H. fold r in H.
    destruct (get_alts (r_alts r) c) as [prods|] eqn:Eg.
    + eapply try_productions_sat; eauto.
    + fold d in H. destruct (is_abstract d (SC c)) eqn:Eabs; [discriminate|].
      mbind H as args st1 H1 H2. mret H2.
      constructor.
      * apply po_self; [exact Eabs | exact Er].
      * unfold fields_of in *. destruct (get_cls d c) as [kc|] eqn:Ec.
        -- eapply (create_fields_sat _ IH Hk _ (c_fields kc) [] []); [apply (class_fields_ok c kc Ec) | constructor | exact Ha | exact H1].
        -- simpl in H1. mret H1. constructor.
  - (* list *)
    mbind H as n st1 H1 H2. mbind H2 as vs st2 H2 H3. mret H3. simpl in Hok.
    assert (Ha1 : st_alts st1 = r_alts r) by (rewrite <- Ha; eapply keeps_eq; [apply keeps_decider_random_int | exact H1]).
    destruct (repeat_sat _ IH Hk [] t' _ [] Hok (Forall2_nil _) _ _ _ _ Ha1 H2) as [Hall _].
    constructor. exact Hall.
  - (* tuple *)
    mbind H as vs st1 H1 H2. mret H2. simpl in Hok. constructor. eapply create_tuple_sat; eauto.
  - (* union *)
    mbind H as t' st1 H1 H2. simpl in Hok.
    assert (Ha1 : st_alts st1 = r_alts r) by (rewrite <- Ha; eapply keeps_eq; [apply keeps_choose | exact H1]).
    apply choose_mem in H1. rewrite forallb_forall in Hok.
    assert (S1 : Sat d r deps t' v) by (eapply IH; eauto).
    constructor. clear - H1 S1. induction ts as [|t ts IHt]; [destruct H1|].
    destruct H1 as [<- | H1]; [apply SatAny_here; exact S1 | apply SatAny_there; auto].
  - (* annotated *)
    destruct (mh_generate_flat m) as [gen|] eqn:Eg; [eapply flat_sat; eauto|].
    destruct m; try discriminate.
    + (* ListSize *)
      simpl in Hok. destruct base; try discriminate.
      mbind H as n st1 H1 H2. mbind H2 as vs st2 H2 H3. mret H3.
      assert (Ha1 : st_alts st1 = r_alts r).
      { rewrite <- Ha. unfold s_randint in H1. apply on_src_ok in H1. destruct H1 as [s' [_ ->]]. reflexivity. }
      destruct (repeat_sat _ IH Hk dtys base _ deps Hok Hd _ _ _ _ Ha1 H2) as [Hall Hlen].
      constructor; [exact Hall|].
      intros H0lo Hle. pose proof (randint_st_range _ _ _ _ _ H1 Hle). unfold zlen. rewrite Hlen. rewrite Z2Nat.id; lia.
    + (* Dependent *)
      mbind H as vals st1 H1 H2. mlift H1. mbind H2 as m' st2 H2 H3. mlift H2.
      simpl in Hok. apply andb_prop in Hok. destruct Hok as [Hdep Hinner].
      assert (Hok' : ty_ok dtys (TAnn base m') = true) by (eapply dep_result_ok; eauto).
      econstructor; [exact H1 | exact H2|].
      eapply IH; eauto.
Qed.

End Main.

(* ---------- for every extracted grammar ---------- *)
Lemma extract_reg_inv d order g : extract d order = Ok g -> reg_inv (g_decl g) (g_reg g).
Proof.
  intro H. destruct (WeightProofs.extract_cases _ _ _ H) as [g0 [E0 [[_ ->] | [_ [w [_ [_ Ea]]]]]]].
  - destruct (WeightProofs.analyse_inv _ _ _ E0) as [Hi Hd]. rewrite Hd. exact Hi.
  - destruct (WeightProofs.analyse_inv _ _ _ Ea) as [Hi Hd]. rewrite Hd. exact Hi.
Qed.

Lemma decl_ok_store d r w : decl_ok d = true -> decl_ok (store_weights d r w) = true.
Proof.
  unfold decl_ok, store_weights; simpl. rewrite !forallb_forall. intros H k Hk.
  apply in_map_iff in Hk. destruct Hk as [[c k0] [E Hin]].
  apply in_combine_r in Hin. specialize (H k0 Hin).
  destruct (mem_sym (SC c) (r_nodes r)); subst k; simpl; exact H.
Qed.

Lemma extract_decl_ok d order g : extract d order = Ok g -> decl_ok d = true -> decl_ok (g_decl g) = true.
Proof.
  intros H Hok. destruct (WeightProofs.extract_cases _ _ _ H) as [g0 [E0 [[_ ->] | [_ [w [_ [_ Ea]]]]]]].
  - destruct (WeightProofs.analyse_inv _ _ _ E0) as [_ Hd]. rewrite Hd. exact Hok.
  - destruct (WeightProofs.analyse_inv _ _ _ Ea) as [_ Hd]. rewrite Hd. apply decl_ok_store. exact Hok.
Qed.

Theorem create_sat_extracted d order g :
  extract d order = Ok g -> decl_ok d = true ->
  forall fuel k t ctx st v st',
    ty_ok [] t = true -> st_alts st = r_alts (g_reg g) ->
    create_node fuel g k t ctx [] st = (Ok v, st') ->
    Sat (g_decl g) (g_reg g) [] t v.
Proof.
  intros H Hok fuel k t ctx st v st' Ht Ha Hc.
  eapply (create_node_sat g (extract_reg_inv _ _ _ H) (extract_decl_ok _ _ _ H Hok) fuel k [] t ctx [] st v st'); eauto.
Qed.

Corollary create_wt_extracted d order g :
  extract d order = Ok g -> decl_ok d = true ->
  forall fuel k t ctx st v st',
    ty_ok [] t = true -> st_alts st = r_alts (g_reg g) ->
    create_node fuel g k t ctx [] st = (Ok v, st') ->
    WT (g_decl g) (g_reg g) false t v.
Proof.
  intros H Hok fuel k t ctx st v st' Ht Ha Hc.
  apply (proj1 (Sat_WT (g_decl g) (g_reg g))) with (deps := []).
  eapply create_sat_extracted; eauto.
Qed.

(* and along any sequence of creations from the state each one leaves behind *)
Theorem creations_sat d order g :
  extract d order = Ok g -> decl_ok d = true ->
  forall fuel k reqs st t ctx v st',
    ty_ok [] t = true -> st_alts st = r_alts (g_reg g) ->
    create_node fuel g k t ctx [] (run_creations fuel g k reqs st) = (Ok v, st') ->
    Sat (g_decl g) (g_reg g) [] t v.
Proof.
  intros H Hok fuel k reqs st t ctx v st' Ht Ha Hc.
  eapply create_sat_extracted; [exact H | exact Hok | exact Ht | | exact Hc]. rewrite creations_keep. exact Ha.
Qed.
