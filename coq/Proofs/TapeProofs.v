(* TapeProofs.v — contracts of the random primitives (property C18), for every
   source: the scripted native tape and the three gene-backed sources. *)
From GE Require Import Base Tape.
From Coq Require Import Permutation Lia ZArith List QArith Qround Lqa.
Import ListNotations.
Open Scope Z_scope.

(* ---------- randint ---------- *)

Lemma lw_step_idx dna idx v i : lw_step dna idx = Ok (v, i) -> nth_error dna i = Some v.
Proof.
  unfold lw_step. destruct dna as [|d dna']; [discriminate|].
  destruct (nth_error (d :: dna') (Nat.modulo (S idx) (length (d :: dna')))) eqn:E; [|discriminate].
  intros H; inversion H; subst; exact E.
Qed.

Lemma lw_step_total dna idx : dna <> [] -> exists v i, lw_step dna idx = Ok (v, i).
Proof.
  intros Hne. unfold lw_step. destruct dna as [|d dna']; [congruence|].
  set (l := d :: dna').
  assert (Hlt : (Nat.modulo (S idx) (length l) < length l)%nat)
    by (apply Nat.mod_upper_bound; subst l; simpl; lia).
  destruct (nth_error l (Nat.modulo (S idx) (length l))) eqn:E.
  - eauto.
  - apply nth_error_None in E. lia.
Qed.

Theorem randint_range s lo hi v s' :
  randint s lo hi = Ok (v, s') -> lo <= hi -> lo <= v <= hi.
Proof.
  destruct s as [tape | k dna idx]; simpl.
  - destruct (hi <? lo) eqn:Hhl; [discriminate|].
    destruct tape as [|[z|q] t]; try discriminate.
    destruct ((lo <=? z) && (z <=? hi)) eqn:Hr; [|discriminate].
    intros H _; inversion H; subst. apply andb_true_iff in Hr. lia.
  - destruct (lw_step dna idx) as [[g i]|e]; simpl; [|discriminate].
    destruct (hi - lo + 1 =? 0) eqn:Hm; [discriminate|].
    intros H Hle; inversion H; subst.
    pose proof (Z.mod_pos_bound g (hi - lo + 1)). lia.
Qed.

Theorem lw_randint_total k dna idx lo hi :
  dna <> [] -> lo <= hi -> exists v s', randint (LW k dna idx) lo hi = Ok (v, s').
Proof.
  intros Hne Hle. simpl. destruct (lw_step_total dna idx Hne) as (g & i & E). rewrite E; simpl.
  destruct (hi - lo + 1 =? 0) eqn:Hm; [lia|]. eauto.
Qed.

(* the gene-backed stream is a function of the genes: the value returned is the
   gene at the advanced index reduced into the range *)
Theorem lw_randint_spec k dna idx lo hi v s' :
  randint (LW k dna idx) lo hi = Ok (v, s') ->
  exists g i, nth_error dna i = Some g /\ i = Nat.modulo (S idx) (length dna) /\
              v = g mod (hi - lo + 1) + lo /\ s' = LW k dna i.
Proof.
  simpl. destruct (lw_step dna idx) as [[g i]|e] eqn:E; simpl; [|discriminate].
  destruct (hi - lo + 1 =? 0); [discriminate|]. intros H; inversion H; subst.
  exists g, i. split; [eapply lw_step_idx; eauto|]. split; [|auto].
  unfold lw_step in E. destruct dna; [discriminate|].
  destruct (nth_error _ _); inversion E; auto.
Qed.

(* ---------- choice ---------- *)

Lemma znth_In {A} (l : list A) i x : znth l i = Some x -> In x l.
Proof. unfold znth. destruct (i <? 0); [discriminate|]. apply nth_error_In. Qed.

Theorem choice_mem {A} s (l : list A) x s' : choice s l = Ok (x, s') -> In x l.
Proof.
  unfold choice. destruct l as [|a l']; [discriminate|].
  destruct (randint s 0 (zlen (a :: l') - 1)) as [[i s1]|e]; simpl; [|discriminate].
  destruct (znth (a :: l') i) eqn:E; [|discriminate].
  intros H; inversion H; subst. exact (znth_In _ _ _ E).
Qed.

Theorem choice_no_index_error {A} s (l : list A) :
  choice s l <> Err IndexError \/ exists e, randint s 0 (zlen l - 1) = Err e.
Proof.
  unfold choice. destruct l as [|a l']; [left; discriminate|].
  destruct (randint s 0 (zlen (a :: l') - 1)) as [[i s1]|e] eqn:E; simpl; [|right; eauto].
  left. apply randint_range in E; [|unfold zlen; simpl length; lia].
  unfold znth. destruct (i <? 0) eqn:Hi; [lia|].
  destruct (nth_error (a :: l') (Z.to_nat i)) eqn:En; [discriminate|].
  apply nth_error_None in En. unfold zlen in E. lia.
Qed.

Theorem random_bool_total_lw k dna idx :
  dna <> [] -> exists b s', random_bool (LW k dna idx) = Ok (b, s').
Proof.
  intros Hne. unfold random_bool, choice.
  destruct (lw_randint_total k dna idx 0 (zlen [true; false] - 1) Hne) as (v & s' & E);
    [unfold zlen; simpl; lia|].
  rewrite E; simpl. apply randint_range in E; [|unfold zlen; simpl; lia].
  unfold zlen in E; simpl in E. unfold znth.
  destruct (v <? 0) eqn:Hv; [lia|].
  assert (v = 0 \/ v = 1) as [-> | ->] by lia; simpl; eauto.
Qed.

(* ---------- choice_weighted ---------- *)

(* [sel_index accs r] = position of the first accumulated weight exceeding r *)
Fixpoint sel_index (accs : list Z) (r : Z) : option nat :=
  match accs with
  | [] => None
  | a :: t => if r <? a then Some O else option_map S (sel_index t r)
  end.

Lemma select_sel_index {A} (choices : list A) accs r c :
  select choices accs r = Some c ->
  exists i, sel_index accs r = Some i /\ nth_error choices i = Some c.
Proof.
  revert accs. induction choices as [|x xs IH]; intros [|a t]; simpl; try discriminate.
  destruct (r <? a).
  - intros H; inversion H; subst. exists O; auto.
  - intros H. destruct (IH _ H) as (i & Hi & Hn). exists (S i). rewrite Hi; auto.
Qed.

(* previous accumulated weight (0 before the first) *)
Definition prev_acc (accs : list Z) (i : nat) : Z :=
  match i with O => 0 | S j => nth j accs 0 end.

(* exact characterisation: option i is selected by exactly the draws r that are
   below acc[i] and not below any earlier accumulated weight *)
Theorem sel_index_spec accs r i :
  sel_index accs r = Some i <->
  (exists a, nth_error accs i = Some a /\ r < a) /\
  (forall j b, (j < i)%nat -> nth_error accs j = Some b -> b <= r).
Proof.
  revert i. induction accs as [|a t IH]; intros i; simpl.
  - split; [discriminate|]. intros [(x & Hx & _) _]. destruct i; discriminate.
  - destruct (r <? a) eqn:Hra.
    + split.
      * intros H; inversion H; subst. split; [exists a; simpl; split; auto; lia|]. intros; lia.
      * intros [(x & Hx & Hr) Hall]. destruct i as [|j]; auto.
        specialize (Hall O a). simpl in Hall. assert (a <= r) by (apply Hall; auto; lia). lia.
    + destruct i as [|j].
      * split.
        -- destruct (sel_index t r); discriminate.
        -- intros [(x & Hx & Hr) _]. simpl in Hx; inversion Hx; subst. lia.
      * split.
        -- intros H. destruct (sel_index t r) as [j'|] eqn:Ej; simpl in H; [|discriminate].
           inversion H; subst. destruct (proj1 (IH j) eq_refl) as [Hex Hall]. split; auto.
           intros j0 b Hj0 Hb. destruct j0; simpl in Hb.
           ++ inversion Hb; subst; lia.
           ++ apply (Hall j0); auto; lia.
        -- intros [Hex Hall].
           assert (Hs : sel_index t r = Some j).
           { apply IH. split; auto. intros j0 b Hj0 Hb. apply (Hall (S j0)); auto; lia. }
           rewrite Hs; auto.
Qed.

(* under non-decreasing accumulated weights: option i is selected by exactly the draws
   with acc[i-1] <= r < acc[i], i.e. by exactly (acc[i] - acc[i-1]) of the [total]
   equally likely draws — selection proportional to the (integer) weights *)
Definition nondecreasing (accs : list Z) : Prop :=
  forall i j a b, (i <= j)%nat -> nth_error accs i = Some a -> nth_error accs j = Some b -> a <= b.

Theorem sel_index_proportional accs r i :
  nondecreasing accs -> 0 <= r ->
  (sel_index accs r = Some i <->
   exists a, nth_error accs i = Some a /\ prev_acc accs i <= r < a).
Proof.
  intros Hnd Hr. rewrite sel_index_spec. split.
  - intros [(a & Ha & Hra) Hall]. exists a; split; auto. split; auto.
    destruct i as [|j]; simpl; auto.
    destruct (nth_error accs j) as [b|] eqn:Eb.
    + rewrite (nth_error_nth accs j 0 Eb). apply (Hall j); auto.
    + apply nth_error_None in Eb. assert (nth_error accs (S j) <> None) by congruence.
      apply nth_error_Some in H. lia.
  - intros (a & Ha & Hp & Hra). split; [eauto|].
    intros j b Hj Hb. destruct i as [|i']; [lia|]. simpl in Hp.
    destruct (nth_error accs i') as [c|] eqn:Ec.
    + rewrite (nth_error_nth accs i' 0 Ec) in Hp.
      assert (b <= c) by (apply (Hnd j i' b c); auto; lia). lia.
    + apply nth_error_None in Ec. assert (nth_error accs (S i') <> None) by congruence.
      apply nth_error_Some in H. lia.
Qed.

Lemma last_error_nth {A} (l : list A) x :
  last_error l = Some x -> nth_error l (length l - 1) = Some x.
Proof.
  induction l as [|a t IH]; simpl; [discriminate|].
  destruct t as [|b t']; simpl in *.
  - intros H; inversion H; auto.
  - intros H. specialize (IH H). replace (length t' - 0)%nat with (length t') in IH by lia. auto.
Qed.

Lemma sel_index_some accs r total :
  last_error accs = Some total -> r < total -> exists i, sel_index accs r = Some i.
Proof.
  induction accs as [|a t IH]; simpl; [discriminate|].
  destruct t as [|b t'].
  - intros H Hr; inversion H; subst. assert (r <? total = true) by lia. rewrite H0; eauto.
  - intros H Hr. destruct (r <? a); eauto.
    destruct (IH H Hr) as (i & Hi). rewrite Hi; simpl; eauto.
Qed.

Lemma select_some {A} (choices : list A) accs r i :
  sel_index accs r = Some i -> (length accs <= length choices)%nat ->
  exists c, select choices accs r = Some c /\ nth_error choices i = Some c.
Proof.
  revert choices i. induction accs as [|a t IH]; intros choices i; simpl; [discriminate|].
  destruct choices as [|c cs]; simpl; [lia|].
  destruct (r <? a).
  - intros H _; inversion H; subst. eauto.
  - destruct (sel_index t r) as [j|] eqn:Ej; simpl; [|discriminate].
    intros H Hl; inversion H; subst. destruct (IH cs j eq_refl) as (x & Hx & Hn); [lia|]. eauto.
Qed.

(* The chosen option has a strictly positive integer weight increment whenever the
   total is positive: a zero-weight option is never returned while a
   positive-weight one is offered. *)
Theorem choice_weighted_positive {A} s (choices : list A) accs c s' total :
  choice_weighted_acc s choices accs = Ok (c, s') ->
  length choices = length accs ->
  last_error accs = Some total -> 0 < total ->
  exists i a, nth_error choices i = Some c /\ nth_error accs i = Some a /\
              (forall j b, (j < i)%nat -> nth_error accs j = Some b -> b < a) /\ 0 < a.
Proof.
  unfold choice_weighted_acc. intros H Hlen Hlast Htot. rewrite Hlast in H.
  destruct (randint s 0 (Z.max (total - 1) 0)) as [[r s1]|e] eqn:Er; simpl in H; [|discriminate].
  apply randint_range in Er; [|lia].
  assert (Hr : 0 <= r < total) by lia.
  destruct (sel_index_some accs r total Hlast) as (i & Hi); [lia|].
  destruct (select_some choices accs r i Hi) as (x & Hx & Hn); [lia|].
  rewrite Hx in H. inversion H; subst.
  apply sel_index_spec in Hi.
  destruct Hi as [(a & Ha & Hra) Hall]. exists i, a. repeat split; auto; try lia.
  intros j b Hj Hb. specialize (Hall j b Hj Hb). lia.
Qed.

Theorem choice_weighted_mem {A} s (choices : list A) accs c s' :
  choice_weighted_acc s choices accs = Ok (c, s') -> In c choices.
Proof.
  unfold choice_weighted_acc. destruct (last_error accs); [|discriminate].
  destruct (randint _ _ _) as [[r s1]|e]; simpl; [|discriminate].
  destruct (select choices accs r) eqn:E.
  - intros H; inversion H; subst. apply select_sel_index in E. destruct E as (i & _ & Hn).
    eapply nth_error_In; eauto.
  - destruct choices; [discriminate|]. intros H; inversion H; subst. left; auto.
Qed.

(* ---------- shuffle ---------- *)

Lemma set_nth_length {A} (l : list A) n x : length (set_nth l n x) = length l.
Proof. revert n; induction l; destruct n; simpl; auto. Qed.

Lemma nth_error_set_nth_eq {A} (l : list A) n x :
  (n < length l)%nat -> nth_error (set_nth l n x) n = Some x.
Proof. revert n; induction l; destruct n; simpl; intros; auto; try lia. apply IHl; lia. Qed.

Lemma nth_error_set_nth_neq {A} (l : list A) n m x :
  n <> m -> nth_error (set_nth l n x) m = nth_error l m.
Proof. revert n m; induction l; destruct n, m; simpl; intros; auto; try congruence. Qed.

Lemma set_nth_split {A} (l : list A) n x :
  (n < length l)%nat -> exists l1 y l2, l = l1 ++ y :: l2 /\ length l1 = n /\ set_nth l n x = l1 ++ x :: l2.
Proof.
  revert n; induction l as [|a t IH]; intros n Hn; simpl in Hn; [lia|].
  destruct n.
  - exists [], a, t; auto.
  - destruct (IH n) as (l1 & y & l2 & E & Hl & Hs); [lia|].
    exists (a :: l1), y, l2. simpl. rewrite Hs, Hl. subst t; auto.
Qed.

Lemma perm_swap_ends {A} (a b : A) m1 m2 :
  Permutation (a :: m1 ++ b :: m2) (b :: m1 ++ a :: m2).
Proof.
  etransitivity; [apply perm_skip; symmetry; apply Permutation_middle|].
  etransitivity; [apply perm_swap|].
  apply perm_skip. apply Permutation_middle.
Qed.

Lemma swap_perm {A} (l l' : list A) i j : swap l i j = Some l' -> Permutation l l'.
Proof.
  unfold swap. destruct (nth_error l i) as [a|] eqn:Ei; [|discriminate].
  destruct (nth_error l j) as [b|] eqn:Ej; [|discriminate].
  intros H; inversion H; subst; clear H.
  destruct (Nat.eq_dec i j) as [->|Hij].
  - rewrite Ei in Ej; inversion Ej; subst.
    assert (Hj : (j < length l)%nat) by (apply nth_error_Some; congruence).
    destruct (set_nth_split l j b Hj) as (l1 & y & l2 & E & Hl & Hs).
    assert (y = b).
    { rewrite E in Ei. rewrite nth_error_app2 in Ei by lia.
      replace (j - length l1)%nat with O in Ei by lia. simpl in Ei. congruence. }
    subst y. rewrite Hs.
    destruct (set_nth_split (l1 ++ b :: l2) j b) as (m1 & y & m2 & E2 & Hl2 & Hs2);
      [rewrite <- E; auto|].
    rewrite Hs2. rewrite E, E2. apply Permutation_app_head.
    assert (y = b).
    { assert (nth_error (l1 ++ b :: l2) j = Some b) by (rewrite <- E; auto).
      rewrite E2 in H. rewrite nth_error_app2 in H by lia.
      replace (j - length m1)%nat with O in H by lia. simpl in H. congruence. }
    subst y. auto.
  - (* distinct positions: compare multisets via NoDup-free argument on nth_error *)
    assert (Hi : (i < length l)%nat) by (apply nth_error_Some; congruence).
    assert (Hj : (j < length l)%nat) by (apply nth_error_Some; congruence).
    (* wlog decomposition *)
    assert (Hgen : forall (l : list A) i j a b, (i < j)%nat ->
               nth_error l i = Some a -> nth_error l j = Some b ->
               Permutation l (set_nth (set_nth l i b) j a) /\
               Permutation l (set_nth (set_nth l j a) i b)).
    { clear. intros l i j a b Hij Ei Ej.
      assert (Hj : (j < length l)%nat) by (apply nth_error_Some; congruence).
      assert (Hi : (i < length l)%nat) by lia.
      destruct (set_nth_split l i b Hi) as (l1 & y & l2 & E & Hl & Hs).
      assert (y = a).
      { rewrite E in Ei. rewrite nth_error_app2 in Ei by lia.
        replace (i - length l1)%nat with O in Ei by lia. simpl in Ei. congruence. }
      subst y.
      assert (Ej2 : nth_error l2 (j - i - 1) = Some b).
      { rewrite E in Ej. rewrite nth_error_app2 in Ej by lia.
        rewrite Hl in Ej. replace (j - i)%nat with (S (j - i - 1)) in Ej by lia. auto. }
      assert (Hj2 : (j - i - 1 < length l2)%nat) by (apply nth_error_Some; congruence).
      destruct (set_nth_split l2 (j - i - 1) a Hj2) as (m1 & y & m2 & E2 & Hl2 & Hs2).
      assert (y = b).
      { rewrite E2 in Ej2. rewrite nth_error_app2 in Ej2 by lia.
        replace (j - i - 1 - length m1)%nat with O in Ej2 by lia. simpl in Ej2. congruence. }
      subst y.
      assert (Hset : forall (p : list A) q n x, set_nth (p ++ q) (length p + n) x = p ++ set_nth q n x).
      { clear. induction p; simpl; intros; auto. f_equal; auto. }
      assert (Hset0 : forall (p : list A) y q x, set_nth (p ++ y :: q) (length p) x = p ++ x :: q).
      { clear. induction p; simpl; intros; auto. f_equal; auto. }
      split.
      - rewrite Hs.
        replace j with (length l1 + S (j - i - 1))%nat by lia.
        rewrite Hset. simpl. rewrite Hs2. rewrite E, E2.
        apply Permutation_app_head. apply perm_swap_ends.
      - replace (set_nth l j a) with (l1 ++ a :: (m1 ++ a :: m2)).
        + rewrite <- Hl. rewrite Hset0. rewrite E, E2.
          apply Permutation_app_head. apply perm_swap_ends.
        + rewrite E. replace j with (length l1 + S (j - i - 1))%nat by lia.
          rewrite Hset. simpl. rewrite Hs2. auto. }
    destruct (Nat.lt_ge_cases i j) as [Hlt|Hge].
    + apply (Hgen l i j a b Hlt Ei Ej).
    + assert (Hlt : (j < i)%nat) by lia.
      apply (Hgen l j i b a Hlt Ej Ei).
Qed.

Theorem shuffle_loop_perm {A} i s (l l' : list A) s' :
  shuffle_loop i s l = Ok (l', s') -> Permutation l l'.
Proof.
  revert s l. induction i as [|i IH]; intros s l; cbn [shuffle_loop].
  - intros H; inversion H; subst; auto.
  - destruct (randint s 0 (Z.of_nat (S i))) as [[j s1]|e]; cbn [bind]; [|discriminate].
    destruct (swap l (S i) (Z.to_nat j)) as [l1|] eqn:Es; [|discriminate].
    intros H. apply IH in H. apply swap_perm in Es. etransitivity; eauto.
Qed.

Theorem shuffle_perm {A} s (l l' : list A) s' :
  shuffle s l = Ok (l', s') -> Permutation l l'.
Proof. apply shuffle_loop_perm. Qed.

(* shuffling never fails with IndexError: every draw is a valid position *)
Lemma swap_some {A} (l : list A) i j : (i < length l)%nat -> (j < length l)%nat -> exists l', swap l i j = Some l' /\ length l' = length l.
Proof.
  intros Hi Hj. unfold swap.
  destruct (nth_error l i) eqn:Ei; [|apply nth_error_None in Ei; lia].
  destruct (nth_error l j) eqn:Ej; [|apply nth_error_None in Ej; lia].
  eexists; split; eauto. rewrite !set_nth_length; auto.
Qed.

Theorem shuffle_loop_total_lw {A} i k dna idx (l : list A) :
  dna <> [] -> (i < length l)%nat \/ (i = 0)%nat ->
  exists l' s', shuffle_loop i (LW k dna idx) l = Ok (l', s').
Proof.
  intros Hne. revert idx l. induction i as [|i IH]; intros idx l Hi; cbn [shuffle_loop]; [eauto|].
  destruct Hi as [Hi|Hi]; [|lia].
  destruct (lw_randint_total k dna idx 0 (Z.of_nat (S i)) Hne) as (j & s1 & E); [lia|].
  pose proof E as E'. apply randint_range in E'; [|lia].
  rewrite E. cbn [bind].
  destruct (swap_some l (S i) (Z.to_nat j)) as (l1 & Hs & Hl); [lia|lia|].
  rewrite Hs.
  apply lw_randint_spec in E. destruct E as (g & i0 & _ & _ & _ & ->).
  apply IH. destruct i; [right; auto|left; lia].
Qed.

(* ---------- pop_random ---------- *)

Theorem pop_random_spec {A} s (l : list A) x l' s' :
  pop_random s l = Ok (x, l', s') ->
  Permutation l (x :: l') /\ S (length l') = length l.
Proof.
  unfold pop_random. destruct (rev l) as [|item r] eqn:Er; [discriminate|].
  assert (El : l = rev r ++ [item]).
  { rewrite <- (rev_involutive l), Er. simpl. auto. }
  clear Er. subst l. set (l0 := rev r).
  destruct (randint s 0 (zlen l0)) as [[i s1]|e] eqn:Ei; cbn [bind]; [|discriminate].
  destruct (i =? zlen l0) eqn:Hi.
  - intros H; inversion H; subst. split.
    + etransitivity; [apply Permutation_app_comm|]. simpl; auto.
    + rewrite app_length; simpl; lia.
  - destruct (znth l0 i) as [y|] eqn:Ey; [|discriminate].
    intros H; inversion H; subst x l' s'; clear H.
    unfold znth in Ey. destruct (i <? 0); [discriminate|].
    assert (Hlt : (Z.to_nat i < length l0)%nat) by (apply nth_error_Some; congruence).
    destruct (set_nth_split l0 (Z.to_nat i) item Hlt) as (l1 & y' & l2 & E & Hl & Hs).
    assert (y' = y).
    { rewrite E in Ey. rewrite nth_error_app2 in Ey by lia.
      replace (Z.to_nat i - length l1)%nat with O in Ey by lia. simpl in Ey. congruence. }
    subst y'. split.
    + rewrite Hs, E.
      etransitivity; [apply Permutation_app_comm|]. simpl.
      apply perm_swap_ends.
    + rewrite set_nth_length. rewrite app_length; simpl; lia.
Qed.

(* ---------- deciders' bounded integer draws ---------- *)

Theorem base_random_int_range s lo hi v s' :
  base_random_int s lo hi = Ok (v, s') -> lo <= hi -> lo <= v <= hi.
Proof.
  unfold base_random_int. destruct (1000 <? hi - lo) eqn:Hw.
  - destruct (randint s 0 10) as [[n s1]|e]; simpl; [|discriminate].
    destruct (randint s1 0 (rlog10 (hi - lo))) as [[e s2]|e']; simpl; [|discriminate].
    destruct (random_bool s2) as [[b s3]|e']; simpl; [|discriminate].
    intros H _; inversion H; subst; clear H.
    assert (Hh : 0 <= (hi - lo) / 2) by (apply Z.div_pos; lia).
    pose proof (Z.mod_pos_bound (n ^ e) ((hi - lo) / 2 + 1)).
    assert (2 * ((hi - lo) / 2) <= hi - lo) by (apply Z.mul_div_le; lia).
    destruct b; lia.
  - intros H Hle. eapply randint_range; eauto.
Qed.

Theorem dsge_random_int_range gene lo hi v :
  dsge_random_int gene lo hi = Ok v -> lo <= hi -> lo <= v <= hi.
Proof.
  unfold dsge_random_int. destruct (hi - lo + 1 =? 0); [discriminate|].
  intros H Hle; inversion H; subst. pose proof (Z.mod_pos_bound gene (hi - lo + 1)). lia.
Qed.

Theorem dsge_random_int_total gene lo hi : lo <= hi -> exists v, dsge_random_int gene lo hi = Ok v.
Proof. intros. unfold dsge_random_int. destruct (hi - lo + 1 =? 0) eqn:E; [lia|eauto]. Qed.

(* ---------- bounded floats (exact arithmetic over Q; IEEE rounding of the
   implementation's last operation is not covered: "partial") ---------- *)

Lemma Qdiv_between (d : Q) (k : Z) : 1 <= k -> (0 <= d)%Q -> (0 <= d / inject_Z k /\ d / inject_Z k <= d)%Q.
Proof.
  intros Hk Hd.
  assert (Hk1 : (1 <= inject_Z k)%Q) by (change 1%Q with (inject_Z 1); rewrite <- Zle_Qle; auto).
  assert (Hkpos : (0 < inject_Z k)%Q) by lra.
  split.
  - apply Qle_shift_div_l; auto; try lra.
  - apply Qle_shift_div_r; auto; try nra.
Qed.

Definition float_of_k (lo hi : Q) (k : Z) (s1 : src) : res (Q * src) :=
  if k =? 0 then Err ZeroDivisionError else Ok ((1 * (hi - lo) / inject_Z k + lo)%Q, s1).

Lemma rf_lw_ge k dna idx lo hi : k <> KStack ->
  random_float (LW k dna idx) lo hi =
  bind (randint (LW k dna idx) 1 maxsize) (fun p => float_of_k lo hi (fst p) (snd p)).
Proof.
  intros Hk. destruct k; try congruence; unfold random_float;
  destruct (randint _ 1 maxsize) as [[kk s1]|e]; reflexivity.
Qed.

Lemma rf_lw_stack dna idx lo hi :
  random_float (LW KStack dna idx) lo hi =
  bind (randint (LW KStack dna idx) 1 10) (fun p =>
  bind (randint (snd p) 1 10) (fun q => float_of_k lo hi (fst p ^ fst q) (snd q))).
Proof.
  unfold random_float. destruct (randint _ 1 10) as [[b s1]|e]; cbn [bind fst snd]; [|reflexivity].
  destruct (randint s1 1 10) as [[e s2]|e']; reflexivity.
Qed.

Theorem random_float_range_partial s lo hi v s' :
  random_float s lo hi = Ok (v, s') -> (lo <= hi)%Q ->
  (forall u t, s = Native (DF u :: t) -> (0 <= u /\ u < 1)%Q) ->
  (lo <= v /\ v <= hi)%Q.
Proof.
  intros H Hle Hu. destruct s as [tape|k dna idx].
  - simpl in H. destruct tape as [|[z|u] t]; try discriminate.
    inversion H; subst. destruct (Hu u t eq_refl). nra.
  - assert (Hgen : forall kk s1, 1 <= kk -> float_of_k lo hi kk s1 = Ok (v, s') -> (lo <= v /\ v <= hi)%Q).
    { intros kk s1 Hkk Hf. unfold float_of_k in Hf. destruct (kk =? 0); [discriminate|].
      inversion Hf; subst. destruct (Qdiv_between (1 * (hi - lo)) kk Hkk); [lra|]. lra. }
    destruct k.
    + rewrite rf_lw_ge in H by congruence.
      destruct (randint _ 1 maxsize) as [[kk s1]|e] eqn:Ek; cbn [bind fst snd] in H; [|discriminate].
      apply randint_range in Ek; [|unfold maxsize; lia]. eapply Hgen; eauto. lia.
    + rewrite rf_lw_stack in H.
      destruct (randint _ 1 10) as [[b s1]|e] eqn:Eb; cbn [bind fst snd] in H; [|discriminate].
      destruct (randint s1 1 10) as [[e s2]|e'] eqn:Ee; cbn [bind fst snd] in H; [|discriminate].
      apply randint_range in Eb; [|lia]. apply randint_range in Ee; [|lia].
      eapply Hgen; eauto.
      assert (0 < b ^ e) by (apply Z.pow_pos_nonneg; lia). lia.
    + rewrite rf_lw_ge in H by congruence.
      destruct (randint _ 1 maxsize) as [[kk s1]|e] eqn:Ek; cbn [bind fst snd] in H; [|discriminate].
      apply randint_range in Ek; [|unfold maxsize; lia]. eapply Hgen; eauto. lia.
Qed.

(* ---------- same state, same stream ---------- *)
(* Every primitive is a function of (source state, arguments): two sources built from the
   same genes (or the same scripted tape) produce the same stream.  For the native source
   the corresponding statement about CPython's Mersenne Twister is trusted, not proved. *)
Theorem same_state_same_stream s1 s2 lo hi : s1 = s2 -> randint s1 lo hi = randint s2 lo hi.
Proof. intros ->; reflexivity. Qed.
