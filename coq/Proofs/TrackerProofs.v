(* TrackerProofs.v — property C12: the reported best individual really is the best evaluated;
   recorders are told "new best" exactly for the first individual and for strict improvements;
   for the multi-objective tracker every member of the front attains the best aggregate so far. *)
From GE Require Import Base Search.
From Coq Require Import Permutation Lia ZArith List QArith.
From Coq Require Import Lqa.
Import ListNotations.
Open Scope Z_scope.

Definition extends (s s' : store) : Prop := forall k f, lookup s k = Some f -> lookup s' k = Some f.

(* ---------- auxiliary: keys, is_better ---------- *)
Lemma key_eqb_eq (a b : key) : key_eqb a b = true <-> a = b.
Proof.
  unfold key_eqb. destruct a as [a1 a2], b as [b1 b2]. cbn [fst snd].
  rewrite andb_true_iff, !N.eqb_eq. split.
  - intros [-> ->]. reflexivity.
  - intros H. inversion H. auto.
Qed.

Lemma is_better_iff a b : is_better a b = true <-> (agg b < agg a)%Q.
Proof.
  unfold is_better. rewrite negb_true_iff. split.
  - intro H. apply Qnot_le_lt. intro Hle. apply Qle_bool_iff in Hle. congruence.
  - intro H. destruct (Qle_bool (agg a) (agg b)) eqn:E; auto.
    apply Qle_bool_iff in E. apply Qlt_not_le in H. contradiction.
Qed.

Lemma extends_refl s : extends s s.
Proof. intros k f H. exact H. Qed.

Lemma extends_trans s1 s2 s3 : extends s1 s2 -> extends s2 s3 -> extends s1 s3.
Proof. intros H1 H2 k f H. apply H2, H1, H. Qed.

Section Tracker.
Variable pid : N.

Section FixedStore.
Variable s : store.        (* a fitness table in which every posted individual is evaluated *)

Definition betterb (i j : N) : bool :=
  match lookup s (i, pid), lookup s (j, pid) with
  | Some fi, Some fj => is_better fi fj
  | _, _ => false
  end.

(* "i is strictly better than j": agg j < agg i *)
Definition better (i j : N) : Prop :=
  exists fi fj, lookup s (i, pid) = Some fi /\ lookup s (j, pid) = Some fj /\ (agg fj < agg fi)%Q.

Lemma betterb_iff i j : betterb i j = true <-> better i j.
Proof.
  unfold betterb, better. split.
  - destruct (lookup s (i, pid)) as [fi|] eqn:Ei; [|discriminate].
    destruct (lookup s (j, pid)) as [fj|] eqn:Ej; [|discriminate].
    intro H. exists fi, fj. repeat split; auto. apply is_better_iff; auto.
  - intros (fi & fj & Hi & Hj & Hlt). rewrite Hi, Hj. apply is_better_iff; auto.
Qed.

Definition evaluated (l : list N) : Prop := forall i, In i l -> exists f, lookup s (i, pid) = Some f.

(* ---------- auxiliary facts about [better] ---------- *)
Lemma better_inv x b fx fb :
  lookup s (x, pid) = Some fx -> lookup s (b, pid) = Some fb -> better x b -> (agg fb < agg fx)%Q.
Proof.
  intros Hx Hb (f1 & f2 & H1 & H2 & Hlt). rewrite Hx in H1. rewrite Hb in H2.
  inversion H1; inversion H2; subst; auto.
Qed.

Lemma better_intro x b fx fb :
  lookup s (x, pid) = Some fx -> lookup s (b, pid) = Some fb -> (agg fb < agg fx)%Q -> better x b.
Proof. intros Hx Hb Hlt. exists fx, fb. auto. Qed.

Lemma not_better_le x b fx fb :
  lookup s (x, pid) = Some fx -> lookup s (b, pid) = Some fb -> ~ better x b -> (agg fx <= agg fb)%Q.
Proof.
  intros Hx Hb Hn. apply Qnot_lt_le. intro Hlt. apply Hn. eapply better_intro; eauto.
Qed.

Lemma better_irrefl x : ~ better x x.
Proof.
  intros (f1 & f2 & H1 & H2 & Hlt). rewrite H1 in H2. inversion H2; subst.
  apply Qlt_irrefl in Hlt; auto.
Qed.

Lemma evaluated_nil : evaluated [].
Proof. intros i []. Qed.

Lemma evaluated_app l1 l2 : evaluated l1 -> evaluated l2 -> evaluated (l1 ++ l2).
Proof. intros H1 H2 i Hi. apply in_app_or in Hi. destruct Hi; auto. Qed.

Lemma evaluated_one i f : lookup s (i, pid) = Some f -> evaluated [i].
Proof. intros H j [<-|[]]. eauto. Qed.

Lemma evaluated_cons_inv i l : evaluated (i :: l) -> (exists f, lookup s (i, pid) = Some f) /\ evaluated l.
Proof. intros H. split. - apply H. left; auto. - intros j Hj. apply H. right; auto. Qed.

(* ---------- single-objective tracker ---------- *)
Lemma so_post_total tr i :
  (forall b, so_best tr = Some b -> exists f, lookup s (b, pid) = Some f) ->
  (exists f, lookup s (i, pid) = Some f) ->
  exists tr', so_post pid s tr i = Ok tr' /\
              (forall b, so_best tr' = Some b -> exists f, lookup s (b, pid) = Some f).
Proof.
  intros Hb [fi Ei]. unfold so_post. rewrite Ei.
  destruct (so_best tr) as [b|] eqn:Eb.
  - destruct (Hb b eq_refl) as [fb Efb]. rewrite Efb.
    destruct (is_better fi fb); eexists; split; try reflexivity; cbn [so_best]; intros b' Hb';
      inversion Hb'; subst; eauto.
  - eexists; split; try reflexivity. cbn [so_best]. intros b' Hb'. inversion Hb'; subst; eauto.
Qed.

Lemma so_posts_total_gen l : forall tr,
  (forall b, so_best tr = Some b -> exists f, lookup s (b, pid) = Some f) ->
  evaluated l -> exists tr', so_posts pid s tr l = Ok tr'.
Proof.
  induction l as [|i l IH]; intros tr Hb Hev; cbn [so_posts].
  - eauto.
  - apply evaluated_cons_inv in Hev. destruct Hev as [Hi Hl].
    destruct (so_post_total tr i Hb Hi) as (tr1 & E1 & Hb1). rewrite E1. cbn [bind].
    apply IH; auto.
Qed.

Theorem so_posts_total l : evaluated l -> exists tr, so_posts pid s so0 l = Ok tr.
Proof.
  intro Hev. apply so_posts_total_gen; auto. cbn. intros b Hb. discriminate.
Qed.

Definition SInv (prev : list N) (tr : so_tracker) : Prop :=
  evaluated prev /\
  match so_best tr with
  | None => prev = []
  | Some b => In b prev /\ forall x, In x prev -> ~ better x b
  end.

Lemma so_post_step prev tr i tr' :
  SInv prev tr -> so_post pid s tr i = Ok tr' ->
  SInv (prev ++ [i]) tr' /\ so_rec tr' = (i, forallb (fun j => betterb i j) prev) :: so_rec tr.
Proof.
  intros [Hev Hb] Hp. unfold so_post in Hp.
  destruct (lookup s (i, pid)) as [fi|] eqn:Ei; [|discriminate].
  assert (Hev' : evaluated (prev ++ [i])).
  { apply evaluated_app; auto. eapply evaluated_one; eauto. }
  unfold SInv.
  destruct (so_best tr) as [b|] eqn:Eb.
  - destruct Hb as [Hin Hmax].
    destruct (lookup s (b, pid)) as [fb|] eqn:Elb; [|discriminate].
    destruct (is_better fi fb) eqn:Eib; inversion Hp; subst tr'; clear Hp; cbn [so_best so_rec].
    + apply is_better_iff in Eib. split.
      * split; auto. split.
        -- apply in_or_app; right; left; auto.
        -- intros x Hx. apply in_app_or in Hx. destruct Hx as [Hx|[<-|[]]].
           ++ destruct (Hev x Hx) as [fx Efx]. intro Hbt.
              apply (better_inv _ _ _ _ Efx Ei) in Hbt.
              pose proof (not_better_le _ _ _ _ Efx Elb (Hmax x Hx)). lra.
           ++ apply better_irrefl.
      * f_equal. f_equal. symmetry. apply forallb_forall. intros j Hj. apply betterb_iff.
        destruct (Hev j Hj) as [fj Efj]. apply (better_intro _ _ _ _ Ei Efj).
        pose proof (not_better_le _ _ _ _ Efj Elb (Hmax j Hj)). lra.
    + split.
      * split; auto. split.
        -- apply in_or_app; left; auto.
        -- intros x Hx. apply in_app_or in Hx. destruct Hx as [Hx|[<-|[]]]; auto.
           intro Hbt. apply (better_inv _ _ _ _ Ei Elb) in Hbt.
           apply is_better_iff in Hbt. congruence.
      * f_equal. f_equal. symmetry.
        destruct (forallb (fun j => betterb i j) prev) eqn:Ef; auto.
        rewrite forallb_forall in Ef. specialize (Ef b Hin). apply betterb_iff in Ef.
        apply (better_inv _ _ _ _ Ei Elb) in Ef. apply is_better_iff in Ef. congruence.
  - subst prev. inversion Hp; subst tr'; clear Hp. cbn [so_best so_rec app forallb].
    split; auto. split; auto. split.
    + left; auto.
    + intros x [<-|[]]. apply better_irrefl.
Qed.

Lemma so_posts_inv_gen l : forall prev tr tr',
  SInv prev tr -> so_posts pid s tr l = Ok tr' -> SInv (prev ++ l) tr'.
Proof.
  induction l as [|i l IH]; intros prev tr tr' Hinv Hp; cbn [so_posts] in Hp.
  - inversion Hp; subst. rewrite app_nil_r. auto.
  - destruct (so_post pid s tr i) as [tr1|] eqn:E1; cbn [bind] in Hp; [|discriminate].
    destruct (so_post_step _ _ _ _ Hinv E1) as [Hinv1 _].
    specialize (IH _ _ _ Hinv1 Hp). rewrite <- app_assoc in IH. exact IH.
Qed.

Lemma SInv0 : SInv [] so0.
Proof. split. - apply evaluated_nil. - cbn. auto. Qed.

(* the best is one of the evaluated individuals and nobody evaluated so far is strictly better *)
Theorem so_best_inv l tr : so_posts pid s so0 l = Ok tr -> l <> [] ->
  exists b, so_best tr = Some b /\ In b l /\ forall x, In x l -> ~ better x b.
Proof.
  intros Hp Hne. pose proof (so_posts_inv_gen l [] so0 tr SInv0 Hp) as [_ H].
  cbn [app] in H. destruct (so_best tr) as [b|].
  - exists b. destruct H. auto.
  - contradiction.
Qed.

(* is_best flags, chronologically: true exactly for the first individual and for those strictly
   better than every earlier one *)
Fixpoint so_flags_from (prev : list N) (l : list N) : list (N * bool) :=
  match l with
  | [] => []
  | i :: t => (i, forallb (fun j => betterb i j) prev) :: so_flags_from (prev ++ [i]) t
  end.

Lemma so_posts_flags_gen l : forall prev tr tr',
  SInv prev tr -> so_posts pid s tr l = Ok tr' ->
  rev (so_rec tr') = rev (so_rec tr) ++ so_flags_from prev l.
Proof.
  induction l as [|i l IH]; intros prev tr tr' Hinv Hp; cbn [so_posts] in Hp.
  - inversion Hp; subst. cbn. rewrite app_nil_r. auto.
  - destruct (so_post pid s tr i) as [tr1|] eqn:E1; cbn [bind] in Hp; [|discriminate].
    destruct (so_post_step _ _ _ _ Hinv E1) as [Hinv1 Hrec].
    rewrite (IH _ _ _ Hinv1 Hp). rewrite Hrec. cbn [rev so_flags_from].
    rewrite <- app_assoc. reflexivity.
Qed.

Theorem so_flags l tr : so_posts pid s so0 l = Ok tr -> rev (so_rec tr) = so_flags_from [] l.
Proof.
  intro Hp. rewrite (so_posts_flags_gen l [] so0 tr SInv0 Hp). reflexivity.
Qed.

(* ---------- multi-objective tracker ---------- *)
Definition domF (fc : fitness) (acc : res bool) (x : N) : res bool :=
  let* a := acc in
  match lookup s (x, pid) with
  | None => Err OtherError
  | Some fx => Ok (a && is_better fx fc)
  end.

Lemma is_dominated_unfold c o :
  is_dominated pid s c o =
  match lookup s (c, pid) with
  | None => Err OtherError
  | Some fc => fold_left (domF fc) o (Ok true)
  end.
Proof. reflexivity. Qed.

Lemma domF_Ok fc a x :
  domF fc (Ok a) x = match lookup s (x, pid) with
                     | None => Err OtherError
                     | Some fx => Ok (a && is_better fx fc)
                     end.
Proof. reflexivity. Qed.

Lemma domF_Err fc e x : domF fc (Err e) x = Err e.
Proof. reflexivity. Qed.

Lemma domF_err fc o e : fold_left (domF fc) o (Err e) = Err e.
Proof. induction o as [|x o IH]; cbn [fold_left]; auto. Qed.

Lemma domF_ok c fc o : lookup s (c, pid) = Some fc -> forall a, evaluated o ->
  fold_left (domF fc) o (Ok a) = Ok (a && forallb (fun x => betterb x c) o).
Proof.
  intros Hc. induction o as [|x o IH]; intros a Hev.
  - cbn. rewrite andb_true_r. auto.
  - cbn [fold_left forallb]. apply evaluated_cons_inv in Hev. destruct Hev as [[fx Hx] Hev].
    rewrite domF_Ok, Hx. rewrite IH by auto.
    unfold betterb at 2. rewrite Hx, Hc. rewrite andb_assoc. auto.
Qed.

Lemma domF_inv fc o : forall acc r, fold_left (domF fc) o acc = Ok r -> evaluated o.
Proof.
  induction o as [|x o IH]; intros acc r H.
  - apply evaluated_nil.
  - cbn [fold_left] in H. intros i [<-|Hi].
    + destruct acc as [a|e].
      * rewrite domF_Ok in H. destruct (lookup s (x, pid)) eqn:E; eauto.
        rewrite domF_err in H. discriminate.
      * rewrite domF_Err, domF_err in H. discriminate.
    + eapply IH; eauto.
Qed.

Lemma is_dominated_ok c o d : is_dominated pid s c o = Ok d ->
  (exists fc, lookup s (c, pid) = Some fc) /\ evaluated o /\ d = forallb (fun x => betterb x c) o.
Proof.
  rewrite is_dominated_unfold. destruct (lookup s (c, pid)) as [fc|] eqn:Ec; [|discriminate].
  intro H. pose proof (domF_inv _ _ _ _ H) as Hev. split; eauto. split; auto.
  rewrite (domF_ok c fc o Ec true Hev) in H. inversion H. reflexivity.
Qed.

Lemma is_dominated_total c o : (exists fc, lookup s (c, pid) = Some fc) -> evaluated o ->
  is_dominated pid s c o = Ok (forallb (fun x => betterb x c) o).
Proof.
  intros [fc Ec] Hev. rewrite is_dominated_unfold, Ec. rewrite (domF_ok c fc o Ec true Hev).
  reflexivity.
Qed.

Definition aggof (i : N) (q : Q) : Prop := exists f, lookup s (i, pid) = Some f /\ (agg f == q)%Q.

Lemma rebuild_eq : forall old newf a, newf <> [] ->
  (forall x, In x newf -> aggof x a) -> (forall x, In x old -> aggof x a) ->
  rebuild_front pid s newf old = Ok (newf ++ old).
Proof.
  induction old as [|o old IH]; intros newf a Hne Hn Ho; cbn [rebuild_front].
  - rewrite app_nil_r; auto.
  - destruct (Ho o (or_introl eq_refl)) as (fo & Eo & Hqo).
    rewrite is_dominated_total.
    2:{ eauto. }
    2:{ intros x Hx. destruct (Hn x Hx) as (f & Ef & _). eauto. }
    cbn [bind].
    assert (Hf : forallb (fun x => betterb x o) newf = false).
    { destruct newf as [|n0 nf]; [congruence|]. cbn [forallb].
      destruct (betterb n0 o) eqn:E; auto. apply betterb_iff in E.
      destruct (Hn n0 (or_introl eq_refl)) as (f1 & H1 & Hq1).
      apply (better_inv _ _ _ _ H1 Eo) in E. lra. }
    rewrite Hf. rewrite (IH (newf ++ [o]) a).
    + rewrite <- app_assoc. reflexivity.
    + destruct newf; discriminate.
    + intros x Hx. apply in_app_or in Hx. destruct Hx as [Hx|[<-|[]]]; auto.
      exists fo. auto.
    + intros x Hx. apply Ho. right; auto.
Qed.

Lemma rebuild_lt : forall old newf a,
  (forall x, In x newf -> aggof x a) ->
  (forall x, In x old -> exists f, lookup s (x, pid) = Some f /\ (agg f < a)%Q) ->
  rebuild_front pid s newf old = Ok newf.
Proof.
  induction old as [|o old IH]; intros newf a Hn Ho; cbn [rebuild_front].
  - reflexivity.
  - destruct (Ho o (or_introl eq_refl)) as (fo & Eo & Hqo).
    rewrite is_dominated_total.
    2:{ eauto. }
    2:{ intros x Hx. destruct (Hn x Hx) as (f & Ef & _). eauto. }
    cbn [bind].
    assert (Hf : forallb (fun x => betterb x o) newf = true).
    { apply forallb_forall. intros x Hx. apply betterb_iff.
      destruct (Hn x Hx) as (f1 & H1 & Hq1). apply (better_intro _ _ _ _ H1 Eo). lra. }
    rewrite Hf. apply (IH newf a); auto. intros x Hx. apply Ho. right; auto.
Qed.

Lemma rebuild_total : forall old newf, evaluated newf -> evaluated old ->
  exists r, rebuild_front pid s newf old = Ok r /\ evaluated r.
Proof.
  induction old as [|o old IH]; intros newf Hn Ho; cbn [rebuild_front].
  - eauto.
  - apply evaluated_cons_inv in Ho. destruct Ho as [[fo Eo] Ho].
    rewrite is_dominated_total by eauto. cbn [bind].
    apply IH; auto. destruct (forallb (fun x => betterb x o) newf); auto.
    apply evaluated_app; auto. eapply evaluated_one; eauto.
Qed.

Lemma mo_post_total tr i : evaluated (front tr) -> (exists f, lookup s (i, pid) = Some f) ->
  exists tr', mo_post pid s tr i = Ok tr' /\ evaluated (front tr').
Proof.
  intros Hf [fi Ei]. unfold mo_post.
  assert (Hi : evaluated [i]) by (eapply evaluated_one; eauto).
  destruct (front tr) as [|b0 rest] eqn:Efr.
  - cbn [bind rebuild_front]. eexists. split; [reflexivity|]. cbn [front]. auto.
  - rewrite is_dominated_total by eauto. cbn [bind].
    destruct (forallb (fun x => betterb x i) (b0 :: rest)); cbn [negb].
    + eexists. split; [reflexivity|]. cbn [front]. auto.
    + destruct (rebuild_total (b0 :: rest) [i] Hi Hf) as (r & Er & Hr).
      rewrite Er. cbn [bind]. eexists. split; [reflexivity|]. cbn [front]. auto.
Qed.

Lemma mo_posts_total_gen l : forall tr, evaluated (front tr) -> evaluated l ->
  exists tr', mo_posts pid s tr l = Ok tr'.
Proof.
  induction l as [|i l IH]; intros tr Hf Hev; cbn [mo_posts].
  - eauto.
  - apply evaluated_cons_inv in Hev. destruct Hev as [Hi Hl].
    destruct (mo_post_total tr i Hf Hi) as (tr1 & E1 & Hf1). rewrite E1. cbn [bind].
    apply IH; auto.
Qed.

Theorem mo_posts_total l : evaluated l -> exists tr, mo_posts pid s mo0 l = Ok tr.
Proof. intro Hev. apply mo_posts_total_gen; auto. cbn. apply evaluated_nil. Qed.

Definition MInv (prev : list N) (tr : mo_tracker) : Prop :=
  (prev = [] <-> front tr = []) /\
  forall b, In b (front tr) -> In b prev /\ forall x, In x prev -> ~ better x b.

Lemma mo_post_step prev tr i tr' :
  MInv prev tr -> mo_post pid s tr i = Ok tr' ->
  MInv (prev ++ [i]) tr' /\
  mo_rec tr' = (i, forallb (fun j => negb (betterb j i)) prev) :: mo_rec tr.
Proof.
  intros [Hiff Hfr] Hp. unfold mo_post in Hp. unfold MInv.
  destruct (front tr) as [|b0 rest] eqn:Efr.
  - cbn [bind rebuild_front] in Hp. inversion Hp; subst tr'; clear Hp.
    assert (prev = []) by (apply Hiff; auto). subst prev. cbn [front mo_rec app forallb].
    split; auto. split.
    + split; discriminate.
    + intros b [<-|[]]. split; [left; auto|]. intros x [<-|[]]. apply better_irrefl.
  - destruct (is_dominated pid s i (b0 :: rest)) as [d|] eqn:Ed; cbn [bind] in Hp; [|discriminate].
    apply is_dominated_ok in Ed. destruct Ed as ([fi Ei] & Hevf & Hd).
    assert (Hne : forall l', prev ++ l' <> []).
    { intros l' H. apply app_eq_nil in H. destruct H as [H _]. apply Hiff in H. discriminate. }
    assert (Hb0 : In b0 (b0 :: rest)) by (left; auto).
    destruct (Hevf b0 Hb0) as [f0 E0].
    destruct (Hfr b0 Hb0) as [Hb0p Hb0max].
    destruct d; cbn [negb] in Hp.
    + (* dominated by the whole front: not a new best *)
      inversion Hp; subst tr'; clear Hp. cbn [front mo_rec].
      symmetry in Hd. rewrite forallb_forall in Hd. split.
      * split.
        -- split; [intro H; exfalso; eapply Hne; eauto | discriminate].
        -- intros b Hb. destruct (Hfr b Hb) as [Hbp Hbmax]. split.
           ++ apply in_or_app; left; auto.
           ++ intros x Hx. apply in_app_or in Hx. destruct Hx as [Hx|[<-|[]]]; auto.
              destruct (Hevf b Hb) as [fb Efb].
              pose proof (Hd b Hb) as Hbi. apply betterb_iff in Hbi.
              apply (better_inv _ _ _ _ Efb Ei) in Hbi.
              intro Hib. apply (better_inv _ _ _ _ Ei Efb) in Hib. lra.
      * f_equal. f_equal. symmetry.
        destruct (forallb (fun j => negb (betterb j i)) prev) eqn:Ef; auto.
        rewrite forallb_forall in Ef. specialize (Ef b0 Hb0p).
        rewrite (Hd b0 Hb0) in Ef. discriminate.
    + (* not dominated: new best, the front is rebuilt *)
      assert (HallM : forall b, In b (b0 :: rest) -> aggof b (agg f0)).
      { intros b Hb. destruct (Hevf b Hb) as [fb Efb]. destruct (Hfr b Hb) as [Hbp Hbmax].
        exists fb. split; auto.
        pose proof (not_better_le _ _ _ _ E0 Efb (Hbmax b0 Hb0p)).
        pose proof (not_better_le _ _ _ _ Efb E0 (Hb0max b Hbp)). lra. }
      assert (Hle : (agg f0 <= agg fi)%Q).
      { apply Qnot_lt_le. intro Hlt.
        assert (Ht : forallb (fun x => betterb x i) (b0 :: rest) = true).
        { apply forallb_forall. intros x Hx. apply betterb_iff.
          destruct (HallM x Hx) as (fx & Efx & Hqx). apply (better_intro _ _ _ _ Efx Ei). lra. }
        congruence. }
      assert (Hprev : forall x fx, In x prev -> lookup s (x, pid) = Some fx -> (agg fx <= agg fi)%Q).
      { intros x fx Hx Efx. pose proof (not_better_le _ _ _ _ Efx E0 (Hb0max x Hx)). lra. }
      assert (Himax : forall x, In x (prev ++ [i]) -> ~ better x i).
      { intros x Hx. apply in_app_or in Hx. destruct Hx as [Hx|[<-|[]]].
        - intros (fx & fi' & Efx & Efi' & Hlt). rewrite Ei in Efi'. inversion Efi'; subst fi'.
          pose proof (Hprev x fx Hx Efx). lra.
        - apply better_irrefl. }
      assert (Hflag : forallb (fun j => negb (betterb j i)) prev = true).
      { apply forallb_forall. intros j Hj. apply negb_true_iff.
        destruct (betterb j i) eqn:E; auto. apply betterb_iff in E.
        exfalso. apply (Himax j); auto. apply in_or_app; left; auto. }
      rewrite Hflag.
      assert (Hi : forall x, In x [i] -> aggof x (agg fi)).
      { intros x [<-|[]]. exists fi. split; auto. reflexivity. }
      destruct (Qle_lt_or_eq _ _ Hle) as [Hlt|Heq].
      * rewrite (rebuild_lt (b0 :: rest) [i] (agg fi)) in Hp; auto.
        2:{ intros x Hx. destruct (HallM x Hx) as (fx & Efx & Hqx). exists fx. split; auto. lra. }
        cbn [bind] in Hp. inversion Hp; subst tr'; clear Hp. cbn [front mo_rec].
        split; auto. split.
        -- split; [intro H; exfalso; eapply Hne; eauto | discriminate].
        -- intros b [<-|[]]. split; auto. apply in_or_app; right; left; auto.
      * rewrite (rebuild_eq (b0 :: rest) [i] (agg fi)) in Hp; auto.
        2:{ discriminate. }
        2:{ intros x Hx. destruct (HallM x Hx) as (fx & Efx & Hqx). exists fx. split; auto. lra. }
        cbn [bind] in Hp. inversion Hp; subst tr'; clear Hp. cbn [front mo_rec].
        split; auto. split.
        -- split; [intro H; exfalso; eapply Hne; eauto | discriminate].
        -- intros b Hb. cbn [app] in Hb. destruct Hb as [<-|Hb].
           ++ split; auto. apply in_or_app; right; left; auto.
           ++ destruct (Hfr b Hb) as [Hbp Hbmax]. split.
              ** apply in_or_app; left; auto.
              ** intros x Hx. apply in_app_or in Hx. destruct Hx as [Hx|[<-|[]]]; auto.
                 destruct (HallM b Hb) as (fb & Efb & Hqb).
                 intro Hib. apply (better_inv _ _ _ _ Ei Efb) in Hib. lra.
Qed.

Lemma mo_posts_inv_gen l : forall prev tr tr',
  MInv prev tr -> mo_posts pid s tr l = Ok tr' -> MInv (prev ++ l) tr'.
Proof.
  induction l as [|i l IH]; intros prev tr tr' Hinv Hp; cbn [mo_posts] in Hp.
  - inversion Hp; subst. rewrite app_nil_r. auto.
  - destruct (mo_post pid s tr i) as [tr1|] eqn:E1; cbn [bind] in Hp; [|discriminate].
    destruct (mo_post_step _ _ _ _ Hinv E1) as [Hinv1 _].
    specialize (IH _ _ _ Hinv1 Hp). rewrite <- app_assoc in IH. exact IH.
Qed.

Lemma MInv0 : MInv [] mo0.
Proof. split. - cbn. split; auto. - cbn. intros b []. Qed.

(* every member of the front was evaluated and attains the best aggregate seen so far *)
Theorem mo_front_inv l tr : mo_posts pid s mo0 l = Ok tr -> l <> [] ->
  front tr <> [] /\ forall b, In b (front tr) -> In b l /\ forall x, In x l -> ~ better x b.
Proof.
  intros Hp Hne. pose proof (mo_posts_inv_gen l [] mo0 tr MInv0 Hp) as [Hiff H].
  cbn [app] in Hiff, H. split; auto. intro Hf. apply Hne. apply Hiff. exact Hf.
Qed.

(* is_best flags of the multi-objective tracker: true exactly when no earlier individual is
   strictly better (the aggregate is at least the best so far) *)
Fixpoint mo_flags_from (prev : list N) (l : list N) : list (N * bool) :=
  match l with
  | [] => []
  | i :: t => (i, forallb (fun j => negb (betterb j i)) prev) :: mo_flags_from (prev ++ [i]) t
  end.

Lemma mo_posts_flags_gen l : forall prev tr tr',
  MInv prev tr -> mo_posts pid s tr l = Ok tr' ->
  rev (mo_rec tr') = rev (mo_rec tr) ++ mo_flags_from prev l.
Proof.
  induction l as [|i l IH]; intros prev tr tr' Hinv Hp; cbn [mo_posts] in Hp.
  - inversion Hp; subst. cbn. rewrite app_nil_r. auto.
  - destruct (mo_post pid s tr i) as [tr1|] eqn:E1; cbn [bind] in Hp; [|discriminate].
    destruct (mo_post_step _ _ _ _ Hinv E1) as [Hinv1 Hrec].
    rewrite (IH _ _ _ Hinv1 Hp). rewrite Hrec. cbn [rev mo_flags_from].
    rewrite <- app_assoc. reflexivity.
Qed.

Theorem mo_flags l tr : mo_posts pid s mo0 l = Ok tr -> rev (mo_rec tr) = mo_flags_from [] l.
Proof.
  intro Hp. rewrite (mo_posts_flags_gen l [] mo0 tr MInv0 Hp). reflexivity.
Qed.

End FixedStore.

(* caches only grow, so what a tracker computed on an earlier store it computes on a later one *)
Lemma so_post_extends s s' tr i tr' :
  extends s s' -> so_post pid s tr i = Ok tr' -> so_post pid s' tr i = Ok tr'.
Proof.
  intros Hx. unfold so_post.
  destruct (lookup s (i, pid)) as [fi|] eqn:Ei; [|discriminate]. rewrite (Hx _ _ Ei).
  destruct (so_best tr) as [b|]; auto.
  destruct (lookup s (b, pid)) as [fb|] eqn:Eb; [|discriminate]. rewrite (Hx _ _ Eb). auto.
Qed.

Theorem so_posts_extends s s' tr l tr' :
  extends s s' -> so_posts pid s tr l = Ok tr' -> so_posts pid s' tr l = Ok tr'.
Proof.
  intros Hx. revert tr. induction l as [|i l IH]; intros tr Hp; cbn [so_posts] in *; auto.
  destruct (so_post pid s tr i) as [tr1|] eqn:E1; cbn [bind] in Hp; [|discriminate].
  rewrite (so_post_extends _ _ _ _ _ Hx E1). cbn [bind]. apply IH; auto.
Qed.

Lemma domF_extends s s' fc : extends s s' -> forall o acc r,
  fold_left (domF s fc) o acc = Ok r -> fold_left (domF s' fc) o acc = Ok r.
Proof.
  intros Hx. induction o as [|x o IH]; intros acc r H; cbn [fold_left] in *; auto.
  destruct acc as [a|e].
  - rewrite domF_Ok in H |- *. destruct (lookup s (x, pid)) as [fx|] eqn:E.
    + rewrite (Hx _ _ E). apply IH; auto.
    + rewrite domF_err in H. discriminate.
  - rewrite domF_Err, domF_err in H. discriminate.
Qed.

Lemma is_dominated_extends s s' c o d :
  extends s s' -> is_dominated pid s c o = Ok d -> is_dominated pid s' c o = Ok d.
Proof.
  intros Hx. rewrite !is_dominated_unfold.
  destruct (lookup s (c, pid)) as [fc|] eqn:Ec; [|discriminate]. rewrite (Hx _ _ Ec).
  apply domF_extends; auto.
Qed.

Lemma rebuild_front_extends s s' : extends s s' -> forall old newf r,
  rebuild_front pid s newf old = Ok r -> rebuild_front pid s' newf old = Ok r.
Proof.
  intros Hx. induction old as [|o old IH]; intros newf r H; cbn [rebuild_front] in *; auto.
  destruct (is_dominated pid s o newf) as [d|] eqn:Ed; cbn [bind] in H; [|discriminate].
  rewrite (is_dominated_extends _ _ _ _ _ Hx Ed). cbn [bind]. apply IH; auto.
Qed.

Lemma mo_post_extends s s' tr i tr' :
  extends s s' -> mo_post pid s tr i = Ok tr' -> mo_post pid s' tr i = Ok tr'.
Proof.
  intros Hx. unfold mo_post. destruct (front tr) as [|b0 rest].
  - cbn [bind rebuild_front]. auto.
  - destruct (is_dominated pid s i (b0 :: rest)) as [d|] eqn:Ed; cbn [bind]; [|discriminate].
    rewrite (is_dominated_extends _ _ _ _ _ Hx Ed). cbn [bind].
    destruct (negb d); auto.
    destruct (rebuild_front pid s [i] (b0 :: rest)) as [r|] eqn:Er; cbn [bind]; [|discriminate].
    rewrite (rebuild_front_extends _ _ Hx _ _ _ Er). cbn [bind]. auto.
Qed.

Theorem mo_posts_extends s s' tr l tr' :
  extends s s' -> mo_posts pid s tr l = Ok tr' -> mo_posts pid s' tr l = Ok tr'.
Proof.
  intros Hx. revert tr. induction l as [|i l IH]; intros tr Hp; cbn [mo_posts] in *; auto.
  destruct (mo_post pid s tr i) as [tr1|] eqn:E1; cbn [bind] in Hp; [|discriminate].
  rewrite (mo_post_extends _ _ _ _ _ Hx E1). cbn [bind]. apply IH; auto.
Qed.

Lemma so_posts_app s l1 : forall tr l2,
  so_posts pid s tr (l1 ++ l2) = (let* tr1 := so_posts pid s tr l1 in so_posts pid s tr1 l2).
Proof.
  induction l1 as [|i l1 IH]; intros tr l2; cbn [app so_posts bind]; auto.
  destruct (so_post pid s tr i) as [tr1|]; cbn [bind]; auto.
Qed.

Lemma mo_posts_app s l1 : forall tr l2,
  mo_posts pid s tr (l1 ++ l2) = (let* tr1 := mo_posts pid s tr l1 in mo_posts pid s tr1 l2).
Proof.
  induction l1 as [|i l1 IH]; intros tr l2; cbn [app mo_posts bind]; auto.
  destruct (mo_post pid s tr i) as [tr1|]; cbn [bind]; auto.
Qed.

Section Runs.
Variable ff : N -> list Q.
Variable p : problem.

Lemma eval_one_extends e i e' : eval_one ff p pid e i = Ok e' -> extends (st e) (st e').
Proof.
  unfold eval_one. destruct (has_fit (st e) (i, pid)) eqn:Eh.
  - intro H; inversion H; subst. apply extends_refl.
  - destruct (evaluate p (ff i)) as [[f n]|err]; cbn [bind]; [|discriminate].
    intro H; inversion H; subst e'; clear H. cbn [st].
    intros k f0 Hk. cbn [lookup]. destruct (key_eqb k (i, pid)) eqn:Ek; auto.
    apply key_eqb_eq in Ek. subst k. unfold has_fit in Eh. rewrite Hk in Eh. discriminate.
Qed.

Lemma eval_one_calls e i e' : eval_one ff p pid e i = Ok e' ->
  forall k, In k (calls e') -> In k (calls e) \/ k = (i, pid).
Proof.
  unfold eval_one. destruct (has_fit (st e) (i, pid)) eqn:Eh.
  - intro H; inversion H; subst. auto.
  - destruct (evaluate p (ff i)) as [[f n]|err]; cbn [bind]; [|discriminate].
    intro H; inversion H; subst e'; clear H. cbn [calls].
    intros k Hk. apply in_app_or in Hk. destruct Hk as [Hk|Hk]; auto.
    right. eapply repeat_spec; eauto.
Qed.

Theorem eval_seq_extends e b e' : eval_seq ff p pid e b = Ok e' -> extends (st e) (st e').
Proof.
  revert e. induction b as [|i b IH]; intros e H; cbn [eval_seq] in H.
  - inversion H; subst. apply extends_refl.
  - destruct (eval_one ff p pid e i) as [e1|] eqn:E1; cbn [bind] in H; [|discriminate].
    eapply extends_trans; [eapply eval_one_extends; eauto | apply IH; auto].
Qed.

Lemma eval_seq_calls b : forall e e', eval_seq ff p pid e b = Ok e' ->
  forall k, In k (calls e') -> In k (calls e) \/ (In (fst k) b /\ snd k = pid).
Proof.
  induction b as [|i b IH]; intros e e' H k Hk; cbn [eval_seq] in H.
  - inversion H; subst. auto.
  - destruct (eval_one ff p pid e i) as [e1|] eqn:E1; cbn [bind] in H; [|discriminate].
    destruct (IH _ _ H k Hk) as [Hk1|[Hin Hs]].
    + destruct (eval_one_calls _ _ _ E1 k Hk1) as [Hk0| ->]; auto.
      right. cbn [fst snd]. split; auto. left; auto.
    + right. split; auto. right; auto.
Qed.

Lemma dedupe_In l : forall seen i, In i (dedupe seen l) -> In i l.
Proof.
  induction l as [|x l IH]; intros seen i H; cbn [dedupe] in H; auto.
  destruct (existsb (N.eqb x) seen).
  - right. eapply IH; eauto.
  - destruct H as [<-|H]; [left; auto | right; eapply IH; eauto].
Qed.

Lemma par_todo_In e b i : In i (par_todo pid e b) -> In i b /\ has_fit (st e) (i, pid) = false.
Proof.
  unfold par_todo. intro H. apply dedupe_In in H. apply filter_In in H.
  destruct H as [H1 H2]. apply negb_true_iff in H2. auto.
Qed.

Lemma par_results_fst todo : forall rs, par_results ff p todo = Ok rs ->
  map (fun r => fst (fst r)) rs = todo.
Proof.
  induction todo as [|i todo IH]; intros rs H; cbn [par_results] in H.
  - inversion H; auto.
  - destruct (evaluate p (ff i)) as [[f n]|]; cbn [bind] in H; [|discriminate].
    destruct (par_results ff p todo) as [r|]; cbn [bind] in H; [|discriminate].
    inversion H; subst. cbn [map fst]. f_equal. apply IH; auto.
Qed.

Lemma fold_ins_lookup (rs : list (N * fitness * Z)) : forall s0 k,
  (forall r, In r rs -> (fst (fst r), pid) <> k) ->
  lookup (fold_left (fun s r => ((fst (fst r), pid), snd (fst r)) :: s) rs s0) k = lookup s0 k.
Proof.
  induction rs as [|r rs IH]; intros s0 k Hne; cbn [fold_left]; auto.
  rewrite IH.
  - cbn [lookup]. destruct (key_eqb k (fst (fst r), pid)) eqn:Ek; auto.
    apply key_eqb_eq in Ek. exfalso. apply (Hne r); [left; auto | auto].
  - intros r' Hr'. apply Hne. right; auto.
Qed.

Theorem eval_par_extends o e b e' : eval_par ff p pid o e b = Ok e' -> extends (st e) (st e').
Proof.
  unfold eval_par. destruct (par_results ff p (par_todo pid e b)) as [rs|] eqn:Er; cbn [bind];
    [|discriminate].
  intro H; inversion H; subst e'; clear H. cbn [st].
  intros k f Hk. rewrite fold_ins_lookup; auto.
  intros r Hr Heq. apply par_results_fst in Er.
  assert (Hin : In (fst (fst r)) (par_todo pid e b)).
  { rewrite <- Er. apply in_map_iff. exists r. auto. }
  apply par_todo_In in Hin. destruct Hin as [_ Hh]. unfold has_fit in Hh.
  rewrite Heq, Hk in Hh. discriminate.
Qed.

Lemma eval_par_calls e b e' : eval_par ff p pid (par_todo pid e b) e b = Ok e' ->
  forall k, In k (calls e') -> In k (calls e) \/ (In (fst k) b /\ snd k = pid).
Proof.
  unfold eval_par. destruct (par_results ff p (par_todo pid e b)) as [rs|] eqn:Er; cbn [bind];
    [|discriminate].
  intro H; inversion H; subst e'; clear H. cbn [calls].
  intros k Hk. apply in_app_or in Hk. destruct Hk as [Hk|Hk]; auto.
  right. apply in_rev in Hk. apply in_flat_map in Hk. destruct Hk as (i & Hi & Hk).
  apply par_todo_In in Hi. destruct Hi as [Hi _].
  destruct (evaluate p (ff i)) as [[f n]|]; [|destruct Hk].
  apply repeat_spec in Hk. subst k. cbn [fst snd]. auto.
Qed.

Definition eval_any (par : bool) (e : ev) (b : list N) : res ev :=
  if par then eval_par ff p pid (par_todo pid e b) e b else eval_seq ff p pid e b.

Lemma eval_any_extends par e b e' : eval_any par e b = Ok e' -> extends (st e) (st e').
Proof.
  unfold eval_any. destruct par; [apply eval_par_extends | apply eval_seq_extends].
Qed.

Lemma eval_any_calls par e b e' : eval_any par e b = Ok e' ->
  forall k, In k (calls e') -> In k (calls e) \/ (In (fst k) b /\ snd k = pid).
Proof.
  unfold eval_any. destruct par; [apply eval_par_calls | apply eval_seq_calls].
Qed.

Lemma so_evaluate_inv par e tr b e' tr' : so_evaluate ff p pid par e tr b = Ok (e', tr') ->
  eval_any par e b = Ok e' /\ so_posts pid (st e') tr b = Ok tr'.
Proof.
  unfold so_evaluate. fold (eval_any par e b).
  destruct (eval_any par e b) as [e1|]; cbn [bind]; [|discriminate].
  destruct (so_posts pid (st e1) tr b) as [tr1|] eqn:E; cbn [bind]; [|discriminate].
  intro H; inversion H; subst. auto.
Qed.

Lemma mo_evaluate_inv par e tr b e' tr' : mo_evaluate ff p pid par e tr b = Ok (e', tr') ->
  eval_any par e b = Ok e' /\ mo_posts pid (st e') tr b = Ok tr'.
Proof.
  unfold mo_evaluate. fold (eval_any par e b).
  destruct (eval_any par e b) as [e1|]; cbn [bind]; [|discriminate].
  destruct (mo_posts pid (st e1) tr b) as [tr1|] eqn:E; cbn [bind]; [|discriminate].
  intro H; inversion H; subst. auto.
Qed.

(* a whole run: any sequence of tracker.evaluate calls (either evaluator) *)
Fixpoint so_run (e : ev) (tr : so_tracker) (batches : list (bool * list N)) : res (ev * so_tracker) :=
  match batches with
  | [] => Ok (e, tr)
  | (par, b) :: t => let* (e', tr') := so_evaluate ff p pid par e tr b in so_run e' tr' t
  end.

Fixpoint mo_run (e : ev) (tr : mo_tracker) (batches : list (bool * list N)) : res (ev * mo_tracker) :=
  match batches with
  | [] => Ok (e, tr)
  | (par, b) :: t => let* (e', tr') := mo_evaluate ff p pid par e tr b in mo_run e' tr' t
  end.

Lemma so_run_cons e tr par b t e' tr' : so_run e tr ((par, b) :: t) = Ok (e', tr') ->
  exists e1 tr1, so_evaluate ff p pid par e tr b = Ok (e1, tr1) /\ so_run e1 tr1 t = Ok (e', tr').
Proof.
  cbn [so_run]. destruct (so_evaluate ff p pid par e tr b) as [[e1 tr1]|]; cbn [bind];
    [|discriminate].
  intro H. eauto.
Qed.

Lemma mo_run_cons e tr par b t e' tr' : mo_run e tr ((par, b) :: t) = Ok (e', tr') ->
  exists e1 tr1, mo_evaluate ff p pid par e tr b = Ok (e1, tr1) /\ mo_run e1 tr1 t = Ok (e', tr').
Proof.
  cbn [mo_run]. destruct (mo_evaluate ff p pid par e tr b) as [[e1 tr1]|]; cbn [bind];
    [|discriminate].
  intro H. eauto.
Qed.

Lemma so_run_extends batches : forall e tr e' tr',
  so_run e tr batches = Ok (e', tr') -> extends (st e) (st e').
Proof.
  induction batches as [|[par b] t IH]; intros e tr e' tr' H.
  - cbn in H. inversion H; subst. apply extends_refl.
  - apply so_run_cons in H. destruct H as (e1 & tr1 & H1 & H2).
    apply so_evaluate_inv in H1. destruct H1 as [H1 _].
    eapply extends_trans; [eapply eval_any_extends; eauto | eapply IH; eauto].
Qed.

Lemma mo_run_extends batches : forall e tr e' tr',
  mo_run e tr batches = Ok (e', tr') -> extends (st e) (st e').
Proof.
  induction batches as [|[par b] t IH]; intros e tr e' tr' H.
  - cbn in H. inversion H; subst. apply extends_refl.
  - apply mo_run_cons in H. destruct H as (e1 & tr1 & H1 & H2).
    apply mo_evaluate_inv in H1. destruct H1 as [H1 _].
    eapply extends_trans; [eapply eval_any_extends; eauto | eapply IH; eauto].
Qed.

(* the tracker state after a run is what posting the whole history against the final caches gives *)
Theorem so_run_posts e tr batches e' tr' :
  so_run e tr batches = Ok (e', tr') -> so_posts pid (st e') tr (concat (map snd batches)) = Ok tr'.
Proof.
  revert e tr. induction batches as [|[par b] t IH]; intros e tr H.
  - cbn in H. inversion H; subst. reflexivity.
  - apply so_run_cons in H. destruct H as (e1 & tr1 & H1 & H2).
    apply so_evaluate_inv in H1. destruct H1 as [_ H1].
    cbn [map snd concat]. rewrite so_posts_app.
    rewrite (so_posts_extends _ _ _ _ _ (so_run_extends _ _ _ _ _ H2) H1). cbn [bind].
    apply (IH e1); auto.
Qed.

Theorem mo_run_posts e tr batches e' tr' :
  mo_run e tr batches = Ok (e', tr') -> mo_posts pid (st e') tr (concat (map snd batches)) = Ok tr'.
Proof.
  revert e tr. induction batches as [|[par b] t IH]; intros e tr H.
  - cbn in H. inversion H; subst. reflexivity.
  - apply mo_run_cons in H. destruct H as (e1 & tr1 & H1 & H2).
    apply mo_evaluate_inv in H1. destruct H1 as [_ H1].
    cbn [map snd concat]. rewrite mo_posts_app.
    rewrite (mo_posts_extends _ _ _ _ _ (mo_run_extends _ _ _ _ _ H2) H1). cbn [bind].
    apply (IH e1); auto.
Qed.

Lemma so_run_calls_gen batches : forall e tr e' tr',
  so_run e tr batches = Ok (e', tr') ->
  forall k, In k (calls e') ->
  In k (calls e) \/ (In (fst k) (concat (map snd batches)) /\ snd k = pid).
Proof.
  induction batches as [|[par b] t IH]; intros e tr e' tr' H k Hk.
  - cbn in H. inversion H; subst. auto.
  - apply so_run_cons in H. destruct H as (e1 & tr1 & H1 & H2).
    apply so_evaluate_inv in H1. destruct H1 as [H1 _].
    cbn [map snd concat].
    destruct (IH _ _ _ _ H2 k Hk) as [Hk1|[Hin Hs]].
    + destruct (eval_any_calls _ _ _ _ H1 k Hk1) as [Hk0|[Hin Hs]]; auto.
      right. split; auto. apply in_or_app; left; auto.
    + right. split; auto. apply in_or_app; right; auto.
Qed.

(* every individual whose fitness was computed during the run was presented to the tracker *)
Theorem so_run_calls batches e' tr' :
  so_run ev0 so0 batches = Ok (e', tr') -> forall k, In k (calls e') -> In (fst k) (concat (map snd batches)) /\ snd k = pid.
Proof.
  intros H k Hk. destruct (so_run_calls_gen _ _ _ _ _ H k Hk) as [[]|Hr]. exact Hr.
Qed.

(* C12 for a whole single-objective run: at every point the reported best is an evaluated
   individual and no individual evaluated so far is strictly better *)
Theorem so_run_best batches e' tr' :
  so_run ev0 so0 batches = Ok (e', tr') -> concat (map snd batches) <> [] ->
  exists b, so_best tr' = Some b /\ In b (concat (map snd batches)) /\
            forall k, In k (calls e') -> ~ better (st e') (fst k) b.
Proof.
  intros H Hne. pose proof (so_run_posts _ _ _ _ _ H) as Hp.
  destruct (so_best_inv _ _ _ Hp Hne) as (b & Hb & Hin & Hmax).
  exists b. split; auto. split; auto.
  intros k Hk. apply Hmax. apply (so_run_calls _ _ _ H k Hk).
Qed.

Theorem mo_run_best batches e' tr' :
  mo_run ev0 mo0 batches = Ok (e', tr') -> concat (map snd batches) <> [] ->
  front tr' <> [] /\ forall b, In b (front tr') -> In b (concat (map snd batches)) /\
            forall x, In x (concat (map snd batches)) -> ~ better (st e') x b.
Proof.
  intros H Hne. pose proof (mo_run_posts _ _ _ _ _ H) as Hp.
  exact (mo_front_inv _ _ _ Hp Hne).
Qed.

End Runs.
End Tracker.
