(* UsableProofs.v — C05, last clause: the symbol set Grammar.usable_grammar() collects is exactly the set of symbols
   reachable from the start symbol (productions of an abstract type, field types of a production). *)
From GE Require Import Base Grammar RegProofs.
Open Scope Z_scope.

Section Usable.
Variables (d : decl) (g : grammar).

(* what the breadth-first search follows from a symbol *)
Definition usucc (s : sym) : list sym :=
  match s with
  | SB _ => []
  | SC k => match alts_of g k with
            | Some l => map SC l
            | None => flat_map explode (fields_of d s)
            end
  end.

Inductive ureach (s0 : sym) : sym -> Prop :=
| ur_refl : ureach s0 s0
| ur_step x y : ureach s0 x -> In y (usucc x) -> ureach s0 y.

Definition add_new (qc : list sym * list sym) (k : sym) : list sym * list sym :=
  if mem_sym k (snd qc) then qc else (fst qc ++ [k], snd qc ++ [k]).

Lemma fold_add : forall new q cons,
  exists added, fold_left add_new new (q, cons) = (q ++ added, cons ++ added) /\
    (forall k, In k added -> In k new /\ ~ In k cons) /\
    (forall k, In k new -> In k cons \/ In k added).
Proof.
  induction new as [|k new IH]; intros q cons; cbn [fold_left].
  - exists []. rewrite !app_nil_r. split; [reflexivity|]. split; [intros k []|intros k []].
  - unfold add_new at 2. cbn [fst snd]. destruct (mem_sym k cons) eqn:E.
    + destruct (IH q cons) as [added [H1 [H2 H3]]]. exists added. split; [exact H1|]. split.
      * intros x Hx. destruct (H2 x Hx). split; [right; assumption|assumption].
      * intros x [<-|Hx]; [left; apply mem_sym_In; exact E|apply H3; exact Hx].
    + destruct (IH (q ++ [k]) (cons ++ [k])) as [added [H1 [H2 H3]]]. exists (k :: added).
      split; [rewrite H1, <- !app_assoc; reflexivity|]. split.
      * intros x [<-|Hx].
        -- split; [left; reflexivity|]. intro Hc. apply mem_sym_In in Hc. congruence.
        -- destruct (H2 x Hx) as [A B]. split; [right; exact A|]. intro Hc. apply B. apply in_or_app. left. exact Hc.
      * intros x [<-|Hx]; [right; left; reflexivity|].
        destruct (H3 x Hx) as [Hc|Ha]; [|right; right; exact Ha].
        apply in_app_or in Hc. destruct Hc as [Hc|[<-|[]]]; [left; exact Hc|right; left; reflexivity].
Qed.

Theorem usable_bfs_exact s0 : forall fuel q cons cs,
  usable_bfs fuel d g q cons = Ok cs ->
  In s0 cons -> incl q cons ->
  (forall x, In x cons -> ~ In x q -> forall y, In y (usucc x) -> In y cons) ->
  (forall x, In x cons -> ureach s0 x) ->
  forall s, In s cs <-> ureach s0 s.
Proof.
  induction fuel as [|f IH]; intros q cons cs H Hs0 Hq Hcl Hr; cbn [usable_bfs] in H; [discriminate|].
  destruct q as [|c q].
  - inversion H; subst cs. intro s. split; [apply Hr|].
    induction 1 as [|x y Hx IHx Hy]; [exact Hs0|]. apply (Hcl x IHx (fun F => F) y Hy).
  - set (new := match c with
                | SB _ => Ok []
                | SC k => match alts_of g k with
                          | Some l => Ok (map SC l)
                          | None => if is_abstract d c then Err AssertionError else Ok (flat_map explode (fields_of d c))
                          end
                end) in H.
    destruct new as [nw|] eqn:En; cbn [bind] in H; [|discriminate].
    assert (Enw : nw = usucc c).
    { unfold new in En. destruct c as [b|k]; cbn [usucc]; [inversion En; reflexivity|].
      destruct (alts_of g k); [inversion En; reflexivity|]. destruct (is_abstract d (SC k)); [discriminate|inversion En; reflexivity]. }
    change (fun qc k => if mem_sym k (snd qc) then qc else (fst qc ++ [k], snd qc ++ [k])) with add_new in H.
    destruct (fold_add nw q cons) as [added [Hf [Ha Hn]]]. rewrite Hf in H.
    assert (Hc : In c cons) by (apply Hq; left; reflexivity).
    apply (IH _ _ _ H).
    + apply in_or_app. left. exact Hs0.
    + intros x Hx. apply in_app_or in Hx. apply in_or_app. destruct Hx as [Hx|Hx]; [left; apply Hq; right; exact Hx|right; exact Hx].
    + intros x Hx Hnq y Hy. apply in_app_or in Hx. destruct Hx as [Hx|Hx].
      * destruct (sym_eqb x c) eqn:Exc; [apply sym_eqb_eq in Exc; subst x|assert (Hne : x <> c) by (intro Q; subst; rewrite sym_eqb_refl in Exc; discriminate)].
        -- rewrite <- Enw in Hy. destruct (Hn y Hy); apply in_or_app; [left|right]; assumption.
        -- apply in_or_app. left. apply (Hcl x Hx); [|exact Hy]. intros [Hxc|Hxq]; [congruence|].
           apply Hnq. apply in_or_app. left. exact Hxq.
      * exfalso. apply Hnq. apply in_or_app. right. exact Hx.
    + intros x Hx. apply in_app_or in Hx. destruct Hx as [Hx|Hx]; [apply Hr; exact Hx|].
      destruct (Ha x Hx) as [Hxn _]. rewrite Enw in Hxn. eapply ur_step; [apply Hr; exact Hc|exact Hxn].
Qed.

(* the considered list handed to the re-extraction: exactly the symbols reachable from the start symbol *)
Corollary usable_symbols_exact fuel cs :
  usable_bfs fuel d g [SC (d_start d)] [SC (d_start d)] = Ok cs ->
  forall s, In s cs <-> ureach (SC (d_start d)) s.
Proof.
  intro H. apply (usable_bfs_exact _ _ _ _ _ H); [left; reflexivity|intros x Hx; exact Hx| |].
  - intros x [<-|[]] Hn. exfalso. apply Hn. left. reflexivity.
  - intros x [<-|[]]. constructor.
Qed.
End Usable.
