(* WeightChoice.v — C19, last clause at the level of the weights: choice_weighted returns an option whose WEIGHT is
   positive (not only its integer increment), and the progressive decider never returns a production whose declared
   weight is zero while the integer total of the weights it hands to choice_weighted is positive. *)
From GE Require Import Base Tape Grammar WellTyped Synth TapeProofs RegProofs DistProofs.
Open Scope Z_scope.

Lemma accumulate_length ws : forall a, length (accumulate a ws) = length ws.
Proof. induction ws as [|w t IH]; intro a; cbn [accumulate length]; [reflexivity|]. rewrite IH. reflexivity. Qed.

Lemma acc_weights_length ws : length (acc_weights ws) = length ws.
Proof. unfold acc_weights. rewrite map_length. apply accumulate_length. Qed.

Lemma acc_step ws : forall a i s, nth_error (accumulate a ws) (S i) = Some s ->
  exists p w, nth_error (accumulate a ws) i = Some p /\ nth_error ws (S i) = Some w /\ s = (p + w)%Q.
Proof.
  induction ws as [|w0 t IH]; intros a i s H; cbn [accumulate] in *; [discriminate|].
  cbn [nth_error] in H. destruct i as [|i'].
  - destruct t as [|w1 t']; cbn [accumulate nth_error] in H; [discriminate|]. inversion H; subst.
    exists (a + w0)%Q, w1. repeat split; reflexivity.
  - destruct (IH _ _ _ H) as [p [w [Hp [Hw Hs]]]]. exists p, w. repeat split; assumption.
Qed.

Lemma Qtrunc_comp q1 q2 : (q1 == q2)%Q -> Qtrunc q1 = Qtrunc q2.
Proof.
  intro H. unfold Qtrunc.
  assert (E : Qle_bool 0 q1 = Qle_bool 0 q2).
  { destruct (Qle_bool 0 q1) eqn:E1, (Qle_bool 0 q2) eqn:E2; try reflexivity.
    - apply Qle_bool_iff in E1. rewrite H in E1. apply Qle_bool_iff in E1. congruence.
    - apply Qle_bool_iff in E2. rewrite <- H in E2. apply Qle_bool_iff in E2. congruence. }
  rewrite E. destruct (Qle_bool 0 q2); [apply Qfloor_comp; exact H|]. f_equal. apply Qfloor_comp. rewrite H. reflexivity.
Qed.

(* the chosen option has a strictly positive weight whenever the weights are non-negative and their integer total is positive *)
Theorem choice_weighted_pick_positive {A} s (choices : list A) ws c s' total :
  choice_weighted s choices ws = Ok (c, s') -> length choices = length ws ->
  (forall q, In q ws -> (0 <= q)%Q) ->
  last_error (acc_weights ws) = Some total -> 0 < total ->
  exists i q, nth_error choices i = Some c /\ nth_error ws i = Some q /\ (0 < q)%Q.
Proof.
  intros H Hlen Hnn Hlast Htot. unfold choice_weighted in H.
  destruct (choice_weighted_positive s choices (acc_weights ws) c s' total H ltac:(rewrite acc_weights_length; exact Hlen) Hlast Htot)
    as [i [a [Hc [Ha [Hlt Hpos]]]]].
  unfold acc_weights in Ha, Hlt. rewrite nth_error_map in Ha.
  destruct (nth_error (accumulate 0 ws) i) as [si|] eqn:Es; [|discriminate]. cbn [option_map] in Ha. inversion Ha; subst a. clear Ha.
  destruct i as [|i'].
  - destruct ws as [|w0 t]; cbn [accumulate nth_error] in Es; [discriminate|]. inversion Es; subst si.
    exists 0%nat, w0. split; [exact Hc|]. split; [reflexivity|].
    destruct (Qlt_le_dec 0 w0) as [L|L]; [exact L|exfalso].
    assert (Hz : (w0 == 0)%Q) by (apply Qle_antisym; [exact L|apply Hnn; left; reflexivity]).
    rewrite (Qtrunc_comp ((0 + w0) * 100000) 0) in Hpos; [cbn in Hpos; lia|]. rewrite Hz. reflexivity.
  - destruct (acc_step ws 0 i' si Es) as [p [w [Hp [Hw ->]]]].
    exists (S i'), w. split; [exact Hc|]. split; [exact Hw|].
    destruct (Qlt_le_dec 0 w) as [L|L]; [exact L|exfalso].
    assert (Hz : (w == 0)%Q) by (apply Qle_antisym; [exact L|apply Hnn; eapply nth_error_In; eauto]).
    specialize (Hlt i' (Qtrunc (p * 100000)) ltac:(lia)). rewrite nth_error_map, Hp in Hlt. specialize (Hlt eq_refl).
    rewrite (Qtrunc_comp ((p + w) * 100000) (p * 100000)) in Hlt; [lia|]. rewrite Hz. ring.
Qed.

(* the weight the progressive decider hands over for an alternative of declared weight zero is zero *)
Lemma prog_weights_nth g target ctx : forall alts ws, prog_weights g target ctx alts = Ok ws ->
  forall i x q, nth_error alts i = Some x -> nth_error ws i = Some q -> exists h : Z, q = (inject_Z h * prod_weight g x)%Q.
Proof.
  induction alts as [|a t IH]; intros ws H i x q Hx Hq; cbn [prog_weights] in H; [destruct i; discriminate|].
  destruct (gdist_ty g a) as [v|] eqn:Ev; cbn [bind] in H; [|discriminate].
  destruct (prog_weights g target ctx t) as [r|] eqn:Er; cbn [bind] in H; [|discriminate]. inversion H; subst ws. clear H.
  destruct i as [|i']; cbn [nth_error] in Hx, Hq.
  - inversion Hx; inversion Hq; subst. eexists. reflexivity.
  - eapply IH; eauto.
Qed.

Lemma prog_fallback_nth g : forall alts ws, prog_fallback g alts = Ok ws ->
  forall i x q, nth_error alts i = Some x -> nth_error ws i = Some q -> q = prod_weight g x \/ q = 0%Q.
Proof.
  induction alts as [|a t IH]; intros ws H i x q Hx Hq; cbn [prog_fallback] in H; [destruct i; discriminate|].
  destruct (gdist_ty g a) as [v|] eqn:Ev; cbn [bind] in H; [|discriminate].
  destruct (prog_fallback g t) as [r|] eqn:Er; cbn [bind] in H; [|discriminate]. inversion H; subst ws. clear H.
  destruct i as [|i']; cbn [nth_error] in Hx, Hq.
  - inversion Hx; inversion Hq; subst. destruct (INF <=? v); [right|left]; reflexivity.
  - eapply IH; eauto.
Qed.

Lemma prog_fallback_length g : forall alts ws, prog_fallback g alts = Ok ws -> length ws = length alts.
Proof.
  induction alts as [|a t IH]; intros ws H; cbn [prog_fallback] in H; [inversion H; reflexivity|].
  destruct (gdist_ty g a) as [v|]; cbn [bind] in H; [|discriminate].
  destruct (prog_fallback g t) as [r|] eqn:Er; cbn [bind] in H; [|discriminate]. inversion H; subst. cbn [length]. rewrite (IH _ eq_refl). reflexivity.
Qed.

Lemma prog_final_nth g target ctx alts ws : prog_final_weights g target ctx alts = Ok ws ->
  forall i x q, nth_error alts i = Some x -> nth_error ws i = Some q ->
  (exists h : Z, q = (inject_Z h * prod_weight g x)%Q) \/ q = prod_weight g x \/ q = 0%Q.
Proof.
  unfold prog_final_weights. destruct (prog_weights g target ctx alts) as [ws0|] eqn:E; cbn [bind]; [|discriminate].
  intros H i x q Hx Hq.
  destruct (forallb (fun q0 => Qeq_bool q0 0) ws0).
  - right. eapply prog_fallback_nth; eauto.
  - inversion H; subst ws. left. eapply prog_weights_nth; eauto.
Qed.

Lemma prog_weights_length g target ctx : forall alts ws, prog_weights g target ctx alts = Ok ws -> length ws = length alts.
Proof.
  induction alts as [|a t IH]; intros ws H; cbn [prog_weights] in H; [inversion H; reflexivity|].
  destruct (gdist_ty g a) as [v|]; cbn [bind] in H; [|discriminate].
  destruct (prog_weights g target ctx t) as [r|] eqn:Er; cbn [bind] in H; [|discriminate]. inversion H; subst. cbn [length]. rewrite (IH _ eq_refl). reflexivity.
Qed.

Lemma prog_final_length g target ctx alts ws : prog_final_weights g target ctx alts = Ok ws -> length ws = length alts.
Proof.
  unfold prog_final_weights. destruct (prog_weights g target ctx alts) as [ws0|] eqn:E; cbn [bind]; [|discriminate].
  intro H. destruct (forallb _ ws0); [eapply prog_fallback_length; eauto|inversion H; subst; eapply prog_weights_length; eauto].
Qed.

(* ProgressivelyTerminalDecider: with non-negative weights of positive integer total, the production it returns has a
   non-zero declared weight — in particular when the depth heuristic is zero everywhere and the production weights alone decide *)
Theorem prog_zero_weight_never g key alts ctx st x st' :
  choose g DProg key alts ctx st = (Ok x, st') ->
  exists target ws, prog_target g = Ok target /\ prog_final_weights g target ctx alts = Ok ws /\
    ((forall q, In q ws -> (0 <= q)%Q) -> forall total, last_error (acc_weights ws) = Some total -> 0 < total ->
     ~ (prod_weight g x == 0)%Q).
Proof.
  unfold choose. destruct alts as [|a0 t0]; [discriminate|]. remember (a0 :: t0) as alts.
  unfold bindM, lift. destruct (prog_target g) as [target|] eqn:Etg; [|discriminate].
  destruct (prog_final_weights g target ctx alts) as [ws|] eqn:Ew; [|discriminate].
  destruct (forallb (fun q => Qeq_bool q 0) ws); [unfold fail; discriminate|].
  unfold on_src. destruct (choice_weighted (st_src st) alts ws) as [[y s1]|] eqn:Ec; [|discriminate].
  intro H. inversion H; subst y st'. clear H.
  exists target, ws. split; [reflexivity|]. split; [exact Ew|]. intros Hnn total Hl Ht Hz.
  destruct (choice_weighted_pick_positive _ _ _ _ _ total Ec ltac:(symmetry; eapply prog_final_length; eauto) Hnn Hl Ht) as [i [q [Hx [Hq Hpos]]]].
  destruct (prog_final_nth _ _ _ _ _ Ew i x q Hx Hq) as [[h ->]|[->| ->]].
  - rewrite Hz in Hpos. ring_simplify in Hpos. exact (Qlt_irrefl 0 Hpos).
  - rewrite Hz in Hpos. exact (Qlt_irrefl 0 Hpos).
  - exact (Qlt_irrefl 0 Hpos).
Qed.

(* the repaired case (F42): when every heuristic weight is zero the list handed to choice_weighted is the list of
   production weights (0 for alternatives that cannot reach a terminal: F38) *)
Theorem prog_fallback_is_production_weights g target ctx alts ws0 :
  prog_weights g target ctx alts = Ok ws0 -> forallb (fun q => Qeq_bool q 0) ws0 = true ->
  prog_final_weights g target ctx alts = prog_fallback g alts.
Proof. intros H Hz. unfold prog_final_weights. rewrite H. cbn [bind]. rewrite Hz. reflexivity. Qed.

(* an alternative that cannot reach a terminal never gets a positive weight, in either list (repair of F38) *)
Lemma prog_weights_unproductive g target ctx : forall alts ws, prog_weights g target ctx alts = Ok ws ->
  forall i x q v, nth_error alts i = Some x -> nth_error ws i = Some q -> gdist_ty g x = Ok v -> INF <= v -> (q == 0)%Q.
Proof.
  induction alts as [|a t IH]; intros ws H i x q v Hx Hq Hv Hinf; cbn [prog_weights] in H; [destruct i; discriminate|].
  destruct (gdist_ty g a) as [va|] eqn:Ev; cbn [bind] in H; [|discriminate].
  destruct (prog_weights g target ctx t) as [r|] eqn:Er; cbn [bind] in H; [|discriminate]. inversion H; subst ws. clear H.
  destruct i as [|i']; cbn [nth_error] in Hx, Hq.
  - inversion Hx; inversion Hq; subst. rewrite Hv in Ev. inversion Ev; subst va.
    assert (E : (INF <=? v) = true) by (apply Z.leb_le; exact Hinf). rewrite E. ring.
  - eapply IH; eauto.
Qed.

(* with the clamped heuristic (repair of F44) the weights are non-negative whenever the target and the production weights are *)
Lemma prog_weights_nonneg g target ctx : 0 <= target -> 0 <= c_depth ctx -> (forall x, (0 <= prod_weight g x)%Q) ->
  forall alts ws, prog_weights g target ctx alts = Ok ws -> forall q, In q ws -> (0 <= q)%Q.
Proof.
  intros Ht Hd Hp. induction alts as [|a t IH]; intros ws H q Hq; cbn [prog_weights] in H; [inversion H; subst; destruct Hq|].
  destruct (gdist_ty g a) as [v|] eqn:Ev; cbn [bind] in H; [|discriminate].
  destruct (prog_weights g target ctx t) as [r|] eqn:Er; cbn [bind] in H; [|discriminate]. inversion H; subst ws. clear H.
  destruct Hq as [<-|Hq]; [|eapply IH; eauto].
  assert (Hw : 0 <= (if INF <=? v then 0 else if in_rec g a then target / (c_depth ctx + 1) else Z.max (target - v) 0)).
  { destruct (INF <=? v); [lia|]. destruct (in_rec g a); [apply Z.div_pos; lia|lia]. }
  apply Qmult_le_0_compat; [|apply Hp]. unfold Qle; cbn. lia.
Qed.

Lemma prog_fallback_nonneg g : (forall x, (0 <= prod_weight g x)%Q) ->
  forall alts ws, prog_fallback g alts = Ok ws -> forall q, In q ws -> (0 <= q)%Q.
Proof.
  intro Hp. induction alts as [|a t IH]; intros ws H q Hq; cbn [prog_fallback] in H; [inversion H; subst; destruct Hq|].
  destruct (gdist_ty g a) as [v|]; cbn [bind] in H; [|discriminate].
  destruct (prog_fallback g t) as [r|] eqn:Er; cbn [bind] in H; [|discriminate]. inversion H; subst ws. clear H.
  destruct Hq as [<-|Hq]; [|eapply IH; eauto]. destruct (INF <=? v); [apply Qle_refl|apply Hp].
Qed.

Lemma prog_final_nonneg g target ctx alts ws : 0 <= target -> 0 <= c_depth ctx -> (forall x, (0 <= prod_weight g x)%Q) ->
  prog_final_weights g target ctx alts = Ok ws -> forall q, In q ws -> (0 <= q)%Q.
Proof.
  intros Ht Hd Hp. unfold prog_final_weights. destruct (prog_weights g target ctx alts) as [ws0|] eqn:E; cbn [bind]; [|discriminate].
  intro H. destruct (forallb _ ws0).
  - exact (prog_fallback_nonneg g Hp alts ws H).
  - inversion H; subst ws. exact (prog_weights_nonneg g target ctx Ht Hd Hp alts ws0 E).
Qed.

(* the decider-level statement without a hypothesis on the intermediate weights *)
Theorem prog_zero_weight_never' g key alts ctx st x st' :
  choose g DProg key alts ctx st = (Ok x, st') -> 0 <= c_depth ctx -> (forall y, (0 <= prod_weight g y)%Q) ->
  exists target ws, prog_target g = Ok target /\ prog_final_weights g target ctx alts = Ok ws /\
    (0 <= target -> forall total, last_error (acc_weights ws) = Some total -> 0 < total -> ~ (prod_weight g x == 0)%Q).
Proof.
  intros H Hd Hp. destruct (prog_zero_weight_never g key alts ctx st x st' H) as [target [ws [Htg [Hw Hz]]]].
  exists target, ws. split; [exact Htg|]. split; [exact Hw|]. intros Ht total Hl Htot. apply (Hz (prog_final_nonneg g target ctx alts ws Ht Hd Hp Hw) total Hl Htot).
Qed.

(* for an analysed grammar (default depth mode) the target depth is non-negative *)
Lemma prog_target_nonneg d order g : d_xdepth d = false -> perm_order order -> analyse d order = Ok g ->
  forall t, prog_target g = Ok t -> 0 <= t.
Proof.
  intros Hxd Hperm Han t H. unfold prog_target in H.
  assert (Hnn : forall s, 0 <= match dget (g_dist g) s with Some v => v | None => INF end).
  { intro s. destruct (dget (g_dist g) s) as [v|] eqn:E; [exact (df_nonneg d order g Hxd Hperm Han s v E)|unfold INF; lia]. }
  unfold max_node_depth in H. destruct (r_nodes (g_reg g)) as [|s0 rest]; cbn [map bind] in H; [discriminate|].
  set (mx := zmax_l _ _) in H.
  assert (Hmx : 0 <= mx).
  { unfold mx. destruct (zmax_l_ge (match dget (g_dist g) s0 with Some v => v | None => INF end)
                                   (map (fun s => match dget (g_dist g) s with Some v => v | None => INF end) rest)) as [A _].
    specialize (Hnn s0). lia. }
  destruct (mx =? INF); [|inversion H; subst; exact Hmx].
  unfold min_tree_depth, dist_of in H. destruct (dget (g_dist g) (SC (d_start (g_decl g)))) as [mn|] eqn:Em; cbn [bind] in H; [|discriminate].
  inversion H; subst. pose proof (df_nonneg d order g Hxd Hperm Han _ _ Em). unfold zlen. nia.
Qed.

(* ProgressivelyTerminalDecider on an analysed grammar: non-negative production weights and a positive integer total suffice *)
Theorem prog_respects_weights_analysed d order g key alts ctx st x st' :
  d_xdepth d = false -> perm_order order -> analyse d order = Ok g ->
  choose g DProg key alts ctx st = (Ok x, st') -> 0 <= c_depth ctx -> (forall y, (0 <= prod_weight g y)%Q) ->
  exists target ws, prog_final_weights g target ctx alts = Ok ws /\
    (forall total, last_error (acc_weights ws) = Some total -> 0 < total -> ~ (prod_weight g x == 0)%Q).
Proof.
  intros Hxd Hperm Han H Hd Hp.
  destruct (prog_zero_weight_never' g key alts ctx st x st' H Hd Hp) as [target [ws [Htg [Hw Hz]]]].
  exists target, ws. split; [exact Hw|]. apply Hz. exact (prog_target_nonneg d order g Hxd Hperm Han target Htg).
Qed.
