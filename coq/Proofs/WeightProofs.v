(* WeightProofs.v — C19: the normalisation loop of Grammar.update_weights over the registered
   rules: per rule the stored weights are non-negative, sum to one and keep the declared ratios;
   rules are disjoint so later rules do not disturb earlier ones; normalising already normalised
   weights changes nothing (repeated extraction is stable). *)
From GE Require Import Base Grammar RegProofs.
From Coq Require Import Qfield Setoid.
Open Scope Q_scope.

(* ---------- weight maps ---------- *)
Lemma wget_wset_same m s v : wget (wset m s v) s = v.
Proof.
  induction m as [|[k w] t IH]; simpl.
  - rewrite sym_eqb_refl; reflexivity.
  - destruct (sym_eqb s k) eqn:E; simpl; rewrite ?E; [reflexivity | exact IH].
Qed.

Lemma wget_wset_other m s v x : x <> s -> wget (wset m s v) x = wget m x.
Proof.
  intro Hne. induction m as [|[k w] t IH]; simpl.
  - destruct (sym_eqb x s) eqn:E; [apply sym_eqb_eq in E; congruence | reflexivity].
  - destruct (sym_eqb s k) eqn:E; simpl.
    + apply sym_eqb_eq in E; subst k.
      destruct (sym_eqb x s) eqn:E2; [apply sym_eqb_eq in E2; congruence | reflexivity].
    + destruct (sym_eqb x k); [reflexivity | exact IH].
Qed.

(* a pointwise update of the entries of [prods] (duplicate-free) *)
Lemma fold_update (F : nat -> Q -> Q) : forall prods w,
  NoDup prods ->
  forall x, wget (fold_left (fun m p => wset m (SC p) (F p (wget m (SC p)))) prods w) x =
            match x with
            | SC c => if existsb (Nat.eqb c) prods then F c (wget w x) else wget w x
            | SB _ => wget w x
            end.
Proof.
  induction prods as [|p r IH]; intros w Hnd x; simpl.
  - destruct x; reflexivity.
  - inversion Hnd as [|? ? Hn Hd]; subst. rewrite (IH _ Hd).
    destruct x as [b|c].
    + apply wget_wset_other; discriminate.
    + destruct (Nat.eqb c p) eqn:E; simpl.
      * apply Nat.eqb_eq in E; subst c.
        assert (existsb (Nat.eqb p) r = false) as X.
        { destruct (existsb (Nat.eqb p) r) eqn:E; [|reflexivity].
          apply existsb_exists in E. destruct E as [y [Hy E]]. apply Nat.eqb_eq in E; subst; tauto. }
        rewrite X. apply wget_wset_same.
      * assert (SC c <> SC p) by (intro X; inversion X; subst; rewrite Nat.eqb_refl in E; discriminate).
        rewrite (wget_wset_other _ _ _ _ H). reflexivity.
Qed.

Lemma existsb_eqb_In c l : existsb (Nat.eqb c) l = true <-> In c l.
Proof.
  rewrite existsb_exists. split.
  - intros [y [Hy E]]. apply Nat.eqb_eq in E; subst; exact Hy.
  - intro H; exists c; split; [exact H | apply Nat.eqb_refl].
Qed.

(* ---------- sums ---------- *)
Lemma qsum_map_ext {A} (f g : A -> Q) l : (forall x, In x l -> f x == g x) -> qsum (map f l) == qsum (map g l).
Proof.
  induction l as [|a t IH]; simpl; intro H; [reflexivity|].
  rewrite (H a (or_introl eq_refl)), IH; [reflexivity|]. intros; apply H; right; assumption.
Qed.

Lemma qsum_scale {A} (f : A -> Q) k l : qsum (map (fun x => k * f x) l) == k * qsum (map f l).
Proof. induction l as [|a t IH]; simpl; [ring | rewrite IH; ring]. Qed.

Lemma qsum_div {A} (f : A -> Q) t l : ~ t == 0 -> qsum (map (fun x => f x / t) l) == qsum (map f l) / t.
Proof. intro Ht. induction l as [|a r IH]; simpl; [field; exact Ht | rewrite IH; field; exact Ht]. Qed.

(* ---------- one rule ---------- *)
Definition rule_total (w : wmap) (prods : list nat) : Q := qsum (map (fun p => wget w (SC p)) prods).

Lemma normalise_rule_spec w prods w' :
  NoDup prods -> normalise_rule w prods = Ok w' -> prods <> [] ->
  ~ rule_total w prods == 0 /\
  (forall c, In c prods -> wget w' (SC c) == wget w (SC c) / rule_total w prods) /\
  (forall x, (forall c, x = SC c -> ~ In c prods) -> wget w' x = wget w x).
Proof.
  intros Hnd H Hne. unfold normalise_rule in H.
  set (w1 := fold_left (fun m p => wset m (SC p) (wget m (SC p) + 1 * wget w (SC p))) prods w) in *.
  assert (H1 : forall x, wget w1 x = match x with
                                     | SC c => if existsb (Nat.eqb c) prods then wget w x + 1 * wget w (SC c) else wget w x
                                     | SB _ => wget w x end).
  { intro x. unfold w1. apply (fold_update (fun p q => q + 1 * wget w (SC p)) prods w Hnd x). }
  assert (Ht : qsum (map (fun p => wget w1 (SC p)) prods) == 2 * rule_total w prods).
  { unfold rule_total. rewrite <- qsum_scale. apply qsum_map_ext. intros c Hc.
    rewrite H1. apply existsb_eqb_In in Hc. rewrite Hc. ring. }
  destruct (Qeq_bool (qsum (map (fun p => wget w1 (SC p)) prods)) 0) eqn:Ez.
  { destruct prods; [congruence | discriminate]. }
  apply Qeq_bool_neq in Ez.
  assert (Hnz : ~ rule_total w prods == 0).
  { intro X. apply Ez. rewrite Ht, X. ring. }
  inversion H; subst w'; clear H.
  set (T := qsum (map (fun p => wget w1 (SC p)) prods)) in *.
  assert (H2 : forall x, wget (fold_left (fun m p => wset m (SC p) (wget m (SC p) / T)) prods w1) x =
                         match x with
                         | SC c => if existsb (Nat.eqb c) prods then wget w1 x / T else wget w1 x
                         | SB _ => wget w1 x end).
  { intro x. apply (fold_update (fun p q => q / T) prods w1 Hnd x). }
  split; [exact Hnz|]. split.
  - intros c Hc. rewrite H2, H1. apply existsb_eqb_In in Hc. rewrite Hc.
    rewrite Ht. field. exact Hnz.
  - intros x Hx. rewrite H2, H1. destruct x as [b|c]; [reflexivity|].
    destruct (existsb (Nat.eqb c) prods) eqn:E; [|reflexivity].
    apply existsb_eqb_In in E. exfalso. apply (Hx c eq_refl E).
Qed.

(* the three clauses of C19 for one rule *)
Lemma normalise_rule_sum w prods w' :
  NoDup prods -> normalise_rule w prods = Ok w' -> prods <> [] -> rule_total w' prods == 1.
Proof.
  intros Hnd H Hne. destruct (normalise_rule_spec _ _ _ Hnd H Hne) as [Hnz [Hv _]].
  unfold rule_total at 1.
  rewrite (qsum_map_ext (fun p => wget w' (SC p)) (fun p => wget w (SC p) / rule_total w prods)); [|exact Hv].
  rewrite qsum_div; [|exact Hnz]. fold (rule_total w prods). field. exact Hnz.
Qed.

Lemma normalise_rule_ratio w prods w' c1 c2 :
  NoDup prods -> normalise_rule w prods = Ok w' -> In c1 prods -> In c2 prods ->
  wget w' (SC c1) * wget w (SC c2) == wget w' (SC c2) * wget w (SC c1).
Proof.
  intros Hnd H H1 H2. assert (Hne : prods <> []) by (destruct prods; [destruct H1 | discriminate]).
  destruct (normalise_rule_spec _ _ _ Hnd H Hne) as [Hnz [Hv _]].
  rewrite (Hv _ H1), (Hv _ H2). field. exact Hnz.
Qed.

(* normalising a rule whose weights already sum to one changes nothing *)
Lemma normalise_rule_stable w prods w' :
  NoDup prods -> normalise_rule w prods = Ok w' -> rule_total w prods == 1 ->
  forall x, wget w' x == wget w x.
Proof.
  intros Hnd H Hs x. destruct prods as [|p r].
  { unfold normalise_rule in H; simpl in H. inversion H; reflexivity. }
  assert (Hne : p :: r <> []) by discriminate.
  destruct (normalise_rule_spec _ _ _ Hnd H Hne) as [Hnz [Hv Ho]].
  destruct x as [b|c].
  - rewrite Ho; [reflexivity | intros c X; discriminate].
  - destruct (existsb (Nat.eqb c) (p :: r)) eqn:E.
    + apply existsb_eqb_In in E. rewrite (Hv _ E), Hs. field.
    + rewrite Ho; [reflexivity|]. intros c0 X Hin; inversion X; subst.
      apply existsb_eqb_In in Hin. congruence.
Qed.

(* ---------- all rules ---------- *)
(* rules are duplicate-free and pairwise disjoint *)
Fixpoint alts_ok (alts : list (nat * list nat)) : Prop :=
  match alts with
  | [] => True
  | (_, l) :: t => NoDup l /\ l <> [] /\ (forall c, In c l -> forall q l', In (q, l') t -> ~ In c l') /\ alts_ok t
  end.

Definition in_some_rule (alts : list (nat * list nat)) (c : nat) : Prop :=
  exists q l, In (q, l) alts /\ In c l.

Lemma normalise_spec : forall alts w w',
  alts_ok alts -> normalise w alts = Ok w' ->
  (forall p l, In (p, l) alts ->
     rule_total w' l == 1 /\
     (forall c1 c2, In c1 l -> In c2 l -> wget w' (SC c1) * wget w (SC c2) == wget w' (SC c2) * wget w (SC c1))) /\
  (forall x, (forall c, x = SC c -> ~ in_some_rule alts c) -> wget w' x = wget w x).
Proof.
  induction alts as [|[p0 l0] t IH]; intros w w' Hok H; simpl in H.
  - inversion H; subst. split; [intros p l []|]. reflexivity.
  - destruct Hok as [Hnd [Hne [Hdisj Hok]]].
    destruct (normalise_rule w l0) as [w1|e] eqn:E1; cbn [bind] in H; [|discriminate].
    destruct (IH _ _ Hok H) as [Hrules Hother].
    destruct (normalise_rule_spec _ _ _ Hnd E1 Hne) as [Hnz [Hv Ho1]].
    (* entries of l0 are untouched by the later rules *)
    assert (Hkeep : forall c, In c l0 -> wget w' (SC c) = wget w1 (SC c)).
    { intros c Hc. apply Hother. intros c' X [q [l' [Hin Hin']]]. inversion X; subst c'.
      apply (Hdisj _ Hc _ _ Hin Hin'). }
    split.
    + intros p l [X | Hin].
      * inversion X; subst p l; clear X. split.
        -- unfold rule_total.
           rewrite (qsum_map_ext (fun p => wget w' (SC p)) (fun p => wget w1 (SC p))).
           ++ apply (normalise_rule_sum _ _ _ Hnd E1 Hne).
           ++ intros c Hc. rewrite (Hkeep _ Hc). reflexivity.
        -- intros c1 c2 H1 H2. rewrite (Hkeep _ H1), (Hkeep _ H2).
           apply (normalise_rule_ratio _ _ _ _ _ Hnd E1 H1 H2).
      * destruct (Hrules _ _ Hin) as [Hs Hr]. split; [exact Hs|].
        intros c1 c2 H1 H2.
        (* the declared weights of this later rule were not touched by rule l0 *)
        assert (Hw : forall c, In c l -> wget w1 (SC c) = wget w (SC c)).
        { intros c Hc. apply Ho1. intros c' X Hin0. inversion X; subst c'.
          apply (Hdisj _ Hin0 _ _ Hin Hc). }
        rewrite <- (Hw _ H1), <- (Hw _ H2). apply Hr; assumption.
    + intros x Hx. rewrite Hother.
      * apply Ho1. intros c X Hin. apply (Hx c X). exists p0, l0. split; [left; reflexivity | exact Hin].
      * intros c X [q [l' [Hin Hin']]]. apply (Hx c X). exists q, l'. split; [right; exact Hin | exact Hin'].
Qed.

(* normalising again is the identity (up to ==) when every rule already sums to one *)
Lemma normalise_stable : forall alts w w',
  alts_ok alts -> normalise w alts = Ok w' ->
  (forall p l, In (p, l) alts -> rule_total w l == 1) ->
  forall x, wget w' x == wget w x.
Proof.
  induction alts as [|[p0 l0] t IH]; intros w w' Hok H Hsum x; simpl in H.
  - inversion H; reflexivity.
  - destruct Hok as [Hnd [Hne [Hdisj Hok]]].
    destruct (normalise_rule w l0) as [w1|e] eqn:E1; cbn [bind] in H; [|discriminate].
    assert (H1 : forall y, wget w1 y == wget w y).
    { apply (normalise_rule_stable _ _ _ Hnd E1). apply (Hsum p0 l0). left; reflexivity. }
    rewrite (IH _ _ Hok H); [apply H1|].
    intros p l Hin. unfold rule_total.
    rewrite (qsum_map_ext (fun p => wget w1 (SC p)) (fun p => wget w (SC p))); [|intros; apply H1].
    apply (Hsum p l). right; exact Hin.
Qed.

(* ---------- the registered rules satisfy alts_ok ---------- *)
Lemma alts_ok_gen d r : reg_inv d r -> forall alts,
  (forall p l, In (p, l) alts -> get_alts (r_alts r) p = Some l) -> NoDup (map fst alts) -> alts_ok alts.
Proof.
  intros [K N M R E].
  induction alts as [|[p l] t IH]; intros G Kd; simpl; [exact I|].
  inversion Kd as [|? ? Hn Hd]; subst.
  assert (Gp := G p l (or_introl eq_refl)).
  split; [apply (N _ _ Gp)|]. split; [apply (E _ _ Gp)|]. split.
  - intros c Hc q l' Hin Hc'.
    assert (Gq := G q l' (or_intror Hin)).
    destruct (M _ _ _ Gp Hc) as [_ [P1 _]]. destruct (M _ _ _ Gq Hc') as [_ [P2 _]].
    assert (p = q) by congruence. subst q.
    apply Hn. apply (in_map fst) in Hin. exact Hin.
  - apply IH; [|exact Hd]. intros q l' Hin. apply G. right; exact Hin.
Qed.

Lemma alts_ok_of_inv d r : reg_inv d r -> alts_ok (r_alts r).
Proof.
  intro Hi. apply (alts_ok_gen d r Hi).
  - intros p l. apply In_get_alts. apply (ri_keys _ _ Hi).
  - apply (ri_keys _ _ Hi).
Qed.

(* ---------- the analysis does not depend on the weights ---------- *)
Definition shape (k : cls) := (c_parent k, c_abs k, c_fields k).

Record shape_eq (d d' : decl) : Prop := {
  se_len : length (d_classes d) = length (d_classes d');
  se_cls : forall c, option_map shape (get_cls d c) = option_map shape (get_cls d' c);
  se_cons : d_considered d = d_considered d';
  se_start : d_start d = d_start d';
  se_xd : d_xdepth d = d_xdepth d'
}.

Section Shape.
Variables d d' : decl.
Hypothesis Hs : shape_eq d d'.

Lemma shape_cases c :
  (get_cls d c = None /\ get_cls d' c = None) \/
  (exists k k', get_cls d c = Some k /\ get_cls d' c = Some k' /\ shape k = shape k').
Proof.
  pose proof (se_cls _ _ Hs c) as H.
  destruct (get_cls d c) as [k|], (get_cls d' c) as [k'|]; simpl in H; try discriminate.
  - right. exists k, k'. repeat split. congruence.
  - left; split; reflexivity.
Qed.

Lemma is_abstract_shape s : is_abstract d s = is_abstract d' s.
Proof.
  destruct s as [b|c]; simpl; [reflexivity|].
  destruct (shape_cases c) as [[A B] | [k [k' [A [B C]]]]]; rewrite A, B; [reflexivity|].
  unfold shape in C. congruence.
Qed.

Lemma fields_of_shape s : fields_of d s = fields_of d' s.
Proof.
  destruct s as [b|c]; simpl; [reflexivity|].
  destruct (shape_cases c) as [[A B] | [k [k' [A [B C]]]]]; rewrite A, B; [reflexivity|].
  unfold shape in C. congruence.
Qed.

Lemma subclass_fuel_shape : forall fuel st c, subclass_fuel fuel d st c = subclass_fuel fuel d' st c.
Proof.
  induction fuel as [|f IH]; intros st c; simpl; [reflexivity|].
  destruct (shape_cases st) as [[A B] | [k [k' [A [B C]]]]]; rewrite A, B; [reflexivity|].
  unfold shape in C. assert (c_parent k = c_parent k') as X by congruence. rewrite X.
  destruct (c_parent k'); [rewrite IH|]; reflexivity.
Qed.

Lemma subclass_shape st c : subclass d st c = subclass d' st c.
Proof. unfold subclass. rewrite (se_len _ _ Hs). apply subclass_fuel_shape. Qed.

Lemma reg_list_ext rg rg' (H : forall t s, rg t s = rg' t s) : forall ts s, reg_list rg ts s = reg_list rg' ts s.
Proof.
  induction ts as [|x r IH]; intro s; simpl; [reflexivity|].
  rewrite H. destruct (rg' x s); simpl; [apply IH | reflexivity].
Qed.

Lemma reg_subs_shape rg rg' (H : forall t s, rg t s = rg' t s) sy : forall l s,
  reg_subs rg d sy l s = reg_subs rg' d' sy l s.
Proof.
  induction l as [|st r IH]; intro s; simpl; [reflexivity|].
  destruct sy as [b|c]; simpl; [apply IH|].
  rewrite subclass_shape. destruct (subclass d' st c); simpl; [|apply IH].
  rewrite H. destruct (rg' (TSym st) s); simpl; [apply IH | reflexivity].
Qed.

Lemma reg_parent_shape rg rg' (H : forall t s, rg t s = rg' t s) sy s :
  reg_parent rg d sy s = reg_parent rg' d' sy s.
Proof.
  unfold reg_parent. destruct sy as [b|c]; [reflexivity|].
  destruct (shape_cases c) as [[A B] | [k [k' [A [B C]]]]]; rewrite A, B; [reflexivity|].
  unfold shape in C. assert (c_parent k = c_parent k') as X by congruence. rewrite X.
  destruct (c_parent k') as [p|]; [|reflexivity].
  rewrite H. rewrite (is_abstract_shape (SC p)). reflexivity.
Qed.

Lemma reg_new_shape rg rg' (H : forall t s, rg t s = rg' t s) sy s :
  reg_new rg d sy s = reg_new rg' d' sy s.
Proof.
  unfold reg_new. rewrite (reg_parent_shape rg rg' H).
  destruct (reg_parent rg' d' sy _) as [s2|]; simpl; [|reflexivity].
  rewrite (is_abstract_shape sy), (fields_of_shape sy), (reg_list_ext rg rg' H).
  destruct (reg_list rg' _ s2) as [s3|]; simpl; [|reflexivity].
  rewrite (reg_subs_shape rg rg' H), (se_cons _ _ Hs). reflexivity.
Qed.

Lemma reg_shape : forall fuel t s, reg fuel d t s = reg fuel d' t s.
Proof.
  induction fuel as [|f IH]; intros t s; simpl; [reflexivity|].
  destruct t; try apply IH.
  - destruct (mem_sym _ _); [reflexivity | apply reg_new_shape; exact IH].
  - destruct (mem_sym _ _); [reflexivity | apply reg_new_shape; exact IH].
  - apply reg_list_ext; exact IH.
  - apply reg_list_ext; exact IH.
Qed.
End Shape.

Lemma get_cls_store d r w c :
  get_cls (store_weights d r w) c =
  match get_cls d c with
  | Some k => Some (if mem_sym (SC c) (r_nodes r)
                    then mkCls (c_parent k) (c_abs k) (c_fields k) (Some (wget w (SC c))) else k)
  | None => None
  end.
Proof.
  unfold get_cls, store_weights; simpl.
  generalize (d_classes d) as l. intro l.
  assert (G : forall l n c, nth_error (map (fun ck : nat * cls => let '(c, k) := ck in
                  if mem_sym (SC c) (r_nodes r)
                  then mkCls (c_parent k) (c_abs k) (c_fields k) (Some (wget w (SC c))) else k)
                  (combine (seq n (length l)) l)) c =
              match nth_error l c with
              | Some k => Some (if mem_sym (SC (n + c)) (r_nodes r)
                                then mkCls (c_parent k) (c_abs k) (c_fields k) (Some (wget w (SC (n + c)))) else k)
              | None => None end).
  { clear. induction l as [|a t IH]; intros n c; simpl.
    - destruct c; reflexivity.
    - destruct c as [|c]; simpl.
      + rewrite Nat.add_0_r. reflexivity.
      + rewrite IH. replace (S n + c)%nat with (n + S c)%nat by lia. reflexivity. }
  apply (G l 0%nat c).
Qed.

Lemma shape_eq_store d r w : shape_eq d (store_weights d r w).
Proof.
  constructor; try reflexivity.
  - unfold store_weights; simpl. rewrite map_length, combine_length, seq_length. lia.
  - intro c. rewrite get_cls_store. destruct (get_cls d c) as [k|]; simpl; [|reflexivity].
    destruct (mem_sym (SC c) (r_nodes r)); reflexivity.
Qed.

Lemma decl_weight_store d r w c :
  mem_sym (SC c) (r_nodes r) = true -> get_cls d c <> None ->
  decl_weight (store_weights d r w) (SC c) = wget w (SC c).
Proof.
  intros Hm Hc. unfold decl_weight. rewrite get_cls_store.
  destruct (get_cls d c) as [k|]; [|congruence]. rewrite Hm. reflexivity.
Qed.

Lemma wget_get_weights d r s : In s (r_nodes r) -> wget (get_weights d r) s = decl_weight d s.
Proof.
  unfold get_weights. induction (r_nodes r) as [|a t IH]; simpl; [tauto|].
  intros [H | H].
  - subst a. rewrite sym_eqb_refl. reflexivity.
  - destruct (sym_eqb s a) eqn:E; [apply sym_eqb_eq in E; subst; reflexivity | apply IH; exact H].
Qed.

(* ---------- extract_grammar as a whole ---------- *)
Lemma analyse_reg d order g :
  analyse d order = Ok g -> reg (reg_fuel d) d (TSym (d_start d)) r0 = Ok (g_reg g) /\ g_decl g = d.
Proof.
  unfold analyse. intro H.
  destruct (reg (reg_fuel d) d (TSym (d_start d)) r0) as [r|] eqn:E; cbn [bind] in H; [|discriminate].
  match type of H with context [dist_loop ?a ?b ?c ?e ?f] => destruct (dist_loop a b c e f) as [m|] end;
    cbn [bind] in H; [|discriminate].
  match type of H with context [if ?b then _ else _] => destruct b end; [|discriminate].
  inversion H; subst; simpl. split; reflexivity.
Qed.

Lemma analyse_inv d order g : analyse d order = Ok g -> reg_inv d (g_reg g) /\ g_decl g = d.
Proof.
  intro H. destruct (analyse_reg _ _ _ H) as [E Hd]. split; [|exact Hd].
  eapply reg_result_inv; exact E.
Qed.

Lemma reg_fuel_shape d d' : shape_eq d d' -> reg_fuel d' = reg_fuel d.
Proof. intro Hs. unfold reg_fuel. rewrite (se_len _ _ Hs). reflexivity. Qed.

Lemma analyse_reg_shape d d' order g g' :
  shape_eq d d' -> analyse d order = Ok g -> analyse d' order = Ok g' -> g_reg g' = g_reg g.
Proof.
  intros Hs H H'.
  destruct (analyse_reg _ _ _ H) as [E _]. destruct (analyse_reg _ _ _ H') as [E' _].
  rewrite (reg_fuel_shape _ _ Hs) in E'. rewrite <- (se_start _ _ Hs) in E'.
  pose proof (reg_shape d d' Hs (reg_fuel d) (TSym (d_start d)) r0) as X.
  rewrite X in E. rewrite E in E'. inversion E'. reflexivity.
Qed.

Lemma extract_cases d order g :
  extract d order = Ok g ->
  exists g0, analyse d order = Ok g0 /\
    ((weighted d (g_reg g0) = false /\ g = g0) \/
     (weighted d (g_reg g0) = true /\ exists w,
        normalise (get_weights d (g_reg g0)) (r_alts (g_reg g0)) = Ok w /\
        weights_in_unit w = true /\
        analyse (store_weights d (g_reg g0) w) order = Ok g)).
Proof.
  unfold extract. intro H.
  destruct (analyse d order) as [g0|] eqn:E0; cbn [bind] in H; [|discriminate].
  exists g0. split; [reflexivity|].
  destruct (weighted d (g_reg g0)) eqn:Ew.
  - right. split; [reflexivity|].
    destruct (normalise _ _) as [w|] eqn:En; cbn [bind] in H; [|discriminate].
    exists w. split; [reflexivity|].
    destruct (weights_in_unit w) eqn:Ef; [|discriminate]. split; [reflexivity | exact H].
  - left. split; [reflexivity|]. inversion H; reflexivity.
Qed.

Lemma wget_bounds w s : weights_in_unit w = true -> 0 <= wget w s <= 1.
Proof.
  unfold weights_in_unit. induction w as [|[k v] t IH]; simpl; intro H.
  - split; discriminate.
  - apply andb_prop in H. destruct H as [H1 H2]. apply andb_prop in H1. destruct H1 as [A B].
    destruct (sym_eqb s k); [|apply IH; exact H2].
    split; apply Qle_bool_iff; assumption.
Qed.

Lemma rule_member_cls d r p l c :
  reg_inv d r -> get_alts (r_alts r) p = Some l -> In c l ->
  In (SC c) (r_nodes r) /\ get_cls d c <> None.
Proof.
  intros Hi Hg Hin. destruct (ri_mem _ _ Hi _ _ _ Hg Hin) as [A [B _]].
  split; [apply mem_sym_In; exact A|].
  unfold parent_of in B. destruct (get_cls d c); [discriminate | discriminate].
Qed.

(* the weights a grammar reports for the members of a rule after a weighted extraction *)
Lemma weights_after_store d r w p l c :
  reg_inv d r -> get_alts (r_alts r) p = Some l -> In c l ->
  wget (get_weights (store_weights d r w) r) (SC c) = wget w (SC c).
Proof.
  intros Hi Hg Hin. destruct (rule_member_cls _ _ _ _ _ Hi Hg Hin) as [A B].
  rewrite wget_get_weights; [|exact A]. apply decl_weight_store; [apply mem_sym_In; exact A | exact B].
Qed.

Theorem extract_weights_normalised d order g :
  extract d order = Ok g -> weighted d (g_reg g) = true ->
  forall p l, get_alts (r_alts (g_reg g)) p = Some l ->
    qsum (map (fun c => wget (weights_of g) (SC c)) l) == 1 /\
    (forall c, In c l -> 0 <= wget (weights_of g) (SC c) <= 1) /\
    (forall c1 c2, In c1 l -> In c2 l ->
       wget (weights_of g) (SC c1) * decl_weight d (SC c2) == wget (weights_of g) (SC c2) * decl_weight d (SC c1)).
Proof.
  intros H Hw p l Hg.
  destruct (extract_cases _ _ _ H) as [g0 [E0 [[Ew Eg] | [Ew [w [En [Ef Ea]]]]]]].
  { subst g0. congruence. }
  destruct (analyse_inv _ _ _ E0) as [Hi0 Hd0].
  destruct (analyse_inv _ _ _ Ea) as [_ Hd].
  assert (Hr : g_reg g = g_reg g0) by (eapply analyse_reg_shape; [apply shape_eq_store | exact E0 | exact Ea]).
  rewrite Hr in Hg.
  assert (Hok := alts_ok_of_inv _ _ Hi0).
  destruct (normalise_spec _ _ _ Hok En) as [Hrules _].
  assert (Hin : In (p, l) (r_alts (g_reg g0))) by (apply In_get_alts; [apply (ri_keys _ _ Hi0) | exact Hg]).
  destruct (Hrules _ _ Hin) as [Hsum Hratio].
  unfold weights_of. rewrite Hd, Hr.
  assert (Hwg : forall c, In c l -> wget (get_weights (store_weights d (g_reg g0) w) (g_reg g0)) (SC c) = wget w (SC c)).
  { intros c Hc. eapply weights_after_store; eassumption. }
  split; [|split].
  - rewrite (qsum_map_ext _ (fun c => wget w (SC c))); [exact Hsum|].
    intros c Hc. rewrite (Hwg _ Hc). reflexivity.
  - intros c Hc. rewrite (Hwg _ Hc). apply wget_bounds; exact Ef.
  - intros c1 c2 H1 H2. rewrite (Hwg _ H1), (Hwg _ H2).
    destruct (rule_member_cls _ _ _ _ _ Hi0 Hg H1) as [A1 _].
    destruct (rule_member_cls _ _ _ _ _ Hi0 Hg H2) as [A2 _].
    rewrite <- (wget_get_weights d (g_reg g0) _ A1), <- (wget_get_weights d (g_reg g0) _ A2).
    apply Hratio; assumption.
Qed.

Lemma wget_get_weights_notin d r s : ~ In s (r_nodes r) -> wget (get_weights d r) s = 1.
Proof.
  unfold get_weights. induction (r_nodes r) as [|a t IH]; simpl; [reflexivity|].
  intro H. destruct (sym_eqb s a) eqn:E; [apply sym_eqb_eq in E; subst; tauto|]. apply IH. tauto.
Qed.

Lemma decl_weight_store_gen d r w s :
  In s (r_nodes r) ->
  decl_weight (store_weights d r w) s =
  match s with
  | SC c => match get_cls d c with Some _ => wget w s | None => 1 end
  | SB _ => 1
  end.
Proof.
  intro Hin. destruct s as [b|c]; [reflexivity|].
  unfold decl_weight. rewrite get_cls_store. destruct (get_cls d c) as [k|]; [|reflexivity].
  assert (mem_sym (SC c) (r_nodes r) = true) as X by (apply mem_sym_In; exact Hin). rewrite X. reflexivity.
Qed.

(* extracting the same grammar again changes nothing *)
Theorem extract_idempotent d order g g' :
  extract d order = Ok g -> extract (g_decl g) order = Ok g' ->
  g_reg g' = g_reg g /\ forall s, wget (weights_of g') s == wget (weights_of g) s.
Proof.
  intros H H'.
  destruct (extract_cases _ _ _ H) as [g0 [E0 [[Ew Eg] | [Ew [w [En [Ef Ea]]]]]]].
  { subst g0. destruct (analyse_inv _ _ _ E0) as [_ Hd]. rewrite Hd in H'.
    assert (g' = g) by congruence. subst g'. split; [reflexivity | intro; reflexivity]. }
  destruct (analyse_inv _ _ _ E0) as [Hi0 Hd0].
  destruct (analyse_inv _ _ _ Ea) as [Hi1 Hd].
  assert (Hr : g_reg g = g_reg g0) by (eapply analyse_reg_shape; [apply shape_eq_store | exact E0 | exact Ea]).
  set (d1 := store_weights d (g_reg g0) w) in *.
  rewrite Hd in H'.
  destruct (extract_cases _ _ _ H') as [g1 [E1 [[Ew' Eg'] | [Ew' [w2 [En2 [Ef2 Ea2]]]]]]].
  { assert (g1 = g) by congruence. subst. split; [reflexivity | intro; reflexivity]. }
  assert (g1 = g) by congruence. subst g1.
  assert (Hr' : g_reg g' = g_reg g) by (eapply analyse_reg_shape; [apply shape_eq_store | exact Ea | exact Ea2]).
  split; [exact Hr'|].
  destruct (analyse_inv _ _ _ Ea2) as [_ Hd2].
  (* every rule already sums to one under the stored weights *)
  assert (Hok := alts_ok_of_inv _ _ Hi0).
  destruct (normalise_spec _ _ _ Hok En) as [Hrules _].
  rewrite Hr in *.
  assert (Hsum : forall p l, In (p, l) (r_alts (g_reg g0)) -> rule_total (get_weights d1 (g_reg g0)) l == 1).
  { intros p l Hin. destruct (Hrules _ _ Hin) as [Hs _]. unfold rule_total in *.
    rewrite (qsum_map_ext _ (fun c => wget w (SC c))); [exact Hs|].
    intros c Hc. unfold d1. erewrite weights_after_store; [reflexivity | exact Hi0 | | exact Hc].
    apply In_get_alts; [apply (ri_keys _ _ Hi0) | exact Hin]. }
  assert (Hst := normalise_stable _ _ _ Hok En2 Hsum).
  intro s. unfold weights_of. rewrite Hd2, Hd, Hr', Hr.
  destruct (mem_sym s (r_nodes (g_reg g0))) eqn:Emem;
    [assert (Hin : In s (r_nodes (g_reg g0))) by (apply mem_sym_In; exact Emem)
    |assert (Hnin : ~ In s (r_nodes (g_reg g0))) by (intro X; apply mem_sym_In in X; congruence)].
  - rewrite !wget_get_weights by exact Hin.
    rewrite (decl_weight_store_gen d1 _ w2 s Hin).
    destruct s as [b|c].
    + unfold d1. rewrite (decl_weight_store_gen d _ w (SB b) Hin). reflexivity.
    + destruct (get_cls d1 c) eqn:Ec.
      * rewrite (Hst (SC c)). rewrite wget_get_weights by exact Hin. reflexivity.
      * unfold decl_weight. rewrite Ec. reflexivity.
  - rewrite !wget_get_weights_notin by exact Hnin. reflexivity.
Qed.
