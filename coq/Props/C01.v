(* C01 — Every program the library produces is well-typed for its grammar.
   Only statements closed by [exact]; Print Assumptions; non-vacuity example. *)
From GE Require Import Base Tape Grammar WellTyped Synth Sat SynthFrame SynthSat.
Open Scope Z_scope.

(* for EVERY class hierarchy whose annotations refine a base type they can produce values of
   (decl_ok: IntRange on int, VarRange options of the field's type, ...), every iteration order of
   the analysis, every decider (grow, full, PI-grow, progressive, dynamic SGE), random source, context
   and fuel: a value returned by create_node is a program of the requested type — a registered
   concrete production where an abstract type is declared, well-typed elements in lists, a real
   tuple, one alternative of a union, exactly the declared base type *)
Theorem C01_create_well_typed : forall d order g,
  extract d order = Ok g -> decl_ok d = true ->
  forall fuel k t ctx st v st',
    ty_ok [] t = true -> st_alts st = r_alts (g_reg g) ->
    create_node fuel g k t ctx [] st = (Ok v, st') ->
    WT (g_decl g) (g_reg g) false t v.
Proof. exact create_wt_extracted. Qed.
Print Assumptions C01_create_well_typed.

(* ... and after any sequence of earlier creations (successful or not) on the same decider state *)
Theorem C01_sequences_well_typed : forall d order g,
  extract d order = Ok g -> decl_ok d = true ->
  forall fuel k reqs st t ctx v st',
    ty_ok [] t = true -> st_alts st = r_alts (g_reg g) ->
    create_node fuel g k t ctx [] (run_creations fuel g k reqs st) = (Ok v, st') ->
    WT (g_decl g) (g_reg g) false t v.
Proof.
  intros d order g H Hok fuel k reqs st t ctx v st' Ht Ha Hc.
  apply (proj1 (Sat_WT (g_decl g) (g_reg g))) with (deps := []).
  exact (creations_sat d order g H Hok fuel k reqs st t ctx v st' Ht Ha Hc).
Qed.
Print Assumptions C01_sequences_well_typed.

(* what a decider picks is one of the candidates it was offered *)
Theorem C01_choice_is_member : forall g k key alts ctx st x st',
  choose g k key alts ctx st = (Ok x, st') -> In x alts.
Proof. exact choose_mem. Qed.
Print Assumptions C01_choice_is_member.

(* ---- non-vacuity: E -> Lit(int, bool) | Pair(tuple[E, str]) | Many(list[E]) | Alt(Union[int, E]) ---- *)
Definition ex1 : decl :=
  mkDecl [ mkCls None true [] None;
           mkCls (Some 0%nat) false [TBase BInt; TBase BBool] None;
           mkCls (Some 0%nat) false [TTuple [TSym 0%nat; TBase BStr]] None;
           mkCls (Some 0%nat) false [TList (TSym 0%nat)] None;
           mkCls (Some 0%nat) false [TUnion [TBase BInt; TSym 0%nat]] None ]
         [0; 1; 2; 3; 4]%nat 0%nat false.

Example C01_nonvacuous :
  decl_ok ex1 = true /\
  exists g v st', extract ex1 id_order = Ok g /\
    create_node 60 g (DMax 3) (TSym 0%nat) ctx0 [] (st_init g (LW KGE [5; 1; 9; 2; 0; 7; 3] 0)) = (Ok v, st') /\
    3 <= Z.of_nat (value_size v).
Proof.
  split; [reflexivity|].
  destruct (extract ex1 id_order) as [g|] eqn:E; [|vm_compute in E; discriminate].
  exists g. vm_compute in E. inversion E; subst. eexists. eexists. split; [reflexivity|].
  vm_compute. split; [reflexivity | discriminate].
Qed.
