(* C01 — Every program the library produces is well-typed for its grammar.
   Only statements closed by [exact]; Print Assumptions; non-vacuity example. *)
From GE Require Import Base Tape Grammar WellTyped Synth Sat SynthFrame SynthSat Linear Stack MapProofs StackProofs ProgRefuted.
Open Scope Z_scope.

(* for EVERY class hierarchy whose annotations refine a base type they can produce values of
   (decl_ok: IntRange on int, VarRange options of the field's type, ...), every iteration order of
   the analysis, every decider (grow, full, PI-grow, progressive, dynamic SGE), random source, context
   and fuel: a value returned by create_node is a program of the requested type — a registered
   concrete production where an abstract type is declared, well-typed elements in lists, a real
   tuple, one alternative of a union, exactly the declared base type *)
Theorem C01_create_well_typed : forall d order g,
  extract d order = Ok g -> decl_ok d = true ->
  forall fuel k t ctx st v st',
    ty_ok [] t = true -> st_alts st = r_alts (g_reg g) ->
    create_node fuel g k t ctx [] st = (Ok v, st') ->
    WT (g_decl g) (g_reg g) false t v.
Proof. exact create_wt_extracted. Qed.
Print Assumptions C01_create_well_typed.

(* ... and after any sequence of earlier creations (successful or not) on the same decider state *)
Theorem C01_sequences_well_typed : forall d order g,
  extract d order = Ok g -> decl_ok d = true ->
  forall fuel k reqs st t ctx v st',
    ty_ok [] t = true -> st_alts st = r_alts (g_reg g) ->
    create_node fuel g k t ctx [] (run_creations fuel g k reqs st) = (Ok v, st') ->
    WT (g_decl g) (g_reg g) false t v.
Proof.
  intros d order g H Hok fuel k reqs st t ctx v st' Ht Ha Hc.
  apply (proj1 (Sat_WT (g_decl g) (g_reg g))) with (deps := []).
  exact (creations_sat d order g H Hok fuel k reqs st t ctx v st' Ht Ha Hc).
Qed.
Print Assumptions C01_sequences_well_typed.

(* what a decider picks is one of the candidates it was offered *)
Theorem C01_choice_is_member : forall g k key alts ctx st x st',
  choose g k key alts ctx st = (Ok x, st') -> In x alts.
Proof. exact choose_mem. Qed.
Print Assumptions C01_choice_is_member.

(* "by mapping any genotype of any representation": whatever the genotype, a program the GE / structured GE / dynamic
   structured GE mapping returns is a well-typed program of the start symbol (the mappings are create_node on a gene-backed state) *)
Theorem C01_mapped_programs_well_typed : forall d order g, extract d order = Ok g -> decl_ok d = true ->
  (forall fuel k dna v st, ge_map fuel g k dna = (Ok v, st) -> WT (g_decl g) (g_reg g) false (start_ty g) v) /\
  (forall fuel k infra v st, sge_map fuel g k infra = (Ok v, st) -> WT (g_decl g) (g_reg g) false (start_ty g) v) /\
  (forall fuel D s dna v st, dsge_map fuel g D s dna = (Ok v, st) -> WT (g_decl g) (g_reg g) false (start_ty g) v).
Proof. exact mappings_wt. Qed.
Print Assumptions C01_mapped_programs_well_typed.

(* "or by mutation or crossover": the tree representation's mutation result and each crossover child (a node of the start
   symbol's class found inside the donor parent, or a regenerated tree) is a well-typed program when the donor is *)
Theorem C01_tree_variation_well_typed : forall dd order g, extract dd order = Ok g -> decl_ok dd = true ->
  forall fuel k rctx st v st', st_alts st = r_alts (g_reg g) ->
  (tree_mutate fuel g k rctx st = (Ok v, st') -> WT (g_decl g) (g_reg g) false (start_ty g) v) /\
  (forall donor, WT (g_decl g) (g_reg g) false (start_ty g) donor ->
     tree_cross_child fuel g k donor rctx st = (Ok v, st') -> WT (g_decl g) (g_reg g) false (start_ty g) v).
Proof. exact tree_variation_wt. Qed.
Print Assumptions C01_tree_variation_well_typed.

(* what is left of known finding F38, as a theorem about the model: on E -> Rec(E)<weight 1> | Leaf<weight 0> creation under the
   progressive decider never returns a program, whatever the random source answers and however much fuel it is given (the
   implementation recurses until RecursionError) *)
Theorem C01_progressive_zero_weight_refuted : forall fuel ctx st v st',
  st_alts st = r_alts (g_reg g38) -> create_node fuel g38 DProg (TSym 0%nat) ctx [] st <> (Ok v, st').
Proof. exact progressive_never_returns. Qed.
Print Assumptions C01_progressive_zero_weight_refuted.

(* the stack representation: for every hierarchy the library accepts, every iteration order, every codon list, failure limit
   and fuel, a program the stack machine returns is a well-typed program of the start symbol.  (The machine is the model of
   create_tree_using_stacks for hierarchies without metahandler-annotated and string fields; the statement needs no such
   restriction.)  Rests on: every value on the stack of a type is well typed at it, also after an attempt that raised
   IndexError half-way through its pops; and the registration walk is closed under field types (Proofs/RegFields.v), so every
   class among the machine's stack types is a registered node. *)
Theorem C01_stack_mapped_programs_well_typed : forall d order g,
  extract d order = Ok g ->
  forall fuel limit dna v, stack_map fuel g limit dna = Ok v ->
  WT (g_decl g) (g_reg g) false (TSym (d_start (g_decl g))) v.
Proof. exact stack_mapped_well_typed. Qed.
Print Assumptions C01_stack_mapped_programs_well_typed.

(* ---- non-vacuity: E -> Lit(int, bool) | Pair(tuple[E, str]) | Many(list[E]) | Alt(Union[int, E]) ---- *)
Definition ex1 : decl :=
  mkDecl [ mkCls None true [] None;
           mkCls (Some 0%nat) false [TBase BInt; TBase BBool] None;
           mkCls (Some 0%nat) false [TTuple [TSym 0%nat; TBase BStr]] None;
           mkCls (Some 0%nat) false [TList (TSym 0%nat)] None;
           mkCls (Some 0%nat) false [TUnion [TBase BInt; TSym 0%nat]] None ]
         [0; 1; 2; 3; 4]%nat 0%nat false.

Example C01_nonvacuous :
  decl_ok ex1 = true /\
  exists g v st', extract ex1 id_order = Ok g /\
    create_node 60 g (DMax 3) (TSym 0%nat) ctx0 [] (st_init g (LW KGE [5; 1; 9; 2; 0; 7; 3] 0)) = (Ok v, st') /\
    3 <= Z.of_nat (value_size v).
Proof.
  split; [reflexivity|].
  destruct (extract ex1 id_order) as [g|] eqn:E; [|vm_compute in E; discriminate].
  exists g. vm_compute in E. inversion E; subst. eexists. eexists. split; [reflexivity|].
  vm_compute. split; [reflexivity | discriminate].
Qed.

(* the stack machine on E -> Lit(int) | Pair(E, E) with start symbol Pair: two ints, two Lits, two promotions, one Pair *)
Definition ex1s : decl :=
  mkDecl [ mkCls None true [] None;
           mkCls (Some 0%nat) false [TBase BInt] None;
           mkCls (Some 0%nat) false [TSym 0%nat; TSym 0%nat] None ]
         [0; 1; 2]%nat 2%nat false.

Example C01_stack_nonvacuous :
  exists g, extract ex1s id_order = Ok g /\ types_registered g (all_stack_types g) = true /\
    stack_map 300 g 100 [5; 200000; 10007; 100000; 0; 0; 200000; 10009; 100000; 0; 0; 300000] =
      Ok (VNode 2 [VNode 1 [VInt 9]; VNode 1 [VInt 7]]).
Proof.
  destruct (extract ex1s id_order) as [g|] eqn:E; [|vm_compute in E; discriminate].
  exists g. vm_compute in E. inversion E; subst. repeat split; vm_compute; reflexivity.
Qed.
