(* C02 — Refinements (metahandlers) hold on every value the library produces.
   Only statements closed by [exact]; Print Assumptions; non-vacuity example. *)
From GE Require Import Base Tape Grammar WellTyped Synth Sat SynthFrame SynthSat MhProofs KnownRefuted Linear MapProofs.
Open Scope Z_scope.

(* every value create_node returns satisfies, at every refined position (top level, inside lists,
   inside unions, in nested nodes), the documented predicate of the refinement: integer / float range
   or list, variable-name set, bounded list size, bounded string over an alphabet, fixed-length
   weighted string, interval range — and dependent refinements evaluated against the ACTUAL values of
   the sibling fields of the same node (Spec/Sat.v).  Every hierarchy with decl_ok, decider, source,
   context, fuel. *)
Theorem C02_create_refined : forall d order g,
  extract d order = Ok g -> decl_ok d = true ->
  forall fuel k t ctx st v st',
    ty_ok [] t = true -> st_alts st = r_alts (g_reg g) ->
    create_node fuel g k t ctx [] st = (Ok v, st') ->
    Sat (g_decl g) (g_reg g) [] t v.
Proof. exact create_sat_extracted. Qed.
Print Assumptions C02_create_refined.

Theorem C02_sequences_refined : forall d order g,
  extract d order = Ok g -> decl_ok d = true ->
  forall fuel k reqs st t ctx v st',
    ty_ok [] t = true -> st_alts st = r_alts (g_reg g) ->
    create_node fuel g k t ctx [] (run_creations fuel g k reqs st) = (Ok v, st') ->
    Sat (g_decl g) (g_reg g) [] t v.
Proof. exact creations_sat. Qed.
Print Assumptions C02_sequences_refined.

(* generator / validator agreement: validate() accepts every value generate() can produce
   (all parameters for which the documented predicate is satisfiable, including lo = hi) *)
Theorem C02_generate_validate : forall g (Hinv : RegProofs.reg_inv (g_decl g) (g_reg g)) (Hdecl : decl_ok (g_decl g) = true)
  m gen dtys base st v st',
  mh_generate_flat m = Some gen -> ty_ok dtys (TAnn base m) = true -> params_ok m ->
  gen st = (Ok v, st') -> mh_validate m v = Ok true.
Proof. exact generate_validate. Qed.
Print Assumptions C02_generate_validate.

(* validate() accepts whatever satisfies the specification (non-dependent refinements) ... *)
Theorem C02_sat_validate : forall d r deps base m v,
  Sat d r deps (TAnn base m) v -> params_ok m -> (forall ns f, m <> MDependent ns f) -> mh_validate m v = Ok true.
Proof. exact sat_validate. Qed.
Print Assumptions C02_sat_validate.

(* ... and only what the documented predicate allows *)
Theorem C02_validate_sound : forall m v, mh_validate m v = Ok true -> refined m v.
Proof. exact validate_sound. Qed.
Print Assumptions C02_validate_sound.

(* known finding F05 as a theorem about the model: Dependent.validate raises NotImplementedError for every value *)
Theorem C02_dependent_validate_refuted : forall names fn v, mh_validate (MDependent names fn) v = Err NotImplementedError.
Proof. exact dependent_validate_refuted. Qed.
Print Assumptions C02_dependent_validate_refuted.

(* after mapping: whatever the genotype, a program the GE / structured GE / dynamic structured GE mapping returns satisfies
   every refinement *)
Theorem C02_mapped_programs_refined : forall d order g, extract d order = Ok g -> decl_ok d = true ->
  (forall fuel k dna v st, ge_map fuel g k dna = (Ok v, st) -> Sat (g_decl g) (g_reg g) [] (start_ty g) v) /\
  (forall fuel k infra v st, sge_map fuel g k infra = (Ok v, st) -> Sat (g_decl g) (g_reg g) [] (start_ty g) v) /\
  (forall fuel D s dna v st, dsge_map fuel g D s dna = (Ok v, st) -> Sat (g_decl g) (g_reg g) [] (start_ty g) v).
Proof. exact mappings_sat. Qed.
Print Assumptions C02_mapped_programs_refined.

(* ---- non-vacuity: a production whose third field depends on the first two, a sized list of refined ints ---- *)
Definition ex2 : decl :=
  mkDecl [ mkCls None true [] None;
           mkCls (Some 0%nat) false [TAnn (TBase BInt) (MIntRange 2 5); TAnn (TBase BInt) (MIntList [7; 9]);
                                     TAnn (TBase BInt) (MDependent [0%nat; 1%nat] DIntRange2);
                                     TAnn (TList (TAnn (TBase BInt) (MIntRange 0 1))) (MListSize 1 2 true)] None ]
         [0; 1]%nat 0%nat false.

Example C02_nonvacuous :
  decl_ok ex2 = true /\
  exists g st', extract ex2 id_order = Ok g /\
    create_node 40 g (DMax 2) (TSym 0%nat) ctx0 [] (st_init g (Native [DI 0; DI 4; DI 1; DI 6; DI 2; DI 1; DI 0])) =
      (Ok (VNode 1%nat [VInt 4; VInt 9; VInt 6; VList [VInt 1; VInt 0]]), st').
Proof.
  split; [reflexivity|].
  destruct (extract ex2 id_order) as [g|] eqn:E; [|vm_compute in E; discriminate].
  exists g. vm_compute in E. inversion E; subst. eexists. split; [reflexivity|]. vm_compute. reflexivity.
Qed.
