(* C03 — Depth limits are respected and every feasible depth limit is usable.
   Only statements closed by [exact]; Print Assumptions; non-vacuity example. *)
From GE Require Import Base Tape Grammar WellTyped Synth Sat DistProofs SynthFrame SynthSat SynthDepth Linear MapProofs.
Open Scope Z_scope.

(* default depth mode, every hierarchy (decl_ok; no empty option lists and no refinement that rejects
   sibling values: decl_live), every iteration order, every depth-limited decider (grow, full, PI-grow,
   dynamic SGE) whose limit D its validate() accepted (D >= minimum tree depth), every random source
   state and fuel: creation from the start symbol either returns a program of depth <= D, or fails
   with an error that is neither AssertionError (the decider never finds its filtered candidate list
   empty) nor SynthesisException *)
Theorem C03_depth_respected_and_usable : forall d order g k D,
  extract d order = Ok g -> perm_order order -> d_xdepth d = false ->
  decl_ok d = true -> decl_live d = true ->
  depth_limit k = Some D -> D < INF -> decider_validate g k = Ok tt ->
  forall fuel st, st_alts st = r_alts (g_reg g) ->
  match create_node fuel g k (TSym (d_start (g_decl g))) ctx0 [] st with
  | (Ok v, _) => vdepth v <= D
  | (Err e, _) => e <> AssertionError /\ e <> SynthesisException
  end.
Proof. exact create_depth_extracted. Qed.
Print Assumptions C03_depth_respected_and_usable.

(* a limit below the grammar's minimum is rejected up-front (by the decider's constructor) with the
   library's error; every limit at or above it is accepted *)
Theorem C03_infeasible_rejected_upfront : forall g k D mn,
  depth_limit k = Some D -> min_tree_depth g = Ok mn ->
  (D < mn <-> decider_validate g k = Err GeneticEngineError) /\ (mn <= D <-> decider_validate g k = Ok tt).
Proof. exact validate_rejects. Qed.
Print Assumptions C03_infeasible_rejected_upfront.

(* the decider's pick always fits the remaining budget and its candidate list is never empty when
   some candidate fits *)
Theorem C03_choice_fits : forall g k D, depth_limit k = Some D ->
  forall key alts ctx st,
  0 <= c_depth ctx -> alts <> [] -> (exists x, In x alts /\ fits g D ctx x = Ok true) ->
  safe (choose g k key alts ctx) st (fun x st1 => In x alts /\ fits_at g D x ctx).
Proof. exact choose_safe. Qed.
Print Assumptions C03_choice_fits.

(* after mapping: a program the GE / structured GE mapping returns under a depth-limited decider, and one the dynamic
   structured GE mapping returns, is no deeper than the limit - whatever the genotype *)
Theorem C03_mapped_programs_within_limit : forall d order g k D, extract d order = Ok g -> perm_order order -> d_xdepth d = false ->
  decl_ok d = true -> decl_live d = true -> depth_limit k = Some D -> D < INF -> decider_validate g k = Ok tt ->
  (forall fuel dna v st, ge_map fuel g k dna = (Ok v, st) -> vdepth v <= D) /\
  (forall fuel infra v st, sge_map fuel g k infra = (Ok v, st) -> vdepth v <= D).
Proof. exact mappings_depth. Qed.
Print Assumptions C03_mapped_programs_within_limit.

Theorem C03_dsge_mapped_programs_within_limit : forall d order g D, extract d order = Ok g -> perm_order order -> d_xdepth d = false ->
  decl_ok d = true -> decl_live d = true -> D < INF ->
  forall fuel s dna v st, dsge_map fuel g D s dna = (Ok v, st) -> vdepth v <= D.
Proof. exact dsge_mapping_depth. Qed.
Print Assumptions C03_dsge_mapped_programs_within_limit.

(* ---- non-vacuity: E -> Lit(int) | Many(list[E]) | Neg(E) at its minimum depth 1 and at depth 3 ---- *)
Definition ex3 : decl :=
  mkDecl [ mkCls None true [] None;
           mkCls (Some 0%nat) false [TBase BInt] None;
           mkCls (Some 0%nat) false [TList (TSym 0%nat)] None;
           mkCls (Some 0%nat) false [TSym 0%nat] None ]
         [0; 1; 2; 3]%nat 0%nat false.

Example C03_nonvacuous :
  decl_ok ex3 = true /\ decl_live ex3 = true /\
  exists g, extract ex3 id_order = Ok g /\ min_tree_depth g = Ok 1 /\
    decider_validate g (DMax 1) = Ok tt /\ decider_validate g (DFull 0) = Err GeneticEngineError /\
    exists v st', create_node 80 g (DFull 3) (TSym 0%nat) ctx0 [] (st_init g (LW KGE [1; 3; 8; 2; 6] 0)) = (Ok v, st') /\ vdepth v = 2.
Proof.
  split; [reflexivity|]. split; [reflexivity|].
  destruct (extract ex3 id_order) as [g|] eqn:E; [|vm_compute in E; discriminate].
  exists g. vm_compute in E. inversion E; subst. repeat split; try reflexivity.
  eexists. eexists. split; vm_compute; reflexivity.
Qed.
