(* C04 — Depth-bounded creation reaches exactly the grammar's bounded language.
   Only statements closed by [exact]; Print Assumptions; non-vacuity example. *)
From GE Require Import Base Tape Grammar WellTyped Synth Sat Lang DistProofs SynthFrame SynthSat SynthDepth LangProofs GrowComplete DistOk FullRefuted EmptyListRefuted.
Open Scope Z_scope.

(* "no invalid one is reachable", and "position-independent grow never leaves the bounded language": for EVERY
   hierarchy (decl_ok, decl_live, default depth mode), every iteration order, every depth-limited decider (grow,
   full, PI-grow, dSGE) with an accepted limit D, every state of the random source (= every sequence of random
   decisions) and every fuel, a program that creation returns satisfies all refinements and has depth <= D *)
Theorem C04_no_invalid_program_reachable : forall d order g k D,
  extract d order = Ok g -> perm_order order -> d_xdepth d = false ->
  decl_ok d = true -> decl_live d = true ->
  depth_limit k = Some D -> D < INF -> decider_validate g k = Ok tt ->
  forall fuel st v st', st_alts st = r_alts (g_reg g) ->
  create_node fuel g k (TSym (d_start (g_decl g))) ctx0 [] st = (Ok v, st') ->
  InLang g D v.
Proof. exact creation_in_language. Qed.
Print Assumptions C04_no_invalid_program_reachable.

(* "no valid program is unreachable" (grow): for EVERY finite-choice hierarchy (fc_decl: bool, small integer ranges /
   lists, names, sized lists, unions, tuples, classes; any number of abstract layers, any recursion) in the default
   depth mode (that the analysis assigns a distance to every class and field type of a production is itself proved:
   DistOk.dist_ok_analysed), every iteration order and every limit D: every program of the bounded
   language that contains no empty list is returned by creation under SOME sequence of random decisions, which the
   run consumes exactly, for every large enough fuel.  (Programs with empty lists: known finding F10.) *)
Theorem C04_grow_reaches_every_program : forall d order g D,
  extract d order = Ok g -> perm_order order -> d_xdepth d = false -> fc_decl d = true ->
  forall v, InLang g D v -> noempty v = true ->
  exists tape F, forall fuel, (F <= fuel)%nat ->
    exists st', create_node fuel g (DMax D) (TSym (d_start (g_decl g))) ctx0 [] (st_init g (Native tape)) = (Ok v, st') /\
                st_src st' = Native [].
Proof. exact grow_reaches_language_all. Qed.
Print Assumptions C04_grow_reaches_every_program.

(* the two places where the property is FALSE of the code, as theorems about the model (known findings F34, F10): *)

(* F34: on E -> Lit(int in 0..1) | Plus(E, E) with max_depth = 2 the full decider returns only programs of depth 1,
   whatever the random source answers, although four programs with every branch at depth 2 exist *)
Theorem C04_full_decider_refuted : forall fuel st v st',
  st_alts st = r_alts (g_reg g4) ->
  create_node fuel g4 (DFull 2) (TSym 0%nat) ctx0 [] st = (Ok v, st') -> vdepth v = 1.
Proof. exact full_stops_one_level_early. Qed.
Print Assumptions C04_full_decider_refuted.

(* F10: on E -> Lit(int in 0..1) | Many(0..2 E) with max_depth = 1 grow creation never returns the valid program Many([]) *)
Theorem C04_empty_list_refuted : forall fuel st v st',
  st_alts st = r_alts (g_reg g10) ->
  create_node fuel g10 (DMax 1) (TSym 0%nat) ctx0 [] st = (Ok v, st') -> v <> VNode 2%nat [VList []].
Proof. exact grow_never_returns_the_empty_list_program. Qed.
Print Assumptions C04_empty_list_refuted.

(* the independent enumeration used by the check (Spec/Lang.v, built from the declarations only) lists only
   members of the bounded language: programs of the start symbol satisfying every refinement, no deeper than k *)
Theorem C04_enumeration_sound : forall d r k v,
  In v (lang d r k) -> Sat d r [] (TSym (d_start d)) v /\ vdepth v <= Z.of_nat k.
Proof. exact lang_sound. Qed.
Print Assumptions C04_enumeration_sound.

(* ... and, for every finite-choice hierarchy of the property's family (bool, small integer ranges / lists, names,
   sized lists, unions, tuples, classes; any number of abstract layers and any recursion), every member of the
   bounded language is enumerated once the structural fuel is large enough *)
Theorem C04_enumeration_complete : forall d r, fc_decl d = true -> forall k v,
  Sat d r [] (TSym (d_start d)) v -> vdepth v <= Z.of_nat k ->
  exists F, forall fuel, (F <= fuel)%nat -> In v (enum d r fuel k [] (TSym (d_start d))).
Proof. exact enum_complete. Qed.
Print Assumptions C04_enumeration_complete.

(* ---- non-vacuity: E -> Lit(int in 0..1) | Plus(E, E): the language at depth 2 has 2 + 4 programs, creation reaches one of the deepest ---- *)
Definition ex4' : decl :=
  mkDecl [ mkCls None true [] None;
           mkCls (Some 0%nat) false [TAnn (TBase BInt) (MIntRange 0 1)] None;
           mkCls (Some 0%nat) false [TSym 0%nat; TSym 0%nat] None ]
         [0; 1; 2]%nat 0%nat false.

Example C04_nonvacuous :
  decl_ok ex4' = true /\ decl_live ex4' = true /\ fc_decl ex4' = true /\
  noempty (VNode 2%nat [VNode 1%nat [VInt 1]; VNode 1%nat [VInt 0]]) = true /\
  exists g, extract ex4' id_order = Ok g /\ dist_ok g = true /\ decider_validate g (DMax 2) = Ok tt /\
    length (lang (g_decl g) (g_reg g) 2) = 6%nat /\
    exists st', create_node 80 g (DMax 2) (TSym 0%nat) ctx0 [] (st_init g (Native [DI 1; DI 0; DI 1; DI 0; DI 0])) =
                (Ok (VNode 2%nat [VNode 1%nat [VInt 1]; VNode 1%nat [VInt 0]]), st') /\
                In (VNode 2%nat [VNode 1%nat [VInt 1]; VNode 1%nat [VInt 0]]) (lang (g_decl g) (g_reg g) 2).
Proof.
  split; [reflexivity|]. split; [reflexivity|]. split; [reflexivity|]. split; [reflexivity|].
  destruct (extract ex4' id_order) as [g|] eqn:E; [|vm_compute in E; discriminate].
  exists g. vm_compute in E. inversion E; subst. repeat split; try reflexivity.
  eexists. split; vm_compute; [reflexivity|]. right; right; right; right. left. reflexivity.
Qed.
