(* C05 — Grammar analysis is exact: productions, minimum depths, recursion.
   Only statements closed by [exact]; Print Assumptions; non-vacuity example. *)
From GE Require Import Base Grammar RegProofs RegFields WellTyped DistProofs UsableProofs StackProofs KnownRefuted.
Open Scope Z_scope.

(* productions: for every class hierarchy, the rules of the analysed grammar have unique keys, each
   rule is duplicate-free, non-empty and keyed by an abstract class, and the productions of p are
   EXACTLY the registered classes whose direct parent is p *)
Theorem C05_alternatives_exact : forall d order g,
  analyse d order = Ok g ->
  NoDup (map fst (r_alts (g_reg g))) /\
  (forall p l, get_alts (r_alts (g_reg g)) p = Some l -> NoDup l /\ l <> [] /\ is_abstract d (SC p) = true) /\
  (forall p c, (exists l, get_alts (r_alts (g_reg g)) p = Some l /\ In c l) <->
               (mem_sym (SC c) (r_nodes (g_reg g)) = true /\ parent_of d c = Some p)).
Proof. exact alternatives_exact. Qed.
Print Assumptions C05_alternatives_exact.

(* the extracted grammar is closed under field types: every symbol a field of a registered concrete class mentions - through
   lists, tuples, unions and annotations - is itself a symbol of the grammar (so every production's arguments can be derived
   inside the grammar) *)
Theorem C05_registered_closed_under_fields : forall d order g,
  extract d order = Ok g ->
  forall c, mem_sym (SC c) (r_nodes (g_reg g)) = true -> is_abstract (g_decl g) (SC c) = false ->
  forall a, In a (fields_of (g_decl g) (SC c)) -> forall sy, In sy (explode a) -> mem_sym sy (r_nodes (g_reg g)) = true.
Proof. exact extract_fields_registered. Qed.
Print Assumptions C05_registered_closed_under_fields.

(* minimum depths (default depth mode), for every hierarchy and EVERY iteration order of the symbol
   set: the reported distance of a class is a lower bound on the depth of every derivable program
   and, when finite, is attained by some derivable program (derivations with non-empty lists;
   possibly-empty lists are known finding F10) *)
Theorem C05_min_depth_exact : forall d order g,
  d_xdepth d = false -> perm_order order -> analyse d order = Ok g ->
  forall c n, dget (g_dist g) (SC c) = Some n ->
    (forall v, WT d (g_reg g) true (TSym c) v -> n <= vdepth v) /\
    (n < INF -> exists v, WT d (g_reg g) true (TSym c) v /\ vdepth v = n).
Proof. exact dist_exact. Qed.
Print Assumptions C05_min_depth_exact.

(* hence the analysis does not depend on the (address-dependent) iteration order of the symbol set *)
Theorem C05_order_independent : forall d order1 order2 g1 g2,
  d_xdepth d = false -> perm_order order1 -> perm_order order2 ->
  analyse d order1 = Ok g1 -> analyse d order2 = Ok g2 ->
  g_reg g1 = g_reg g2 /\
  forall c n1 n2, dget (g_dist g1) (SC c) = Some n1 -> dget (g_dist g2) (SC c) = Some n2 ->
                  (n1 < INF \/ n2 < INF) -> n1 = n2.
Proof. exact dist_order_independent. Qed.
Print Assumptions C05_order_independent.

(* recursive symbols: exactly the registered symbols that lie on a cycle of the "can contain"
   relation (productions of an abstract type, symbols mentioned by the fields of a production,
   looking through lists, annotations, unions and tuples) *)
Theorem C05_recursive_exact : forall d order g,
  analyse d order = Ok g ->
  forall s, In s (g_rec g) <-> (In s (r_nodes (g_reg g)) /\ reach_plus d (g_reg g) s s).
Proof. exact recursive_exact. Qed.
Print Assumptions C05_recursive_exact.

(* usable_grammar(): the list of symbols it collects and hands to the re-extraction is EXACTLY the set of symbols reachable
   from the start symbol by following the productions of abstract types and the (exploded) field types of productions -
   for every grammar and every fuel with which the search ends.  (What the re-extraction then registers in addition -
   the abstract parents of reachable productions - is known finding F35.) *)
Theorem C05_usable_symbols_exact : forall d g fuel cs,
  usable_bfs fuel d g [SC (d_start d)] [SC (d_start d)] = Ok cs ->
  forall s, In s cs <-> ureach d g (SC (d_start d)) s.
Proof. exact usable_symbols_exact. Qed.
Print Assumptions C05_usable_symbols_exact.

(* known finding F35 as a theorem about the model: usable_grammar() keeps an abstract parent that is not reachable *)
Theorem C05_usable_ancestor_refuted :
  exists g u, extract ex35 id_order = Ok g /\ usable g id_order = Ok u /\
    mem_sym (SC 2%nat) (r_nodes (g_reg u)) = true /\
    (forall cs, usable_bfs 40 (g_decl g) g [SC 0%nat] [SC 0%nat] = Ok cs -> mem_sym (SC 2%nat) cs = false).
Proof. exact usable_keeps_an_unreachable_ancestor. Qed.
Print Assumptions C05_usable_ancestor_refuted.

(* ---- non-vacuity: E -> Lit(int) | Neg(E) | Pair(tuple[E, int]) | Many(list[E] non-empty) ---- *)
Definition ex5 : decl :=
  mkDecl [ mkCls None true [] None;
           mkCls (Some 0%nat) false [TBase BInt] None;
           mkCls (Some 0%nat) false [TSym 0%nat] None;
           mkCls (Some 0%nat) false [TTuple [TSym 0%nat; TBase BInt]] None;
           mkCls (Some 0%nat) false [TAnn (TList (TSym 0%nat)) (MListSize 1 3 true)] None ]
         [0; 1; 2; 3; 4]%nat 0%nat false.

Example C05_nonvacuous :
  exists g, analyse ex5 id_order = Ok g /\
            dget (g_dist g) (SC 0%nat) = Some 1 /\ dget (g_dist g) (SC 3%nat) = Some 2 /\
            get_alts (r_alts (g_reg g)) 0%nat = Some [1; 2; 3; 4]%nat /\
            mem_sym (SC 0%nat) (g_rec g) = true /\ mem_sym (SC 1%nat) (g_rec g) = false.
Proof.
  destruct (analyse ex5 id_order) as [g|] eqn:E; [|vm_compute in E; discriminate].
  exists g. split; [reflexivity|]. vm_compute in E. inversion E; subst. vm_compute. repeat split.
Qed.
