(* C06 — Crossover recombines parental material; point mutation is local.
   Only statements closed by [exact]; Print Assumptions; non-vacuity example. *)
From GE Require Import Base Tape Grammar Synth Linear LinearProofs.
Open Scope Z_scope.

(* GE and stack crossover (one cut point drawn from any source, any cut range): for parents of equal
   length both children have that length, every gene of a child is the gene of one of the parents AT
   THE SAME LOCUS, and the children are complementary *)
Theorem C06_codons_crossover_loci : forall s top p1 p2 c1 c2 s',
  codons_crossover s top p1 p2 = Ok ((c1, c2), s') -> length p1 = length p2 ->
  length c1 = length p1 /\ length c2 = length p1 /\
  forall j, (nth_error c1 j = nth_error p1 j \/ nth_error c1 j = nth_error p2 j) /\
            (nth_error c2 j = nth_error p1 j \/ nth_error c2 j = nth_error p2 j) /\
            ((nth_error c1 j = nth_error p1 j /\ nth_error c2 j = nth_error p2 j) \/
             (nth_error c1 j = nth_error p2 j /\ nth_error c2 j = nth_error p1 j)).
Proof. exact codons_crossover_loci. Qed.
Print Assumptions C06_codons_crossover_loci.

(* GE and stack mutation: same length, at most one gene differs *)
Theorem C06_codons_mutate_local : forall s gl top dna m s',
  codons_mutate s gl top dna = Ok (m, s') ->
  length m = length dna /\ exists i, forall j, j <> i -> nth_error m j = nth_error dna j.
Proof. exact codons_mutate_local. Qed.
Print Assumptions C06_codons_mutate_local.

(* SGE and dSGE crossover (any key type with a decidable equality): the children have the keys of
   parent 1 and, under every key, one child holds the whole gene list of one parent and its sibling the
   other parent's *)
Theorem C06_keyed_crossover_loci : forall (K : Type) (keqb : K -> K -> bool) strict s p1 p2 c1 c2 s',
  keyed_crossover keqb strict s p1 p2 = Ok ((c1, c2), s') ->
  map fst c1 = map fst p1 /\ map fst c2 = map fst p1 /\
  Forall2 (fun e1 e2 => fst e1 = fst e2 /\
             exists a c, kfetch keqb strict p1 (fst e1) = Ok a /\ kfetch keqb strict p2 (fst e1) = Ok c /\
                         ((snd e1 = a /\ snd e2 = c) \/ (snd e1 = c /\ snd e2 = a))) c1 c2.
Proof. exact @keyed_crossover_loci. Qed.
Print Assumptions C06_keyed_crossover_loci.

(* SGE / dSGE mutation: same keys, same lengths, at most one gene of one key differs *)
Theorem C06_sge_mutate_local : forall (K : Type) (keqb : K -> K -> bool),
  (forall a b, keqb a b = true <-> a = b) ->
  forall s m m' s', sge_mutate keqb s m = Ok (m', s') -> one_gene_differs keqb m m'.
Proof. exact @sge_mutate_local. Qed.
Print Assumptions C06_sge_mutate_local.

Theorem C06_dsge_mutate_local : forall (K : Type) (keqb : K -> K -> bool),
  (forall a b, keqb a b = true <-> a = b) ->
  forall s m m' s', dsge_mutate keqb s m = Ok (m', s') -> m' = m \/ one_gene_differs keqb m m'.
Proof. exact @dsge_mutate_local. Qed.
Print Assumptions C06_dsge_mutate_local.

(* tree crossover, when it finds donor material: the child is a node of the start symbol's class that
   occurs in the other parent (the receiving parent's root is the replaced subtree).  When it finds
   none (abstract start symbol) the children are fresh random trees: known finding F13. *)
Theorem C06_tree_child_from_donor : forall fuel g k donor rctx st v st',
  subnodes (d_start (g_decl g)) donor <> [] ->
  tree_cross_child fuel g k donor rctx st = (Ok v, st') -> In v (subnodes (d_start (g_decl g)) donor).
Proof. exact tree_cross_child_is_donor_subtree. Qed.
Print Assumptions C06_tree_child_from_donor.

Example C06_nonvacuous :
  codons_crossover (Native [DI 2]) 3 [1; 2; 3; 4] [5; 6; 7; 8] = Ok (([1; 2; 7; 8], [5; 6; 3; 4]), Native []) /\
  codons_mutate (Native [DI 1; DI 99]) 4 maxsize [1; 2; 3; 4] = Ok ([1; 99; 3; 4], Native []) /\
  keyed_crossover Nat.eqb true (Native [DI 0; DI 1]) [(0%nat, [1; 2]); (1%nat, [3])] [(0%nat, [7; 8]); (1%nat, [9])] =
    Ok (([(0%nat, [1; 2]); (1%nat, [9])], [(0%nat, [7; 8]); (1%nat, [3])]), Native []).
Proof. repeat split; reflexivity. Qed.
