(* C07 — Genotype-to-phenotype mapping is a pure function of the genotype.
   Only statements closed by [exact]; Print Assumptions; non-vacuity example. *)
From GE Require Import Base Tape Grammar WellTyped Synth Linear SynthFrame SynthGenes DnaExtends DsgeReplay KnownRefuted.
Open Scope Z_scope.

(* GE: for every grammar, decider (grow, full, PI-grow, progressive), genotype and fuel, the mapping
   consults nothing but the genotype's own codons: in the final state (whether a program was produced,
   the run failed or backtracked) the random source is still a reader over exactly the same gene list.
   The shared search stream is not even an argument of the mapping: ge_map is a function of
   (grammar, decider parameters, genes). *)
Theorem C07_ge_map_reads_only_genes : forall fuel g kd dna, tree_decider kd ->
  over_genes KGE dna (st_src (snd (ge_map fuel g kd dna))).
Proof. exact ge_map_reads_only_genes. Qed.
Print Assumptions C07_ge_map_reads_only_genes.

(* structured GE likewise (all draws go to the infrastructure key's gene list) *)
Theorem C07_sge_map_reads_only_genes : forall fuel g kd infra, tree_decider kd ->
  over_genes KSGE infra (st_src (snd (sge_map fuel g kd infra))).
Proof. exact sge_map_reads_only_genes. Qed.
Print Assumptions C07_sge_map_reads_only_genes.

(* the invariant behind both, for any gene-backed source and any call of create_node *)
Theorem C07_create_node_over_genes : forall k dna fuel g kd, tree_decider kd ->
  forall t ctx deps st, over_genes k dna (st_src st) ->
  over_genes k dna (st_src (snd (create_node fuel g kd t ctx deps st))).
Proof. exact create_node_genes. Qed.
Print Assumptions C07_create_node_over_genes.

(* dynamic SGE (partial): a decision that falls inside the genes the genotype already has draws nothing
   from the shared source and leaves the genes untouched; only decisions beyond the end of a gene list
   extend it from the shared source — the permitted side effect *)
Theorem C07_dsge_read_inside : forall k st n l,
  tget (st_pos st) k = Some n -> tget (st_dna st) k = Some l -> (n < length l)%nat ->
  exists v, nth_error l n = Some v /\
            dsge_read k st = (Ok v, mkSt (st_src st) (st_exp st) (tset (st_pos st) k (S n)) (st_dna st) (st_alts st)).
Proof. exact dsge_read_inside. Qed.
Print Assumptions C07_dsge_read_inside.

Example C07_nonvacuous :
  exists g, extract (mkDecl [mkCls None true [] None; mkCls (Some 0%nat) false [TBase BInt] None;
                             mkCls (Some 0%nat) false [TSym 0%nat; TSym 0%nat] None] [0; 1; 2]%nat 0%nat false) id_order = Ok g /\
    exists v st', ge_map 60 g (DMax 3) [7; 3; 4; 9; 2] = (Ok v, st') /\ over_genes KGE [7; 3; 4; 9; 2] (st_src st') /\ (3 <= value_size v)%nat.
Proof.
  eexists. split; [vm_compute; reflexivity|]. eexists. eexists. split; [vm_compute; reflexivity|].
  split; [eexists; reflexivity | vm_compute; lia].
Qed.
(* "the only permitted side effect being dynamic SGE's on-demand extension of the genotype itself": whatever the grammar,
   the decider, the state and the outcome (success, failure, internal backtracking), a run of create_node leaves every
   gene list of the genotype carried in the state as a PREFIX of what it is afterwards - genes are only ever appended
   (by dSGE's reads), never rewritten, reordered or dropped *)
Theorem C07_mapping_only_extends_the_genotype : forall fuel g k t ctx deps st,
  dna_ext st (snd (create_node fuel g k t ctx deps st)).
Proof. exact create_node_extends_dna. Qed.
Print Assumptions C07_mapping_only_extends_the_genotype.

(* dynamic SGE, hierarchies without refined fields (plain_decl; with refined fields the mapping draws from the shared
   stream on every call: known finding F15): mapping the genotype as an earlier mapping left it returns the SAME
   program, draws NOTHING from whatever source it is handed, and leaves the genotype unchanged - for every grammar,
   depth limit, genotype, source and fuel (relational replay of every gene read, abandoned attempts included) *)
Theorem C07_dsge_mapping_is_idempotent : forall fuel g D s dna v st1,
  plain_decl (g_decl g) = true ->
  dsge_map fuel g D s dna = (Ok v, st1) ->
  forall s', exists st2, dsge_map fuel g D s' (st_dna st1) = (Ok v, st2) /\ st_src st2 = s' /\ st_dna st2 = st_dna st1.
Proof. exact dsge_map_idempotent. Qed.
Print Assumptions C07_dsge_mapping_is_idempotent.

(* known finding F15 as a theorem about the model: with a refined field the same dSGE genotype maps to different programs
   depending on the source handed to the mapping, and the mapping consumes that source *)
Theorem C07_dsge_refined_refuted :
  exists dna,
    fst (dsge_map 60 g15 3 (Native [DI 3]) dna) = Ok (VNode 1%nat [VInt 3]) /\
    fst (dsge_map 60 g15 3 (Native [DI 7]) dna) = Ok (VNode 1%nat [VInt 7]) /\
    st_src (snd (dsge_map 60 g15 3 (Native [DI 7; DI 5]) dna)) = Native [DI 5].
Proof. exact dsge_refined_mapping_depends_on_the_source. Qed.
Print Assumptions C07_dsge_refined_refuted.

