(* C08 — Same seed, same search: results are reproducible within and across processes.
   The logical part: everything the library computes from a grammar is independent of the (memory-address
   dependent) iteration order of its symbol set, and mapping is a function of the genotype.  The runtime
   part (which sites iterate sets, what separate processes do) is scanned and observed by the check. *)
From GE Require Import Base Tape Grammar Synth Linear DistProofs WeightProofs SynthGenes.
Open Scope Z_scope.

(* for every class hierarchy and ANY two iteration orders of the symbol set (default depth mode): same
   registered symbols and productions (in the same order), same recursive set, same declarations, same
   finite minimum depths *)
Theorem C08_analysis_order_independent : forall d order1 order2 g1 g2,
  d_xdepth d = false -> perm_order order1 -> perm_order order2 ->
  analyse d order1 = Ok g1 -> analyse d order2 = Ok g2 ->
  g_reg g1 = g_reg g2 /\ g_rec g1 = g_rec g2 /\ g_decl g1 = g_decl g2 /\
  forall c n1 n2, dget (g_dist g1) (SC c) = Some n1 -> dget (g_dist g2) (SC c) = Some n2 ->
                  (n1 < INF \/ n2 < INF) -> n1 = n2.
Proof. exact analysis_order_independent. Qed.
Print Assumptions C08_analysis_order_independent.

(* registration itself never consults the weights or any set order: the registered structure depends
   only on the shape of the classes *)
Theorem C08_registration_depends_on_shape_only : forall d d', shape_eq d d' ->
  forall fuel t s, reg fuel d t s = reg fuel d' t s.
Proof. exact reg_shape. Qed.
Print Assumptions C08_registration_depends_on_shape_only.

(* mapping a GE / SGE genotype consults only its genes (no hidden state, no shared stream) *)
Theorem C08_mapping_has_no_hidden_input : forall fuel g kd dna, tree_decider kd ->
  over_genes KGE dna (st_src (snd (ge_map fuel g kd dna))).
Proof. exact ge_map_reads_only_genes. Qed.
Print Assumptions C08_mapping_has_no_hidden_input.
