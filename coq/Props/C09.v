(* C09 — Operators and steps never modify their inputs.
   In the model every operator is a function from input values to output values, so an operator cannot
   alter its arguments; what the theorems add is the exact footprint on the operator state that
   persists between operations.  Aliasing between Python objects is observed by the check (deep
   snapshots around every operation), not proved. *)
From GE Require Import Base Tape Grammar Synth Linear SynthFrame LinearProofs DnaExtends.
Open Scope Z_scope.

(* creation, mutation and crossover of trees leave the grammar's productions as they were (shared by
   all individuals and all later operations) *)
Theorem C09_tree_ops_keep_productions : forall fuel g k t ctx deps st,
  st_alts (snd (create_node fuel g k t ctx deps st)) = st_alts st.
Proof. exact create_node_keeps. Qed.
Print Assumptions C09_tree_ops_keep_productions.

(* a mutated codon genotype is a new list; all loci but one are those of the parent (the parent is a
   value: it is the same list before and after) *)
Theorem C09_mutation_result_is_new_value : forall s gl top dna m s',
  codons_mutate s gl top dna = Ok (m, s') ->
  length m = length dna /\ exists i, forall j, j <> i -> nth_error m j = nth_error dna j.
Proof. exact codons_mutate_local. Qed.
Print Assumptions C09_mutation_result_is_new_value.

(* the donor of a tree crossover is returned as it is (shared, not rebuilt): the child is an element of
   the donor's own sub-nodes *)
Theorem C09_tree_child_shares_donor_node : forall fuel g k donor rctx st v st',
  subnodes (d_start (g_decl g)) donor <> [] ->
  tree_cross_child fuel g k donor rctx st = (Ok v, st') -> In v (subnodes (d_start (g_decl g)) donor).
Proof. exact tree_cross_child_is_donor_subtree. Qed.
Print Assumptions C09_tree_child_shares_donor_node.
(* a genotype handed to a mapping is never rewritten: whatever create_node does (any decider, any outcome), every gene list
   in the state before the run is a prefix of the corresponding list after it *)
Theorem C09_genes_are_never_rewritten : forall fuel g k t ctx deps st kk l,
  tget (st_dna st) kk = Some l ->
  exists l', tget (st_dna (snd (create_node fuel g k t ctx deps st))) kk = Some (l ++ l').
Proof. exact create_node_extends_dna. Qed.
Print Assumptions C09_genes_are_never_rewritten.

