(* C10 — The grammar is read-only during synthesis and search.
   Only statements closed by [exact]; Print Assumptions; non-vacuity example. *)
From GE Require Import Base Tape Grammar Synth SynthFrame WellTyped Sat Linear DistProofs SynthSat SynthDepth MapProofs.
Open Scope Z_scope.

(* one call of create_node — any type, context, sibling values, decider (grow, full, PI-grow,
   progressive, dynamic SGE), random source state, fuel — whether it returns a program, fails, or
   backtracks over productions internally: the productions in the final state are those of the
   initial state *)
Theorem C10_create_node_keeps_productions : forall fuel g k t ctx deps st,
  st_alts (snd (create_node fuel g k t ctx deps st)) = st_alts st.
Proof. exact create_node_keeps. Qed.
Print Assumptions C10_create_node_keeps_productions.

(* any number of operations, each starting from whatever state the previous one left behind
   (including failed ones): the set of programs creatable from the grammar neither shrinks nor grows *)
Theorem C10_sequences_keep_productions : forall fuel g k reqs st,
  st_alts (run_creations fuel g k reqs st) = st_alts st.
Proof. exact creations_keep. Qed.
Print Assumptions C10_sequences_keep_productions.

(* the deciders only read: choosing a production never writes the productions *)
Theorem C10_choose_keeps_productions : forall g k key alts ctx st,
  st_alts (snd (choose g k key alts ctx st)) = st_alts st.
Proof. exact keeps_choose. Qed.
Print Assumptions C10_choose_keeps_productions.

(* mapping a genotype (GE, structured GE, dynamic structured GE) and tree mutation / crossover leave the productions as they were,
   whatever the genotype, decider, source and outcome *)
Theorem C10_mapping_and_variation_keep_productions : forall fuel g,
  (forall k dna, st_alts (snd (ge_map fuel g k dna)) = r_alts (g_reg g)) /\
  (forall k infra, st_alts (snd (sge_map fuel g k infra)) = r_alts (g_reg g)) /\
  (forall D s dna, st_alts (snd (dsge_map fuel g D s dna)) = r_alts (g_reg g)) /\
  (forall k rctx st, st_alts (snd (tree_mutate fuel g k rctx st)) = st_alts st) /\
  (forall k donor rctx st, st_alts (snd (tree_cross_child fuel g k donor rctx st)) = st_alts st).
Proof. exact mappings_keep_productions. Qed.
Print Assumptions C10_mapping_and_variation_keep_productions.

(* ---- non-vacuity: a run that backtracks (the dependent refinement VarRange(sibling list) is
   infeasible for the empty list) and still returns a program, productions untouched ---- *)
Definition ex10 : decl :=
  mkDecl [ mkCls None true [] None;
           mkCls (Some 0%nat) false [TAnn (TList (TAnn (TBase BInt) (MIntRange 0 3))) (MListSize 0 1 true);
                                     TAnn (TBase BInt) (MDependent [0%nat] DVarRangeOf)] None;
           mkCls (Some 0%nat) false [TBase BInt] None ]
         [0; 1; 2]%nat 0%nat false.

Example C10_nonvacuous :
  exists g v st', extract ex10 id_order = Ok g /\
    create_node 50 g (DMax 3) (TSym 0%nat) ctx0 [] (st_init g (Native [DI 0; DI 0; DI 0; DI 7; DI 1; DI 0])) = (Ok v, st') /\
    v = VNode 2%nat [VInt 7] /\ st_alts st' = [(0, [1; 2])]%nat.
Proof.
  destruct (extract ex10 id_order) as [g|] eqn:E; [|vm_compute in E; discriminate].
  exists g. vm_compute in E. inversion E; subst. eexists. eexists. split; [reflexivity|].
  vm_compute. repeat split.
Qed.
