(* C11 — Per-node size and depth metadata matches the actual program structure.
   Only statements closed by [exact]; Print Assumptions; non-vacuity example. *)
From GE Require Import Base Grammar Labels LabelSpec LabelProofs.
Open Scope Z_scope.

(* default depth mode: for EVERY program whose nodes have arguments exactly when their class is a
   non-terminal of the grammar (and whose tuples hold base values only), the metadata relabel_nodes
   computes for it — node count, distance to the deepest terminal, weighted size — is what the
   independent traversal of Spec/LabelSpec.v computes *)
Theorem C11_relabel_matches_structure : forall d r, d_xdepth d = false ->
  forall v, shape_ok r v -> relabel d r v = Ok (spec_of v).
Proof. exact relabel_spec. Qed.
Print Assumptions C11_relabel_matches_structure.

(* ... at EVERY node and every list of the program (nodes nested inside lists included) *)
Theorem C11_every_node : forall d r, d_xdepth d = false ->
  forall v, shape_ok r v ->
  Forall2 (fun l u => l = Ok (spec_of u)) (all_labels d r v)
          ((fix subs (v : value) : list value :=
              let fix go (l : list value) : list value := match l with [] => [] | x :: t => subs x ++ go t end in
              match v with VNode _ args => v :: go args | VList vs => v :: go vs | _ => [] end) v).
Proof. exact all_labels_spec. Qed.
Print Assumptions C11_every_node.

(* known finding F40: a node inside a tuple field is invisible to its ancestors' metadata *)
Theorem C11_tuple_refuted : forall d r, d_xdepth d = false ->
  d_xdepth d = false -> mem_sym (SC 1%nat) (r_nonterm r) = true -> mem_sym (SC 2%nat) (r_nonterm r) = true ->
  let inner := VNode 2%nat [VInt 0] in
  let v := VNode 1%nat [VTuple [inner; VInt 3]] in
  relabel d r v = Ok (mkLab 1 1 1) /\ spec_of v = mkLab 2 2 3.
Proof. exact relabel_tuple_refuted. Qed.
Print Assumptions C11_tuple_refuted.

(* ---- non-vacuity: Plus(Lit, Many([Lit, Neg(Lit)])) with terminal Lit ---- *)
Example C11_nonvacuous :
  let r := mkR [SC 0; SC 1; SC 2; SC 3; SC 4]%nat [] [SC 1%nat] [SC 0; SC 2; SC 3; SC 4]%nat in
  let d := mkDecl [] [] 0%nat false in
  let v := VNode 2%nat [VNode 1%nat []; VNode 3%nat [VList [VNode 1%nat []; VNode 4%nat [VNode 1%nat []]]]] in
  shape_ok r v /\ spec_of v = mkLab 3 3 6.
Proof. simpl. repeat split; intros; try discriminate; try congruence. Qed.
