(* C12 — The reported best individual really is the best one evaluated.
   Statements only (proofs in Proofs/TrackerProofs.v). *)
From GE Require Import Base Search TrackerProofs.
Open Scope Z_scope.

(* [better pid s i j]: i is strictly better than j in the fitness table s (agg j < agg i). *)

(* single-objective tracker, any history l presented against a fitness table s *)
Theorem C12_so_best_inv : forall pid s l tr, so_posts pid s so0 l = Ok tr -> l <> [] ->
  exists b, so_best tr = Some b /\ In b l /\ forall x, In x l -> ~ better pid s x b.
Proof. exact so_best_inv. Qed.
Print Assumptions C12_so_best_inv.

(* recorders are told "new best" exactly for the first individual and for strict improvements
   on all earlier ones *)
Theorem C12_so_flags : forall pid s l tr, so_posts pid s so0 l = Ok tr ->
  rev (so_rec tr) = so_flags_from pid s [] l.
Proof. exact so_flags. Qed.
Print Assumptions C12_so_flags.

Theorem C12_so_posts_total : forall pid s l, evaluated pid s l -> exists tr, so_posts pid s so0 l = Ok tr.
Proof. exact so_posts_total. Qed.
Print Assumptions C12_so_posts_total.

(* multi-objective tracker: every reported best attains the best aggregate seen so far *)
Theorem C12_mo_front_inv : forall pid s l tr, mo_posts pid s mo0 l = Ok tr -> l <> [] ->
  front tr <> [] /\ forall b, In b (front tr) -> In b l /\ forall x, In x l -> ~ better pid s x b.
Proof. exact mo_front_inv. Qed.
Print Assumptions C12_mo_front_inv.

Theorem C12_mo_flags : forall pid s l tr, mo_posts pid s mo0 l = Ok tr ->
  rev (mo_rec tr) = mo_flags_from pid s [] l.
Proof. exact mo_flags. Qed.
Print Assumptions C12_mo_flags.

Theorem C12_mo_posts_total : forall pid s l, evaluated pid s l -> exists tr, mo_posts pid s mo0 l = Ok tr.
Proof. exact mo_posts_total. Qed.
Print Assumptions C12_mo_posts_total.

(* whole runs: any sequence of tracker.evaluate calls with either evaluator *)
Theorem C12_so_run_posts : forall pid ff p e tr batches e' tr',
  so_run pid ff p e tr batches = Ok (e', tr') -> so_posts pid (st e') tr (concat (map snd batches)) = Ok tr'.
Proof. exact so_run_posts. Qed.
Print Assumptions C12_so_run_posts.

Theorem C12_mo_run_posts : forall pid ff p e tr batches e' tr',
  mo_run pid ff p e tr batches = Ok (e', tr') -> mo_posts pid (st e') tr (concat (map snd batches)) = Ok tr'.
Proof. exact mo_run_posts. Qed.
Print Assumptions C12_mo_run_posts.

(* at every point of a run: the reported best was evaluated, and no individual whose fitness was
   computed so far is strictly better *)
Theorem C12_so_run_best : forall pid ff p batches e' tr',
  so_run pid ff p ev0 so0 batches = Ok (e', tr') -> concat (map snd batches) <> [] ->
  exists b, so_best tr' = Some b /\ In b (concat (map snd batches)) /\
            forall k, In k (calls e') -> ~ better pid (st e') (fst k) b.
Proof. exact so_run_best. Qed.
Print Assumptions C12_so_run_best.

Theorem C12_mo_run_best : forall pid ff p batches e' tr',
  mo_run pid ff p ev0 mo0 batches = Ok (e', tr') -> concat (map snd batches) <> [] ->
  front tr' <> [] /\ forall b, In b (front tr') -> In b (concat (map snd batches)) /\
            forall x, In x (concat (map snd batches)) -> ~ better pid (st e') x b.
Proof. exact mo_run_best. Qed.
Print Assumptions C12_mo_run_best.

Theorem C12_so_run_calls : forall pid ff p batches e' tr',
  so_run pid ff p ev0 so0 batches = Ok (e', tr') ->
  forall k, In k (calls e') -> In (fst k) (concat (map snd batches)) /\ snd k = pid.
Proof. exact so_run_calls. Qed.
Print Assumptions C12_so_run_calls.

(* non-vacuity: a history with a tie and a late improvement, minimising *)
Definition ex12_ff (i : N) : list Q := nth (N.to_nat i) [[3]; [1]; [1]; [0]; [2]]%Q [].
Example C12_ex : exists e tr, so_run 0%N ex12_ff (SO true) ev0 so0 [(false, [0; 1]%N); (false, [2; 3; 4]%N)] = Ok (e, tr) /\
  so_best tr = Some 3%N /\ rev (so_rec tr) = [(0, true); (1, true); (2, false); (3, true); (4, false)]%N.
Proof. eexists; eexists; split; [vm_compute; reflexivity|split; reflexivity]. Qed.
