(* C13 — Fitness is computed from the phenotype, once, and counted honestly; the parallel
   evaluator agrees with the sequential one.  Statements only (proofs in Proofs/EvalProofs.v). *)
From GE Require Import Base Search EvalProofs.
From Coq Require Import Permutation.
Open Scope Z_scope.

(* [reach ff probs e]: e is reachable from the initial evaluator state by any sequence of calls of
   either evaluator on any batches (duplicates, re-presented individuals), for any problems sharing
   the individuals, the parallel evaluator invoking the fitness function in any order. *)

Theorem C13_cache_correct : forall ff probs e, reach ff probs e ->
  forall i pid f, lookup (st e) (i, pid) = Some f -> exists n, evaluate (probs pid) (ff i) = Ok (f, n).
Proof. exact cache_correct. Qed.
Print Assumptions C13_cache_correct.

Theorem C13_count_honest : forall ff probs e, reach ff probs e -> count e = zlen (calls e).
Proof. exact count_honest. Qed.
Print Assumptions C13_count_honest.

Theorem C13_once : forall ff probs e, reach ff probs e -> NoDup (calls e).
Proof. exact once. Qed.
Print Assumptions C13_once.

Theorem C13_calls_iff_cached : forall ff probs e, reach ff probs e ->
  forall k, In k (calls e) <-> has_fit (st e) k = true.
Proof. exact calls_iff_cached. Qed.
Print Assumptions C13_calls_iff_cached.

Theorem C13_par_eq_seq : forall ff probs e pid o b e1 e2,
  Permutation o (par_todo pid e b) ->
  eval_par ff (probs pid) pid o e b = Ok e1 ->
  eval_seq ff (probs pid) pid e b = Ok e2 ->
  count e1 = count e2 /\ (forall k, lookup (st e1) k = lookup (st e2) k) /\ Permutation (calls e1) (calls e2).
Proof. exact par_eq_seq. Qed.
Print Assumptions C13_par_eq_seq.

Theorem C13_par_seq_same_failures : forall ff probs e pid o b,
  is_ok (eval_par ff (probs pid) pid o e b) = is_ok (eval_seq ff (probs pid) pid e b).
Proof. exact par_seq_same_failures. Qed.
Print Assumptions C13_par_seq_same_failures.

(* the aggregate used for comparisons: the value when maximising, its negation when minimising,
   the sum of the components with the minimised ones negated for multi-objective problems *)
Theorem C13_aggregate_single : forall (v : Q) (m : bool),
  evaluate (SO m) [v] = Ok (mkFit (if m then (- v)%Q else v) [v], 1).
Proof. exact aggregate_single. Qed.
Print Assumptions C13_aggregate_single.

Theorem C13_aggregate_multi_default : forall (raw : list Q) (bs : list bool),
  evaluate (MO (MinList bs) AggDefault) raw = Ok (mkFit (merge_list raw bs) raw, 1).
Proof. exact aggregate_multi_default. Qed.
Print Assumptions C13_aggregate_multi_default.

Theorem C13_merge_list_spec : forall (raw : list Q) (bs : list bool), length raw = length bs ->
  (merge_list raw bs == qsum (map (fun fm : Q * bool => if snd fm then - fst fm else fst fm) (combine raw bs)))%Q.
Proof. exact merge_list_spec. Qed.
Print Assumptions C13_merge_list_spec.

Theorem C13_aggregate_multi_bool : forall (raw : list Q) (b : bool),
  evaluate (MO (MinBool b) AggDefault) raw = Ok (mkFit (qsum (map (fun f : Q => if b then (- f)%Q else f) raw)) raw, 1).
Proof. exact aggregate_multi_bool. Qed.
Print Assumptions C13_aggregate_multi_bool.

(* non-vacuity: a reachable state with a duplicate in the batch, a re-presented individual, two
   problems, and a parallel call *)
Definition ex_ff (i : N) : list Q := if N.eqb i 0 then [1; 2]%Q else [3; -1]%Q.
Definition ex_probs (pid : N) : problem := if N.eqb pid 0 then MO (MinList [true; false]) AggDefault else MO (MinBool true) AggDefault.
Example C13_ex_reach :
  exists e, reach ex_ff ex_probs e /\ count e = 3 /\ length (st e) = 3%nat.
Proof.
  eexists. split.
  - eapply reach_par with (pid := 1%N) (b := [1; 1]%N) (o := [1%N]).
    + eapply reach_seq with (pid := 0%N) (b := [0; 1; 0]%N). apply reach0. vm_compute. reflexivity.
    + vm_compute. apply Permutation_refl.
    + vm_compute. reflexivity.
  - vm_compute. split; reflexivity.
Qed.
