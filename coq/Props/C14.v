(* C14 — Searches terminate and stop at the first budget check after the budget is met.
   Statements only (proofs in Proofs/LoopProofs.v). *)
From GE Require Import Base Search LoopProofs.
Open Scope Z_scope.

(* [ff_ok]: the user's fitness function returns something the problem accepts for every program *)

Theorem C14_rs_stops : forall ff p pid,
  (forall i, exists f, evaluate p (ff i) = Ok (f, 1)) ->
  forall n tr0 fuel, 0 <= n -> (Z.to_nat n < fuel)%nat -> fresh_tracker tr0 ->
  exists s, rs_loop ff p pid fuel (EvalBudget n) (s_init tr0) = Ok s /\
            count (s_ev s) = n /\ s_checks s = (n, true) :: countdown (Z.to_nat n).
Proof. exact rs_stops. Qed.
Print Assumptions C14_rs_stops.

Theorem C14_hc_stops : forall ff p pid,
  (forall i, exists f, evaluate p (ff i) = Ok (f, 1)) ->
  forall n m tr0 fuel, 1 <= n -> (1 <= m)%nat -> (Z.to_nat n < fuel)%nat -> fresh_tracker tr0 ->
  exists s, hc_loop ff p pid fuel (EvalBudget n) m true (s_init tr0) = Ok s /\
            n <= count (s_ev s) < n + Z.of_nat m.
Proof. exact hc_stops. Qed.
Print Assumptions C14_hc_stops.

Theorem C14_gp_stops : forall ff p pid,
  (forall i, exists f, evaluate p (ff i) = Ok (f, 1)) ->
  forall n P init gens tr0,
  1 <= n -> (1 <= P)%nat -> fresh_tracker tr0 ->
  length init = P -> Forall (fun g => length g = P) gens ->
  progressive init gens -> (Z.to_nat n <= length gens)%nat ->
  exists s, gp_search ff p pid false (EvalBudget n) init gens tr0 = Ok s /\
            n <= count (s_ev s) < n + Z.of_nat P.
Proof. exact gp_stops. Qed.
Print Assumptions C14_gp_stops.

(* every loop, every budget: it stops at the FIRST check that answers "done" *)
Theorem C14_rs_first_check : forall ff p pid fuel b s0 s,
  Forall (fun x => snd x = false) (s_checks s0) ->
  rs_loop ff p pid fuel b s0 = Ok s -> first_done (s_checks s) /\ is_done pid b (s_ev s) (s_tr s) = Ok true.
Proof. exact rs_first_check. Qed.
Print Assumptions C14_rs_first_check.

Theorem C14_hc_first_check : forall ff p pid fuel b m first s0 s,
  Forall (fun x => snd x = false) (s_checks s0) ->
  hc_loop ff p pid fuel b m first s0 = Ok s -> first_done (s_checks s) /\ is_done pid b (s_ev s) (s_tr s) = Ok true.
Proof. exact hc_first_check. Qed.
Print Assumptions C14_hc_first_check.

Theorem C14_gp_first_check : forall ff p pid par b gens s0 s,
  Forall (fun x => snd x = false) (s_checks s0) ->
  gp_loop ff p pid par b gens s0 = Ok s -> first_done (s_checks s) /\ is_done pid b (s_ev s) (s_tr s) = Ok true.
Proof. exact gp_first_check. Qed.
Print Assumptions C14_gp_first_check.

(* the exact boundary of the claim (known finding F23): without progress GP never terminates *)
Theorem C14_gp_no_progress_refuted : forall ff p pid,
  (forall i, exists f, evaluate p (ff i) = Ok (f, 1)) ->
  forall k, gp_search ff p pid false (EvalBudget 2) [0%N] (repeat [0%N] k) (TSO so0) = Err OutOfFuel.
Proof. exact gp_no_progress_refuted. Qed.
Print Assumptions C14_gp_no_progress_refuted.

Theorem C14_eval_budget_spec : forall pid n e tr, is_done pid (EvalBudget n) e tr = Ok (n <=? count e).
Proof. exact eval_budget_spec. Qed.
Print Assumptions C14_eval_budget_spec.

Theorem C14_anyof_spec : forall pid a b e tr,
  is_done pid (AnyOf a b) e tr = Ok true <->
  is_done pid a e tr = Ok true \/ (is_done pid a e tr = Ok false /\ is_done pid b e tr = Ok true).
Proof. exact anyof_spec. Qed.
Print Assumptions C14_anyof_spec.

Theorem C14_target_spec : forall pid t e tt,
  is_done pid (TargetFit t) e (TSO tt) = Ok true <->
  exists b f c rest, so_best tt = Some b /\ lookup (st e) (b, pid) = Some f /\ comps f = c :: rest /\
                     (Qabs_ (c - t) < 1 # 10000)%Q.
Proof. exact target_spec. Qed.
Print Assumptions C14_target_spec.

(* non-vacuity *)
Example C14_ex_hc : exists s, hc_loop (fun i => [inject_Z (Z.of_N i)]) (SO false) 0%N 100 (EvalBudget 7) 3 true (s_init (TSO so0)) = Ok s /\ count (s_ev s) = 7.
Proof. eexists; split; [vm_compute; reflexivity|reflexivity]. Qed.
Example C14_ex_gp : exists s, gp_search (fun i => [inject_Z (Z.of_N i)]) (SO true) 0%N false (EvalBudget 4) [0; 1]%N [[1; 2]; [2; 3]; [3; 4]]%N (TSO so0) = Ok s /\ count (s_ev s) = 4.
Proof. eexists; split; [vm_compute; reflexivity|reflexivity]. Qed.
