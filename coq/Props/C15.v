(* C15 — Population size is invariant across generations and step compositions.
   Statements only (proofs in Proofs/StepsProofs.v). *)
From GE Require Import Base Tape Search Steps StepsProofs.
Open Scope Z_scope.

(* Each built-in step and combinator, asked for k individuals and given a population of at least
   k, yields exactly k: for EVERY step tree (any nesting depth), every weight vector with
   non-negative weights and positive total (however the shares round), every size. *)
Theorem C15_out_len_exact : forall mo s,
  wf_step s -> (uses_lexicase s = true -> mo = true) ->
  forall n k, 0 <= k <= n -> out_len mo s n k = Ok k.
Proof. exact out_len_exact. Qed.
Print Assumptions C15_out_len_exact.

(* every generation of a GP run has the configured population size *)
Theorem C15_gp_generation_size : forall mo s P,
  wf_step s -> (uses_lexicase s = true -> mo = true) -> 0 <= P -> out_len mo s P P = Ok P.
Proof. exact gp_generation_size. Qed.
Print Assumptions C15_gp_generation_size.

(* the slices of a parallel combinator always form a chain 0 = a0 <= b0 = a1 <= ... <= b_last = k *)
Theorem C15_ranges_chain : forall ws n k,
  ws <> [] -> Forall (fun w => (0 <= w)%Q) ws -> (0 < qsum ws)%Q -> 0 <= n -> 0 <= k ->
  exists rs, ranges ws n k = Ok rs /\ length rs = length ws /\ chain 0 rs k.
Proof. exact ranges_chain. Qed.
Print Assumptions C15_ranges_chain.

(* initialisers, including injected populations of every length *)
Theorem C15_init_len_exact : forall i k, wf_init i -> 0 <= k -> init_len i k = k.
Proof. exact init_len_exact. Qed.
Print Assumptions C15_init_len_exact.

(* non-vacuity: the default GP step at a population size whose shares round to 0/0/9, a tree of
   nesting depth 3 with over-shooting shares, an injected population shorter than the target *)
Definition default_step : step :=
  SPar [SElitism; SNovelty; SSeq [STournament 5 false; SCrossover; SMutation]] [5; 5; 90]%Q.
Example C15_ex_default : wf_step default_step /\ out_len false default_step 9 9 = Ok 9.
Proof.
  split; [|vm_compute; reflexivity].
  simpl. repeat split; try discriminate; try lia; auto; try reflexivity; repeat constructor; discriminate.
Qed.
Example C15_ex_overshoot : out_len false (SSeq [SIdentity; SPar [SNovelty; SExcl [SMutation; SElitism] [1; 1]%Q; SNovelty; SNovelty] [1; 1; 1; 1]%Q]) 6 6 = Ok 6.
Proof. vm_compute. reflexivity. Qed.
Example C15_ex_inject : init_len (IInject 2 IStandard) 5 = 5 /\ init_len (IInject 0 IFull) 3 = 3 /\ init_len (IInject 9 IGrow) 4 = 4.
Proof. vm_compute. repeat split. Qed.
