(* C16 — Elitism keeps the best: top-k selection and monotone best fitness.
   Statements only (proofs in Proofs/SelectProofs.v). *)
From GE Require Import Base Tape Search Steps SelectProofs.
From Coq Require Import Permutation.
Open Scope Z_scope.

(* [sbetter s pid y x]: y is strictly better than x (agg x < agg y) in the fitness caches s *)

Theorem C16_elitism_length : forall s pid pop k out,
  elitism s pid pop k = Ok out -> 0 <= k -> zlen out = Z.min k (zlen pop).
Proof. exact elitism_length. Qed.
Print Assumptions C16_elitism_length.

(* the output is a sub-multiset of the population and no excluded individual is strictly better
   than an included one — for every population (ties, the same individual twice), both directions
   (the direction is inside the maximising aggregate), every elite count *)
Theorem C16_elitism_topk : forall s pid pop k out,
  elitism s pid pop k = Ok out -> 0 <= k ->
  exists rest, Permutation pop (out ++ rest) /\ forall x y, In x out -> In y rest -> ~ sbetter s pid y x.
Proof. exact elitism_topk. Qed.
Print Assumptions C16_elitism_topk.

Theorem C16_elitism_keeps_best : forall s pid pop k out,
  elitism s pid pop k = Ok out -> 1 <= k -> forall y, In y pop -> exists x, In x out /\ ~ sbetter s pid y x.
Proof. exact elitism_keeps_best. Qed.
Print Assumptions C16_elitism_keeps_best.

(* the best fitness present never gets worse when the next generation contains the elitism slice
   (>= 1 slot), whatever the other slices produce *)
Theorem C16_best_monotone : forall s pid pop k out others,
  elitism s pid pop k = Ok out -> 1 <= k ->
  forall y, In y pop -> exists x, In x (out ++ others) /\ ~ sbetter s pid y x.
Proof. exact best_monotone. Qed.
Print Assumptions C16_best_monotone.

Theorem C16_elitism_total : forall s pid pop k,
  (forall i, In i pop -> exists f, lookup s (i, pid) = Some f) -> exists out, elitism s pid pop k = Ok out.
Proof. exact elitism_total. Qed.
Print Assumptions C16_elitism_total.

(* non-vacuity: ties, a duplicate individual, minimisation *)
Definition ex16_store : store :=
  [((0%N, 0%N), mkFit (-3) [3]%Q); ((1%N, 0%N), mkFit (-1) [1]%Q); ((2%N, 0%N), mkFit (-1) [1]%Q); ((3%N, 0%N), mkFit (-2) [2]%Q)].
Example C16_ex : elitism ex16_store 0%N [0; 1; 3; 2; 1]%N 3 = Ok [1; 2; 1]%N.
Proof. vm_compute. reflexivity. Qed.
