(* C17 — Selection operators are sound (tournament and lexicase).
   Statements only (proofs in Proofs/SelectProofs.v). *)
From GE Require Import Base Tape Search Steps SelectProofs.
From Coq Require Import Permutation.
Open Scope Z_scope.

(* for every random source state (all outcomes of the draws), every population and fitness table,
   tournament sizes from 1 up, with and without replacement, every target size: exactly k winners;
   each winner is one of the participants drawn for its tournament, the participants are members
   of the population, and no participant is strictly better than the winner *)
Theorem C17_tournament_sound : forall s pid k r pop cands size repl res r',
  tournament s pid k r pop cands size repl = Ok (res, r') -> incl cands pop ->
  length res = k /\
  Forall (fun wp => In (fst wp) (snd wp) /\ incl (snd wp) pop /\ length (snd wp) = size /\
                    forall p, In p (snd wp) -> ~ sbetter s pid p (fst wp)) res.
Proof. exact tournament_sound. Qed.
Print Assumptions C17_tournament_sound.

(* lexicase: winners are drawn from the population without replacement (never more copies than it
   contains); each is one of the candidates still available and survives the lexicase filter for
   the case order shuffled for that winner, which is a permutation of all cases *)
Theorem C17_lexicase_sound : forall s pid k r eps mins ncases cands res r',
  lexicase s pid k r eps mins ncases cands = Ok (res, r') ->
  length res = k /\
  (exists rest, Permutation cands (map (fun x => fst (fst x)) res ++ rest)) /\
  Forall (fun x => let '(w, avail, cases) := x in
                   incl avail cands /\ Permutation (nat_range ncases) cases /\
                   exists surv, lex_filter s pid eps mins avail cases = Ok surv /\ In w surv) res.
Proof. exact lexicase_sound. Qed.
Print Assumptions C17_lexicase_sound.

Theorem C17_lex_filter_incl : forall s pid eps mins cands cases surv,
  lex_filter s pid eps mins cands cases = Ok surv -> incl surv cands.
Proof. exact lex_filter_incl. Qed.
Print Assumptions C17_lex_filter_incl.

Theorem C17_lex_filter_nonempty : forall s pid eps mins cands cases surv,
  lex_filter s pid eps mins cands cases = Ok surv -> cands <> [] -> surv <> [].
Proof. exact lex_filter_nonempty. Qed.
Print Assumptions C17_lex_filter_nonempty.

(* a survivor passes the keep test of the first case among the candidates available ... *)
Theorem C17_lex_first_case : forall s pid eps mins cands c rest surv,
  lex_filter s pid eps mins cands (c :: rest) = Ok surv -> (2 <= length cands)%nat ->
  forall x, In x surv ->
  exists v vals m keep, comp_of s pid x c = Ok v /\ comps_of s pid cands c = Ok vals /\
                        nth_error mins c = Some m /\ lex_keep eps m vals = Ok keep /\ keep v = true.
Proof. exact lex_first_case. Qed.
Print Assumptions C17_lex_first_case.

(* ... which means "best on that case" in the case's direction, *)
Theorem C17_lex_keep_best : forall m vals keep v,
  lex_keep false m vals = Ok keep ->
  (keep v = true <-> forall u, In u vals -> if m then (v <= u)%Q else (u <= v)%Q).
Proof. exact lex_keep_best. Qed.
Print Assumptions C17_lex_keep_best.

(* ... or within the epsilon band, which always contains the best *)
Theorem C17_lex_keep_eps : forall m vals keep v,
  lex_keep true m vals = Ok keep ->
  (forall u, In u vals -> if m then (v <= u)%Q else (u <= v)%Q) -> In v vals -> keep v = true.
Proof. exact lex_keep_eps. Qed.
Print Assumptions C17_lex_keep_eps.

(* non-vacuity *)
Definition ex17_store : store :=
  [((0%N, 0%N), mkFit 0 [1; 5]%Q); ((1%N, 0%N), mkFit 0 [2; 1]%Q); ((2%N, 0%N), mkFit 0 [2; 3]%Q)].
Example C17_ex_lex : exists res r', lexicase ex17_store 0%N 2 (Native [DI 0; DI 1; DI 1]) false [false; true] 2 [0; 1; 2]%N = Ok (res, r') /\
  map (fun x => fst (fst x)) res = [1; 2]%N.
Proof. eexists; eexists; split; [vm_compute; reflexivity|reflexivity]. Qed.
