(* C18 — Random primitives honour their contracts for every random source.
   This file contains only statements, each closed by [exact] of a lemma proved in
   Proofs/TapeProofs.v, its Print Assumptions, and non-vacuity examples. *)
From GE Require Import Base Tape TapeProofs.
From Coq Require Import Permutation.
Open Scope Z_scope.

(* bounded integers lie within the requested bounds — scripted native tape and all three
   gene-backed sources (any genes, any index, any bounds incl. equal, negative, +-sys.maxsize) *)
Theorem C18_randint_range : forall s lo hi v s',
  randint s lo hi = Ok (v, s') -> lo <= hi -> lo <= v <= hi.
Proof. exact randint_range. Qed.
Print Assumptions C18_randint_range.

(* gene-backed sources never fail on a non-empty gene list and a non-empty range *)
Theorem C18_lw_randint_total : forall k dna idx lo hi,
  dna <> [] -> lo <= hi -> exists v s', randint (LW k dna idx) lo hi = Ok (v, s').
Proof. exact lw_randint_total. Qed.
Print Assumptions C18_lw_randint_total.

(* the gene-backed stream is a function of the genes alone *)
Theorem C18_lw_randint_spec : forall k dna idx lo hi v s',
  randint (LW k dna idx) lo hi = Ok (v, s') ->
  exists g i, nth_error dna i = Some g /\ i = Nat.modulo (S idx) (length dna) /\
              v = g mod (hi - lo + 1) + lo /\ s' = LW k dna i.
Proof. exact lw_randint_spec. Qed.
Print Assumptions C18_lw_randint_spec.

Theorem C18_choice_mem : forall (A : Type) s (l : list A) x s', choice s l = Ok (x, s') -> In x l.
Proof. exact @choice_mem. Qed.
Print Assumptions C18_choice_mem.

Theorem C18_choice_weighted_mem : forall (A : Type) s (choices : list A) accs c s',
  choice_weighted_acc s choices accs = Ok (c, s') -> In c choices.
Proof. exact @choice_weighted_mem. Qed.
Print Assumptions C18_choice_weighted_mem.

(* a weighted choice never returns an option whose (integer) weight increment is zero while the
   total is positive: the chosen index i has acc[j] < acc[i] for every j < i and acc[i] > 0 *)
Theorem C18_choice_weighted_positive : forall (A : Type) s (choices : list A) accs c s' total,
  choice_weighted_acc s choices accs = Ok (c, s') ->
  length choices = length accs ->
  last_error accs = Some total -> 0 < total ->
  exists i a, nth_error choices i = Some c /\ nth_error accs i = Some a /\
              (forall j b, (j < i)%nat -> nth_error accs j = Some b -> b < a) /\ 0 < a.
Proof. exact @choice_weighted_positive. Qed.
Print Assumptions C18_choice_weighted_positive.

(* proportional selection: with non-decreasing accumulated weights, option i is selected by exactly
   the draws r with acc[i-1] <= r < acc[i] — i.e. by (acc[i] - acc[i-1]) of the [total] draws *)
Theorem C18_choice_weighted_proportional : forall accs r i,
  nondecreasing accs -> 0 <= r ->
  (sel_index accs r = Some i <->
   exists a, nth_error accs i = Some a /\ prev_acc accs i <= r < a).
Proof. exact sel_index_proportional. Qed.
Print Assumptions C18_choice_weighted_proportional.

Theorem C18_shuffle_perm : forall (A : Type) s (l l' : list A) s',
  shuffle s l = Ok (l', s') -> Permutation l l'.
Proof. exact @shuffle_perm. Qed.
Print Assumptions C18_shuffle_perm.

Theorem C18_pop_random_spec : forall (A : Type) s (l : list A) x l' s',
  pop_random s l = Ok (x, l', s') -> Permutation l (x :: l') /\ S (length l') = length l.
Proof. exact @pop_random_spec. Qed.
Print Assumptions C18_pop_random_spec.

(* the deciders' bounded integer draws stay within their bounds, for every width
   (<= 1000, > 1000, up to 2*sys.maxsize) and every source *)
Theorem C18_base_random_int_range : forall s lo hi v s',
  base_random_int s lo hi = Ok (v, s') -> lo <= hi -> lo <= v <= hi.
Proof. exact base_random_int_range. Qed.
Print Assumptions C18_base_random_int_range.

Theorem C18_dsge_random_int_range : forall gene lo hi v,
  dsge_random_int gene lo hi = Ok v -> lo <= hi -> lo <= v <= hi.
Proof. exact dsge_random_int_range. Qed.
Print Assumptions C18_dsge_random_int_range.

Theorem C18_dsge_random_int_total : forall gene lo hi, lo <= hi -> exists v, dsge_random_int gene lo hi = Ok v.
Proof. exact dsge_random_int_total. Qed.
Print Assumptions C18_dsge_random_int_total.

(* bounded floats, over exact rational arithmetic ("partial": the IEEE rounding of the last
   floating-point operation of the implementation is not covered) *)
Theorem C18_random_float_range_partial : forall s lo hi v s',
  random_float s lo hi = Ok (v, s') -> (lo <= hi)%Q ->
  (forall u t, s = Native (DF u :: t) -> (0 <= u /\ u < 1)%Q) ->
  (lo <= v /\ v <= hi)%Q.
Proof. exact random_float_range_partial. Qed.
Print Assumptions C18_random_float_range_partial.

Theorem C18_same_state_same_stream : forall s1 s2 lo hi, s1 = s2 -> randint s1 lo hi = randint s2 lo hi.
Proof. exact same_state_same_stream. Qed.
Print Assumptions C18_same_state_same_stream.

(* non-vacuity: the hypotheses are met by concrete non-trivial inputs *)
Example C18_ex_randint : randint (LW KGE [7; -3; 9223372036854775807] 1) (-5) 5 = Ok (2, LW KGE [7; -3; 9223372036854775807] 2).
Proof. vm_compute. reflexivity. Qed.
Example C18_ex_weighted : exists c s', choice_weighted (Native [DI 49999]) [10; 20; 30] [0; 1 # 2; 0]%Q = Ok (c, s') /\ c = 20.
Proof. eexists; eexists; split; [vm_compute; reflexivity|reflexivity]. Qed.
Example C18_ex_base : base_random_int (Native [DI 9; DI 4; DI 0]) 0 4000 = Ok (2000 + 9 ^ 4 mod 2001, Native []).
Proof. vm_compute. reflexivity. Qed.
Example C18_ex_shuffle : exists l' s', shuffle (Native [DI 0; DI 1; DI 0]) [1; 2; 3; 4] = Ok (l', s') /\ l' <> [1; 2; 3; 4].
Proof. eexists; eexists; split; [vm_compute; reflexivity|discriminate]. Qed.
