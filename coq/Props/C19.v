(* C19 — Production weights are normalised per non-terminal, stable and respected.
   Only statements, each closed by [exact] of a lemma proved in Proofs/WeightProofs.v,
   Proofs/RegProofs.v or Proofs/TapeProofs.v; Print Assumptions; non-vacuity examples. *)
From GE Require Import Base Tape Grammar WellTyped Synth RegProofs WeightProofs TapeProofs DistProofs WeightChoice.
Open Scope Q_scope.

(* after extract_grammar on classes of which some registered or considered one carries a weight:
   for EVERY rule (abstract type -> its productions) of the extracted grammar the reported weights
   sum to one, lie in [0,1], and keep the declared ratios (unweighted productions count as 1):
   w_i * D_j == w_j * D_i.  For every class hierarchy, every iteration order of the analysis. *)
Theorem C19_weights_normalised : forall d order g,
  extract d order = Ok g -> weighted d (g_reg g) = true ->
  forall p l, get_alts (r_alts (g_reg g)) p = Some l ->
    qsum (map (fun c => wget (weights_of g) (SC c)) l) == 1 /\
    (forall c, In c l -> 0 <= wget (weights_of g) (SC c) <= 1) /\
    (forall c1 c2, In c1 l -> In c2 l ->
       wget (weights_of g) (SC c1) * decl_weight d (SC c2) == wget (weights_of g) (SC c2) * decl_weight d (SC c1)).
Proof. exact extract_weights_normalised. Qed.
Print Assumptions C19_weights_normalised.

(* extracting the same classes again (they now carry the stored weights) changes nothing:
   same productions, same weights for every symbol *)
Theorem C19_extract_idempotent : forall d order g g',
  extract d order = Ok g -> extract (g_decl g) order = Ok g' ->
  g_reg g' = g_reg g /\ forall s, wget (weights_of g') s == wget (weights_of g) s.
Proof. exact extract_idempotent. Qed.
Print Assumptions C19_extract_idempotent.

(* the rules over which the weights are normalised are well-formed for every hierarchy: productions
   of a rule are distinct, registered, direct subclasses of the (abstract) key, rules are non-empty
   and keys unique — hence a class belongs to exactly one rule and rules do not disturb each other *)
Theorem C19_rules_wellformed : forall d fuel t r,
  reg fuel d t r0 = Ok r -> reg_inv d r /\ alts_ok (r_alts r).
Proof. intros d fuel t r H. split; [eapply reg_result_inv; exact H | apply (alts_ok_of_inv d); eapply reg_result_inv; exact H]. Qed.
Print Assumptions C19_rules_wellformed.

(* the normalisation loop itself, for any weight map and any well-formed rule list *)
Theorem C19_normalise_spec : forall alts w w',
  alts_ok alts -> normalise w alts = Ok w' ->
  (forall p l, In (p, l) alts ->
     rule_total w' l == 1 /\
     (forall c1 c2, In c1 l -> In c2 l -> wget w' (SC c1) * wget w (SC c2) == wget w' (SC c2) * wget w (SC c1))) /\
  (forall x, (forall c, x = SC c -> ~ in_some_rule alts c) -> wget w' x = wget w x).
Proof. exact normalise_spec. Qed.
Print Assumptions C19_normalise_spec.

(* a rule whose weights are all zero is an error (ZeroDivisionError), never a silently wrong grammar:
   whenever normalisation succeeds the rule's total was non-zero *)
Theorem C19_zero_total_is_error : forall w prods w',
  NoDup prods -> normalise_rule w prods = Ok w' -> prods <> [] -> ~ rule_total w prods == 0.
Proof. intros w prods w' H1 H2 H3. exact (proj1 (normalise_rule_spec w prods w' H1 H2 H3)). Qed.
Print Assumptions C19_zero_total_is_error.

(* weight-aware choosers (RandomSource.choice_weighted, used by ProgressivelyTerminalDecider, the
   stack representation and WeightedStringHandler) never return an option whose weight increment is
   zero while the total is positive *)
Theorem C19_zero_weight_never_chosen : forall (A : Type) s (choices : list A) accs c s' total,
  choice_weighted_acc s choices accs = Ok (c, s') ->
  length choices = length accs ->
  last_error accs = Some total -> (0 < total)%Z ->
  exists i a, nth_error choices i = Some c /\ nth_error accs i = Some a /\
              (forall j b, (j < i)%nat -> nth_error accs j = Some b -> (b < a)%Z) /\ (0 < a)%Z.
Proof. exact @choice_weighted_positive. Qed.
Print Assumptions C19_zero_weight_never_chosen.

(* ... at the level of the weights themselves: with non-negative weights of positive integer total, the option that
   choice_weighted returns has a strictly positive weight *)
Theorem C19_chosen_weight_positive : forall (A : Type) s (choices : list A) ws c s' total,
  choice_weighted s choices ws = Ok (c, s') -> length choices = length ws ->
  (forall q, In q ws -> (0 <= q)%Q) ->
  last_error (acc_weights ws) = Some total -> (0 < total)%Z ->
  exists i q, nth_error choices i = Some c /\ nth_error ws i = Some q /\ (0 < q)%Q.
Proof. exact @choice_weighted_pick_positive. Qed.
Print Assumptions C19_chosen_weight_positive.

(* ProgressivelyTerminalDecider (after the repair of F42): whatever the grammar, context and source state, the
   production it returns does not have declared weight zero on every analysed grammar (default depth mode) whenever the production weights are
   non-negative (the heuristic weight is clamped at 0: repair of F44) and the integer total of the weights it hands to
   choice_weighted is positive; and when its depth heuristic is zero for every alternative, the weights
   it hands over are exactly the production weights (before the repair the first alternative was returned) *)
Theorem C19_progressive_decider_respects_weights : forall d order g key alts ctx st x st',
  d_xdepth d = false -> perm_order order -> analyse d order = Ok g ->
  choose g DProg key alts ctx st = (Ok x, st') -> (0 <= c_depth ctx)%Z -> (forall y, (0 <= prod_weight g y)%Q) ->
  exists target ws, prog_final_weights g target ctx alts = Ok ws /\
    (forall total, last_error (acc_weights ws) = Some total -> (0 < total)%Z -> ~ (prod_weight g x == 0)%Q).
Proof. exact prog_respects_weights_analysed. Qed.
Print Assumptions C19_progressive_decider_respects_weights.

Theorem C19_zero_heuristic_falls_back_to_production_weights : forall g target ctx alts ws0,
  prog_weights g target ctx alts = Ok ws0 -> forallb (fun q => Qeq_bool q 0) ws0 = true ->
  prog_final_weights g target ctx alts = prog_fallback g alts.
Proof. exact prog_fallback_is_production_weights. Qed.
Print Assumptions C19_zero_heuristic_falls_back_to_production_weights.

(* an alternative that cannot reach a terminal never gets a positive weight (repair of F38): expanding it would never end *)
Theorem C19_unproductive_alternative_gets_weight_zero : forall g target ctx alts ws,
  prog_weights g target ctx alts = Ok ws ->
  forall i x q v, nth_error alts i = Some x -> nth_error ws i = Some q -> gdist_ty g x = Ok v -> (INF <= v)%Z -> (q == 0)%Q.
Proof. exact prog_weights_unproductive. Qed.
Print Assumptions C19_unproductive_alternative_gets_weight_zero.

(* ---- non-vacuity: a hierarchy A -> B<2> | C | D<0>, E(A) abstract -> F<3> | G, whose extraction
   succeeds, is weighted, and has two rules ---- *)
Definition ex_decl : decl :=
  mkDecl [ mkCls None true [] None;                      (* 0: A abstract *)
           mkCls (Some 0%nat) false [] (Some 2);          (* 1: B(A) weight 2 *)
           mkCls (Some 0%nat) false [TBase BInt] None;    (* 2: C(A) x:int *)
           mkCls (Some 0%nat) false [] (Some 0);          (* 3: D(A) weight 0 *)
           mkCls (Some 0%nat) true [] None;               (* 4: E(A) abstract *)
           mkCls (Some 4%nat) false [TSym 0%nat] (Some 3);(* 5: F(E) a:A weight 3 *)
           mkCls (Some 4%nat) false [] None ]             (* 6: G(E) *)
         [0; 1; 2; 3; 4; 5; 6]%nat 0%nat false.

Example C19_nonvacuous :
  exists g, extract ex_decl id_order = Ok g /\ weighted ex_decl (g_reg g) = true /\
            get_alts (r_alts (g_reg g)) 0%nat = Some [1; 2; 3; 4]%nat /\
            get_alts (r_alts (g_reg g)) 4%nat = Some [5; 6]%nat /\
            Qeq_bool (wget (weights_of g) (SC 1%nat)) (1 # 2) = true /\
            Qeq_bool (wget (weights_of g) (SC 3%nat)) 0 = true /\
            Qeq_bool (wget (weights_of g) (SC 5%nat)) (3 # 4) = true.
Proof.
  destruct (extract ex_decl id_order) as [g|] eqn:E; [|vm_compute in E; discriminate].
  exists g. split; [reflexivity|].
  vm_compute in E. inversion E; subst. vm_compute. repeat split.
Qed.
