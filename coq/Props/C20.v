(* C20 — The CSV search log is faithful and is a valid prefix at every interruption point.
   Statements only (proofs in Proofs/CsvProofs.v). *)
From GE Require Import Base Search Csv CsvProofs.

(* after construction and after EVERY registration (for every history): the writer's buffer is
   empty and the file is the header followed by one complete row per recorded individual *)
Theorem C20_csv_disk_inv : forall fit cols ob regs,
  let c := csv_run fit cols ob regs in
  buf c = [] /\ disk c = RHeader cols :: map (row_of fit cols) (recorded ob regs).
Proof. exact csv_disk_inv. Qed.
Print Assumptions C20_csv_disk_inv.

(* the file between two registrations is a prefix of the file at any later point *)
Theorem C20_csv_prefix : forall fit cols ob regs more,
  exists suffix, disk (csv_run fit cols ob (regs ++ more)) = disk (csv_run fit cols ob regs) ++ suffix.
Proof. exact csv_prefix. Qed.
Print Assumptions C20_csv_prefix.

Theorem C20_csv_rows_all : forall (regs : list (N * bool)), recorded false regs = map fst regs.
Proof. exact csv_rows_all. Qed.
Print Assumptions C20_csv_rows_all.

Theorem C20_csv_rows_only_best : forall (regs : list (N * bool)) i, In i (recorded true regs) <-> In (i, true) regs.
Proof. exact csv_rows_only_best. Qed.
Print Assumptions C20_csv_rows_only_best.

(* in each row the k-th fitness column holds the k-th component of that individual and every extra
   field is its own callback applied to that individual *)
Theorem C20_csv_columns : forall fit nobj extras i n,
  let cols := default_cols nobj extras in
  forall c, nth_error cols n = Some c ->
  nth_error (map (cell_of fit i) cols) n =
  Some (match c with
        | ColTime => CTime
        | ColPheno => CPheno i
        | ColFit k => match nth_error (fit i) k with Some q => CFit q | None => CFail end
        | ColExtra cb => CUser cb i
        end).
Proof. exact csv_columns. Qed.
Print Assumptions C20_csv_columns.

Theorem C20_csv_fitness_column : forall nobj extras k,
  (k < nobj)%nat -> nth_error (default_cols nobj extras) (2 + k) = Some (ColFit k).
Proof. exact csv_fitness_column. Qed.
Print Assumptions C20_csv_fitness_column.

(* non-vacuity: three objectives, two extra fields, only-best mode *)
Example C20_ex :
  disk (csv_run (fun i => [inject_Z (Z.of_N i); 7; 9]%Q) (default_cols 3 [0; 1]%nat) true [(4, true); (5, false); (6, true)]%N) =
  [RHeader (default_cols 3 [0; 1]%nat);
   RRow [CTime; CPheno 4; CFit 4; CFit 7; CFit 9; CUser 0 4; CUser 1 4];
   RRow [CTime; CPheno 6; CFit 6; CFit 7; CFit 9; CUser 0 6; CUser 1 6]]%N%Q.
Proof. vm_compute. reflexivity. Qed.
