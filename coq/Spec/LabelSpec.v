(* LabelSpec.v — what the per-node metadata means (default depth mode), by an independent traversal:
   lists and tuples are transparent, productions without fields and base values are terminals of size 0.
     size   = number of non-terminal nodes in the subtree
     height = 0 for terminals, otherwise 1 + the largest height among the children (at least 1)
     weight = sum of the heights of all non-terminal nodes in the subtree
   For a list value (a GengyList object carries labels too): the sums over its elements, and for the
   height the largest (height + 1) among them. *)
From GE Require Import Base Grammar.
Open Scope Z_scope.

Fixpoint ssize (v : value) : Z :=
  let fix sum (l : list value) : Z := match l with [] => 0 | x :: t => ssize x + sum t end in
  match v with
  | VNode _ [] => 0
  | VNode _ args => 1 + sum args
  | VList vs => sum vs
  | VTuple vs => sum vs                      (* nodes inside a tuple field count like any other *)
  | _ => 0
  end.

(* (height, contribution to the parent's height): a list contributes what its elements contribute *)
Fixpoint hpair (v : value) : Z * Z :=
  let fix maxc (l : list value) : Z := match l with [] => 0 | x :: t => Z.max (snd (hpair x)) (maxc t) end in
  match v with
  | VNode _ [] => (0, 1)
  | VNode _ args => let h := Z.max 1 (maxc args) in (h, h + 1)
  | VList vs => (maxc vs, maxc vs)
  | VTuple vs => (0, Z.max 1 (maxc vs))     (* a tuple is not a node; it passes on what its components contribute *)
  | _ => (0, 1)
  end.
Definition sheight (v : value) : Z := fst (hpair v).

Fixpoint sweight (v : value) : Z :=
  let fix sum (l : list value) : Z := match l with [] => 0 | x :: t => sweight x + sum t end in
  match v with
  | VNode _ [] => 0
  | VNode c args => sheight (VNode c args) + sum args
  | VList vs => sum vs
  | VTuple vs => sum vs
  | _ => 0
  end.

Fixpoint sum_size (l : list value) : Z := match l with [] => 0 | x :: t => ssize x + sum_size t end.
Fixpoint max_contrib (l : list value) : Z := match l with [] => 0 | x :: t => Z.max (snd (hpair x)) (max_contrib t) end.
Fixpoint sum_weight (l : list value) : Z := match l with [] => 0 | x :: t => sweight x + sum_weight t end.
