(* Lang.v — the bounded language of a finite-choice grammar: every value that is a program of a type,
   satisfies all refinements (dependent ones against the sibling values) and has depth <= k, enumerated
   from the declarations alone (independent of create_node).  Finite-choice: every int / float / str
   field is refined by a finite refinement, every list by a size refinement. *)
From GE Require Import Base Grammar WellTyped Synth Sat.
Open Scope Z_scope.

Fixpoint zrange_list (lo : Z) (n : nat) : list Z := match n with O => [] | S k => lo :: zrange_list (lo + 1) k end.
Definition zrange (lo hi : Z) : list Z := zrange_list lo (Z.to_nat (hi - lo + 1)).

Definition dedupe_v (l : list value) : list value :=
  fold_left (fun a x => if existsb (value_eqb x) a then a else a ++ [x]) l [].

(* all lists of length n over the alternatives *)
Fixpoint lists_of (alts : list value) (n : nat) : list (list value) :=
  match n with
  | O => [[]]
  | S k => flat_map (fun x => map (cons x) (lists_of alts k)) alts
  end.

Fixpoint product (ls : list (list value)) : list (list value) :=
  match ls with
  | [] => [[]]
  | l :: r => flat_map (fun x => map (cons x) (product r)) l
  end.

(* the fields of a production in order, each seeing the values chosen for the earlier ones *)
Fixpoint enum_fields (E : list value -> ty -> list value) (deps : list value) (ts : list ty) : list (list value) :=
  match ts with
  | [] => [[]]
  | t0 :: ts' => flat_map (fun v => map (cons v) (enum_fields E (deps ++ [v]) ts')) (E deps t0)
  end.

Definition is_int_base (t : ty) : bool := match t with TBase BInt => true | _ => false end.

Section Lang.
Variable d : decl.
Variable r : rstate.

(* [k]: remaining depth budget (nodes); [fuel]: structural fuel for the recursion through types.
   Every refinement branch checks the shape of its base type itself, so the enumeration is meaningful
   for any declaration. *)
Fixpoint enum (fuel : nat) (k : nat) (deps : list value) (t : ty) : list value :=
  match fuel with
  | O => []
  | S f =>
      match t with
      | TBase BBool => [VBool true; VBool false]
      | TBase _ => []                                   (* unbounded base types are outside the finite-choice family *)
      | TSym c =>
          if is_abstract d (SC c)
          then match get_alts (r_alts r) c with
               | Some prods => flat_map (fun p => enum f k deps (TSym p)) prods
               | None => []
               end
          else if mem_sym (SC c) (r_nodes r)
               then match k with
                    | O => []
                    | S k' => map (VNode c) (enum_fields (enum f k') [] (fields_of d (SC c)))
                    end
               else []
      | TList _ => []                                   (* un-annotated lists (length 0..10) are outside the family *)
      | TTuple ts => map VTuple (product (map (enum f k []) ts))
      | TUnion ts => flat_map (enum f k deps) ts
      | TAnn base m =>
          match m with
          | MIntRange lo hi => if is_int_base base then map VInt (zrange lo hi) else []
          | MIntList xs => if is_int_base base then map VInt xs else []
          | MVarRange opts => match base with TBase b => filter (opt_kind_ok b) opts | _ => [] end
          | MListSize lo hi _ =>
              match base with
              | TList inner =>
                  let alts := enum f k deps inner in
                  map VList (flat_map (fun n => lists_of alts (Z.to_nat n)) (zrange (Z.max lo 0) hi))
              | _ => []
              end
          | MDependent names fn =>
              match lookup_deps deps names with
              | Ok vals => match eval_dep fn vals with Ok m' => enum f k deps (TAnn base m') | Err _ => [] end
              | Err _ => []
              end
          | _ => []
          end
      end
  end.

Definition lang_fuel (k : nat) : nat := (40 + 6 * k + 4 * length (d_classes d))%nat.
Definition lang (k : nat) : list value := dedupe_v (enum (lang_fuel k) k [] (TSym (d_start d))).
End Lang.

(* the shallowest leaf: the least number of nested nodes on a path from the value to a node without node
   descendants; None when the value contains no node at all *)
Definition omin (a b : option Z) : option Z :=
  match a, b with Some x, Some y => Some (Z.min x y) | Some x, None => Some x | None, o => o end.

Fixpoint vmin (v : value) : option Z :=
  let fix mins (l : list value) : option Z := match l with [] => None | x :: t => omin (vmin x) (mins t) end in
  match v with
  | VNode _ args => match mins args with Some m => Some (1 + m) | None => Some 1 end
  | VList vs | VTuple vs => mins vs
  | _ => None
  end.

(* every branch of the program ends exactly at depth k ("full" programs) *)
Definition full_at (k : Z) (v : value) : bool :=
  (vdepth v =? k) && match vmin v with Some m => m =? k | None => true end.
