(* Sat.v — the combined specification of C01 and C02: a value is a program of its declared type AND
   every refinement on the way holds, dependent refinements being evaluated against the actual values
   of the sibling fields of the same node.  Written from the docstrings of grammar/metahandlers/*.py
   (the documented predicates), not from their validate methods.  Also the static well-formedness of
   declarations under which the theorems are stated (an annotation must refine a base type it can
   produce values of — e.g. IntRange on int, not on str). *)
From GE Require Import Base Grammar WellTyped Synth.
Open Scope Z_scope.

Definition vkind (v : value) : option base :=
  match v with
  | VInt _ => Some BInt | VFloat _ => Some BFloat | VStr _ => Some BStr | VBool _ => Some BBool
  | _ => None
  end.

Definition chars_in (alphabet cs : list Z) : Prop := forall c, In c cs -> In c alphabet.

Section Sat.
Variable d : decl.
Variable r : rstate.

(* [deps]: the values of the earlier fields of the node the value sits in *)
Inductive Sat : list value -> ty -> value -> Prop :=
| Sat_int deps z : Sat deps (TBase BInt) (VInt z)
| Sat_float deps f : Sat deps (TBase BFloat) (VFloat f)
| Sat_str deps s : Sat deps (TBase BStr) (VStr s)
| Sat_bool deps b : Sat deps (TBase BBool) (VBool b)
| Sat_node deps c c' args : prod_of d r c c' -> SatFields [] (fields_of d (SC c')) args -> Sat deps (TSym c) (VNode c' args)
| Sat_list deps t vs : SatAll [] t vs -> Sat deps (TList t) (VList vs)
| Sat_tuple deps ts vs : SatTuple ts vs -> Sat deps (TTuple ts) (VTuple vs)
| Sat_union deps ts v : SatAny deps ts v -> Sat deps (TUnion ts) v
| Sat_intrange deps base lo hi z : Sat deps base (VInt z) -> (lo <= hi -> lo <= z <= hi) -> Sat deps (TAnn base (MIntRange lo hi)) (VInt z)
| Sat_intlist deps base xs z : Sat deps base (VInt z) -> In z xs -> Sat deps (TAnn base (MIntList xs)) (VInt z)
| Sat_floatrange deps base lo hi q : Sat deps base (VFloat (FQ q)) -> ((lo <= hi)%Q -> (lo <= q)%Q /\ (q <= hi)%Q) ->
                                      Sat deps (TAnn base (MFloatRange lo hi)) (VFloat (FQ q))
| Sat_floatlist deps base xs q q' : Sat deps base (VFloat (FQ q)) -> In q' xs -> (q == q')%Q ->
                                    Sat deps (TAnn base (MFloatList xs)) (VFloat (FQ q))
| Sat_varrange deps base opts v : Sat deps base v -> In v opts -> Sat deps (TAnn base (MVarRange opts)) v
| Sat_listsize deps inner lo hi ops vs : SatAll deps inner vs -> (0 <= lo -> lo <= hi -> lo <= zlen vs <= hi) ->
                                         Sat deps (TAnn (TList inner) (MListSize lo hi ops)) (VList vs)
| Sat_stringsize deps base lo hi alphabet cs : Sat deps base (VStr cs) -> (0 <= lo -> lo <= hi -> lo <= zlen cs <= hi) -> chars_in alphabet cs ->
                                               Sat deps (TAnn base (MStringSize lo hi alphabet)) (VStr cs)
| Sat_weightedstring deps base rows alphabet cs : Sat deps base (VStr cs) -> zlen cs = zlen rows -> chars_in alphabet cs ->
                                                  Sat deps (TAnn base (MWeightedString rows alphabet)) (VStr cs)
| Sat_interval deps base minlen maxlen top a b : Sat deps base (VTuple [VInt a; VInt b]) ->
                                                 (minlen <= maxlen -> maxlen <= top -> minlen <= b - a <= maxlen /\ 0 <= a /\ b <= top) ->
                                                 Sat deps (TAnn base (MInterval minlen maxlen top)) (VTuple [VInt a; VInt b])
| Sat_dependent deps base names fn vals m' v :
    lookup_deps deps names = Ok vals -> eval_dep fn vals = Ok m' -> Sat deps (TAnn base m') v ->
    Sat deps (TAnn base (MDependent names fn)) v
with SatFields : list value -> list ty -> list value -> Prop :=     (* fields in order, each seeing the earlier ones *)
| SatFields_nil deps : SatFields deps [] []
| SatFields_cons deps t ts v vs : Sat deps t v -> SatFields (deps ++ [v]) ts vs -> SatFields deps (t :: ts) (v :: vs)
with SatAll : list value -> ty -> list value -> Prop :=
| SatAll_nil deps t : SatAll deps t []
| SatAll_cons deps t v vs : Sat deps t v -> SatAll deps t vs -> SatAll deps t (v :: vs)
with SatTuple : list ty -> list value -> Prop :=
| SatTuple_nil : SatTuple [] []
| SatTuple_cons t ts v vs : Sat [] t v -> SatTuple ts vs -> SatTuple (t :: ts) (v :: vs)
with SatAny : list value -> list ty -> value -> Prop :=
| SatAny_here deps t ts v : Sat deps t v -> SatAny deps (t :: ts) v
| SatAny_there deps t ts v : SatAny deps ts v -> SatAny deps (t :: ts) v.

Scheme Sat_mind := Induction for Sat Sort Prop
  with SatFields_mind := Induction for SatFields Sort Prop
  with SatAll_mind := Induction for SatAll Sort Prop
  with SatTuple_mind := Induction for SatTuple Sort Prop
  with SatAny_mind := Induction for SatAny Sort Prop.
Combined Scheme Sat_mutind from Sat_mind, SatFields_mind, SatAll_mind, SatTuple_mind, SatAny_mind.

(* C01 is the typing part of Sat *)
Theorem Sat_WT :
  (forall deps t v, Sat deps t v -> WT d r false t v) /\
  (forall deps ts vs, SatFields deps ts vs -> WTs d r false ts vs) /\
  (forall deps t vs, SatAll deps t vs -> WTall d r false t vs) /\
  (forall ts vs, SatTuple ts vs -> WTs d r false ts vs) /\
  (forall deps ts v, SatAny deps ts v -> WTany d r false ts v).
Proof.
  apply Sat_mutind; intros; try (constructor; assumption); try (constructor; auto; fail).
  - constructor; [assumption | intro; discriminate].
  - constructor. constructor; [assumption | intro; discriminate].
  - constructor. match goal with H : WT _ _ _ (TAnn _ _) _ |- _ => inversion H; subst; assumption end.
Qed.

End Sat.

(* ---------- static well-formedness of declarations ---------- *)
(* the base type a (possibly annotated) type produces values of *)
Fixpoint base_kind (t : ty) : option base :=
  match t with TBase b => Some b | TAnn t' _ => base_kind t' | _ => None end.

Definition list_elem (t : ty) : option ty :=
  match t with
  | TList e => Some e
  | TAnn (TList e) _ => Some e
  | _ => None
  end.

Definition base_is (base : ty) (b : Grammar.base) : bool :=
  match base with TBase b' => base_eqb b b' | _ => false end.

(* [dtys]: the types of the earlier fields of the enclosing production *)
Definition dep_ok (dtys : list ty) (base : ty) (names : list nat) (fn : depfun) : bool :=
  match fn, names with
  | DIntRangeLo _, [i] | DIntRangeHi _, [i] =>
      base_is base BInt && match nth_error dtys i with Some t => match base_kind t with Some BInt => true | _ => false end | None => false end
  | DIntRange2, [i; j] =>
      base_is base BInt &&
      match nth_error dtys i, nth_error dtys j with
      | Some t, Some u => match base_kind t, base_kind u with Some BInt, Some BInt => true | _, _ => false end
      | _, _ => false end
  | DListSizeUpTo, [i] =>
      match base with TList _ => true | _ => false end &&
      match nth_error dtys i with Some t => match base_kind t with Some BInt => true | _ => false end | None => false end
  | DVarRangeOf, [i] =>
      match base, nth_error dtys i with
      | TBase b, Some t => match list_elem t with
                           | Some e => match base_kind e with Some b' => base_eqb b b' | None => false end
                           | None => false end
      | _, _ => false end
  | _, _ => false
  end.

Definition opt_kind_ok (b : Grammar.base) (v : value) : bool :=
  match vkind v with Some b' => base_eqb b b' | None => false end.

Fixpoint ty_ok (dtys : list ty) (t : ty) : bool :=
  match t with
  | TBase _ | TSym _ => true
  | TList t' => ty_ok [] t'
  | TTuple ts => forallb (ty_ok []) ts
  | TUnion ts => forallb (ty_ok dtys) ts
  | TAnn base m =>
      match m with
      | MIntRange _ _ | MIntList _ => base_is base BInt
      | MFloatRange _ _ | MFloatList _ => base_is base BFloat
      | MVarRange opts => match base with TBase b => forallb (opt_kind_ok b) opts | _ => false end
      | MListSize _ _ _ => match base with TList inner => ty_ok dtys inner | _ => false end
      | MStringSize _ _ _ | MWeightedString _ _ => base_is base BStr
      | MInterval _ _ _ => match base with TTuple [TBase BInt; TBase BInt] => true | _ => false end
      | MDependent names fn =>
          dep_ok dtys base names fn &&
          match base with TList inner => ty_ok dtys inner | _ => true end
      end
  end.

Fixpoint fields_ok (dtys : list ty) (flds : list ty) : bool :=
  match flds with
  | [] => true
  | t :: r => ty_ok dtys t && fields_ok (dtys ++ [t]) r
  end.

Definition decl_ok (d : decl) : bool := forallb (fun k => fields_ok [] (c_fields k)) (d_classes d).

(* ---------- declarations whose creation cannot fail for reasons other than the random source ---------- *)
(* no empty option lists (choice over nothing), no refinement that may reject its siblings' values *)
Definition nonempty {A} (l : list A) : bool := match l with [] => false | _ => true end.

Fixpoint ty_live (t : ty) : bool :=
  match t with
  | TBase _ | TSym _ => true
  | TList t' => ty_live t'
  | TTuple ts => forallb ty_live ts
  | TUnion ts => nonempty ts && forallb ty_live ts
  | TAnn base m =>
      ty_live base &&
      match m with
      | MIntList xs => nonempty xs
      | MFloatList xs => nonempty xs
      | MVarRange opts => nonempty opts
      | MStringSize _ _ alphabet => nonempty alphabet
      | MDependent _ DVarRangeOf => false       (* VarRange(list(a)) raises SynthesisException for an empty sibling list *)
      | _ => true
      end
  end.

Definition decl_live (d : decl) : bool := forallb (fun k => forallb ty_live (c_fields k)) (d_classes d).
