(* WellTyped.v — what it means for a value to be a program of a grammar (C01), its depth (C03) and
   the derivations used to state the exactness of the analysis (C05).  Independent of the generator:
   written from the documentation, not from create_node. *)
From GE Require Import Base Grammar.
Open Scope Z_scope.

Section WT.
Variable d : decl.
Variable r : rstate.

(* c' is a concrete production derivable from the symbol c through the registered rules *)
Inductive prod_of : nat -> nat -> Prop :=
| po_self c : is_abstract d (SC c) = false -> mem_sym (SC c) (r_nodes r) = true -> prod_of c c
| po_step a l c c' : is_abstract d (SC a) = true -> get_alts (r_alts r) a = Some l -> In c l ->
                     prod_of c c' -> prod_of a c'.

(* [ne]: lists must be non-empty (the derivations the depth analysis counts) *)
Inductive WT (ne : bool) : ty -> value -> Prop :=
| WT_int z : WT ne (TBase BInt) (VInt z)
| WT_float f : WT ne (TBase BFloat) (VFloat f)
| WT_str s : WT ne (TBase BStr) (VStr s)
| WT_bool b : WT ne (TBase BBool) (VBool b)
| WT_node c c' args : prod_of c c' -> WTs ne (fields_of d (SC c')) args -> WT ne (TSym c) (VNode c' args)
| WT_list t vs : WTall ne t vs -> (ne = true -> vs <> []) -> WT ne (TList t) (VList vs)
| WT_tuple ts vs : WTs ne ts vs -> WT ne (TTuple ts) (VTuple vs)
| WT_union ts v : WTany ne ts v -> WT ne (TUnion ts) v
| WT_ann t m v : WT ne t v -> WT ne (TAnn t m) v
with WTs (ne : bool) : list ty -> list value -> Prop :=
| WTs_nil : WTs ne [] []
| WTs_cons t ts v vs : WT ne t v -> WTs ne ts vs -> WTs ne (t :: ts) (v :: vs)
with WTall (ne : bool) : ty -> list value -> Prop :=
| WTall_nil t : WTall ne t []
| WTall_cons t v vs : WT ne t v -> WTall ne t vs -> WTall ne t (v :: vs)
with WTany (ne : bool) : list ty -> value -> Prop :=
| WTany_here t ts v : WT ne t v -> WTany ne (t :: ts) v
| WTany_there t ts v : WTany ne ts v -> WTany ne (t :: ts) v.

Scheme WT_mind := Induction for WT Sort Prop
  with WTs_mind := Induction for WTs Sort Prop
  with WTall_mind := Induction for WTall Sort Prop
  with WTany_mind := Induction for WTany Sort Prop.
Combined Scheme WT_mutind from WT_mind, WTs_mind, WTall_mind, WTany_mind.

End WT.

(* depth: the longest chain of nested grammar nodes; lists and tuples are transparent *)
Fixpoint vdepth (v : value) : Z :=
  let fix maxd (l : list value) : Z := match l with [] => 0 | x :: t => Z.max (vdepth x) (maxd t) end in
  match v with
  | VNode _ args => 1 + maxd args
  | VList vs | VTuple vs => maxd vs
  | _ => 0
  end.

Fixpoint vdepth_max (l : list value) : Z := match l with [] => 0 | x :: t => Z.max (vdepth x) (vdepth_max t) end.

Lemma vdepth_maxd l :
  (fix maxd (l : list value) : Z := match l with [] => 0 | x :: t => Z.max (vdepth x) (maxd t) end) l = vdepth_max l.
Proof. induction l as [|a t IH]; [reflexivity|]. cbn [vdepth_max]. rewrite <- IH. reflexivity. Qed.

Lemma vdepth_node c args : vdepth (VNode c args) = 1 + vdepth_max args.
Proof. rewrite <- vdepth_maxd. reflexivity. Qed.
Lemma vdepth_list vs : vdepth (VList vs) = vdepth_max vs.
Proof. rewrite <- vdepth_maxd. reflexivity. Qed.
Lemma vdepth_tuple vs : vdepth (VTuple vs) = vdepth_max vs.
Proof. rewrite <- vdepth_maxd. reflexivity. Qed.

Lemma vdepth_nonneg : forall v, 0 <= vdepth v.
Proof.
  fix IH 1. intro v.
  assert (Hl : forall l, 0 <= vdepth_max l).
  { induction l as [|a t IHt]; cbn [vdepth_max]; [lia|]. pose proof (IH a). lia. }
  destruct v as [z|f|s|b|c args|vs|vs|].
  1-4, 8: simpl; lia.
  - rewrite vdepth_node. pose proof (Hl args). lia.
  - rewrite vdepth_list. apply Hl.
  - rewrite vdepth_tuple. apply Hl.
Qed.

Lemma vdepth_max_nonneg l : 0 <= vdepth_max l.
Proof. induction l as [|a t IH]; simpl; [lia|]. pose proof (vdepth_nonneg a). lia. Qed.

(* ---------- executable reflection (for the checks): fuel-bounded, sound ---------- *)
Section WTB.
Variable d : decl.
Variable r : rstate.

Fixpoint prod_ofb (fuel : nat) (c c' : nat) : bool :=
  match fuel with
  | O => false
  | S f =>
      if is_abstract d (SC c)
      then match get_alts (r_alts r) c with
           | Some l => existsb (fun x => prod_ofb f x c') l
           | None => false
           end
      else Nat.eqb c c' && mem_sym (SC c) (r_nodes r)
  end.

Fixpoint wtb (ne : bool) (fuel : nat) (t : ty) (v : value) : bool :=
  match fuel with
  | O => false
  | S f =>
      let fix all2 (ts : list ty) (vs : list value) : bool :=
        match ts, vs with
        | [], [] => true
        | t :: ts', v :: vs' => wtb ne f t v && all2 ts' vs'
        | _, _ => false
        end in
      match t, v with
      | TBase BInt, VInt _ | TBase BFloat, VFloat _ | TBase BStr, VStr _ | TBase BBool, VBool _ => true
      | TSym c, VNode c' args => prod_ofb (S (length (d_classes d))) c c' && all2 (fields_of d (SC c')) args
      | TList t', VList vs => forallb (wtb ne f t') vs && (negb ne || negb (match vs with [] => true | _ => false end))
      | TTuple ts, VTuple vs => all2 ts vs
      | TUnion ts, _ => existsb (fun t' => wtb ne f t' v) ts
      | TAnn t' _, _ => wtb ne f t' v
      | _, _ => false
      end
  end.
End WTB.

Fixpoint ty_size (t : ty) : nat :=
  match t with
  | TBase _ | TSym _ => 1
  | TList t' | TAnn t' _ => S (ty_size t')
  | TTuple ts | TUnion ts => S ((fix go (l : list ty) : nat := match l with [] => O | x :: r => (ty_size x + go r)%nat end) ts)
  end.
Fixpoint value_size (v : value) : nat :=
  match v with
  | VNode _ l | VList l | VTuple l => S ((fix go (l : list value) : nat := match l with [] => O | x :: r => (value_size x + go r)%nat end) l)
  | _ => 1
  end.
