#!/usr/bin/env bash
# usage: goal.sh File.v LINE  -> prints the proof state after LINE lines
f=$1; n=$2
( head -n $n $f; echo "Show."; ) | timeout 120 coqtop -Q /verif/coq GE -w -notation-overridden 2>&1 | tail -${3:-40}
