"""Shared machinery of the checks: Coq build / proof step, generated cases files evaluated
with vm_compute, implementation drivers in a subprocess, verdict, evidence, replay files."""
from __future__ import annotations

import hashlib
import json
import os
import re
import shutil
import subprocess
import sys
import tempfile
import time
from fractions import Fraction

VERIF = os.environ.get("VERIF_HOME", "/verif")
COQ = os.path.join(VERIF, "coq")
REPO = os.environ.get("VERIF_REPO", "/repo")
PY = "/venv/bin/python"
NPROC = int(os.environ.get("VERIF_JOBS", "16"))

ERRS = {
    "BadTape", "OutOfFuel", "GeneticEngineError", "SynthesisException", "AssertionError", "IndexError",
    "KeyError", "ZeroDivisionError", "TypeError", "AttributeError", "UnboundLocalError",
    "NotImplementedError", "ValueError", "StopIteration",
}


class HarnessError(Exception):
    """Internal failure of the machinery (exit 2, never a verdict)."""


# ------------------------------------------------------------------ Coq term printers
def cz(n: int) -> str:
    return f"({n})%Z"


def cn(n: int) -> str:
    assert 0 <= n < 5000, n
    return f"{n}%nat"


def cN(n: int) -> str:
    assert n >= 0
    return f"{n}%N"


def cq(x) -> str:
    f = Fraction(x)
    return f"(({f.numerator})%Z # {f.denominator}%positive)"


def cbool(b: bool) -> str:
    return "true" if b else "false"


def clist(items) -> str:
    items = list(items)
    return "[" + "; ".join(items) + "]" if items else "[]"


def copt(x, f=lambda v: v) -> str:
    return "None" if x is None else f"(Some {f(x)})"


def cerr(name: str) -> str:
    if name in ("RecursionError", "Timeout"):
        return "OutOfFuel"        # unbounded recursion / no answer: the model's counterpart is exhausted fuel
    return name if name in ERRS else "OtherError"


def cpair(a: str, b: str) -> str:
    return f"({a}, {b})"


def cstr(s: str) -> str:
    return '"' + s.replace('"', '""') + '"%string'


# ------------------------------------------------------------------ subprocess helpers
def sh(cmd, timeout, cwd=None, env=None, input=None):
    try:
        p = subprocess.run(cmd, cwd=cwd, env=env, input=input, capture_output=True, text=True, timeout=timeout)
        return p.returncode, p.stdout, p.stderr
    except subprocess.TimeoutExpired as e:
        return 124, (e.stdout or b"").decode() if isinstance(e.stdout, bytes) else (e.stdout or ""), "TIMEOUT"


_scratch = None


def scratch() -> str:
    global _scratch
    if _scratch is None:
        base = os.environ.get("VERIF_SCRATCH") or tempfile.gettempdir()
        _scratch = tempfile.mkdtemp(prefix="geverif_", dir=base)
        import atexit

        atexit.register(lambda: shutil.rmtree(_scratch, ignore_errors=True))
    return _scratch


# ------------------------------------------------------------------ Coq build and proof step
FORBIDDEN = re.compile(
    r"\b(Admitted|admit|Axiom|Axioms|Parameter|Parameters|Conjecture|Hypothesis|Variable|Variables|Admit Obligations|"
    r"Unset Guard Checking|Unset Positivity Checking|Unset Universe Checking|bypass_check|type-in-type|impredicative-set|"
    r"native_compute)\b"
)


def strip_comments(src: str) -> str:
    out, depth, i = [], 0, 0
    while i < len(src):
        if src.startswith("(*", i):
            depth += 1
            i += 2
        elif src.startswith("*)", i) and depth:
            depth -= 1
            i += 2
        else:
            if depth == 0:
                out.append(src[i])
            i += 1
    return "".join(out)


def forbidden_scan() -> list[str]:
    """Vernacular that would declare an axiom or switch off a kernel check, anywhere in coq/.
    Section-local Variable/Hypothesis are allowed only between 'Section' and 'End' (checked)."""
    bad = []
    for root, _, files in os.walk(COQ):
        for fn in files:
            if not fn.endswith(".v"):
                continue
            path = os.path.join(root, fn)
            text = strip_comments(open(path).read())
            depth = 0
            for ln, line in enumerate(text.split("\n"), 1):
                st = line.strip()
                if re.match(r"Section\b", st):
                    depth += 1
                elif re.match(r"End\b", st) and depth:
                    depth -= 1
                for m in FORBIDDEN.finditer(line):
                    w = m.group(1)
                    if w in ("Variable", "Variables", "Hypothesis") and depth > 0:
                        continue
                    bad.append(f"{os.path.relpath(path, COQ)}:{ln}: {w}")
    return bad


def coq_build(clean=False) -> None:
    if clean:
        sh(["bash", "-c", "find . -name '*.vo' -o -name '*.glob' -o -name '*.vok' -o -name '*.vos' -o -name '.*.aux' | xargs rm -f"], 120, cwd=COQ)
    # one build at a time: several checks may be started together, and two concurrent coq_makefile / make runs in one directory
    # trample each other's Makefile.coq
    rc, out, err = sh(["flock", os.path.join(COQ, ".build.lock"), "bash", "-c",
                       "coq_makefile -f _CoqProject -o Makefile.coq >/dev/null && make -f Makefile.coq -j%d" % NPROC], 3000, cwd=COQ)
    if rc != 0:
        raise HarnessError("Coq build failed:\n" + (out + err)[-3000:])


def proof_step(prop: str, thorough=False) -> dict:
    """Recompile Props/<prop>.v unconditionally; parse Print Assumptions output."""
    vfile = os.path.join(COQ, "Props", f"{prop}.v")
    if os.environ.get("VERIF_DEBUG_SKIP_PROOF"):
        # development aid only: the run ends with exit 2 (no verdict), see Check.finish
        return {"theorems": ["debug"], "compiled": True, "closed": ["debug"], "axioms": {}, "log": "", "checker_cmd": "skipped (debug)"}
    src = open(vfile).read()
    theorems = re.findall(r"^\s*Theorem\s+(\w+)", strip_comments(src), re.M)
    cmd = ["coqc", "-Q", ".", "GE", "-w", "-notation-overridden", f"Props/{prop}.v"]
    rc, out, err = sh(cmd, 1200, cwd=COQ)
    res = {"theorems": theorems, "compiled": rc == 0, "closed": [], "axioms": {}, "log": (out + err)[-4000:], "checker_cmd": "cd /verif/coq && " + " ".join(cmd)}
    if rc != 0:
        return res
    # Print Assumptions output: either "Closed under the global context" or "Axioms:\n name : type ..."
    blocks = re.split(r"(?=Closed under the global context|Axioms:)", out)
    blocks = [b for b in blocks if b.startswith("Closed") or b.startswith("Axioms:")]
    pa = re.findall(r"Print Assumptions\s+(\w+)", strip_comments(src))
    for name, blk in zip(pa, blocks):
        if blk.startswith("Closed"):
            res["closed"].append(name)
        else:
            res["axioms"][name] = re.findall(r"^\s*([\w.]+)\s*:", blk[len("Axioms:"):], re.M)
    res["print_assumptions"] = pa
    if thorough:
        t0 = time.time()
        rc2, out2, err2 = sh(["coqchk", "-silent", "-o", "-Q", ".", "GE", f"GE.Props.{prop}"], 3000, cwd=COQ)
        res["coqchk_rc"] = rc2
        res["coqchk_tail"] = (out2 + err2)[-1500:]
        res["coqchk_s"] = round(time.time() - t0, 1)
        res["checker_cmd"] += f" && coqchk -silent -o -Q . GE GE.Props.{prop}"
    return res


# ------------------------------------------------------------------ cases evaluated inside Coq
def run_cases(prop: str, imports: str, case_terms: list[str], run_fn: str = "run", chunk=300, timeout=900, nlists=None):
    """Writes cases_<k>.v files 'Definition cases := [...]. Eval vm_compute in (run cases).' and compiles
    them in parallel.  [run_fn] must return (list N * list N): indices failing the correspondence and
    indices failing the direct oracle.  Returns (corr_fail_indices, oracle_fail_indices)."""
    d = os.path.join(scratch(), f"cases_{prop}_{len(os.listdir(scratch()))}")
    os.makedirs(d)
    files = []
    for k in range(0, len(case_terms), chunk):
        part = case_terms[k : k + chunk]
        fn = os.path.join(d, f"cases_{k // chunk}.v")
        with open(fn, "w") as f:
            f.write(imports + "\nOpen Scope Z_scope.\n")
            f.write("Definition cases := [\n  " + ";\n  ".join(part) + "\n].\n")
            f.write(f"Eval vm_compute in ({run_fn} cases).\n")
        files.append((k, fn))
    procs = []
    results = {}
    pending = list(files)
    running = []
    while pending or running:
        while pending and len(running) < NPROC:
            k, fn = pending.pop(0)
            p = subprocess.Popen(
                ["bash", "-c", f"ulimit -s unlimited 2>/dev/null; timeout {timeout} coqc -Q {COQ} GE -w -notation-overridden {fn}"],
                cwd=d, stdout=subprocess.PIPE, stderr=subprocess.PIPE, text=True,
            )
            running.append((k, fn, p))
        k, fn, p = running.pop(0)
        out, err = p.communicate()
        if p.returncode != 0:
            raise HarnessError(f"cases file {fn} did not evaluate (rc={p.returncode}):\n{(out + err)[-2000:]}")
        results[k] = out
    lists = None
    for k, out in sorted(results.items()):
        flat = re.sub(r"\s+", "", out)
        m = re.search(r"=\((\[.*\])\):", flat)
        if not m:
            raise HarnessError(f"cannot parse Coq output for chunk {k}: {out[-500:]}")
        groups = re.findall(r"\[(.*?)\]", m.group(1))
        if lists is None:
            lists = [[] for _ in groups]
        if len(groups) != len(lists):
            raise HarnessError(f"inconsistent Coq output for chunk {k}: {out[-500:]}")
        for grp, acc in zip(groups, lists):
            for tok in grp.split(";"):
                tok = tok.replace("%N", "")
                if tok:
                    acc.append(k + int(tok))
    if lists is None:
        lists = [[], []]
    if nlists is None:
        return lists[0], lists[1]
    if len(lists) != nlists:
        raise HarnessError(f"expected {nlists} index lists from Coq, got {len(lists)}")
    return tuple(lists)


# ------------------------------------------------------------------ implementation drivers
def run_impl(driver: str, payload, timeout=900, hashseed="0", extra_env=None):
    """Runs harness/drivers/<driver>.py in a fresh interpreter against /repo's working tree."""
    env = dict(os.environ)
    env.update({
        "PYTHONPATH": f"{REPO}:{VERIF}",
        "PYTHONDONTWRITEBYTECODE": "1",
        "PYTHONHASHSEED": str(hashseed),
        "GENETICENGINE_VERIF": "1",
    })
    if extra_env:
        env.update(extra_env)
    rc, out, err = sh([PY, "-B", "-m", f"harness.drivers.{driver}"], timeout, cwd=VERIF, env=env, input=json.dumps(payload))
    if rc != 0:
        # the implementation could not even be driven (import error, crash outside the guarded call)
        return {"driver_failed": True, "rc": rc, "stderr": err[-3000:], "stdout": out[-500:]}
    try:
        return json.loads(out[out.index("\x1e") + 1 :])
    except Exception as e:  # noqa
        return {"driver_failed": True, "rc": rc, "stderr": f"unparseable driver output: {e}\n{out[-1000:]}\n{err[-2000:]}"}


# ------------------------------------------------------------------ known findings
def known_findings(prop: str):
    path = os.path.join(VERIF, "known_findings.json")
    if not os.path.exists(path):
        return []
    data = json.load(open(path))
    return [k for k in data.get("known", []) if k["property"] == prop]


# ------------------------------------------------------------------ verdict / evidence
class Check:
    def __init__(self, prop: str, tier: str, seed: int):
        self.prop, self.tier, self.seed = prop, tier, seed
        self.t0 = time.time()
        self.violations = []  # (kind, description, replay dict)
        self.known_hit = []
        self.coverage = {}
        self.assumptions = []
        self.samples = []

    def violation(self, kind: str, what: str, replay: dict, found_input: bool):
        self.violations.append((kind, what, replay, found_input))

    def finish(self, proof: dict, trusted_base: list[str], coverage: dict, rule: str, level="proof"):
        obligations = len(proof["theorems"])
        discharged = 0
        if proof["compiled"]:
            for t in proof["theorems"]:
                if t in proof["closed"] or t in proof.get("allowed_axioms_ok", []):
                    discharged += 1
        bad = forbidden_scan()
        if bad:
            discharged = 0
        if not proof["compiled"] or discharged != obligations or bad:
            names = [t for t in proof["theorems"] if t not in proof["closed"]]
            self.violation(
                "proof",
                "proof obligations no longer check: " + (", ".join(names) or "Props file does not compile") + ("; forbidden vernacular: " + "; ".join(bad) if bad else ""),
                {"component": "proof", "theorems_not_checking": names, "forbidden": bad, "log": proof.get("log", "")[-2000:]},
                False,
            )
        cov = dict(coverage)
        cov.update({
            "obligations": obligations,
            "discharged": discharged,
            "checker_cmd": proof["checker_cmd"],
            "trusted_base": trusted_base,
            "theorems": proof["theorems"],
            "axioms_reported": proof["axioms"],
            "rule": rule,
            "samples": self.samples[:8] or ["(no samples)"],
            "known_findings_hit": self.known_hit,
            "cases_not_run_by_the_driver": getattr(self, "not_run", 0),
        })
        if "coqchk_rc" in proof:
            cov["coqchk"] = {"rc": proof["coqchk_rc"], "seconds": proof.get("coqchk_s"), "tail": proof["coqchk_tail"][-600:]}
            if proof["coqchk_rc"] != 0:
                self.violation("proof", "coqchk rejected the compiled development", {"component": "coqchk", "log": proof["coqchk_tail"]}, False)
        ev = {
            "property_id": self.prop,
            "tier": self.tier,
            "seed": self.seed,
            "level": level,
            "coverage": cov,
            "assumptions": self.assumptions or trusted_base,
            "wall_s": round(time.time() - self.t0, 2),
            "violations": len(self.violations),
        }
        os.makedirs(os.path.join(VERIF, "evidence"), exist_ok=True)
        with open(os.path.join(VERIF, "evidence", f"{self.prop}.json"), "w") as f:
            json.dump(ev, f, indent=1, default=str)
        for k in self.known_hit:
            print(f"KNOWN-FINDING: property={self.prop} {k}")
        if os.environ.get("VERIF_DEBUG_SKIP_PROOF"):
            for kind, what, replay, found in self.violations:
                print(f"  debug {kind}: {what[:600]}")
            print(f"DEBUG RUN (proof step skipped): no verdict; violations={len(self.violations)} evaluations={cov.get('evaluations')}")
            return 2
        if not self.violations:
            print(f"OK property={self.prop} tier={self.tier} obligations={obligations} discharged={discharged} evaluations={cov.get('evaluations')} wall_s={ev['wall_s']}")
            return 0
        os.makedirs(os.path.join(VERIF, "replays", self.prop), exist_ok=True)
        seen = set()
        # violations with a concrete failing input first
        for kind, what, replay, found in sorted(self.violations, key=lambda v: not v[3]):
            body = {"property": self.prop, "kind": kind, "what": what, "seed": self.seed, "tier": self.tier, "replay": replay,
                    "replay_cmd": f"cd /verif && ./check {self.prop} --replay <this file>"}
            h = hashlib.sha1(json.dumps(body, sort_keys=True, default=str).encode()).hexdigest()[:12]
            if h in seen:
                continue
            seen.add(h)
            path = os.path.join(VERIF, "replays", self.prop, f"{h}.json")
            with open(path, "w") as f:
                json.dump(body, f, indent=1, default=str)
            tail = "" if found else " no-failing-input-found"
            print(f"VIOLATION property={self.prop} replay={path}{tail}")
            print("  " + kind + ": " + " | ".join(x.strip() for x in what[:500].split("\n") if x.strip()))
        return 1
