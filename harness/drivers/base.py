"""Driver protocol: JSON payload on stdin, '\\x1e' + JSON result on stdout.  Every call into the
library is guarded: an exception raised by the implementation is an observable, not a crash."""
from __future__ import annotations

import json
import os
import signal
import sys


class ImplementationTimeout(BaseException):
    """The call into the library did not return within the per-call limit (observable 'Timeout')."""


def _on_alarm(*_):
    raise ImplementationTimeout()


CALL_LIMIT = int(os.environ.get("VERIF_CALL_LIMIT", "30"))   # generous: the machine that runs the checks may be several times slower


def exc_name(e: BaseException) -> str:
    return type(e).__name__


_depth = [0]
_timeouts = [0]


def guarded(f):
    """Runs a call into the library; exceptions and non-termination are observables.  Only the
    outermost guarded call arms the timer (nested calls share it)."""
    outer = _depth[0] == 0
    if outer and _timeouts[0] >= 5:
        # not an observation of the implementation: the harness gives up on the rest of the batch (the five calls that did not
        # return are reported as such); the check drops these cases and counts them
        return {"exc": "NotRun", "msg": "not run: the implementation already failed to return five times in this batch"}
    _depth[0] += 1
    if outer:
        signal.signal(signal.SIGALRM, _on_alarm)
        signal.alarm(CALL_LIMIT)
    try:
        return {"ok": f()}
    except ImplementationTimeout:
        if not outer:
            raise
        _timeouts[0] += 1
        return {"exc": "Timeout", "msg": f"no result within {CALL_LIMIT}s"}
    except BaseException as e:  # noqa: B902 - implementation exceptions are observables
        if isinstance(e, (KeyboardInterrupt, SystemExit)):
            raise
        # messages may quote generated module names (geverif_grammar_<pid>_<n>) and object addresses: neither is an observable
        import re as _re
        msg = _re.sub(r"geverif_grammar_\d+_\d+", "geverif_grammar", _re.sub(r"0x[0-9a-fA-F]+", "0x…", str(e)))
        return {"exc": exc_name(e), "msg": msg[:200]}
    finally:
        _depth[0] -= 1
        if outer:
            signal.alarm(0)


def main(handler):
    payload = json.load(sys.stdin)
    out = handler(payload)
    sys.stdout.write("\x1e" + json.dumps(out))
    sys.stdout.flush()
