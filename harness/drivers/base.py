"""Driver protocol: JSON payload on stdin, '\\x1e' + JSON result on stdout.  Every call into the
library is guarded: an exception raised by the implementation is an observable, not a crash."""
from __future__ import annotations

import json
import sys


def exc_name(e: BaseException) -> str:
    return type(e).__name__


def guarded(f):
    try:
        return {"ok": f()}
    except BaseException as e:  # noqa: B902 - implementation exceptions are observables
        if isinstance(e, (KeyboardInterrupt, SystemExit)):
            raise
        return {"exc": exc_name(e), "msg": str(e)[:200]}


def main(handler):
    payload = json.load(sys.stdin)
    out = handler(payload)
    sys.stdout.write("\x1e" + json.dumps(out))
    sys.stdout.flush()
