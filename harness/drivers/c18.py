"""Drives the random primitives of the implementation (C18)."""
from __future__ import annotations

from harness.drivers.base import guarded, main
from harness.tape import ScriptedSource, frac, ratio


def mk_src(s):
    k = s["k"]
    if k == "native":
        return ScriptedSource([tuple(d) for d in s["tape"]])
    if k == "ge":
        from geneticengine.representations.grammatical_evolution.ge import ListWrapper

        return ListWrapper(list(s["dna"]), s.get("idx", 0))
    if k == "stack":
        from geneticengine.representations.stackgggp import ListWrapper

        return ListWrapper(list(s["dna"]), s.get("idx", 0))
    if k == "sge":
        from geneticengine.representations.grammatical_evolution.structured_ge import (
            INFRASTRUCTURE_KEY,
            StructuredListWrapper,
        )

        w = StructuredListWrapper({INFRASTRUCTURE_KEY: list(s["dna"])})
        w.indexes[INFRASTRUCTURE_KEY] = s.get("idx", 0)
        return w
    raise ValueError(k)


def run_case(c):
    op = c["op"]
    if op == "randints":
        src = mk_src(c["src"])
        outs = []
        for lo, hi in c["reqs"]:
            r = guarded(lambda: src.randint(lo, hi))
            if "ok" in r and type(r["ok"]) is not int:
                r = {"exc": "TypeError", "msg": f"randint returned {type(r['ok']).__name__}"}
            outs.append(r)
            if "exc" in r:
                break
        return {"outs": outs}
    if op == "choice":
        src = mk_src(c["src"])
        return guarded(lambda: src.choice(list(range(c["n"]))))
    if op == "choicew":
        src = mk_src(c["src"])
        ws = [frac(w) for w in c["ws"]]
        return guarded(lambda: src.choice_weighted(list(range(len(ws))), ws))
    if op == "shuffle":
        src = mk_src(c["src"])
        lst = list(c["l"])

        def f():
            r = src.shuffle(lst)
            assert r is lst or list(r) == lst
            return list(r)

        return guarded(f)
    if op == "pop":
        src = mk_src(c["src"])
        lst = list(c["l"])

        def f():
            x = src.pop_random(lst)
            return [x, list(lst)]

        return guarded(f)
    if op == "bool":
        src = mk_src(c["src"])
        r = guarded(lambda: src.random_bool())
        if "ok" in r and type(r["ok"]) is not bool:
            r = {"exc": "TypeError", "msg": "not a bool"}
        return r
    if op == "baseint":
        from geneticengine.representations.tree.initializations import ProgressivelyTerminalDecider

        src = mk_src(c["src"])
        # BaseDecider.random_int is inherited unchanged by every tree decider; the decider needs no grammar for it
        # (its constructor validates the grammar since the repair of F38, so it is not called)
        dec = object.__new__(ProgressivelyTerminalDecider)
        dec.random, dec.grammar = src, None
        return guarded(lambda: dec.random_int(c["lo"], c["hi"]))
    if op in ("dsgeint", "dsgebool"):
        from geneticengine.representations.grammatical_evolution.dynamic_structured_ge import (
            DynamicSGEDecider,
            Genotype,
        )

        dec = object.__new__(DynamicSGEDecider)
        dec.genotype = Genotype(random=None, dna={int: [c["gene"]], bool: [c["gene"]]})
        dec.positions = {int: 0, bool: 0}
        if op == "dsgeint":
            return guarded(lambda: dec.random_int(c["lo"], c["hi"]))
        r = guarded(lambda: dec.random_bool())
        if "ok" in r and type(r["ok"]) is not bool:
            r = {"exc": "TypeError", "msg": f"random_bool returned {type(r['ok']).__name__} {r['ok']!r}"}
        return r
    if op == "float":
        src = mk_src(c["src"])
        r = guarded(lambda: src.random_float(frac(c["lo"]), frac(c["hi"])))
        if "ok" in r:
            r["ok"] = ratio(r["ok"])
        return r
    if op == "seedstream":
        # two native sources with the same seed produce the same stream (CPython's contract, exercised)
        from geneticengine.random.sources import NativeRandomSource

        a, b = NativeRandomSource(c["seed"]), NativeRandomSource(c["seed"])
        sa = [a.randint(lo, hi) for lo, hi in c["reqs"]] + [a.random_float(0, 1), a.random_bool(), a.choice([1, 2, 3])]
        sb = [b.randint(lo, hi) for lo, hi in c["reqs"]] + [b.random_float(0, 1), b.random_bool(), b.choice([1, 2, 3])]
        inr = all(lo <= v <= hi for v, (lo, hi) in zip(sa, c["reqs"]))
        return {"ok": [sa == sb, inr]}
    raise ValueError(op)


if __name__ == "__main__":
    main(lambda p: [run_case(c) for c in p["cases"]])
