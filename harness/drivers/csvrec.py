"""Drives CSVSearchRecorder and SimpleGP.build_recorder; re-reads the file on disk through an independent
handle after construction and after every registration (C20)."""
from __future__ import annotations

import csv
import os
import re
import tempfile

from harness.drivers.base import guarded, main
from harness.drivers.search import CounterRepr, mk_problem, Prog
from harness.tape import ratio

from geneticengine.evaluation.recorder import CSVSearchRecorder, SearchRecorder
from geneticengine.evaluation.sequential import SequentialEvaluator
from geneticengine.evaluation.tracker import MultiObjectiveProgressTracker, SingleObjectiveProgressTracker
from geneticengine.solutions.individual import Individual


def parse_file(path):
    with open(path, newline="") as f:
        rows = list(csv.reader(f))
    if not rows:
        return []
    header = rows[0]
    kinds = []
    for name in header:
        m = re.fullmatch(r"Fitness(\d+)", name)
        x = re.fullmatch(r"X(\d+)", name)
        if name == "Execution Time":
            kinds.append(["time"])
        elif name == "Phenotype":
            kinds.append(["pheno"])
        elif m:
            kinds.append(["fit", int(m.group(1))])
        elif x:
            kinds.append(["extra", int(x.group(1))])
        else:
            kinds.append(["unknown", name])
    out = [{"header": kinds}]
    for r in rows[1:]:
        cells = []
        for kind, v in zip(kinds, r):
            try:
                if kind[0] == "time":
                    float(v)
                    cells.append(["time"])
                elif kind[0] == "pheno":
                    cells.append(["pheno", int(re.fullmatch(r"Prog\((\d+)\)", v).group(1))])
                elif kind[0] == "fit":
                    cells.append(["fit", ratio(float(v))])
                elif kind[0] == "extra":
                    m = re.fullmatch(r"cb(\d+):(\d+)", v)
                    cells.append(["user", int(m.group(1)), int(m.group(2))])
                else:
                    cells.append(["fail"])
            except Exception:
                cells.append(["fail"])
        if len(r) != len(kinds):
            cells.append(["fail"])
        out.append({"row": cells, "time": r[0] if kinds and kinds[0] == ["time"] else None})
    return out


class Snap(SearchRecorder):
    def __init__(self, path, snaps, regs):
        self.path, self.snaps, self.regs = path, snaps, regs

    def register(self, tracker, individual, problem, is_best):
        self.regs.append([individual.genotype, bool(is_best)])
        self.snaps.append(parse_file(self.path))


def user_cb(j):
    return lambda ph: f"cb{j}:{ph.g}"


def field_cb(j):
    return lambda t, i, p: f"cb{j}:{i.genotype}"


def case_csv(c, d, n):
    path = os.path.join(d, f"log_{n}.csv")
    logpath = os.path.join(d, f"ff_{n}.txt")
    rep = CounterRepr()
    problem = mk_problem(c["problem"], c["table"], 0, logpath)
    inds = {i: Individual(genotype=i, representation=rep) for i in range(len(c["table"]))}
    if c["problem"]["kind"] == "mo" and not isinstance(c["problem"]["min"], list):
        problem.evaluate(Prog(0))   # number_of_objectives() needs one evaluation when minimize is a bool
    extras = c.get("extras")
    snaps, regs = [], []
    via = c["via"]
    if via == "simplegp":
        from geml.simplegp import SimpleGP

        tracker = SimpleGP.build_recorder(None, problem, path, c["only_best"], False, {f"X{j}": user_cb(j) for j in extras} if extras else None)
        rec = tracker.recorders[0]
    else:
        rec = CSVSearchRecorder(path, problem, extra_fields={f"X{j}": field_cb(j) for j in extras} if extras is not None else None,
                                only_record_best_individuals=c["only_best"])
        cls = SingleObjectiveProgressTracker if c["problem"]["kind"] == "so" else MultiObjectiveProgressTracker
        tracker = cls(problem, SequentialEvaluator(), recorders=[rec])
    snaps.append(parse_file(path))
    if via == "tracker":
        tracker.recorders.append(Snap(path, snaps, regs))
        for batch in c["batches"]:
            tracker.evaluate([inds[i] for i in batch])
    else:
        for i, flag in c["regs"]:
            inds[i].ensure_fitness(problem)
            rec.register(tracker, inds[i], problem, flag)
            regs.append([i, flag])
            snaps.append(parse_file(path))
    nobj = problem.number_of_objectives()
    return {"snaps": snaps, "regs": regs, "nobj": nobj}


def handler(p):
    outs = []
    d = tempfile.mkdtemp(prefix="geverif_csv_")
    try:
        for n, c in enumerate(p["cases"]):
            outs.append(guarded(lambda: case_csv(c, d, n)))
    finally:
        import shutil

        shutil.rmtree(d, ignore_errors=True)
    return outs


if __name__ == "__main__":
    main(handler)
