"""Materialises a decl as a real Python module and observes Grammar objects (shared by the grammar-level drivers)."""
from __future__ import annotations

import importlib.util
import os
import sys
import tempfile

from harness import grammars
from harness.tape import ratio

_counter = [0]
_dir = [None]

BASE_T = {int: "int", float: "float", str: "str", bool: "bool"}


def load_decl(decl):
    if _dir[0] is None:
        _dir[0] = tempfile.mkdtemp(prefix="geverif_mod_")
        import atexit
        import shutil

        atexit.register(lambda: shutil.rmtree(_dir[0], ignore_errors=True))
    _counter[0] += 1
    name = f"geverif_grammar_{os.getpid()}_{_counter[0]}"
    path = os.path.join(_dir[0], name + ".py")
    with open(path, "w") as f:
        f.write(grammars.source(decl))
    spec = importlib.util.spec_from_file_location(name, path)
    mod = importlib.util.module_from_spec(spec)
    sys.modules[name] = mod
    spec.loader.exec_module(mod)
    classes = [getattr(mod, f"C{i}") for i in range(len(decl["classes"]))]
    return mod, classes


def extract(decl, classes):
    from geneticengine.grammar.grammar import extract_grammar

    return extract_grammar([classes[i] for i in decl["considered"]], classes[decl["start"]], decl["xdepth"])


def sym_of(t, idx):
    if t in BASE_T:
        return ["b", BASE_T[t]]
    if t in idx:
        return ["c", idx[t]]
    return ["?", repr(t)]


def skey(s):
    return (0 if s[0] == "b" else 1 if s[0] == "c" else 2, str(s[1]) if s[0] != "c" else f"{s[1]:06d}")


def observe_grammar(g, classes):
    idx = {c: i for i, c in enumerate(classes)}
    so = lambda t: sym_of(t, idx)  # noqa: E731
    return {
        "nodes": sorted((so(t) for t in g.all_nodes), key=skey),
        "alts": [[so(k), [so(v) for v in vs]] for k, vs in g.alternatives.items()],
        "terminals": sorted((so(t) for t in g.terminals), key=skey),
        "nonterminals": sorted((so(t) for t in g.non_terminals), key=skey),
        "dist": sorted(([so(k), v] for k, v in g.distanceToTerminal.items() if k in g.all_nodes), key=lambda kv: skey(kv[0])),
        "rec": sorted((so(t) for t in g.recursive_prods), key=skey),
        "weights": sorted(([so(k), ratio(float(v))] for k, v in g.get_weights().items()), key=lambda kv: skey(kv[0])),
        "min_depth": g.get_min_tree_depth(),
    }
