"""Drives grammar extraction and analysis (C05, C19, parts of C08)."""
from __future__ import annotations

from harness.drivers.base import guarded, main
from harness.drivers.gramlib import extract, load_decl, observe_grammar


def case_extract(c):
    mod, classes = load_decl(c["decl"])
    outs = []
    for _ in range(c.get("times", 1)):
        r = guarded(lambda: observe_grammar(extract(c["decl"], classes), classes))
        outs.append(r)
        if "exc" in r:
            break
    res = {"extractions": outs}
    if c.get("usable") and "ok" in outs[-1]:
        def f():
            g = extract(c["decl"], classes)
            u = g.usable_grammar()
            return observe_grammar(u, classes)
        res["usable"] = guarded(f)
    return res


def handler(p):
    return [guarded(lambda: case_extract(c)) for c in p["cases"]]


if __name__ == "__main__":
    main(handler)
