"""Drives grammar extraction and analysis (C05, C19, parts of C08)."""
from __future__ import annotations

from harness.drivers.base import guarded, main
from harness.drivers.gramlib import extract, load_decl, observe_grammar


def case_extract(c):
    mod, classes = load_decl(c["decl"])
    outs = []
    for _ in range(c.get("times", 1)):
        r = guarded(lambda: observe_grammar(extract(c["decl"], classes), classes))
        outs.append(r)
        if "exc" in r:
            break
    if c.get("interleave") and "ok" in outs[-1]:
        # extract a different grammar over the same classes (other depth mode, fewer considered classes),
        # then look at the first Grammar object again: it must not have changed
        def f2():
            g1 = extract(c["decl"], classes)
            o1 = observe_grammar(g1, classes)
            other = dict(c["decl"], xdepth=not c["decl"]["xdepth"], considered=c["interleave"])
            try:
                extract(other, classes)
            except BaseException:
                pass
            return [o1, observe_grammar(g1, classes)]
        r2 = guarded(f2)
        if "ok" in r2:
            outs = [{"ok": x} for x in r2["ok"]]
        else:
            outs = [r2]
    res = {"extractions": outs}
    if c.get("usable") and "ok" in outs[-1]:
        def f():
            g = extract(c["decl"], classes)
            u = g.usable_grammar()
            return observe_grammar(u, classes)
        res["usable"] = guarded(f)
    return res


def handler(p):
    return [guarded(lambda: case_extract(c)) for c in p["cases"]]


if __name__ == "__main__":
    main(handler)
