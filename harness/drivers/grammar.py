"""Drives grammar extraction and analysis (C05, C19, parts of C08)."""
from __future__ import annotations

from harness.drivers.base import guarded, main
from harness.drivers.gramlib import extract, load_decl, observe_grammar


def case_extract(c):
    mod, classes = load_decl(c["decl"])
    outs = []
    for _ in range(c.get("times", 1)):
        r = guarded(lambda: observe_grammar(extract(c["decl"], classes), classes))
        outs.append(r)
        if "exc" in r:
            break
    if c.get("interleave") and "ok" in outs[-1]:
        # extract a different grammar over the same classes (other depth mode, fewer considered classes),
        # then look at the first Grammar object again: it must not have changed
        def f2():
            g1 = extract(c["decl"], classes)
            o1 = observe_grammar(g1, classes)
            other = dict(c["decl"], xdepth=not c["decl"]["xdepth"], considered=c["interleave"])
            try:
                extract(other, classes)
            except BaseException:
                pass
            return [o1, observe_grammar(g1, classes)]
        r2 = guarded(f2)
        if "ok" in r2:
            outs = [{"ok": x} for x in r2["ok"]]
        else:
            outs = [r2]
    res = {"extractions": outs}
    if c.get("usable") and "ok" in outs[-1]:
        def f():
            g = extract(c["decl"], classes)
            u = g.usable_grammar()
            return observe_grammar(u, classes)
        res["usable"] = guarded(f)
    return res


class Unsupported(Exception):
    """a declaration form outside the model's vocabulary: the case is skipped (and counted), not judged"""


def reflect_classes(considered, start):
    """real classes -> the decl the model works on (the inverse of grammars.source)"""
    import typing
    from fractions import Fraction

    from geneticengine.grammar.utils import get_arguments, is_abstract
    from geneticengine.grammar.metahandlers import floats, ints, lists, vars as mvars

    def user(c):
        return isinstance(c, type) and c.__module__ not in ("builtins", "abc", "typing") and c not in (int, float, str, bool)

    order = []

    def visit(c):
        if c in order:
            return
        par = c.mro()[1] if len(c.mro()) > 1 else None
        if par is not None and user(par):
            visit(par)
        if c not in order:
            order.append(c)

    def mentioned(t, acc):
        if user(t):
            acc.append(t)
        for a in typing.get_args(t):
            if isinstance(a, type) or typing.get_origin(a) is not None:
                mentioned(a, acc)

    todo = [start] + list(considered)
    seen = set()
    while todo:
        c = todo.pop(0)
        if c in seen:
            continue
        seen.add(c)
        visit(c)
        if not is_abstract(c):
            for _, t in get_arguments(c):
                acc = []
                mentioned(t, acc)
                todo += acc
    idx = {c: i for i, c in enumerate(order)}

    def val(v):
        if type(v) is bool:
            return ["bool", v]
        if type(v) is int:
            return ["int", v]
        if type(v) is str:
            return ["str", [ord(ch) for ch in v]]
        raise Unsupported(f"option {v!r}")

    def rat(x):
        f = Fraction(x)
        return [f.numerator, f.denominator]

    def ty(t):
        if t in (int, float, str, bool):
            return ["base", t.__name__]
        if t in idx:
            return ["sym", idx[t]]
        org = typing.get_origin(t)
        args = typing.get_args(t)
        if org is list and len(args) == 1:
            return ["list", ty(args[0])]
        if org is tuple and args and Ellipsis not in args:
            return ["tuple", [ty(a) for a in args]]
        if org is typing.Union:
            return ["union", [ty(a) for a in args]]
        if org is typing.Annotated:
            base, mh = args[0], t.__metadata__[0]
            if type(mh) is ints.IntRange:
                return ["ann", ty(base), ["intrange", mh.min, mh.max]]
            if type(mh) is ints.IntList:
                return ["ann", ty(base), ["intlist", list(mh.elements)]]
            if type(mh) is floats.FloatRange:
                return ["ann", ty(base), ["floatrange", rat(mh.min), rat(mh.max)]]
            if type(mh) is floats.FloatList:
                return ["ann", ty(base), ["floatlist", [rat(x) for x in mh.elements]]]
            if type(mh) is mvars.VarRange:
                return ["ann", ty(base), ["varrange", [val(x) for x in mh.options]]]
            if type(mh) in (lists.ListSizeBetween, lists.ListSizeBetweenWithoutListOperations):
                return ["ann", ty(base), ["listsize", mh.min, mh.max, type(mh) is lists.ListSizeBetween]]
            raise Unsupported(f"refinement {type(mh).__name__}")
        raise Unsupported(f"type {t!r}")

    classes = []
    for c in order:
        par = c.mro()[1] if len(c.mro()) > 1 else None
        w = c.__dict__.get("__gengy__", {}).get("weight") if isinstance(c.__dict__.get("__gengy__"), dict) else None
        if w is None and hasattr(c, "__gengy__") and "weight" in getattr(c, "__gengy__") and "__gengy__" not in c.__dict__:
            raise Unsupported("inherited __gengy__ weight")
        classes.append({"parent": idx[par] if par in idx else None, "abs": "abc" if is_abstract(c) else None,
                        "fields": [] if is_abstract(c) else [ty(t) for _, t in get_arguments(c)], "weight": rat(w) if w is not None else None})
    return order, {"classes": classes, "considered": [idx[c] for c in considered], "start": idx[start], "xdepth": False}


def case_shipped(c):
    """a grammar shipped with the library: the named classes of real modules, reflected into a decl for the model"""
    import importlib

    ns = {}
    for m in c["modules"]:
        mod = importlib.import_module(m)
        ns.update({k: v for k, v in vars(mod).items() if isinstance(v, type)})
    try:
        considered = [ns[n] for n in c["considered"]] if c.get("considered") else None
        start = ns[c["start"]]
        if considered is None:      # every class of these modules below the start symbol's root
            root = [b for b in start.mro() if b.__module__ not in ("builtins", "abc", "typing")][-1]
            considered = [v for v in dict.fromkeys(ns.values()) if v is not root and issubclass(v, root) and v.__module__ in c["modules"]]
        order, decl = reflect_classes(considered, start)
    except Unsupported as e:
        return {"unsupported": str(e)[:200]}
    from geneticengine.grammar.grammar import extract_grammar

    outs = [guarded(lambda: observe_grammar(extract_grammar(considered, start), order))]
    res = {"decl": decl, "names": [k.__name__ for k in order], "extractions": outs}
    if "ok" in outs[0]:
        res["usable"] = guarded(lambda: observe_grammar(extract_grammar(considered, start).usable_grammar(), order))
    return res


def handler(p):
    return [guarded(lambda: (case_shipped if c.get("op") == "shipped" else case_extract)(c)) for c in p["cases"]]


if __name__ == "__main__":
    main(handler)
