"""Runs whole searches with the library's seeded NativeRandomSource and reports the exact sequence of
programs handed to the fitness function and the returned best (C08).  The process environment is varied
by the caller (PYTHONHASHSEED) and here (allocation padding before the classes are defined, import order)."""
from __future__ import annotations

import hashlib
import json
import os

from harness.drivers.base import guarded, main


def preamble(c):
    order = c.get("import_order", 0)
    mods = ["geneticengine.grammar.grammar", "geneticengine.representations.tree.treebased", "geneticengine.algorithms.gp.gp",
            "geneticengine.representations.stackgggp", "geneticengine.representations.grammatical_evolution.structured_ge",
            "geneticengine.random.sources", "geneticengine.algorithms.hill_climbing"]
    if order == 1:
        mods = list(reversed(mods))
    elif order == 2:
        mods = mods[3:] + mods[:3]
    import importlib
    for m in mods:
        importlib.import_module(m)
    pad = [object() for _ in range(c.get("pad", 0))]       # shifts the addresses of everything defined afterwards
    pad2 = [type(f"Pad{i}", (), {}) for i in range(c.get("pad_classes", 0))]
    return pad, pad2


def fitness_of(canon_str):
    h = hashlib.sha1(canon_str.encode()).digest()
    return (h[0] * 256 + h[1]) % 97


def one_search(c, classes, g):
    from geneticengine.algorithms.gp.gp import GeneticProgramming
    from geneticengine.algorithms.hill_climbing import HC
    from geneticengine.algorithms.one_plus_one import OnePlusOne
    from geneticengine.algorithms.random_search import RandomSearch
    from geneticengine.evaluation.budget import EvaluationBudget
    from geneticengine.problems import SingleObjectiveProblem
    from geneticengine.random.sources import NativeRandomSource
    from harness.drivers.reps import Rep
    from harness.drivers.synth import Canon

    canon = Canon(classes)
    seq = []

    def ff(p):
        s = json.dumps(canon(p))
        seq.append(hashlib.sha1(s.encode()).hexdigest()[:10])
        return fitness_of(s)
    problem = SingleObjectiveProblem(ff, minimize=c.get("minimize", False))
    rnd = NativeRandomSource(c["seed"])
    rep = Rep(c["rep"], g, classes, rnd).rep
    budget = EvaluationBudget(c["budget"])
    algo = c["algo"]
    if algo == "gp":
        kw = {} if c.get("default_random") else {"random": rnd}
        if c.get("step") == "xover":
            # crossover and mutation fire often (the default step crosses over with probability 0.01)
            from geneticengine.algorithms.gp.operators.combinators import SequenceStep
            from geneticengine.algorithms.gp.operators.crossover import GenericCrossoverStep
            from geneticengine.algorithms.gp.operators.mutation import GenericMutationStep
            from geneticengine.algorithms.gp.operators.selection import TournamentSelection
            kw["step"] = SequenceStep(TournamentSelection(2), GenericCrossoverStep(0.8), GenericMutationStep(0.5))
        a = GeneticProgramming(problem, budget, rep, population_size=c.get("pop", 8), **kw)
    elif algo == "rs":
        a = RandomSearch(problem, budget, rep, random=rnd)
    elif algo == "hc":
        a = HC(problem, budget, rep, random=rnd, number_of_mutations=3)
    else:
        a = OnePlusOne(problem, budget, rep, random=rnd)
    best = a.search()
    b = best[0] if isinstance(best, (list, tuple)) else best
    return {"evaluated": len(seq), "digest": hashlib.sha1("".join(seq).encode()).hexdigest()[:16], "first": seq[:6],
            "best": json.dumps(canon(b.get_phenotype()))[:300] if b is not None else None,
            "best_fitness": b.get_fitness(problem).fitness_components[0] if b is not None else None}


def case_repro(c):
    pad = preamble(c)
    from harness.drivers.gramlib import extract, load_decl
    mod, classes = load_decl(c["decl"])
    g = extract(c["decl"], classes)
    runs = []
    for _ in range(c.get("repeat", 2)):       # the same search twice in one process
        runs.append(guarded(lambda: one_search(c, classes, g)))
    del pad
    return {"runs": runs, "hashseed": os.environ.get("PYTHONHASHSEED")}


def handler(p):
    return [guarded(lambda: case_repro(c)) for c in p["cases"]]


if __name__ == "__main__":
    main(handler)
