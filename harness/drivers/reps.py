"""Drives the five representations through sequences of create / map / mutate / crossover operations
with one shared recording random source, observing for every operation: its inputs, the answers it
consumed from the shared source, its output, whether any earlier genotype changed (deep snapshots),
and the grammar's productions (C06, C07, C09, C10, C01..C03 after variation, C11 on offspring)."""
from __future__ import annotations

import copy

from harness.drivers.base import guarded, main
from harness.drivers.gramlib import extract, load_decl
from harness.drivers.synth import Canon, ExtremeSource, RecordingSource, alts_obs, labels_obs, mk_decider
from harness.tape import ratio


def type_key(t, classes):
    """canonical form of a dSGE gene key (a type object)"""
    idx = {c: i for i, c in enumerate(classes)}
    if t in idx:
        return ["c", idx[t]]
    if t in (int, float, bool, str):
        return ["b", t.__name__]
    import typing
    if typing.get_origin(t) is typing.Union:
        return ["u", [type_key(a, classes) for a in typing.get_args(t)]]
    if typing.get_origin(t) is list and len(typing.get_args(t)) == 1:
        return ["l", type_key(typing.get_args(t)[0], classes)]
    if typing.get_origin(t) is tuple and typing.get_args(t):
        return ["t", [type_key(a, classes) for a in typing.get_args(t)]]
    import re
    return ["?", re.sub(r"geverif_grammar_\d+_\d+", "geverif_grammar", repr(t))[:80]]


class Rep:
    def __init__(self, spec, g, classes, shared):
        self.spec, self.g, self.classes, self.shared = spec, g, classes, shared
        self.canon = Canon(classes)
        k = spec["kind"]
        self.kind = k
        self.sge_keys = None
        if k == "tree":
            from geneticengine.representations.tree.treebased import TreeBasedRepresentation
            self.decider = mk_decider(spec["decider"], shared, g)
            self.rep = TreeBasedRepresentation(g, self.decider)
        elif k == "ge":
            from geneticengine.representations.grammatical_evolution.ge import GrammaticalEvolutionRepresentation
            self.decider = mk_decider(spec["decider"], shared, g)
            self.rep = GrammaticalEvolutionRepresentation(g, self.decider, gene_length=spec["gene_length"])
        elif k == "sge":
            from geneticengine.representations.grammatical_evolution.structured_ge import StructuredGrammaticalEvolutionRepresentation
            self.decider = mk_decider(spec["decider"], shared, g)
            self.rep = StructuredGrammaticalEvolutionRepresentation(g, self.decider, gene_length=spec["gene_length"])
        elif k == "dsge":
            from geneticengine.representations.grammatical_evolution.dynamic_structured_ge import DynamicStructuredGrammaticalEvolutionRepresentation
            self.decider = None
            self.rep = DynamicStructuredGrammaticalEvolutionRepresentation(g, spec["max_depth"])
        elif k == "stack":
            from geneticengine.representations.stackgggp import StackBasedGGGPRepresentation
            self.decider = None
            self.rep = StackBasedGGGPRepresentation(g, gene_length=spec["gene_length"])
        else:
            raise ValueError(k)

    # ---- canonical forms
    def geno(self, x):
        k = self.kind
        if k == "tree":
            return ["tree", self.canon(x)]
        if k in ("ge", "stack"):
            return ["codons", list(x.dna)]
        if k == "sge":
            if self.sge_keys is None:
                self.sge_keys = list(x.dna.keys())
            return ["keyed", [[self.sge_keys.index(kk) if kk in self.sge_keys else -1, list(v)] for kk, v in x.dna.items()]]
        if k == "dsge":
            return ["dsge", [[type_key(kk, self.classes), list(v)] for kk, v in x.dna.items()]]
        raise ValueError(k)

    def snapshot(self, x):
        """everything an operator could modify: genes / program, node metadata and synthesis contexts"""
        if self.kind == "tree":
            ctxs = []

            def walk(o, d=0):
                from geneticengine.grammar.utils import get_arguments
                if d > 300:
                    return
                c = getattr(o, "gengy_synthesis_context", None)
                if isinstance(o, list) or type(o) in self.canon.idx:
                    ctxs.append(None if c is None else [c.depth, c.nodes, c.expansions])
                if isinstance(o, list):
                    for y in o:
                        walk(y, d + 1)
                elif type(o) in self.canon.idx:
                    for name, _ in get_arguments(type(o)):
                        walk(getattr(o, name), d + 1)
            walk(x)
            return [self.canon(x), labels_obs(x, self.classes), ctxs]
        return self.geno(x)


def grammar_snapshot(g):
    """every public analysis result of the grammar, in a form that does not depend on object addresses"""
    nm = lambda t: getattr(t, "__qualname__", None) or repr(t)  # noqa: E731
    return {
        "alternatives": [[nm(k), [nm(v) for v in vs]] for k, vs in g.alternatives.items()],
        "all_nodes": sorted(nm(x) for x in g.all_nodes), "ordered_nodes": [nm(x) for x in getattr(g, "ordered_nodes", [])],
        "terminals": sorted(nm(x) for x in g.terminals), "non_terminals": sorted(nm(x) for x in g.non_terminals),
        "recursive": sorted(nm(x) for x in g.recursive_prods),
        "distance": sorted([nm(k), v] for k, v in g.distanceToTerminal.items()),
        "abstract_dist": sorted([nm(k), sorted([nm(a), b] for a, b in v.items())] for k, v in g.abstract_dist_to_t.items()),
        "considered": [nm(x) for x in g.considered_subtypes], "start": nm(g.starting_symbol), "xdepth": g.expansion_depthing,
    }


def extends(before, after):
    """dSGE: the only permitted change of a genotype is that gene lists grow at the end / new keys appear"""
    if before[0] != "dsge" or after[0] != "dsge":
        return False
    # position by position (dicts keep insertion order): every earlier gene list is a prefix of the later one, new keys only at the end
    b, a = before[1], after[1]
    return len(a) >= len(b) and all(str(ka) == str(kb) and va[: len(vb)] == vb for (kb, vb), (ka, va) in zip(b, a))


def case_rep(c):
    mod, classes = load_decl(c["decl"])
    rg = guarded(lambda: extract(c["decl"], classes))
    if "exc" in rg:
        return {"phase": "extract", "res": rg}
    g = rg["ok"]
    # the shared source: a recorded pseudo-random stream, or scripted extreme answers (always the lowest / highest / alternating value of the requested range)
    shared = ExtremeSource([], c["shared"]) if c.get("shared") in ("min", "max", "alt", "mid") else RecordingSource(c["seed"])
    rr = guarded(lambda: Rep(c["rep"], g, classes, shared))
    if "exc" in rr:
        return {"phase": "construct", "res": rr}
    R = rr["ok"]
    reg = []          # genotypes
    inds = []         # Individual wrappers (phenotype cache) for consumption
    out = []
    for op in c["ops"]:
        pos0 = len(shared.tape)
        tape_entry = lambda d: [d[0], d[1] if d[0] == "i" else list(d[1])]  # noqa: E731
        alts0 = alts_obs(g, classes)
        gs0 = grammar_snapshot(g)
        snaps0 = [R.snapshot(x) for x in reg]
        exp0 = getattr(R.decider, "expanding", None) if R.decider is not None else None
        rec = {"op": op, "inputs": [], "expanding_before": exp0 if isinstance(exp0, bool) else None, "in_ctx": []}
        if R.kind == "tree" and op[0] in ("mutate", "cross", "map"):
            for a in op[1:]:
                if isinstance(a, int) and a < len(reg):
                    cx = getattr(reg[a], "gengy_synthesis_context", None)
                    rec["in_ctx"].append([cx.depth, cx.expansions] if cx is not None else [0, 0])
        kind = op[0]

        def run():
            if kind == "create":
                x = R.rep.create_genotype(shared)
                reg.append(x)
                return {"geno": R.geno(x), "labels": labels_obs(x, classes) if R.kind == "tree" else None}
            if kind == "map":
                x = reg[op[1]]
                rec["inputs"] = [R.geno(x)]
                p = R.rep.genotype_to_phenotype(x)
                return {"pheno": R.canon(p), "geno_after": R.geno(x), "labels": labels_obs(p, classes)}
            if kind == "mutate":
                x = reg[op[1]]
                rec["inputs"] = [R.geno(x)]
                y = R.rep.mutate(shared, x)
                reg.append(y)
                return {"geno": R.geno(y), "labels": labels_obs(y, classes) if R.kind == "tree" else None}
            if kind == "cross":
                x, y = reg[op[1]], reg[op[2]]
                rec["inputs"] = [R.geno(x), R.geno(y)]
                a, b = R.rep.crossover(shared, x, y)
                reg.extend([a, b])
                return {"genos": [R.geno(a), R.geno(b)], "labels": [labels_obs(a, classes), labels_obs(b, classes)] if R.kind == "tree" else None}
            if kind == "draw":
                return {"draw": shared.randint(op[1], op[2])}
            raise ValueError(kind)
        if any(isinstance(a, int) and a >= len(reg) for a in op[1:]) and kind != "draw":
            continue          # an earlier operation failed, the genotype this one refers to does not exist
        r = guarded(run)
        rec["res"] = r
        rec["consumed"] = [tape_entry(d) for d in shared.tape[pos0:]]
        rec["alts_before"], rec["alts_after"] = alts0, alts_obs(g, classes)
        gs1 = grammar_snapshot(g)
        rec["grammar_same"] = gs0 == gs1
        if gs0 != gs1:
            rec["grammar_diff"] = {k: [gs0[k], gs1[k]] for k in gs0 if gs0[k] != gs1[k]}
        snaps1 = [R.snapshot(x) for x in reg[: len(snaps0)]]
        # the one permitted change: dSGE mapping extends the genotype BEING MAPPED (nobody else's genes)
        own = op[1] if kind == "map" else None
        rec["changed"] = [i for i, (a, b) in enumerate(zip(snaps0, snaps1)) if a != b and not (i == own and extends(a, b))]
        rec["extended"] = [i for i, (a, b) in enumerate(zip(snaps0, snaps1)) if a != b and i == own and extends(a, b)]
        e = getattr(R.decider, "expanding", None) if R.decider is not None else None
        rec["expanding_after"] = e if isinstance(e, bool) else None
        out.append(rec)
        if "exc" in r and r["exc"] == "Timeout":
            break
    return {"phase": "ops", "ops": out, "sge_keys": len(R.sge_keys) if R.sge_keys else None,
            "sge_infra": (R.sge_keys.index("$infrastructure") if R.sge_keys and "$infrastructure" in R.sge_keys else None)}


def handler(p):
    out = []
    for c in p["cases"]:
        try:        # the per-call time limit applies to each operation (inner guarded calls), not to the sequence
            out.append({"ok": case_rep(c)})
        except BaseException as e:  # noqa: B902
            if isinstance(e, (KeyboardInterrupt, SystemExit)):
                raise
            out.append({"exc": type(e).__name__, "msg": str(e)[:200]})
    return out


if __name__ == "__main__":
    main(handler)
