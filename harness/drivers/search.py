"""Drives evaluators, trackers, budgets and the four search loops of the implementation with a
synthetic representation (C12, C13, C14)."""
from __future__ import annotations

import os
import signal
import tempfile

from harness.drivers.base import guarded, main
from harness.tape import frac, ratio

from geneticengine.algorithms.gp.gp import GeneticProgramming
from geneticengine.algorithms.hill_climbing import HC
from geneticengine.algorithms.one_plus_one import OnePlusOne
from geneticengine.algorithms.random_search import RandomSearch
from geneticengine.evaluation.budget import AnyOf, EvaluationBudget, SearchBudget, TargetFitness
from geneticengine.evaluation.parallel import ParallelEvaluator
from geneticengine.evaluation.recorder import SearchRecorder
from geneticengine.evaluation.sequential import SequentialEvaluator
from geneticengine.evaluation.tracker import MultiObjectiveProgressTracker, SingleObjectiveProgressTracker
from geneticengine.problems import MultiObjectiveProblem, SingleObjectiveProblem
from geneticengine.random.sources import NativeRandomSource
from geneticengine.representations.api import (
    Representation,
    RepresentationWithCrossover,
    RepresentationWithMutation,
)
from geneticengine.solutions.individual import Individual


class Prog:
    def __init__(self, g):
        self.g = g

    def __repr__(self):
        return f"Prog({self.g})"


class CounterRepr(Representation, RepresentationWithMutation, RepresentationWithCrossover):
    """Genotypes are fresh integers: the k-th genotype ever made is k."""

    def __init__(self):
        self.n = 0

    def fresh(self):
        g = self.n
        self.n += 1
        return g

    def create_genotype(self, random, **kwargs):
        return self.fresh()

    def genotype_to_phenotype(self, genotype):
        return Prog(genotype)

    def mutate(self, random, genotype, **kwargs):
        return self.fresh()

    def crossover(self, random, parent1, parent2, **kwargs):
        return (self.fresh(), self.fresh())


class FF:
    """Fitness function backed by a table; appends every invocation to a file (survives workers)."""

    def __init__(self, table, tag, logpath, scalar, delays=None, dtype=None):
        self.table, self.tag, self.logpath, self.scalar, self.delays, self.dtype = table, tag, logpath, scalar, delays, dtype

    def __call__(self, prog):
        with open(self.logpath, "a") as f:
            f.write(f"{self.tag} {prog.g}\n")
        if self.delays:
            import time
            time.sleep(self.delays[prog.g % len(self.delays)])  # makes workers finish in a chosen order
        comps = self.table[prog.g % len(self.table)]
        if self.dtype:
            # the fitness function answers with numpy scalars (error counts, distances, float32 losses); the values are the same numbers
            import numpy as np
            comps = [getattr(np, self.dtype)(c) for c in comps]
        return comps[0] if self.scalar else list(comps)


class WeightedSum:
    def __init__(self, ws):
        self.ws = ws

    def __call__(self, comps):
        return sum(w * c for w, c in zip(self.ws, comps))


def mk_problem(spec, table, tag, logpath, delays=None):
    tbl = [[frac(c) for c in comps] for comps in table]
    if spec["kind"] == "so":
        return SingleObjectiveProblem(FF(tbl, tag, logpath, True, delays, spec.get("dtype")), minimize=spec["min"])
    agg = WeightedSum([frac(w) for w in spec["agg"]]) if spec.get("agg") is not None else None
    m = spec["min"]
    return MultiObjectiveProblem(list(m) if isinstance(m, list) else bool(m), FF(tbl, tag, logpath, False, delays, spec.get("dtype")), aggregate_fitness=agg)


def read_log(path):
    if not os.path.exists(path):
        return []
    return [[int(x) for x in line.split()] for line in open(path) if line.strip()]


def fit_obs(f):
    return [ratio(f.maximizing_aggregate), [ratio(c) for c in f.fitness_components]]


class Rec(SearchRecorder):
    def __init__(self, ident):
        self.ident = ident
        self.log = []

    def register(self, tracker, individual, problem, is_best):
        self.log.append((self.ident(individual), bool(is_best), individual.metadata.get("generation")))


class Ident:
    """model id of an Individual object = order of first appearance (by identity)"""

    def __init__(self):
        self.ids = {}
        self.keep = []

    def __call__(self, ind):
        k = id(ind)
        if k not in self.ids:
            self.ids[k] = len(self.keep)
            self.keep.append(ind)
        return self.ids[k]


def case_c13(c, logpath):
    rep = CounterRepr()
    problems = [mk_problem(s, c["table"], pid, logpath, c.get("delays")) for pid, s in enumerate(c["problems"])]
    inds = {i: Individual(genotype=i, representation=rep) for i in range(len(c["table"]))}
    ev = ParallelEvaluator() if c["par"] else SequentialEvaluator()
    obs = []
    for pid, batch in c["calls"]:
        r = guarded(lambda: ev.evaluate(problems[pid], [inds[i] for i in batch]))
        if "exc" in r:
            obs.append(r)
            break
        caches = []
        for i in sorted(inds):
            for q, pr in enumerate(problems):
                if inds[i].has_fitness(pr):
                    caches.append([i, q, fit_obs(inds[i].get_fitness(pr))])
        obs.append({"ok": {"count": ev.number_of_evaluations(), "caches": caches, "log": [[i, pid_] for pid_, i in read_log(logpath)]}})
    return {"obs": obs}


def case_c12(c, logpath):
    rep = CounterRepr()
    problem = mk_problem(c["problem"], c["table"], 0, logpath)
    inds = {i: Individual(genotype=i, representation=rep) for i in range(len(c["table"]))}
    rec = Rec(lambda ind: ind.genotype)
    ev = ParallelEvaluator() if c["par"] else SequentialEvaluator()
    cls = MultiObjectiveProgressTracker if c["mo"] else SingleObjectiveProgressTracker
    tr = cls(problem, ev, recorders=[rec])
    obs = []
    for batch in c["batches"]:
        r = guarded(lambda: tr.evaluate([inds[i] for i in batch]))
        if "exc" in r:
            obs.append(r)
            break
        if c["mo"]:
            bests = [b.genotype for b in tr.get_best_individuals()]
        else:
            b = tr.get_best_individual()
            bests = [] if b is None else [b.genotype]
        obs.append({"ok": {"log": [[i, f] for i, f, _ in rec.log], "bests": bests}})
    return {"obs": obs}


def mk_budget(spec):
    if "eval" in spec:
        return EvaluationBudget(spec["eval"])
    if "target" in spec:
        return TargetFitness(frac(spec["target"]))
    return AnyOf(mk_budget(spec["anyof"][0]), mk_budget(spec["anyof"][1]))


class LoggedBudget(SearchBudget):
    def __init__(self, inner, problem):
        self.inner, self.problem, self.log = inner, problem, []

    def is_done(self, tracker):
        c = tracker.get_number_evaluations()
        best0 = None
        if isinstance(tracker, SingleObjectiveProgressTracker) and tracker.get_best_individual() is not None:
            best0 = ratio(tracker.get_best_individual().get_fitness(self.problem).fitness_components[0])
        d = self.inner.is_done(tracker)
        self.log.append([c, best0, bool(d)])
        return d


class Timeout(Exception):
    pass


def mk_step(spec):
    from geneticengine.algorithms.gp.operators.combinators import ExclusiveParallelStep, ParallelStep, SequenceStep
    from geneticengine.algorithms.gp.operators.crossover import GenericCrossoverStep
    from geneticengine.algorithms.gp.operators.elitism import ElitismStep
    from geneticengine.algorithms.gp.operators.mutation import GenericMutationStep
    from geneticengine.algorithms.gp.operators.novelty import NoveltyStep
    from geneticengine.algorithms.gp.operators.selection import TournamentSelection

    k = spec[0]
    if k == "default":
        from geneticengine.algorithms.gp.gp import default_generic_programming_step

        return default_generic_programming_step()
    if k == "elitism":
        return ElitismStep()
    if k == "novelty":
        return NoveltyStep()
    if k == "tournament":
        return TournamentSelection(spec[1], with_replacement=spec[2])
    if k == "mutation":
        return GenericMutationStep(spec[1])
    if k == "crossover":
        return GenericCrossoverStep(spec[1])
    if k == "seq":
        return SequenceStep(*[mk_step(s) for s in spec[1]])
    if k == "par":
        return ParallelStep([mk_step(s) for s in spec[1]], weights=spec[2])
    if k == "excl":
        return ExclusiveParallelStep([mk_step(s) for s in spec[1]], weights=spec[2])
    raise ValueError(k)


def case_c14(c, logpath):
    rep = CounterRepr()
    problem = mk_problem(c["problem"], c["table"], 0, logpath)
    ident = Ident()
    rec = Rec(ident)
    ev = ParallelEvaluator() if c.get("par") else SequentialEvaluator()
    cls = MultiObjectiveProgressTracker if c["mo"] else SingleObjectiveProgressTracker
    # how the evaluator (owner of the evaluation counter) comes about: passed explicitly, the tracker's own default, or the
    # tracker the algorithm builds when none is passed
    how = c.get("ev", "explicit")
    tr = None if how == "algo_default" else cls(problem, recorders=[rec]) if how == "tracker_default" else cls(problem, ev, recorders=[rec])
    budget = LoggedBudget(mk_budget(c["budget"]), problem)
    rnd = NativeRandomSource(c.get("seed", 0))
    a = c["algo"]
    if a == "rs":
        alg = RandomSearch(problem, budget, rep, rnd, tr)
    elif a == "opo":
        alg = OnePlusOne(problem, budget, rep, rnd, tr)
    elif a == "hc":
        alg = HC(problem, budget, rep, rnd, tr, number_of_mutations=c["m"])
    else:
        alg = GeneticProgramming(problem, budget, rep, rnd, tr, population_size=c["pop"], step=mk_step(c["step"]))
    if tr is None:
        tr = alg.tracker
        tr.recorders.append(rec)

    def on_alarm(*_):
        raise Timeout()

    signal.signal(signal.SIGALRM, on_alarm)
    signal.alarm(c.get("timeout", 30))
    try:
        r = guarded(alg.search)
    finally:
        signal.alarm(0)
    gens = {}
    for i, _, g in rec.log:
        gens.setdefault(g, []).append(i)
    table = [[i, [ratio(frac(x)) for x in c["table"][ind.genotype % len(c["table"])]]] for i, ind in enumerate(ident.keep)]
    out = {"checks": budget.log, "total": tr.get_number_evaluations(), "invocations": len(read_log(logpath)),
           "gens": [gens[g] for g in sorted(k for k in gens if k is not None)] if a == "gp" else [], "table": table,
           "reclog": [[i, f] for i, f, _ in rec.log]}
    if "exc" in r:
        out["exc"] = r["exc"]
        out["msg"] = r.get("msg")
    else:
        ret = r["ok"]
        out["ret"] = None if ret is None else (ident(ret) if isinstance(ret, Individual) else -1)
    return out


def handler(p):
    outs = []
    d = tempfile.mkdtemp(prefix="geverif_search_")
    try:
        for n, c in enumerate(p["cases"]):
            logpath = os.path.join(d, f"log_{n}.txt")
            f = {"c13": case_c13, "c12": case_c12, "c14": case_c14}[c["op"]]
            r = guarded(lambda: f(c, logpath))
            outs.append(r["ok"] if "ok" in r else {"driver_exc": r["exc"], "msg": r.get("msg")})
    finally:
        import shutil

        shutil.rmtree(d, ignore_errors=True)
    return outs


if __name__ == "__main__":
    main(handler)
