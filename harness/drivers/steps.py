"""Drives the GP steps, combinators, selection operators and initialisers (C15, C16, C17)."""
from __future__ import annotations

import os
import tempfile
from abc import ABC
from dataclasses import dataclass

from harness.drivers.base import guarded, main
from harness.drivers.search import CounterRepr, mk_problem, mk_step as mk_step_basic
from harness.tape import BadTape, ScriptedSource, frac

from geneticengine.algorithms.gp.population import Population
from geneticengine.evaluation.sequential import SequentialEvaluator
from geneticengine.evaluation.tracker import MultiObjectiveProgressTracker, SingleObjectiveProgressTracker
from geneticengine.random.sources import NativeRandomSource
from geneticengine.solutions.individual import Individual


def mk_step(spec):
    from geneticengine.algorithms.gp.operators.combinators import ExclusiveParallelStep, IdentityStep, ParallelStep, SequenceStep
    from geneticengine.algorithms.gp.operators.selection import LexicaseSelection

    k = spec[0]
    if k == "lexicase":
        return LexicaseSelection(epsilon=spec[1])
    if k == "identity":
        return IdentityStep()
    if k == "seq":
        return SequenceStep(*[mk_step(s) for s in spec[1]])
    if k == "par":
        return ParallelStep([mk_step(s) for s in spec[1]], weights=[frac(w) for w in spec[2]] if spec[2] is not None else None)
    if k == "excl":
        return ExclusiveParallelStep([mk_step(s) for s in spec[1]], weights=[frac(w) for w in spec[2]] if spec[2] is not None else None)
    return mk_step_basic(spec)


class Recording:
    """mixin: also records what choice() and shuffle() were asked and answered"""

    def choice(self, choices):
        snapshot = list(choices)
        x = super().choice(choices)
        self.choices.append((snapshot, x))
        return x

    def shuffle(self, lst):
        r = super().shuffle(lst)
        self.shuffles.append(list(r))
        return r


class RecordingSource(Recording, ScriptedSource):
    def __init__(self, tape):
        super().__init__(tape)
        self.choices = []
        self.shuffles = []


def gene_source(dna):
    from geneticengine.representations.grammatical_evolution.ge import ListWrapper

    class RecordingLW(Recording, ListWrapper):
        pass

    r = RecordingLW(list(dna))
    r.choices, r.shuffles = [], []
    return r


def mk_pop(n, table, problem_spec, logpath):
    rep = CounterRepr()
    rep.n = n
    problem = mk_problem(problem_spec, table, 0, logpath)
    inds = [Individual(genotype=i, representation=rep) for i in range(n)]
    return rep, problem, inds


def as_form(form, inds, problem):
    if form == "list":
        return list(inds)
    if form == "oneshot":
        return (i for i in inds)
    if form == "population":
        cls = SingleObjectiveProgressTracker if problem.__class__.__name__.startswith("Single") else MultiObjectiveProgressTracker
        return Population(iter(inds), cls(problem, SequentialEvaluator()))
    raise ValueError(form)


def case_len(c, logpath, src=None):
    n = c["n"]
    table = c.get("table") or [[[i % 5, 1], [(7 * i) % 3, 1]] if c["mo"] else [[i % 5, 1]] for i in range(max(n, 1))]
    pspec = {"kind": "mo", "min": [False, True], "agg": None} if c["mo"] else {"kind": "so", "min": False}
    rep, problem, inds = mk_pop(n, table, pspec, logpath)
    step = mk_step(c["step"])
    pop = as_form(c["form"], inds, problem)
    rnd = src or NativeRandomSource(c.get("seed", 0))
    return guarded(lambda: len(list(step.apply(problem, SequentialEvaluator(), rep, rnd, pop, c["k"], 1))))


def case_elitism(c, logpath, src=None):
    from geneticengine.algorithms.gp.operators.elitism import ElitismStep

    rep, problem, inds = mk_pop(len(c["table"]), c["table"], c["problem"], logpath)
    pop = [inds[i] for i in c["pop"]]
    pop = as_form(c.get("form", "list"), pop, problem)
    return guarded(lambda: [i.genotype for i in ElitismStep().apply(problem, SequentialEvaluator(), rep, NativeRandomSource(0), pop, c["k"], 1)])


def case_tournament(c, logpath, src):
    from geneticengine.algorithms.gp.operators.selection import TournamentSelection

    rep, problem, inds = mk_pop(len(c["table"]), c["table"], c["problem"], logpath)
    if c.get("carried"):
        # the individuals arrive with a fitness for ANOTHER (still alive) problem that ranks them the other way round
        other = mk_problem(dict(c["problem"], min=not c["problem"]["min"]), c["table"], 1, logpath)
        list(SequentialEvaluator().evaluate(other, inds) or [])
        c["_keepalive"] = other
    pop = as_form(c.get("form", "list"), [inds[i] for i in c["pop"]], problem)
    step = TournamentSelection(c["size"], with_replacement=c["repl"])
    if c.get("reused") and c["size"] >= 1:
        # the same operator object has been used before, on the same individuals, for a problem that ranks them the other way round
        # (its own random source: the scripted one is for the observed application)
        other2 = mk_problem(dict(c["problem"], min=not c["problem"]["min"]), c["table"], 2, logpath)
        c["_keepalive2"] = other2
        guarded(lambda: list(step.apply(other2, SequentialEvaluator(), rep, NativeRandomSource(7), [inds[i] for i in c["pop"]], min(2, len(c["pop"])), 0)))

    def f():
        winners = [i.genotype for i in step.apply(problem, SequentialEvaluator(), rep, src, pop, c["k"], 1)]
        size = c["size"]
        groups = [[x.genotype for _, x in src.choices[j * size:(j + 1) * size]] for j in range(len(winners))]
        return [[w, g] for w, g in zip(winners, groups)]

    return guarded(f)


def case_lexicase(c, logpath, src):
    from geneticengine.algorithms.gp.operators.selection import LexicaseSelection

    rep, problem, inds = mk_pop(len(c["table"]), c["table"], {"kind": "mo", "min": list(c["mins"]), "agg": None}, logpath)
    pop = as_form(c.get("form", "list"), [inds[i] for i in c["pop"]], problem)
    step = LexicaseSelection(epsilon=c["eps"])

    def f():
        winners = [i.genotype for i in step.apply(problem, SequentialEvaluator(), rep, src, pop, c["k"], 1)]
        orders = list(src.shuffles)
        if len(orders) != len(winners):
            # the implementation did not shuffle once per winner: report what it did, padded
            orders = orders + [[] for _ in range(len(winners) - len(orders))]
        return [[w, o] for w, o in zip(winners, orders[: len(winners)])]

    return guarded(f)


# ---- a tiny grammar for the tree initialisers
class Root(ABC):
    pass


@dataclass
class Leaf(Root):
    pass


@dataclass
class Node(Root):
    l: Root
    r: Root


def mk_init(spec):
    from geneticengine.algorithms.gp.operators.initializers import StandardInitializer
    from geneticengine.representations.tree.operators import (
        FullInitializer,
        GrowInitializer,
        InjectInitialPopulationWrapper,
        PositionIndependentGrowInitializer,
        RampedHalfAndHalfInitializer,
    )

    k = spec[0]
    if k == "standard":
        return StandardInitializer()
    if k == "full":
        return FullInitializer(3)
    if k == "grow":
        return GrowInitializer()
    if k == "pigrow":
        return PositionIndependentGrowInitializer(3)
    if k == "ramped":
        return RampedHalfAndHalfInitializer(3)
    if k == "inject":
        progs = [Node(Leaf(), Leaf()) if j % 2 else Leaf() for j in range(spec[1])]
        return InjectInitialPopulationWrapper(progs, mk_init(spec[2]))
    raise ValueError(k)


def case_init(c, logpath, src=None):
    from geneticengine.grammar.grammar import extract_grammar
    from geneticengine.problems import SingleObjectiveProblem
    from geneticengine.representations.tree.initializations import MaxDepthDecider
    from geneticengine.representations.tree.treebased import TreeBasedRepresentation

    g = extract_grammar([Leaf, Node], Root)
    rnd = NativeRandomSource(c.get("seed", 0))
    rep = TreeBasedRepresentation(g, MaxDepthDecider(rnd, g, 4))
    problem = SingleObjectiveProblem(lambda p: 0.0)
    if c["init"][0] == "parameterless":
        from geneticengine.algorithms.gp.parameterless import ParameterlessPopulationInitializer
        from geneticengine.evaluation.budget import TimeBudget

        init = ParameterlessPopulationInitializer(TimeBudget(50), SingleObjectiveProgressTracker(problem, SequentialEvaluator()))
    else:
        init = mk_init(c["init"])
    def call():
        for pk in c.get("prior", []):          # the same initialiser object was asked before, for other sizes
            list(init.initialize(problem, rep, rnd, pk))
        return len(list(init.initialize(problem, rep, rnd, c["k"])))
    return guarded(call)


def case_inputs(c, logpath, src=None):
    """C09 for steps: the individuals handed to a step are the same afterwards (genotype, cached phenotype, cached fitness)"""
    import math

    n = c["n"]
    special = {"nan": float("nan"), "inf": float("inf"), "-inf": float("-inf")}
    table = [[special[x] if isinstance(x, str) else frac(x) for x in comps] for comps in c["table"]]
    from harness.drivers.search import FF
    from geneticengine.problems import MultiObjectiveProblem, SingleObjectiveProblem

    if c["mo"]:
        problem = MultiObjectiveProblem(list(c["mins"]), FF(table, 0, logpath, False, None))
    else:
        problem = SingleObjectiveProblem(FF(table, 0, logpath, True, None), minimize=c["mins"][0])
    rep = CounterRepr()
    rep.n = n
    inds = [Individual(genotype=i, representation=rep) for i in range(n)]
    ev = SequentialEvaluator()
    guarded(lambda: ev.evaluate(problem, inds))

    def fnum(x):
        return "nan" if isinstance(x, float) and math.isnan(x) else repr(x)

    def snap(ind):
        fs = []
        for pr, f in ind.fitness_store.items():
            fs.append([fnum(f.maximizing_aggregate), [fnum(x) for x in f.fitness_components], id(f.fitness_components)])
        # (Individual.metadata - the generation tag the steps put on survivors - is not part of what the property lists)
        return [repr(ind.genotype), repr(ind.phenotype), fs]
    before = [snap(i) for i in inds]
    step = mk_step(c["step"])
    rnd = src or NativeRandomSource(c.get("seed", 0))
    r = guarded(lambda: len(list(step.apply(problem, ev, rep, rnd, as_form(c["form"], inds, problem), c["k"], 1))))
    after = [snap(i) for i in inds]
    changed = [[i, b, a] for i, (b, a) in enumerate(zip(before, after)) if b != a]
    return {"ok": {"res": r, "changed": changed[:5], "n_changed": len(changed)}}


FUNS = {"inputs": case_inputs, "len": case_len, "elitism": case_elitism, "tournament": case_tournament, "lexicase": case_lexicase, "init": case_init}


def run_one(c, logpath):
    if c["op"] == "enum":
        # all decision sequences of the implementation, by replay-and-branch
        inner = c["inner"]
        results, stack, limit = [], [[]], c.get("limit", 3000)
        while stack and len(results) < limit:
            tape = stack.pop()
            src = RecordingSource([("i", v) for v in tape])
            r = FUNS[inner["op"]](inner, logpath, src)
            if r.get("exc") == "BadTape" and src.log and src.log[-1][3] is None:
                _, lo, hi, _ = src.log[-1]
                for v in range(hi, lo - 1, -1):
                    stack.append(tape + [v])
            else:
                results.append({"tape": tape, "out": r})
        return {"results": results, "complete": not stack}
    src = RecordingSource([tuple(d) for d in c["tape"]]) if "tape" in c else (gene_source(c["dna"]) if "dna" in c else None)
    return FUNS[c["op"]](c, logpath, src)


def handler(p):
    outs = []
    d = tempfile.mkdtemp(prefix="geverif_steps_")
    try:
        for n, c in enumerate(p["cases"]):
            logpath = os.path.join(d, f"log_{n}.txt")
            r = guarded(lambda: run_one(c, logpath))
            outs.append(r["ok"] if "ok" in r else {"driver_exc": r["exc"], "msg": r.get("msg")})
    finally:
        import shutil

        shutil.rmtree(d, ignore_errors=True)
    return outs


if __name__ == "__main__":
    main(handler)
