"""Drives program synthesis on the implementation: deciders, create_node / random_node, the tree
representation's create / mutate / crossover, and the genotype representations' mapping
(C01, C02, C03, C04, C06, C07, C09, C10, C11)."""
from __future__ import annotations

import random as _pyrandom

from harness.drivers.base import guarded, main
from harness.drivers.gramlib import extract, load_decl
from harness.tape import BadTape, ScriptedSource, ratio

from geneticengine.random.sources import RandomSource


class RecordingSource(RandomSource):
    """Answers from a private random.Random(seed) and records every answer as a tape entry, with the
    same conventions as ScriptedSource (normalvariate consumes one fraction)."""

    def __init__(self, seed):
        self.r = _pyrandom.Random(seed)
        self.tape = []

    def randint(self, min, max):
        v = self.r.randint(min, max)
        self.tape.append(["i", v])
        return v

    def random_float(self, min, max):
        u = self.r.random()
        self.tape.append(["f", ratio(u)])
        return u * (max - min) + min

    def normalvariate(self, mean, sigma):
        z = self.r.normalvariate(0, 1)
        self.tape.append(["f", ratio(z)])
        return z * sigma + mean


class ExtremeSource(ScriptedSource):
    """Replays a tape and, when it ends, answers with a policy (min / max / alternate) and records it."""

    def __init__(self, tape, policy):
        super().__init__(tape)
        self.policy = policy
        self.k = 0

    def randint(self, min, max):
        if max < min:
            raise ValueError("empty range for randint")
        if self.pos >= len(self.tape):
            self.k += 1
            v = {"min": min, "max": max, "alt": min if self.k % 2 else max, "mid": (min + max) // 2}[self.policy]
            self.tape.append(("i", v))
        return super().randint(min, max)

    def random_float(self, min, max):
        if self.pos >= len(self.tape):
            self.tape.append(("f", (1, 4)))
        return super().random_float(min, max)

    def normalvariate(self, mean, sigma):
        if self.pos >= len(self.tape):
            self.tape.append(("f", (1, 4)))
        return super().normalvariate(mean, sigma)


def mk_src(s):
    k = s["k"]
    if k == "native":
        return ScriptedSource([tuple(d) if d[0] == "i" else ("f", tuple(d[1])) for d in s["tape"]])
    if k == "record":
        return RecordingSource(s["seed"])
    if k == "extreme":
        return ExtremeSource([], s["policy"])
    from harness.drivers.c18 import mk_src as mk18

    return mk18(s)


def src_obs(src):
    """state of the source after the run + the tape it answered from (for recorded / extreme sources)"""
    if isinstance(src, RecordingSource):
        return {"k": "native", "tape": src.tape, "rest": []}
    if isinstance(src, ScriptedSource):
        tape = [[d[0], d[1] if d[0] == "i" else list(d[1])] for d in src.tape]
        return {"k": "native", "tape": tape, "rest": tape[src.pos:]}
    if hasattr(src, "indexes"):
        from geneticengine.representations.grammatical_evolution.structured_ge import INFRASTRUCTURE_KEY

        return {"k": "lw", "idx": src.indexes[INFRASTRUCTURE_KEY]}
    return {"k": "lw", "idx": src.index}


def mk_decider(spec, src, g):
    from geneticengine.representations.tree import initializations as I

    k = spec[0]
    if k == "max":
        return I.MaxDepthDecider(src, g, spec[1])
    if k == "full":
        return I.FullDecider(src, g, spec[1])
    if k == "pi":
        return I.PositionIndependentGrowDecider(src, g, spec[1])
    if k == "prog":
        return I.ProgressivelyTerminalDecider(src, g)
    raise ValueError(k)


class Canon:
    """program value -> canonical JSON (classes by declaration index, exact type tests)"""

    def __init__(self, classes):
        self.idx = {c: i for i, c in enumerate(classes)}

    def __call__(self, v, depth=0):
        from geneticengine.grammar.utils import get_arguments

        t = type(v)
        if depth > 400:
            return ["foreign", "too deep"]
        if t is bool:
            return ["bool", v]
        if t is int:
            return ["int", v]
        if t is float:
            return ["float", ratio(v) if v == v and v not in (float("inf"), float("-inf")) else None]
        if t is str:
            return ["str", [ord(ch) for ch in v]]
        if t is tuple:
            return ["tuple", [self(x, depth + 1) for x in v]]
        if isinstance(v, list):
            return ["list", [self(x, depth + 1) for x in v]]
        if t in self.idx:
            return ["node", self.idx[t], [self(getattr(v, name), depth + 1) for name, _ in get_arguments(t)]]
        return ["foreign", t.__name__]


def labels_obs(v, classes):
    """metadata of every labelled object (dataclass nodes and lists) in pre-order; nothing inside tuples"""
    from geneticengine.grammar.utils import get_arguments

    idx = {c: i for i, c in enumerate(classes)}
    out = []

    def inside(o, acc, depth=0):
        """ids of every object of the structure below (and including) o"""
        if depth > 400:
            return acc
        acc.add(id(o))
        if isinstance(o, (list, tuple)):
            for x in o:
                inside(x, acc, depth + 1)
        elif type(o) in idx:
            for name, _ in get_arguments(type(o)):
                inside(getattr(o, name), acc, depth + 1)
        return acc

    def one(o):
        tw = getattr(o, "gengy_types_this_way", None)
        counts = [[idx[k], len(vs)] for k, vs in (tw or {}).items() if k in idx]
        lab = [getattr(o, "gengy_nodes", None), getattr(o, "gengy_distance_to_term", None), getattr(o, "gengy_weighted_nodes", None), sorted(counts),
               bool(getattr(o, "gengy_labeled", False))]
        if tw:
            # the index must list objects OF THIS subtree (identity), not equal-looking objects of another program
            ids = inside(o, set())
            if any(id(x) not in ids for vs in tw.values() for x in vs):
                lab.append("foreign-entry")
        return lab

    def walk(o, depth=0):
        if depth > 400:
            return
        if isinstance(o, list):
            out.append(one(o))
            for x in o:
                walk(x, depth + 1)
        elif type(o) in idx:
            out.append(one(o))
            for name, _ in get_arguments(type(o)):
                walk(getattr(o, name), depth + 1)
    walk(v)
    return out


def alts_obs(g, classes):
    idx = {c: i for i, c in enumerate(classes)}
    return [[idx.get(k, -1), [idx.get(v, -1) for v in vs]] for k, vs in g.alternatives.items()]


def ty_of(spec, classes):
    """a type term of the decl (JSON) -> the Python type object, via the module's own annotations is not
    possible for arbitrary terms, so it is rebuilt with the same constructors the generated source uses"""
    from harness import grammars

    ns = {f"C{i}": c for i, c in enumerate(classes)}
    exec(grammars.HEADER.split("\n\n")[0], ns)  # imports only
    return eval(grammars.py_ty(spec), ns)


def case_create(c):
    """decl, decider spec, source spec, optional start type (default: the start symbol via the
    representation's create_genotype)."""
    if c.get("decl0") is not None:
        # the documented re-declaration pattern: use the classes once, then change one constructor annotation
        # (Cls.__init__.__annotations__[name] = NewType) so that they now read as c["decl"], and extract again
        mod, classes = load_decl(c["decl0"])

        def warm():
            g0 = extract(c["decl0"], classes)
            s0 = RecordingSource(1)
            from geneticengine.representations.tree.treebased import TreeBasedRepresentation
            TreeBasedRepresentation(g0, mk_decider(["max", 8], s0, g0)).create_genotype(s0)
        guarded(warm)
        for i, (k0, k1) in enumerate(zip(c["decl0"]["classes"], c["decl"]["classes"])):
            for j, (t0, t1) in enumerate(zip(k0["fields"], k1["fields"])):
                if t0 != t1:
                    classes[i].__init__.__annotations__[f"f{j}"] = ty_of(t1, classes)
    else:
        mod, classes = load_decl(c["decl"])
    canon = Canon(classes)
    out = {}
    rg = guarded(lambda: extract(c["decl"], classes))
    if "exc" in rg:
        return {"phase": "extract", "res": rg}
    g = rg["ok"]
    out["alts_before"] = alts_obs(g, classes)
    src = mk_src(c["src"])
    if c["decider"][0] == "dsge":
        from geneticengine.representations.grammatical_evolution.dynamic_structured_ge import (
            DynamicStructuredGrammaticalEvolutionRepresentation as DS, Genotype)

        def f():
            rep = DS(g, c["decider"][1])
            geno = Genotype(src, {})
            for k, genes in c.get("dna", []):
                geno.dna[ty_of(k, classes)] = list(genes)
            out["_geno"] = geno
            return canon(rep.genotype_to_phenotype(geno))
        r = guarded(f)
    else:
        rd = guarded(lambda: mk_decider(c["decider"], src, g))
        if "exc" in rd:
            return {"phase": "validate", "res": rd, "alts_before": out["alts_before"], "alts_after": alts_obs(g, classes), "src": src_obs(src)}
        decider = rd["ok"]
        if c.get("interleave") is not None:
            # another grammar over the same classes is extracted before this one is used
            other = dict(c["decl"], xdepth=c["interleave"]["xdepth"], considered=c["interleave"]["considered"])
            guarded(lambda: extract(other, classes))

        def f():
            from geneticengine.representations.tree.treebased import TreeBasedRepresentation, random_node

            if c.get("start") is None:
                tree = TreeBasedRepresentation(g, decider).create_genotype(src)
            else:
                tree = random_node(src, g, ty_of(c["start"], classes), decider)
            if c.get("labels"):
                out["labels"] = labels_obs(tree, classes)
            return canon(tree)
        r = guarded(f)
        out["expanding"] = getattr(decider, "expanding", None)
    if r.get("exc") == "BadTape":
        r = {"exc": "BadTape"}
    out.update({"phase": "create", "res": r, "alts_after": alts_obs(g, classes), "src": src_obs(src)})
    geno = out.pop("_geno", None)
    if geno is not None:
        idx = {cl: i for i, cl in enumerate(classes)}
        out["dna_after"] = [[repr(k) if k not in idx and k not in (int, float, bool, str) else (["c", idx[k]] if k in idx else ["b", k.__name__]), list(v)] for k, v in geno.dna.items()]
    return out


def case_mh(c):
    """a refinement on its own: generate from the given source, then ask its validate()"""
    from harness import grammars

    ns = {}
    exec(grammars.HEADER.split("\n\n")[0], ns)
    mh = eval(grammars.py_mh(c["mh"]), ns)
    base = eval(grammars.py_ty(c["base"]), ns)
    src = mk_src(c["src"])
    canon = Canon([])

    def rec(t, **kw):
        raise RuntimeError("rec called")
    if c["mh"][0] == "dependent":
        r = {"ok": c.get("probe_value", 0)}      # Dependent: only its validate() is asked, about a given value
    else:
        r = guarded(lambda: mh.generate(src, None, base, rec, {}))
    if r.get("exc") == "BadTape":
        r = {"exc": "BadTape"}
    out = {"res": r if "exc" in r else {"ok": canon(r["ok"])}, "src": src_obs(src)}
    if "ok" in r:
        rv = guarded(lambda: mh.validate(r["ok"]))
        out["validate"] = rv if "exc" in rv else {"ok": bool(rv["ok"]) if type(rv["ok"]) in (bool,) or rv["ok"] in (0, 1) else None}
    return out


def case_enum(c):
    """ALL sequences of random decisions: depth-first over the decision tree of create_genotype.  A scripted
    source replays a prefix of answers; when it runs out at a request randint(lo, hi) the prefix is extended by
    every value of [lo, hi] (replay-and-branch).  Returns the distinct programs and the outcome counts."""
    import json

    mod, classes = load_decl(c["decl"])
    canon = Canon(classes)
    rg = guarded(lambda: extract(c["decl"], classes))
    if "exc" in rg:
        return {"phase": "extract", "res": rg}
    g = rg["ok"]
    from geneticengine.representations.tree.treebased import TreeBasedRepresentation

    if c.get("interleave") is not None:
        other = dict(c["decl"], considered=c["interleave"])
        guarded(lambda: extract(other, classes))
    probe = guarded(lambda: mk_decider(c["decider"], ScriptedSource([]), g))
    if "exc" in probe:
        return {"phase": "validate", "res": probe}
    limit, width = c.get("limit", 20000), c.get("width", 40)
    programs, order, errors = {}, [], {}
    leaves = runs = 0
    truncated = None
    stack = [[]]
    while stack:
        tape = stack.pop()
        runs += 1
        if runs > limit:
            truncated = "limit"
            break
        src = ScriptedSource(tape)
        try:
            tree = TreeBasedRepresentation(g, mk_decider(c["decider"], src, g)).create_genotype(src)
            res = ("ok", tree)
        except RecursionError:
            res = ("exc", "RecursionError")
        except BaseException as e:  # noqa: B902
            if isinstance(e, (KeyboardInterrupt, SystemExit)):
                raise
            res = ("exc", type(e).__name__)
        last = src.log[-1] if src.log else None
        if last is not None and last[3] is None and src.pos >= len(tape):
            lo, hi = last[1], last[2]            # the decision the prefix did not answer: branch over every answer
            if hi - lo + 1 > width:
                truncated = "width"
                break
            for v in range(hi, lo - 1, -1):
                stack.append(tape + [("i", v)])
            continue
        leaves += 1
        if res[0] == "ok":
            if src.pos != len(tape):
                truncated = "unused answers"
                break
            cv = canon(res[1])
            key = json.dumps(cv)
            if key not in programs:
                programs[key] = cv
                order.append(tape)
        else:
            errors[res[1]] = errors.get(res[1], 0) + 1
    return {"phase": "create", "programs": list(programs.values()), "tapes": [[d[1] for d in t] for t in order], "leaves": leaves, "runs": runs,
            "errors": errors, "truncated": truncated}


def handler(p):
    ops = {"create": case_create, "mh": case_mh, "enum": case_enum}
    return [guarded(lambda: ops.get(c["op"], case_mh)(c)) for c in p["cases"]]


if __name__ == "__main__":
    import sys

    # unbounded recursion (the progressive decider on a recursive grammar, F38) ends in RecursionError either way; a lower
    # limit only makes those runs end sooner (the deepest programs the checks ask for, depth 8 with nested lists and tuples, need well under 200 frames)
    sys.setrecursionlimit(450)
    main(handler)
