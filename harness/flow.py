"""The differential part of a check: run cases on the implementation, evaluate model and oracle
inside Coq, classify failures, search, and produce replay material."""
from __future__ import annotations

import json
import random

from harness import core


def distinct_nontrivial(cases, outs, nontrivial):
    seen = set()
    for c, o in zip(cases, outs):
        if nontrivial(c, o):
            seen.add(json.dumps(c, sort_keys=True, default=str))
    return len(seen)


def differential(chk: core.Check, driver: str, cases: list, to_coq, imports: str, *, run_fn="run",
                 describe=lambda c, o: "", region=lambda c, o: None, component="", more_cases=None,
                 hashseed="0", chunk=300, extra_env=None, timeout=900, kind=lambda c: str(c.get("op", "")), per_kind=2, expand=None, coq_regions=(), precomputed=None):
    """Returns (outs, corr_fail, orac_fail).  Adds violations to chk.
    region(c, o) -> id of a known finding covering this failing case, or None."""
    # precomputed: the implementation was already run on these cases by the caller (which filtered them)
    res = precomputed if precomputed is not None else core.run_impl(driver, {"cases": cases}, hashseed=hashseed, extra_env=extra_env, timeout=timeout)
    if isinstance(res, dict) and res.get("driver_failed"):
        chk.violation(
            "correspondence",
            f"the implementation could not be driven for component '{component or driver}' (it no longer checks): " + res["stderr"][-600:],
            {"component": component or driver, "driver": driver, "stderr": res["stderr"], "first_case": cases[:1]},
            False,
        )
        return None, [], []
    outs = res
    if len(outs) != len(cases):
        raise core.HarnessError(f"driver {driver} returned {len(outs)} results for {len(cases)} cases")
    if expand is not None:
        cases, outs = expand(cases, outs)
        chk.expanded = (cases, outs)
    # cases the driver did not run (it gives up on a batch after five calls that did not return) decide nothing: dropped and counted
    all_cases, all_outs = cases, outs
    keep = [i for i, o in enumerate(outs) if '"exc": "NotRun"' not in json.dumps(o, default=str)]
    if len(keep) != len(outs):
        chk.not_run = getattr(chk, "not_run", 0) + len(outs) - len(keep)
        cases, outs = [all_cases[i] for i in keep], [all_outs[i] for i in keep]
    terms = [to_coq(c, o) for c, o in zip(cases, outs)]
    known = {k["id"]: k for k in core.known_findings(chk.prop)}
    if coq_regions:
        # the Coq side classifies oracle failures itself: list 2 = failures outside every region, then one list per region id
        res_lists = core.run_cases(chk.prop, imports, terms, run_fn=run_fn, chunk=chunk, nlists=2 + len(coq_regions))
        corr, orac = list(res_lists[0]), list(res_lists[1])
        for rid, hits in zip(coq_regions, res_lists[2:]):
            if not hits:
                continue
            if rid in known:
                line = f"{rid}: {known[rid]['what_fails']}"
                if line not in chk.known_hit:
                    chk.known_hit.append(line)
                chk.region_hits = getattr(chk, "region_hits", {})
                chk.region_hits[rid] = chk.region_hits.get(rid, 0) + len(hits)
            else:
                orac = sorted(set(orac) | set(hits))   # a region that is not (or no longer) listed suppresses nothing
    else:
        corr, orac = core.run_cases(chk.prop, imports, terms, run_fn=run_fn, chunk=chunk)
    reported = 0
    per = {}
    import os as _os
    if _os.environ.get("VERIF_DEBUG_DUMP"):
        for i in sorted(set(orac) | set(corr)):
            print("  dump", "ORACLE" if i in orac else "      ", "CORR" if i in corr else "    ", kind(cases[i]), json.dumps(outs[i], default=str)[:int(_os.environ["VERIF_DEBUG_DUMP"])])
    for i in orac:
        rid = region(cases[i], outs[i])
        if rid is not None and rid in known:
            line = f"{rid}: {known[rid]['what_fails']}"
            if line not in chk.known_hit:
                chk.known_hit.append(line)
            continue
        per[kind(cases[i])] = per.get(kind(cases[i]), 0) + 1
        if per[kind(cases[i])] <= per_kind and reported < 12:
            chk.violation("oracle", f"[{component or driver}] " + describe(cases[i], outs[i]),
                          {"component": component or driver, "driver": driver, "case": cases[i], "observed": outs[i],
                           "coq_term": terms[i][:4000], "model_agrees_with_impl": i not in corr}, True)
            reported += 1
    corr_only = [i for i in corr if i not in set(orac)]
    if corr_only and not reported:
        # correspondence broken, no oracle failure yet: search around the mismatching inputs
        found = False
        if more_cases is not None:
            extra = more_cases([cases[i] for i in corr_only[:10]])
            if extra:
                res2 = core.run_impl(driver, {"cases": extra}, hashseed=hashseed, extra_env=extra_env, timeout=timeout)
                if not (isinstance(res2, dict) and res2.get("driver_failed")):
                    terms2 = [to_coq(c, o) for c, o in zip(extra, res2)]
                    orac2 = core.run_cases(chk.prop, imports, terms2, run_fn=run_fn, chunk=chunk, nlists=(2 + len(coq_regions)) if coq_regions else None)[1]
                    chk.coverage_extra = chk.__dict__.get("coverage_extra", 0) + len(extra)
                    for i in orac2:
                        rid = region(extra[i], res2[i])
                        if rid is not None and rid in known:
                            continue
                        chk.violation("oracle", f"[{component or driver}] (found by search after a correspondence mismatch) " + describe(extra[i], res2[i]),
                                      {"component": component or driver, "driver": driver, "case": extra[i], "observed": res2[i], "coq_term": terms2[i][:4000]}, True)
                        found = True
                        break
        if not found:
            i = min(corr_only, key=lambda j: len(json.dumps(cases[j], default=str)))
            chk.violation(
                "correspondence",
                f"model and implementation disagree on component '{component or driver}' ({len(corr_only)} of {len(cases)} cases); the property is no longer shown to hold there. Smallest mismatching case: " + describe(cases[i], outs[i]),
                {"component": component or driver, "driver": driver, "correspondence_no_longer_checks": component or driver,
                 "case": cases[i], "observed": outs[i], "coq_term": terms[i][:4000], "mismatches": len(corr_only)},
                False,
            )
    if len(keep) != len(all_outs):
        corr, orac = [keep[i] for i in corr], [keep[i] for i in orac]      # indices of the caller's lists
    return all_outs, corr, orac


def rng(seed: int, salt: str) -> random.Random:
    return random.Random(f"{seed}:{salt}")
