"""Grammars as data: a `decl` (JSON) <-> Python source of a throw-away module <-> Coq term.
Used by the drivers (materialise real classes) and by the property modules (Coq encoding)."""
from __future__ import annotations

from fractions import Fraction

from harness.core import cz, cn, cq, cbool, clist

BASES = ["int", "float", "str", "bool"]

# ------------------------------------------------------------------ python source
HEADER = '''from __future__ import annotations
from abc import ABC
from dataclasses import dataclass
from typing import Annotated, Union
import numpy as np
from geneticengine.grammar.decorators import abstract, weight
from geneticengine.grammar.metahandlers.ints import IntRange, IntList, IntervalRange
from geneticengine.grammar.metahandlers.floats import FloatRange, FloatList
from geneticengine.grammar.metahandlers.vars import VarRange
from geneticengine.grammar.metahandlers.lists import ListSizeBetween, ListSizeBetweenWithoutListOperations
from geneticengine.grammar.metahandlers.strings import StringSizeBetween, WeightedStringHandler
from geneticengine.grammar.metahandlers.dependent import Dependent

'''


def fl(x):
    f = Fraction(x[0], x[1])
    return repr(f.numerator / f.denominator)


def py_value(v):
    k = v[0]
    if k == "int":
        return str(v[1])
    if k == "str":
        return repr("".join(chr(c) for c in v[1]))
    raise ValueError(v)


def py_mh(m):
    k = m[0]
    if k == "intrange":
        return f"IntRange({m[1]}, {m[2]})"
    if k == "intlist":
        return f"IntList({list(m[1])})"
    if k == "floatrange":
        return f"FloatRange({fl(m[1])}, {fl(m[2])})"
    if k == "floatlist":
        return "FloatList([" + ", ".join(fl(x) for x in m[1]) + "])"
    if k == "varrange":
        return "VarRange([" + ", ".join(py_value(v) for v in m[1]) + "])"
    if k == "listsize":
        return f"{'ListSizeBetween' if m[3] else 'ListSizeBetweenWithoutListOperations'}({m[1]}, {m[2]})"
    if k == "stringsize":
        return f"StringSizeBetween({m[1]}, {m[2]}, {repr(''.join(chr(c) for c in m[3]))})"
    if k == "weightedstring":
        rows = "[" + ", ".join("[" + ", ".join(fl(x) for x in row) + "]" for row in m[1]) + "]"
        return f"WeightedStringHandler(np.array({rows}), {[chr(c) for c in m[2]]})"
    if k == "interval":
        return f"IntervalRange({m[1]}, {m[2]}, {m[3]})"
    if k == "dependent":
        f = m[2]
        body = {"intrange_lo": lambda: f"IntRange(a, {f[1]})", "intrange_hi": lambda: f"IntRange({f[1]}, a)",
                "varrange_of": lambda: "VarRange(list(a))", "listsize_upto": lambda: "ListSizeBetween(0, a)",
                "intrange2": lambda: "IntRange(b - a, b)"}[f[0]]()
        deps = m[1] if isinstance(m[1], list) else [m[1]]
        return f'Dependent("{",".join("f%d" % j for j in deps)}", lambda {"a, b" if f[0] == "intrange2" else "a"}: {body})'
    raise ValueError(m)


def py_ty(t):
    k = t[0]
    if k == "base":
        return t[1]
    if k == "sym":
        return f"C{t[1]}"
    if k == "list":
        return f"list[{py_ty(t[1])}]"
    if k == "tuple":
        return "tuple[" + ", ".join(py_ty(x) for x in t[1]) + "]"
    if k == "union":
        return "Union[" + ", ".join(py_ty(x) for x in t[1]) + "]"
    if k == "ann":
        return f"Annotated[{py_ty(t[1])}, {py_mh(t[2])}]"
    raise ValueError(t)


def source(decl):
    out = [HEADER]
    for i, c in enumerate(decl["classes"]):
        base = f"C{c['parent']}" if c["parent"] is not None else ("ABC" if c["abs"] == "abc" else "")
        if c["parent"] is not None and c["abs"] == "abc":
            base += ", ABC"
        if c.get("weight") is not None:
            out.append(f"@weight({fl(c['weight'])})")
        if c["abs"] == "deco":
            out.append("@abstract")
        if not c["abs"]:
            out.append("@dataclass")
        out.append(f"class C{i}({base}):" if base else f"class C{i}:")
        if c["abs"] or not c["fields"]:
            out.append("    pass")
        else:
            for j, t in enumerate(c["fields"]):
                out.append(f"    f{j}: {py_ty(t)}")
        out.append("")
    return "\n".join(out) + "\n"


# ------------------------------------------------------------------ Coq encoding
def c_value(v):
    k = v[0]
    if k == "int":
        return f"(VInt {cz(v[1])})"
    if k == "float":
        return "(VFloat FAny)" if v[1] is None else f"(VFloat (FQ {cq(Fraction(v[1][0], v[1][1]))}))"
    if k == "str":
        return f"(VStr {clist(map(cz, v[1]))})"
    if k == "bool":
        return f"(VBool {cbool(v[1])})"
    if k == "node":
        return f"(VNode {cn(v[1])} {clist(map(c_value, v[2]))})"
    if k == "list":
        return f"(VList {clist(map(c_value, v[1]))})"
    if k == "tuple":
        return f"(VTuple {clist(map(c_value, v[1]))})"
    return "VForeign"


def c_q(x):
    return cq(Fraction(x[0], x[1]))


def c_mh(m):
    k = m[0]
    if k == "intrange":
        return f"(MIntRange {cz(m[1])} {cz(m[2])})"
    if k == "intlist":
        return f"(MIntList {clist(map(cz, m[1]))})"
    if k == "floatrange":
        return f"(MFloatRange {c_q(m[1])} {c_q(m[2])})"
    if k == "floatlist":
        return f"(MFloatList {clist(map(c_q, m[1]))})"
    if k == "varrange":
        return f"(MVarRange {clist(map(c_value, m[1]))})"
    if k == "listsize":
        return f"(MListSize {cz(m[1])} {cz(m[2])} {cbool(m[3])})"
    if k == "stringsize":
        return f"(MStringSize {cz(m[1])} {cz(m[2])} {clist(map(cz, m[3]))})"
    if k == "weightedstring":
        return f"(MWeightedString {clist(clist(map(c_q, row)) for row in m[1])} {clist(map(cz, m[2]))})"
    if k == "interval":
        return f"(MInterval {cz(m[1])} {cz(m[2])} {cz(m[3])})"
    if k == "dependent":
        f = m[2]
        df = {"intrange_lo": lambda: f"(DIntRangeLo {cz(f[1])})", "intrange_hi": lambda: f"(DIntRangeHi {cz(f[1])})",
              "varrange_of": lambda: "DVarRangeOf", "listsize_upto": lambda: "DListSizeUpTo", "intrange2": lambda: "DIntRange2"}[f[0]]()
        deps = m[1] if isinstance(m[1], list) else [m[1]]
        return f"(MDependent {clist(map(cn, deps))} {df})"
    raise ValueError(m)


def c_base(b):
    return {"int": "BInt", "float": "BFloat", "str": "BStr", "bool": "BBool"}[b]


def c_ty(t):
    k = t[0]
    if k == "base":
        return f"(TBase {c_base(t[1])})"
    if k == "sym":
        return f"(TSym {cn(t[1])})"
    if k == "list":
        return f"(TList {c_ty(t[1])})"
    if k == "tuple":
        return f"(TTuple {clist(map(c_ty, t[1]))})"
    if k == "union":
        return f"(TUnion {clist(map(c_ty, t[1]))})"
    if k == "ann":
        return f"(TAnn {c_ty(t[1])} {c_mh(t[2])})"
    raise ValueError(t)


def c_decl(d):
    classes = clist(
        f"(mkCls {'None' if c['parent'] is None else '(Some ' + cn(c['parent']) + ')'} {cbool(bool(c['abs']))} {clist(map(c_ty, c['fields']))} "
        f"{'None' if c.get('weight') is None else '(Some ' + c_q(c['weight']) + ')'})"
        for c in d["classes"])
    return f"(mkDecl {classes} {clist(map(cn, d['considered']))} {cn(d['start'])} {cbool(d['xdepth'])})"


def c_sym(s):
    """observed symbol: ["c", i] or ["b", "int"]"""
    return f"(SC {cn(s[1])})" if s[0] == "c" else f"(SB {c_base(s[1])})"


# ------------------------------------------------------------------ generators
def gen_mh(r, base, nfields_before, fields_before, allow_dep=True):
    """a refinement for a field whose stripped type is `base` ('int', 'float', 'str', 'list')"""
    if base == "int":
        opts = [lambda: ["intrange", lo := r.randrange(-3, 4), lo + r.choice([0, 0, 1, 2, 5])],
                lambda: ["intlist", [r.randrange(-5, 9) for _ in range(r.randrange(1, 4))]]]
        if allow_dep:
            ints_before = [j for j, t in enumerate(fields_before) if t[0] == "ann" and t[1] == ["base", "int"] and t[2][0] in ("intrange", "intlist")]
            for j in ints_before:
                opts.append(lambda j=j: ["dependent", j, ["intrange_lo", r.randrange(6, 12)]])
                opts.append(lambda j=j: ["dependent", j, ["intrange_hi", r.randrange(-8, -4)]])
            lists_before = [j for j, t in enumerate(fields_before) if t[0] == "ann" and t[2][0] == "listsize" and t[1][0] == "list" and t[1][1][0] == "ann" and t[1][1][1] == ["base", "int"]]
            for j in lists_before:
                opts.append(lambda j=j: ["dependent", j, ["varrange_of"]])
        return r.choice(opts)()
    if base == "float":
        return r.choice([lambda: ["floatrange", [lo := r.randrange(-8, 8), 4], [lo + r.randrange(0, 9), 4]],
                         lambda: ["floatlist", [[r.randrange(-8, 8), 4] for _ in range(r.randrange(1, 4))]]])()
    if base == "str":
        return r.choice([lambda: ["varrange", [["str", [118, 48 + k]] for k in range(r.randrange(1, 4))]],
                         lambda: ["stringsize", lo := r.randrange(0, 3), lo + r.randrange(0, 3), [97 + k for k in range(r.randrange(1, 4))]],
                         lambda: ["weightedstring", [[[r.choice([0, 1, 2]), 2] for _ in range(2)] for _ in range(r.randrange(1, 3))], [65, 67]]])()
    raise ValueError(base)


def gen_ty(r, n_classes, depth, fields_before, opts):
    """a field type; opts: dict(lists, tuples, unions, refined, bools, floats, strs)"""
    kinds = ["sym", "sym", "sym", "int"]
    if opts.get("refined", True):
        kinds += ["rint", "rint", "rstr", "rfloat"]
    if opts.get("floats", True):
        kinds.append("float")
    if opts.get("bools", True):
        kinds.append("bool")
    if opts.get("strs", False):
        kinds.append("str")
    if depth > 0:
        if opts.get("lists", True):
            kinds += ["list", "rlist", "rlist"]
        if opts.get("tuples", True):
            kinds.append("tuple")
        if opts.get("unions", True):
            kinds.append("union")
    k = r.choice(kinds)
    if k == "sym":
        return ["sym", r.randrange(n_classes)]
    if k in ("int", "float", "bool", "str"):
        return ["base", k]
    if k == "rint":
        return ["ann", ["base", "int"], gen_mh(r, "int", len(fields_before), fields_before, opts.get("dependent", True))]
    if k == "rstr":
        return ["ann", ["base", "str"], gen_mh(r, "str", 0, [])]
    if k == "rfloat":
        return ["ann", ["base", "float"], gen_mh(r, "float", 0, [])]
    if k == "list":
        return ["list", gen_ty(r, n_classes, depth - 1, [], dict(opts, dependent=False))]
    if k == "rlist":
        lo = r.choice([0, 0, 1, 1, 2])
        return ["ann", ["list", gen_ty(r, n_classes, depth - 1, [], dict(opts, dependent=False))], ["listsize", lo, lo + r.randrange(0, 3), r.random() < 0.5]]
    if k == "tuple":
        return ["tuple", [gen_ty(r, n_classes, depth - 1, [], dict(opts, dependent=False)) for _ in range(r.randrange(1, 4))]]
    if k == "union":
        # typing.Union drops duplicate members (Union[int, int] is int): keep the members distinct
        members = []
        for _ in range(r.randrange(2, 4) * 4):
            t = gen_ty(r, n_classes, depth - 1, [], dict(opts, dependent=False, unions=False))
            if t not in members:
                members.append(t)
            if len(members) == 3:
                break
        if len(members) < 2:
            members = [["base", "int"], ["base", "bool"]]
        return ["union", members[: r.randrange(2, 4)] if len(members) > 2 else members]
    raise ValueError(k)


def gen_decl(r, opts=None):
    """a class hierarchy: 1-3 abstract layers, concrete productions with 0-3 fields, optional standalone classes,
    unreachable classes, weights"""
    opts = dict(opts or {})
    classes = []
    n_abs = r.randrange(1, 4)
    for i in range(n_abs):
        if i == 0 or r.random() < 0.3:
            classes.append({"parent": None, "abs": "abc", "fields": [], "weight": None})
        else:
            classes.append({"parent": r.randrange(i), "abs": "deco", "fields": [], "weight": None})
    n_conc = r.randrange(1, 7)
    total = n_abs + n_conc
    for i in range(n_conc):
        parent = r.randrange(n_abs) if r.random() < 0.85 else None       # standalone concrete classes are allowed as field types
        fields = []
        for _ in range(r.choice([0, 0, 1, 1, 2, 3])):
            fields.append(gen_ty(r, total, 2, fields, opts))
        classes.append({"parent": parent, "abs": None, "fields": fields, "weight": None})
    if opts.get("weights") or (opts.get("weights") is None and r.random() < 0.3):
        for c in classes:
            if r.random() < 0.5:
                w = r.choice([[0, 1], [1, 2], [1, 1], [2, 1], [3, 1], [1, 4]])
                c["weight"] = w
    considered = [i for i in range(total) if r.random() < 0.85]
    if r.random() < 0.7:
        r.shuffle(considered)
    return {"classes": classes, "considered": considered, "start": 0 if r.random() < 0.9 else r.randrange(total), "xdepth": opts.get("xdepth", r.random() < 0.2)}
