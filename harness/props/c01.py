"""C01 — every program the library produces is well-typed for its grammar."""
from __future__ import annotations

from harness import core, flow, grammars
from harness.props import synth_common as sy

TRUSTED = [
    "Coq 8.16.1 kernel; vm_compute for generated cases; no native_compute",
    "model: coq/Model/Synth.v (deciders, create_node, metahandlers), coq/Model/Grammar.v, coq/Model/Stack.v (the stack machine create_tree_using_stacks, for hierarchies without metahandler-annotated / string fields and with dyadic production weights); specification coq/Spec/WellTyped.v (WT, evaluated through its executable reflection wtb)",
    "correspondence harness: harness/props/c01.py, harness/drivers/synth.py (real classes and deciders; recorded, extreme and gene-backed sources); values canonicalised with exact type tests (bool is not int, a generator is foreign)",
]


def gen(seed, tier):
    r = flow.rng(seed, "c01")
    big = tier == "thorough"
    cases = []
    S = lambda i: ["sym", i]  # noqa: E731
    INT, BOOL, FLOAT, STR = ["base", "int"], ["base", "bool"], ["base", "float"], ["base", "str"]
    # every type form in one hierarchy
    allforms = {"classes": [
        {"parent": None, "abs": "abc", "fields": [], "weight": None},
        {"parent": 0, "abs": None, "fields": [INT, BOOL, FLOAT, STR], "weight": None},
        {"parent": 0, "abs": None, "fields": [["tuple", [BOOL, S(0), INT]], ["union", [INT, S(1)]]], "weight": None},
        {"parent": 0, "abs": None, "fields": [["list", S(0)], ["ann", ["list", BOOL], ["listsize", 0, 2, False]]], "weight": None},
        {"parent": 0, "abs": "deco", "fields": [], "weight": None},
        {"parent": 4, "abs": None, "fields": [["union", [["list", INT], ["tuple", [S(0)]]]]], "weight": None}],
        "considered": [0, 1, 2, 3, 4, 5], "start": 0, "xdepth": False}
    # the witnesses of the known findings of this property run first
    for k in core.known_findings("C01"):
        if isinstance(k.get("witness"), dict) and k["witness"].get("op") == "create":
            cases.append(dict(k["witness"]))
    for src in sy.gen_sources(r, n_record=8, ge=4):
        for dec in (["max", 4], ["pi", 5], ["full", 3], ["prog"], ["max", 1]):
            cases.append({"op": "create", "decl": allforms, "decider": dec, "src": src})
    # the classes are used once, then a constructor annotation is re-declared (the documented pattern) and the grammar extracted again
    base0 = {"classes": [
        {"parent": None, "abs": "abc", "fields": [], "weight": None},
        {"parent": 0, "abs": None, "fields": [INT, S(0)], "weight": None},
        {"parent": 0, "abs": None, "fields": [INT], "weight": None},
        {"parent": None, "abs": "abc", "fields": [], "weight": None},
        {"parent": 3, "abs": None, "fields": [BOOL], "weight": None}], "considered": [0, 1, 2, 3, 4], "start": 0, "xdepth": False}
    import copy
    for new_ty in (FLOAT, ["ann", FLOAT, ["floatrange", [0, 1], [1, 1]]], S(3), ["list", BOOL], ["tuple", [BOOL, INT]]):
        d1 = copy.deepcopy(base0)
        d1["classes"][2]["fields"][0] = new_ty
        for src in sy.gen_sources(r, n_record=3, extremes=("min",), ge=1):
            cases.append({"op": "create", "decl0": base0, "decl": d1, "decider": ["max", 4], "src": src})
    for _ in range(300 if big else 80):
        d = grammars.gen_decl(r, {"weights": r.random() < 0.2, "tuples": True, "strs": True})
        for src in sy.gen_sources(r, n_record=1, extremes=(r.choice(["min", "max", "alt"]),), ge=1):
            dec = r.choice([["max", r.randrange(1, 6)], ["full", r.randrange(1, 6)], ["pi", r.randrange(1, 6)], ["prog"]])
            cases.append({"op": "create", "decl": d, "decider": dec, "src": src})
    return cases


def nontrivial(c, o):
    oo = o.get("ok", {})
    return oo.get("phase") == "create" and "ok" in (oo.get("res") or {}) and sy.count_nodes(oo["res"]["ok"]) >= 3


def run(tier, seed, replay=None):
    chk = core.Check("C01", tier, seed)
    proof = core.proof_step("C01", thorough=(tier == "thorough"))
    rep_replay = bool(replay and "case_full" in replay["replay"])
    cases = [] if rep_replay else [replay["replay"]["case"]] if replay else gen(seed, tier)
    outs, corr, orac = (None, [], []) if rep_replay else flow.differential(
        chk, "synth", cases, sy.to_coq, sy.IMPORTS, run_fn="run_c01", describe=sy.describe,
        component="create_node / deciders", kind=lambda c: c["decider"][0], chunk=40, coq_regions=("F38",))
    # the programs handed out by every representation after create / map / mutate / crossover (incl. the stack representation)
    from harness.props import c06, rep_common as rc
    rcases = [replay["replay"]["case_full"]] if rep_replay else [] if replay else rc.gen_variation_cases(flow.rng(seed, "c01r"), tier) + rc.gen_stack_cases(flow.rng(seed, "c01s"), tier)
    ph = c06.rep_phase(chk, "C01", "run_c01r", ("F03",), rcases, component="programs returned by the representations") if rcases else None
    n_sm, n_def = c06.stack_phase(chk, "C01", ph["ecs"], ph["eos"], rcases) if ph else (0, 0)
    if rep_replay and ph:
        print("replayed", len(ph["ecs"]), "operations: correspondence", "FAILS" if ph["corr"] else "ok", "| contract", "FAILS" if ph["orac"] else "holds")
    if replay and outs:
        print("replayed:", sy.describe(cases[0], outs[0]))
        print("correspondence", "FAILS" if corr else "ok", "| contract", "FAILS" if orac else "holds")
    errs, sizes = {}, {}
    for o in outs or []:
        oo = o.get("ok", {})
        e = (oo.get("res") or {}).get("exc")
        if e:
            errs[e] = errs.get(e, 0) + 1
        elif "ok" in (oo.get("res") or {}):
            n = sy.count_nodes(oo["res"]["ok"])
            b = "1" if n <= 1 else "2-5" if n <= 5 else "6-20" if n <= 20 else ">20"
            sizes[b] = sizes.get(b, 0) + 1
    if outs:
        chk.samples = [{"source": grammars.source(c["decl"])[len(grammars.HEADER):], "decider": c["decider"], "observed": (o.get("ok", {}).get("res"))}
                       for c, o in list(zip(cases, outs))[:: max(1, len(cases) // 4)]][:4]
    forms = {}
    for c in cases:
        for cl in c["decl"]["classes"]:
            for t in cl["fields"]:
                forms[t[0]] = forms.get(t[0], 0) + 1
    cov = {
        "representation_operations": ({"operations": ph["operations"], "errors": ph["errors"], "known_region_hits": ph["hits"],
                                       "correspondence_mismatches": len(ph["corr"]), "oracle_failures": len(ph["orac"]),
                                       "stack_mappings_compared_with_the_model": n_sm, "of_which_with_a_definite_model_answer": n_def} if ph else None),
        "evaluations": len(cases) + (len(ph["ecs"]) if ph else 0),
        "distinct_nontrivial": flow.distinct_nontrivial(cases, outs or [], nontrivial) if outs else 0,
        "traces_validated_against_impl": len(cases),
        "correspondence_mismatches": len(corr), "oracle_failures": len(orac),
        "input_distribution": {"deciders": {k: sum(1 for c in cases if c["decider"][0] == k) for k in ("max", "full", "pi", "prog")},
                               "sources": {k: sum(1 for c in cases if c["src"]["k"] == k) for k in ("record", "extreme", "ge", "sge")},
                               "field_type_forms": forms, "program_sizes_in_nodes": sizes, "error_kinds_observed": errs},
        "exhaustive": False,
    }
    rule = ("case = class hierarchy (all field type forms: base x4, class, list, sized list, tuple, union, refined, dependent) x decider (grow/full/PI-grow/progressive) x random source; "
            "observed: the program returned by TreeBasedRepresentation.create_genotype, field by field with exact type tests, or the exception; non-trivial = a program with >= 3 nodes; distinct by canonical JSON")
    return chk.finish(proof, TRUSTED, cov, rule)
