"""C02 — refinements (metahandlers) hold on every value the library produces; validate accepts what generate makes."""
from __future__ import annotations

import itertools
import json

from harness import core, flow, grammars
from harness.core import copt, cbool, cerr
from harness.props import synth_common as sy

TRUSTED = [
    "Coq 8.16.1 kernel; vm_compute for generated cases; no native_compute",
    "model: coq/Model/Synth.v (mh_generate_flat, mh_validate, create_node); specification coq/Spec/Sat.v (documented predicate of every refinement, dependent ones against the actual sibling values), evaluated on observed programs through coq/Check/SynthCheck.v satb (strict: an empty range is satisfied by nothing)",
    "float refinements are exact rationals in the model; observed floats are compared with relative tolerance 1e-9 (IEEE rounding at the end-points: partial)",
    "Dependent(...) is modelled for a defunctionalised family of callables (IntRange(a, k), IntRange(k, a), IntRange(b - a, b), VarRange(list(a)), ListSizeBetween(0, a)); other user callables are outside the model",
    "correspondence harness: harness/props/c02.py, harness/drivers/synth.py",
]

INT, STR, FLOAT = ["base", "int"], ["base", "str"], ["base", "float"]


def mh_family():
    """(base, refinement) pairs with boundary parameters: lo == hi, negative, one-letter alphabets, empty-allowed"""
    out = []
    for lo, hi in [(0, 0), (-3, -3), (-2, 1), (5, 9), (0, 1)]:
        out.append((INT, ["intrange", lo, hi]))
    for xs in ([4], [-1, 7], [3, 3, 5]):
        out.append((INT, ["intlist", xs]))
    for lo, hi in [([0, 1], [0, 1]), ([-7, 4], [-1, 2]), ([1, 4], [9, 4])]:
        out.append((FLOAT, ["floatrange", lo, hi]))
    out.append((FLOAT, ["floatlist", [[1, 4], [-3, 2]]]))
    out.append((STR, ["varrange", [["str", [120]]]]))
    out.append((STR, ["varrange", [["str", [120]], ["str", [121, 49]], ["str", []]]]))
    out.append((INT, ["varrange", [["int", 5], ["int", -2]]]))
    for lo, hi, alpha in [(0, 0, [97]), (0, 2, [97]), (2, 2, [97, 98]), (1, 3, [120, 121, 122])]:
        out.append((STR, ["stringsize", lo, hi, alpha]))
    out.append((STR, ["weightedstring", [[[1, 2], [1, 2]], [[0, 1], [1, 1]], [[1, 1], [0, 1]]], [65, 67]]))
    for a, b, c in [(1, 2, 3), (2, 5, 9), (0, 1, 2)]:
        out.append((["tuple", [INT, INT]], ["interval", a, b, c]))
    return out


def gen_mh_cases(r, tier):
    cases = []
    for base, mh in mh_family():
        srcs = [{"k": "extreme", "policy": p} for p in ("min", "max", "alt", "mid")] + [{"k": "record", "seed": r.randrange(10**6)} for _ in range(3 if tier == "quick" else 12)]
        srcs += [{"k": r.choice(["ge", "sge", "stack"]), "dna": [r.choice([0, 1, 2, 3, 5, 2**31, 2**63 - 1, r.randrange(2**63)]) for _ in range(r.randrange(2, 12))]} for _ in range(2)]
        for s in srcs:
            cases.append({"op": "mh", "base": base, "mh": mh, "src": s})
    # Dependent.validate
    cases.append({"op": "mh", "base": INT, "mh": ["dependent", [0], ["intrange_lo", 9]], "src": {"k": "extreme", "policy": "min"}, "expect_generate_fails": True})
    return cases


def mh_to_coq(c, o):
    o = o.get("ok", {"res": {"exc": o.get("exc", "OtherError")}})
    s = c["src"]
    src = f"(Native {sy.c_draws((o.get('src') or {}).get('tape', []))})" if s["k"] in ("record", "extreme") else sy.c18_src(s)
    val = o.get("validate")
    cval = "None" if val is None else ("(Some (PErr %s))" % cerr(val["exc"]) if "exc" in val else ("(Some (POk %s))" % cbool(bool(val["ok"])) if val["ok"] is not None else "(Some (PErr OtherError))"))
    return f"KMh {grammars.c_mh(c['mh'])} {src} {sy.c_res(o['res'])} {sy.c_srcobs(o)} {cval}"


def positions_decl(base, mh, pos):
    """the refined field at a chosen position of a small grammar"""
    t = ["ann", base, mh]
    A = {"parent": None, "abs": "abc", "fields": [], "weight": None}
    leaf = {"parent": 0, "abs": None, "fields": [["base", "bool"]], "weight": None}
    if pos == "top":
        f = [t]
    elif pos == "list":
        f = [["list", t]]
    elif pos == "sizedlist":
        f = [["ann", ["list", t], ["listsize", 1, 2, True]]]
    elif pos == "union":
        f = [["union", [t, ["sym", 0]]]]
    elif pos == "tuple":
        f = [["tuple", [["base", "bool"], t]]]
    else:
        raise ValueError(pos)
    return {"classes": [A, leaf, {"parent": 0, "abs": None, "fields": f + [["sym", 0]], "weight": None}], "considered": [0, 1, 2], "start": 0, "xdepth": False}


def dependent_decls():
    S0 = ["sym", 0]
    A = {"parent": None, "abs": "abc", "fields": [], "weight": None}
    leaf = {"parent": 0, "abs": None, "fields": [], "weight": None}
    P = lambda *f: {"parent": 0, "abs": None, "fields": list(f), "weight": None}  # noqa: E731
    ir = lambda lo, hi: ["ann", INT, ["intrange", lo, hi]]  # noqa: E731
    dep = lambda names, fn: ["ann", INT, ["dependent", names, fn]]  # noqa: E731
    out = []
    out.append([A, leaf, P(ir(0, 4), dep([0], ["intrange_lo", 6]))])
    out.append([A, leaf, P(ir(2, 5), dep([0], ["intrange_hi", -3]))])
    out.append([A, leaf, P(ir(1, 3), ir(7, 9), dep([0, 1], ["intrange2"]), S0)])
    out.append([A, leaf, P(ir(1, 3), ir(7, 9), dep([1, 0], ["intrange2"]))])            # named in the other order
    out.append([A, leaf, P(["ann", ["list", ir(0, 3)], ["listsize", 1, 2, True]], dep([0], ["varrange_of"]))])
    out.append([A, leaf, P(ir(0, 2), ["ann", ["list", ["base", "bool"]], ["dependent", [0], ["listsize_upto"]]])])
    # a nested production with a field of the same number: the dependent field must see ITS node's sibling
    out.append([A, leaf, P(ir(0, 1), S0, dep([0], ["intrange_lo", 50])), P(ir(40, 45), dep([0], ["intrange_lo", 50]))])
    # ... and the same with the nested production reached directly (concrete class / union member / sized list), not through an abstract type
    inner = {"parent": None, "abs": None, "fields": [ir(40, 45)], "weight": None}
    out.append([A, leaf, P(ir(0, 1), ["sym", 3], dep([0], ["intrange_hi", -3])), inner])
    out.append([A, leaf, P(ir(0, 1), ["union", [["sym", 3], ["base", "bool"]]], dep([0], ["intrange_hi", -3])), inner])
    out.append([A, leaf, P(ir(0, 1), ["ann", ["list", ["sym", 3]], ["listsize", 1, 2, True]], dep([0], ["intrange_hi", -3])), inner])
    return [{"classes": cl, "considered": list(range(len(cl))), "start": 0, "xdepth": False} for cl in out]


def gen(seed, tier):
    r = flow.rng(seed, "c02")
    big = tier == "thorough"
    cases = []
    fam = mh_family()
    for (base, mh), pos in itertools.product(fam, ["top", "list", "sizedlist", "union", "tuple"]):
        if mh[0] == "interval" and pos != "top":
            continue
        if not big and r.random() < 0.55:
            continue
        d = positions_decl(base, mh, pos)
        for src in sy.gen_sources(r, n_record=1, extremes=(r.choice(["min", "max", "alt"]),), ge=1):
            cases.append({"op": "create", "decl": d, "decider": r.choice([["max", 3], ["pi", 3], ["full", 2], ["prog"]]), "src": src})
    for d in dependent_decls():
        for src in sy.gen_sources(r, n_record=3 if not big else 10, ge=2):
            cases.append({"op": "create", "decl": d, "decider": r.choice([["max", 3], ["pi", 4], ["full", 3]]), "src": src})
    for _ in range(150 if big else 30):
        d = grammars.gen_decl(r, {"weights": False, "tuples": True})
        for src in sy.gen_sources(r, n_record=1, extremes=(), ge=1):
            cases.append({"op": "create", "decl": d, "decider": r.choice([["max", r.randrange(1, 6)], ["pi", r.randrange(1, 6)]]), "src": src})
    return cases


def has_refined(v):
    return True


def nontrivial(c, o):
    oo = o.get("ok", {})
    return oo.get("phase") == "create" and "ok" in (oo.get("res") or {}) and sy.count_nodes(oo["res"]["ok"]) >= 1 and "ann" in json.dumps(c["decl"])


def run(tier, seed, replay=None):
    chk = core.Check("C02", tier, seed)
    proof = core.proof_step("C02", thorough=(tier == "thorough"))
    r = flow.rng(seed, "c02mh")
    from harness.props import c06
    ph, rep_replay = c06.variation_phase(chk, "C02", "run_c02r", ("F03",), replay, seed, tier, "refinements on programs returned by the representations")
    if rep_replay:
        cases, mcases = [], []
    elif replay:
        rc = replay["replay"]["case"]
        cases, mcases = ([rc], []) if rc["op"] == "create" else ([], [rc])
    else:
        cases, mcases = gen(seed, tier), gen_mh_cases(r, tier)
    outs, corr, orac = (None, [], [])
    if cases:
        outs, corr, orac = flow.differential(chk, "synth", cases, sy.to_coq, sy.IMPORTS, run_fn="run_c02", describe=sy.describe,
                                              component="refined fields of created programs", kind=lambda c: c["decider"][0], chunk=40)
    known = {k["id"] for k in core.known_findings("C02")}
    mouts, mcorr, morac = (None, [], [])
    if mcases:
        def region(c, o):
            return "F05" if c["mh"][0] == "dependent" else None
        mouts, mcorr, morac = flow.differential(chk, "synth", mcases, mh_to_coq, sy.IMPORTS, run_fn="run_mh",
                                                 describe=lambda c, o: f"refinement {grammars.py_mh(c['mh'])} on {grammars.py_ty(c['base'])} with source {json.dumps(c['src'])[:150]} -> {json.dumps(o.get('ok', o))[:400]}",
                                                 component="generate / validate of each refinement", kind=lambda c: c["mh"][0], region=region)
    if replay:
        for cs, os_ in ((cases, outs), (mcases, mouts)):
            if cs and os_:
                print("replayed:", json.dumps(os_[0])[:600])
        print("correspondence", "FAILS" if corr or mcorr else "ok", "| contract", "FAILS" if orac or morac else "holds")
    if outs:
        chk.samples = [{"source": grammars.source(c["decl"])[len(grammars.HEADER):], "decider": c["decider"], "observed": (o.get("ok", {}).get("res"))}
                       for c, o in list(zip(cases, outs))[:: max(1, len(cases) // 4)]][:4]
    kinds = {}
    for c in mcases:
        kinds[c["mh"][0]] = kinds.get(c["mh"][0], 0) + 1
    cov = {
        "representation_operations": c06.variation_cov(ph),
        "evaluations": len(cases) + len(mcases) + (len(ph["ecs"]) if ph else 0),
        "distinct_nontrivial": (flow.distinct_nontrivial(cases, outs or [], nontrivial) if outs else 0) + len({json.dumps(c, sort_keys=True) for c in mcases}),
        "traces_validated_against_impl": len(cases) + len(mcases),
        "correspondence_mismatches": len(corr) + len(mcorr), "oracle_failures": len(orac) + len(morac),
        "input_distribution": {"programs_with_refined_fields": len(cases), "refinement_generate_validate_cases": kinds,
                               "sources": {k: sum(1 for c in cases + mcases if c["src"]["k"] == k) for k in ("record", "extreme", "ge", "sge", "stack")},
                               "dependent_hierarchies": len(dependent_decls())},
        "exhaustive": False,
    }
    rule = ("two components: (a) every refinement with boundary parameters (lo == hi, negative bounds, one-letter alphabets, empty-allowed) at five positions (top level, in a list, in a sized list, in a union, in a tuple) "
            "plus hierarchies with dependent refinements (one and two dependencies, named in either order, nested productions with equally numbered fields) x decider x source: the created program is checked field by field against the documented predicates; "
            "(b) each refinement alone: generate from scripted / recorded / gene-backed sources, then its own validate(); non-trivial = a program with a refined field was created / a value was generated")
    return chk.finish(proof, TRUSTED, cov, rule)
