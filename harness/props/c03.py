"""C03 — depth limits are respected and every feasible depth limit is usable."""
from __future__ import annotations

from harness import core, flow, grammars
from harness.props import synth_common as sy

TRUSTED = [
    "Coq 8.16.1 kernel; vm_compute for generated cases; no native_compute",
    "model: coq/Model/Synth.v (deciders, create_node, metahandlers), coq/Model/Grammar.v; specification coq/Spec/WellTyped.v (WT, evaluated through its executable reflection wtb)",
    "correspondence harness: harness/props/c01.py, harness/drivers/synth.py (real classes and deciders; recorded, extreme and gene-backed sources); values canonicalised with exact type tests (bool is not int, a generator is foreign)",
]


def gen(seed, tier):
    r = flow.rng(seed, "c03")
    big = tier == "thorough"
    cases = []
    S = lambda i: ["sym", i]  # noqa: E731
    INT = ["base", "int"]
    A = lambda parent=None, deco=False: {"parent": parent, "abs": "deco" if deco else "abc", "fields": [], "weight": None}  # noqa: E731
    P = lambda parent, *fields: {"parent": parent, "abs": None, "fields": list(fields), "weight": None}  # noqa: E731
    H = lambda classes, xdepth=False: {"classes": classes, "considered": list(range(len(classes))), "start": 0, "xdepth": xdepth}  # noqa: E731
    family = [
        H([A(), P(0, INT), P(0, ["list", S(0)])]),                                           # list of the abstract type at the frontier
        H([A(), P(0, ["list", S(0)]), P(0, S(2 + 1)), A(), P(3, INT)]),                       # list + nested abstract layer
        H([A(), A(0, True), A(1, True), P(2, INT), P(1, S(0), S(0)), P(0, ["union", [S(3), S(4)]])]),
        H([A(), P(0, S(2)), A(), P(2, S(0)), P(2, INT)]),                                     # mutual recursion
        H([A(), P(0, ["tuple", [S(0), INT]]), P(0), P(0, ["ann", ["list", S(0)], ["listsize", 1, 2, True]])]),
        H([A(), P(0, ["union", [INT, S(0)]]), P(0, ["list", ["union", [S(0), INT]]])]),
        H([A(), P(0, INT), P(0, ["list", S(0)])], xdepth=True),
        H([A(), A(0, True), P(1, INT), P(0, S(1), ["list", S(0)])], xdepth=True),
    ]
    for d in family:
        for D in range(0, 7):
            for kind in ("max", "full", "pi"):
                for src in sy.gen_sources(r, n_record=1, extremes=("min", "max") if D <= 4 else (), ge=1):
                    c = {"op": "create", "decl": d, "decider": [kind, D], "src": src}
                    if len(cases) % 3 == 0:
                        # a second grammar over the same classes (other depth mode, fewer productions) is extracted in between
                        c["interleave"] = {"xdepth": not d["xdepth"], "considered": [i for i in d["considered"] if i % 2 == 0 or i == d["start"]]}
                    cases.append(c)
    for _ in range(200 if big else 45):
        d = grammars.gen_decl(r, {"weights": False, "tuples": True})
        for D in r.sample(range(1, 8), 3):
            kind = r.choice(["max", "full", "pi"])
            for src in sy.gen_sources(r, n_record=1, extremes=(r.choice(["min", "max", "alt"]),), ge=0):
                cases.append({"op": "create", "decl": d, "decider": [kind, D], "src": src})
    return cases


def nontrivial(c, o):
    oo = o.get("ok", {})
    return oo.get("phase") == "create" and "ok" in (oo.get("res") or {}) and sy.count_nodes(oo["res"]["ok"]) >= 3


def run(tier, seed, replay=None):
    chk = core.Check("C03", tier, seed)
    proof = core.proof_step("C03", thorough=(tier == "thorough"))
    from harness.props import c06
    ph, rep_replay = c06.variation_phase(chk, "C03", "run_c03r", (), replay, seed, tier, "depth of programs returned by the representations")
    cases = [] if rep_replay else [replay["replay"]["case"]] if replay else gen(seed, tier)
    outs, corr, orac = (None, [], []) if rep_replay else flow.differential(
        chk, "synth", cases, sy.to_coq, sy.IMPORTS, run_fn="run_c03", describe=sy.describe,
        component="create_node / deciders", kind=lambda c: c["decider"][0], chunk=40)
    if replay and outs:
        print("replayed:", sy.describe(cases[0], outs[0]))
        print("correspondence", "FAILS" if corr else "ok", "| contract", "FAILS" if orac else "holds")
    errs, sizes = {}, {}
    for o in outs or []:
        oo = o.get("ok", {})
        e = (oo.get("res") or {}).get("exc")
        if e:
            errs[e] = errs.get(e, 0) + 1
        elif "ok" in (oo.get("res") or {}):
            n = sy.count_nodes(oo["res"]["ok"])
            b = "1" if n <= 1 else "2-5" if n <= 5 else "6-20" if n <= 20 else ">20"
            sizes[b] = sizes.get(b, 0) + 1
    if outs:
        chk.samples = [{"source": grammars.source(c["decl"])[len(grammars.HEADER):], "decider": c["decider"], "observed": (o.get("ok", {}).get("res"))}
                       for c, o in list(zip(cases, outs))[:: max(1, len(cases) // 4)]][:4]
    forms = {}
    for c in cases:
        for cl in c["decl"]["classes"]:
            for t in cl["fields"]:
                forms[t[0]] = forms.get(t[0], 0) + 1
    cov = {
        "representation_operations": c06.variation_cov(ph),
        "evaluations": len(cases) + (len(ph["ecs"]) if ph else 0),
        "distinct_nontrivial": flow.distinct_nontrivial(cases, outs or [], nontrivial) if outs else 0,
        "traces_validated_against_impl": len(cases),
        "correspondence_mismatches": len(corr), "oracle_failures": len(orac),
        "input_distribution": {"deciders": {k: sum(1 for c in cases if c["decider"][0] == k) for k in ("max", "full", "pi", "prog")},
                               "sources": {k: sum(1 for c in cases if c["src"]["k"] == k) for k in ("record", "extreme", "ge", "sge")},
                               "field_type_forms": forms, "program_sizes_in_nodes": sizes, "error_kinds_observed": errs},
        "exhaustive": False,
    }
    rule = ("case = class hierarchy (all field type forms: base x4, class, list, sized list, tuple, union, refined, dependent) x decider (grow/full/PI-grow/progressive) x random source; "
            "observed: the program returned by TreeBasedRepresentation.create_genotype, field by field with exact type tests, or the exception; non-trivial = a program with >= 3 nodes; distinct by canonical JSON")
    return chk.finish(proof, TRUSTED, cov, rule)
