"""C04 — depth-bounded creation reaches exactly the grammar's bounded language."""
from __future__ import annotations

import json

from harness import core, flow, grammars
from harness.props import synth_common as sy

TRUSTED = [
    "Coq 8.16.1 kernel; vm_compute for generated cases; no native_compute",
    "model: coq/Model/Synth.v (create_node, deciders), coq/Model/Grammar.v; specification: coq/Spec/Sat.v (Sat), coq/Spec/WellTyped.v (vdepth), and the "
    "independent enumeration coq/Spec/Lang.v (lang: built from the declarations only, never calls create_node)",
    "theorems (Props/C04.v): every program grow / full / PI-grow creation returns on any decision sequence satisfies every refinement and has depth <= d "
    "(soundness, for all grammars and all sources); completeness is decided by exhaustive enumeration per grammar of the bounded family, not by a theorem",
    "correspondence harness: harness/props/c04.py, harness/drivers/synth.py (case_enum: replay-and-branch over every answer of every randint request of "
    "TreeBasedRepresentation.create_genotype); the model is re-run in Coq on the decision sequence of every distinct program",
]

S = lambda i: ["sym", i]  # noqa: E731
INT = ["base", "int"]
BOOL = ["base", "bool"]
IR = lambda lo, hi: ["ann", INT, ["intrange", lo, hi]]  # noqa: E731
A = lambda parent=None, deco=False: {"parent": parent, "abs": "deco" if deco else "abc", "fields": [], "weight": None}  # noqa: E731
P = lambda parent, *fields: {"parent": parent, "abs": None, "fields": list(fields), "weight": None}  # noqa: E731
H = lambda classes: {"classes": classes, "considered": list(range(len(classes))), "start": 0, "xdepth": False}  # noqa: E731
SL = lambda t, lo, hi: ["ann", ["list", t], ["listsize", lo, hi, True]]  # noqa: E731

FAMILY = [
    H([A(), P(0, IR(0, 1)), P(0, S(0), S(0))]),
    H([A(), P(0, BOOL), P(0, S(0)), P(0, S(0), S(0))]),
    H([A(), P(0, IR(0, 1)), P(0, SL(S(0), 1, 2))]),
    H([A(), P(0, IR(0, 1)), P(0, SL(S(0), 0, 2))]),                                   # may be empty: F10
    H([A(), P(0, ["ann", INT, ["intlist", [3, 5, 3]]]), P(0, S(3), BOOL), A(), P(3, S(0)), P(3, IR(1, 2))]),     # two abstract types, mutual recursion
    H([A(), A(0, True), P(1, BOOL), P(1, S(0)), P(0, ["union", [S(2), IR(0, 1)]])]),            # nested abstract layer + union
    H([A(), P(0, IR(0, 2), ["ann", INT, ["dependent", [0], ["intrange_lo", 2]]]), P(0, S(0))]),  # dependent range
    H([A(), P(0, ["tuple", [S(0), BOOL]]), P(0), P(0, ["ann", ["base", "str"], ["varrange", [["str", [120]], ["str", [121]]]]])]),
    H([A(), P(0, S(2)), P(0, BOOL), A(), P(3, S(0), S(0)), P(3, IR(0, 1))]),                    # directly nested concrete production
    H([A(), P(0), P(0, S(0), S(3)), A(), P(3, IR(0, 1)), P(3, S(3))]),                          # two recursive abstract types
    # a dependent range next to a field declared with a CONCRETE production whose own first field has the same number
    H([A(), P(0, IR(1, 2), S(3), ["ann", INT, ["dependent", [0], ["intrange_lo", 2]]]), P(0, BOOL), P(None, IR(1, 2))]),
]


def gen_ty(r, n_abs, prods, earlier):
    k = r.choice(["int", "int", "bool", "abs", "abs", "abs", "prod", "list", "union", "tuple", "intlist", "names", "dep"])
    if k == "int":
        lo = r.randrange(-1, 3)
        return IR(lo, lo + r.randrange(0, 3))
    if k == "bool":
        return BOOL
    if k == "abs":
        return S(r.randrange(n_abs))
    if k == "prod" and prods:
        return S(r.choice(prods))
    if k == "list":
        lo = r.choice([1, 1, 1, 0])
        return SL(r.choice([S(r.randrange(n_abs)), IR(0, 1), BOOL]), lo, lo + r.randrange(0, 2))
    if k == "union":
        return ["union", [S(r.randrange(n_abs)), r.choice([IR(5, 6), BOOL])]]
    if k == "tuple":
        return ["tuple", [S(r.randrange(n_abs)), r.choice([BOOL, IR(0, 1)])]]
    if k == "intlist":
        return ["ann", INT, ["intlist", r.choice([[1, 4], [7], [2, 2, 9]])]]
    if k == "names":
        return ["ann", ["base", "str"], ["varrange", [["str", [120]], ["str", [121, 122]]][: r.randrange(1, 3)]]]
    ints = [j for j, t in enumerate(earlier) if t[0] == "ann" and t[1] == INT and t[2][0] == "intrange"]
    if k == "dep" and ints:
        j = r.choice(ints)
        return ["ann", INT, ["dependent", [j], ["intrange_lo", earlier[j][2][2] + r.randrange(0, 2)]]]
    return BOOL


def gen_decl(r):
    """finite-choice hierarchy: 1-3 abstract types (possibly layered), 1-3 productions each with 0-3 fields,
    the first production of every abstract type is terminal (finite base fields only)"""
    n_abs = r.randrange(1, 4)
    classes = [A()] + [A(r.randrange(i) if r.random() < 0.4 else None, True) for i in range(1, n_abs)]
    plan = []
    for a in range(n_abs):
        for j in range(r.randrange(1, 4)):
            plan.append((a, j == 0))
    prods = []
    for a, terminal in plan:
        fields = []
        for _ in range(r.choice([0, 1, 1, 2, 2, 3])):
            t = gen_ty(r, n_abs, prods, fields)
            if terminal and json.dumps(t).find('"sym"') >= 0:
                t = IR(0, 1)
            fields.append(t)
        prods.append(len(classes))
        classes.append(P(a, *fields))
    return H(classes)


def lang_count(d, D):
    """rough size of the bounded language (generation-time pruning only; the oracle is Spec/Lang.v)"""
    cl = d["classes"]
    kids = {i: [j for j, c in enumerate(cl) if c["parent"] == i] for i in range(len(cl))}
    memo = {}

    def ty(t, k):
        if t[0] == "base":
            return 2 if t[1] == "bool" else 0
        if t[0] == "sym":
            return sym(t[1], k)
        if t[0] == "union":
            return sum(ty(x, k) for x in t[1])
        if t[0] == "tuple":
            n = 1
            for x in t[1]:
                n *= ty(x, k)
            return n
        if t[0] == "ann":
            m = t[2]
            if m[0] == "intrange":
                return max(0, m[2] - m[1] + 1)
            if m[0] in ("intlist", "varrange"):
                return len(m[1])
            if m[0] == "listsize":
                a = ty(t[1][1], k)
                return sum(a ** n for n in range(max(m[1], 0), m[2] + 1))
            if m[0] == "dependent":
                return 3
        return 0

    def sym(i, k):
        if (i, k) in memo:
            return memo[(i, k)]
        memo[(i, k)] = 0
        if cl[i]["abs"]:
            n = sum(sym(j, k) for j in kids[i])
        elif k == 0:
            n = 0
        else:
            n = 1
            for t in cl[i]["fields"]:
                n *= ty(t, k - 1)
        memo[(i, k)] = min(n, 10**9)
        return memo[(i, k)]
    return sym(d["start"], D)


def gen(seed, tier):
    r = flow.rng(seed, "c04")
    big = tier == "thorough"
    cap = 2500 if big else 600
    cases = []
    decls = list(FAMILY)
    for _ in range(120 if big else 30):
        decls.append(gen_decl(r))
    for d in decls:
        for D in range(1, 7 if big else 5):
            if lang_count(d, D) > cap:
                break
            for kind in ("max", "full", "pi"):
                c = {"op": "enum", "decl": d, "decider": [kind, D], "limit": 40 * cap, "width": 12}
                if len(cases) % 4 == 1:
                    # another grammar over the same classes (fewer productions) is extracted between the extraction and its use
                    c["interleave"] = [i for i in d["considered"] if i == d["start"] or i % 2 == 1]
                cases.append(c)
    return cases


def to_coq(c, o):
    oo = o.get("ok", o)
    progs = oo.get("programs", [])
    tapes = oo.get("tapes", [])
    return (f"KLang {grammars.c_decl(c['decl'])} {sy.c_dkind(c['decider'])} {core.clist(grammars.c_value(v) for v in progs)} "
            f"{core.clist(core.clist(core.cz(x) for x in t) for t in tapes)}")


def describe(c, o):
    oo = o.get("ok", o)
    return ("classes:\n" + grammars.source(c["decl"])[len(grammars.HEADER):] + f"decider={c['decider']}: {len(oo.get('programs', []))} distinct programs over "
            f"{oo.get('leaves')} complete decision sequences ({oo.get('runs')} runs), errors={oo.get('errors')}; the bounded language enumerated by Spec/Lang.v differs "
            f"(rerun with --replay for both sets); first programs: {json.dumps(oo.get('programs', [])[:6])[:600]}")


def run(tier, seed, replay=None):
    chk = core.Check("C04", tier, seed)
    proof = core.proof_step("C04", thorough=(tier == "thorough"))
    cases = [replay["replay"]["case"]] if replay else gen(seed, tier)
    res = core.run_impl("synth", {"cases": cases}, timeout=3000)
    if isinstance(res, dict) and res.get("driver_failed"):
        chk.violation("correspondence", "the implementation could not be driven for component 'create_genotype, all decision sequences': " + res["stderr"][-600:],
                      {"component": "enumeration", "stderr": res["stderr"]}, False)
        return chk.finish(proof, TRUSTED, {"evaluations": 0, "exhaustive": False}, "")
    # cases whose decision tree was cut (limit / a request wider than the family allows) decide nothing and are dropped, counted
    kept = [(c, o) for c, o in zip(cases, res) if o.get("ok", {}).get("phase") == "create" and not o["ok"].get("truncated")]
    rejected = [(c, o) for c, o in zip(cases, res) if o.get("ok", {}).get("phase") == "validate"]
    dropped = len(cases) - len(kept) - len(rejected)
    kc, ko = [c for c, _ in kept], [o for _, o in kept]
    outs, corr, orac = flow.differential(chk, "synth", kc, to_coq, "From GE Require Import Base Tape Grammar WellTyped Synth C18Check GrammarCheck SynthCheck Lang LangCheck.",
                                          run_fn="run_c04", describe=describe, component="create_genotype over all decision sequences",
                                          kind=lambda c: c["decider"][0], chunk=12, coq_regions=("F10", "F34"), precomputed=ko)
    if replay and outs:
        print("replayed:", describe(kc[0], outs[0]) if kc else "case was cut or rejected")
        print("correspondence", "FAILS" if corr else "ok", "| contract", "FAILS" if orac else "holds")
    n_prog = sum(len(o["ok"]["programs"]) for o in ko)
    n_leaves = sum(o["ok"]["leaves"] for o in ko)
    sizes = {}
    for o in ko:
        n = len(o["ok"]["programs"])
        b = "1-3" if n <= 3 else "4-20" if n <= 20 else "21-200" if n <= 200 else ">200"
        sizes[b] = sizes.get(b, 0) + 1
    errs = {}
    for o in ko:
        for k, v in o["ok"]["errors"].items():
            errs[k] = errs.get(k, 0) + v
    forms = {}
    for c in kc:
        for cl in c["decl"]["classes"]:
            for t in cl["fields"]:
                key = t[0] if t[0] != "ann" else t[2][0]
                forms[key] = forms.get(key, 0) + 1
    if ko:
        chk.samples = [{"source": grammars.source(c["decl"])[len(grammars.HEADER):], "decider": c["decider"], "distinct_programs": len(o["ok"]["programs"]),
                        "decision_sequences": o["ok"]["leaves"], "first": o["ok"]["programs"][:3]} for c, o in list(zip(kc, ko))[:: max(1, len(kc) // 4)]][:4]
    cov = {
        "evaluations": len(kc),
        "distinct_nontrivial": len({json.dumps(c, sort_keys=True) for c, o in kept if len(o["ok"]["programs"]) >= 4}),
        "traces_validated_against_impl": n_prog,
        "correspondence_mismatches": len(corr), "oracle_failures": len(orac),
        "input_distribution": {"grammar_x_depth_x_decider_cases": len(cases), "enumerated_completely": len(kc), "rejected_at_construction": len(rejected),
                               "cut_and_dropped": dropped, "complete_decision_sequences": n_leaves, "distinct_programs": n_prog,
                               "deciders": {k: sum(1 for c in kc if c["decider"][0] == k) for k in ("max", "full", "pi")},
                               "depths": {str(D): sum(1 for c in kc if c["decider"][1] == D) for D in range(1, 8)},
                               "language_sizes": sizes, "field_type_forms": forms, "errors_on_decision_sequences": errs,
                               "known_region_hits": getattr(chk, "region_hits", {})},
        "exhaustive": True,
    }
    rule = ("case = finite-choice class hierarchy (fixed family + generated: 1-3 abstract types, productions with 0-3 fields of bool / small int ranges / int lists / names / "
            "sized lists / unions / tuples / dependent ranges / abstract and concrete classes) x depth 1.. while the language stays below the cap x decider (grow, full, PI-grow); "
            "observed: the set of distinct programs returned by TreeBasedRepresentation.create_genotype over EVERY sequence of randint answers (exhaustive per case, "
            "cases whose decision tree exceeds the run limit are dropped and counted); non-trivial = at least 4 distinct programs; exhaustive refers to the decision "
            "sequences of each case, the grammars themselves are a generated family")
    return chk.finish(proof, TRUSTED, cov, rule)
